(* Shard ownership among proxy instances sharing a memberlist cluster (proxy/shard_manager.go): RegisterShard,
   UnregisterShard, shardDelegate.NotifyMsg, shardDelegate.MergeRemoteState, shardEventDelegate.NotifyLeave.
   One shard is followed: every handler touches only the entry of the shard named in its argument.
   Registration stamps come from one monotone clock (time.Now() in the code; the harness runs all instances in one
   process).  An announcement carries the registration stamp itself (fix F6). *)
From Coq Require Import List ZArith Bool Lia.
Import ListNotations.
Open Scope Z_scope.

Record world := {
  local : nat -> option Z;                 (* localShards[s].Created of instance x *)
  remote : nat -> nat -> option (option Z);(* remoteNodeStates of y: entry for x (does it list the shard, with which stamp) *)
  clock : Z;
  sent : list (nat * Z)                    (* register announcements made so far: claimant, stamp *)
}.

Definition world0 : world := {| local := fun _ => None; remote := fun _ _ => None; clock := 1; sent := [] |}.

Inductive ev :=
| Reg (x : nat)                       (* RegisterShard at x *)
| Unreg (x : nat) (t : Z)             (* UnregisterShard(s, t) at x: its stream with registration stamp t ended *)
| DelReg (y x : nat) (t : Z)          (* the register announcement (x, t) is handed to y's NotifyMsg *)
| DelUnreg (y x : nat)                (* an unregister announcement is handed to y's NotifyMsg *)
| Merge (y x : nat) (st : option Z)   (* y's MergeRemoteState with x's state as of some earlier moment *)
| Leave (y x : nat).                  (* y's NotifyLeave for x *)

Definition set1 {A} (f : nat -> A) (k : nat) (v : A) : nat -> A := fun i => if Nat.eqb i k then v else f i.
Definition set2 {A} (f : nat -> nat -> A) (a b : nat) (v : A) : nat -> nat -> A :=
  fun i j => if Nat.eqb i a && Nat.eqb j b then v else f i j.

Definition step (w : world) (e : ev) : world :=
  match e with
  | Reg x => {| local := set1 (local w) x (Some (clock w)); remote := remote w; clock := clock w + 1; sent := (x, clock w) :: sent w |}
  | Unreg x t =>
      match local w x with
      | Some t' => if Z.eqb t' t then {| local := set1 (local w) x None; remote := remote w; clock := clock w; sent := sent w |} else w
      | None => w
      end
  | DelReg y x t =>
      match local w y with
      | Some t' => if Z.ltb t' t then {| local := set1 (local w) y None; remote := remote w; clock := clock w; sent := sent w |} else w
      | None => w
      end
  | DelUnreg _ _ => w
  | Merge y x st => {| local := local w; remote := set2 (remote w) y x (Some st); clock := clock w; sent := sent w |}
  | Leave y x => {| local := local w; remote := set2 (remote w) y x None; clock := clock w; sent := sent w |}
  end.

Definition run (h : list ev) (w : world) : world := fold_left step h w.

(* the remote owner y would forward to: some other node whose merged state lists the shard (getShardOwner iterates a Go
   map, so which one is not determined when several list it) *)
Definition owner_candidate (w : world) (y x : nat) : bool :=
  negb (Nat.eqb x y) && match remote w y x with Some (Some _) => true | _ => false end.

(* a history only delivers announcements that have been made *)
Fixpoint wf (h : list ev) (w : world) : Prop :=
  match h with
  | [] => True
  | e :: rest =>
      match e with DelReg _ x t => In (x, t) (sent w) | _ => True end /\ wf rest (step w e)
  end.
