(* The routing decision of shardManagerImpl.DeliverMessagesToShardOwner / DeliverAckToShardOwner (proxy/shard_manager.go):
   local stream first, then the known remote owner, else reported undelivered. *)
From Coq Require Import List Bool.
Import ListNotations.

(* what happens on the local channel, if one is registered *)
Inductive local_outcome :=
| LNone            (* no channel registered for the shard *)
| LAccepted        (* the channel took the item *)
| LShutdown        (* the send was abandoned because the caller's shutdown signal fired *)
| LClosed          (* the channel was closed (panic recovered), no shutdown signal *)
| LClosedShutdown. (* closed and shutdown signalled *)

Inductive peer_outcome := PAccepted | PError | PAbsent.   (* the intra-proxy stream to the owner: sent / send error / no stream *)

Record env := {
  lo : local_outcome;
  ml_configured : bool;     (* memberlistConfig != nil *)
  owner_known : bool;       (* some other node's merged state lists the shard *)
  addr_known : bool;        (* ProxyAddresses has the owner *)
  mgr_present : bool;       (* intra-proxy manager exists (routing mode) *)
  peer : peer_outcome;
  allow_forward : bool      (* acknowledgements only *)
}.

Inductive recipient := RNobody | RLocal | RRemote.

Definition forward (e : env) (need_mgr_check : bool) : bool * recipient :=
  if ml_configured e && owner_known e then
    if addr_known e then
      if mgr_present e || negb need_mgr_check then
        match peer e with PAccepted => (true, RRemote) | _ => (false, RNobody) end
      else (false, RNobody)
    else (false, RNobody)
  else (false, RNobody).

Definition deliver_msg (e : env) : bool * recipient :=
  match lo e with
  | LAccepted => (true, RLocal)
  | LShutdown | LClosedShutdown => (false, RNobody)
  | LNone | LClosed => forward e true
  end.

(* DeliverAckToShardOwner uses the manager without a nil check: mgr_present is a precondition there *)
Definition deliver_ack (e : env) : bool * recipient :=
  match lo e with
  | LAccepted => (true, RLocal)
  | LShutdown | LClosedShutdown => (false, RNobody)
  | LNone | LClosed => if allow_forward e then forward e false else (false, RNobody)
  end.

(* who actually received the item, independently of the reported result: the local stream iff its channel took it, the
   owner iff the call got as far as a successful send on its stream *)
Definition local_got (e : env) : bool := match lo e with LAccepted => true | _ => false end.

Theorem deliver_msg_spec e :
  let '(ok, who) := deliver_msg e in
  (ok = true <-> who <> RNobody)
  /\ (who = RLocal <-> local_got e = true)                                    (* local first *)
  /\ (who = RRemote -> local_got e = false /\ ml_configured e = true /\ owner_known e = true /\ addr_known e = true /\ peer e = PAccepted)
  /\ (local_got e = false -> ml_configured e = true -> owner_known e = true -> addr_known e = true -> mgr_present e = true ->
      peer e = PAccepted -> lo e <> LShutdown -> lo e <> LClosedShutdown -> who = RRemote).
Proof.
  destruct e as [l m o a g p f]. unfold deliver_msg, forward, local_got; cbn.
  destruct l, m, o, a, g, p; cbn; repeat split; try discriminate; try congruence; auto; intros; try discriminate; try congruence;
    try (exfalso; congruence).
Qed.

Theorem deliver_ack_spec e :
  mgr_present e = true ->
  let '(ok, who) := deliver_ack e in
  (ok = true <-> who <> RNobody)
  /\ (who = RLocal <-> local_got e = true)
  /\ (who = RRemote -> local_got e = false /\ allow_forward e = true /\ ml_configured e = true /\ owner_known e = true /\ addr_known e = true /\ peer e = PAccepted)
  /\ (local_got e = false -> allow_forward e = true -> ml_configured e = true -> owner_known e = true -> addr_known e = true ->
      peer e = PAccepted -> lo e <> LShutdown -> lo e <> LClosedShutdown -> who = RRemote).
Proof.
  destruct e as [l m o a g p f]. unfold deliver_ack, forward, local_got; cbn. intros ->.
  destruct l, m, o, a, p, f; cbn; repeat split; try discriminate; try congruence; auto; intros; try discriminate; try congruence;
    try (exfalso; congruence).
Qed.

(* never two recipients, never a silent drop: the result is true exactly when exactly one recipient took the item *)
Corollary deliver_msg_exactly_one e :
  fst (deliver_msg e) = true <-> (snd (deliver_msg e) = RLocal \/ snd (deliver_msg e) = RRemote).
Proof.
  pose proof (deliver_msg_spec e) as H. destruct (deliver_msg e) as [ok who]. cbn. destruct H as (H & _).
  rewrite H. destruct who; split; intros X; try congruence; auto; destruct X; congruence.
Qed.
