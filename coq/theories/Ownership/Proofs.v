From Coq Require Import List ZArith Bool Lia.
From S2S Require Import Ownership.Model.
Import ListNotations.
Open Scope Z_scope.

Definition is_reg (e : ev) : bool := match e with Reg _ => true | _ => false end.

(* all announced stamps are older than the clock *)
Definition sent_lt (w : world) : Prop := forall x t, In (x, t) (sent w) -> t < clock w.
Definition local_lt (w : world) : Prop := forall x t, local w x = Some t -> t < clock w.

Lemma step_sent_lt w e : sent_lt w -> sent_lt (step w e).
Proof.
  intros H. destruct e as [x|x t|y x t|y x|y x st|y x]; cbn [step]; try exact H.
  - intros a b Hin. cbn in Hin |- *. destruct Hin as [E|Hin]; [inversion E; lia|specialize (H _ _ Hin); lia].
  - destruct (local w x) as [t'|]; [|exact H]. destruct (Z.eqb t' t); exact H.
  - destruct (local w y) as [t'|]; [|exact H]. destruct (Z.ltb t' t); exact H.
Qed.

Lemma step_local_lt w e : local_lt w -> local_lt (step w e).
Proof.
  intros H. destruct e as [x|x t|y x t|y x|y x st|y x]; cbn [step]; try exact H.
  - intros a b Hl. cbn in Hl |- *. unfold set1 in Hl. destruct (Nat.eqb a x); [inversion Hl; lia|specialize (H _ _ Hl); lia].
  - destruct (local w x) as [t'|] eqn:E; [|exact H]. destruct (Z.eqb t' t); [|exact H].
    intros a b Hl. cbn in Hl |- *. unfold set1 in Hl. destruct (Nat.eqb a x); [discriminate|exact (H _ _ Hl)].
  - destruct (local w y) as [t'|] eqn:E; [|exact H]. destruct (Z.ltb t' t); [|exact H].
    intros a b Hl. cbn in Hl |- *. unfold set1 in Hl. destruct (Nat.eqb a y); [discriminate|exact (H _ _ Hl)].
Qed.

Lemma run_app h1 h2 w : run (h1 ++ h2) w = run h2 (run h1 w).
Proof. apply fold_left_app. Qed.

Lemma run_sent_lt h : forall w, sent_lt w -> sent_lt (run h w).
Proof. induction h as [|e h IH]; intros w H; [exact H|]. apply IH. apply step_sent_lt. exact H. Qed.
Lemma run_local_lt h : forall w, local_lt w -> local_lt (run h w).
Proof. induction h as [|e h IH]; intros w H; [exact H|]. apply IH. apply step_local_lt. exact H. Qed.

Lemma wf_app h1 : forall h2 w, wf (h1 ++ h2) w -> wf h1 w /\ wf h2 (run h1 w).
Proof.
  induction h1 as [|e h1 IH]; intros h2 w H; [split; [exact I|exact H]|].
  cbn [app wf] in H. destruct H as [He H]. destruct (IH _ _ H) as [H1 H2]. split; [split; assumption|exact H2].
Qed.

(* ---------- after the last registration ---------- *)
(* the tail of a history after the newest claim (x, t): no further registration happens in it *)
Section Tail.
  Variables (x : nat) (t : Z).

  (* invariant of the tail: nobody holds a stamp above t, only x may hold t itself, announcements are at most t *)
  Definition TInv (w : world) : Prop :=
    (forall y t', local w y = Some t' -> t' <= t) /\
    (forall y, y <> x -> local w y <> Some t) /\
    (forall a b, In (a, b) (sent w) -> b <= t).

  Lemma tail_step w e : is_reg e = false -> TInv w -> (match e with DelReg _ a b => In (a, b) (sent w) | _ => True end) -> TInv (step w e).
  Proof.
    intros Hr (H1 & H2 & H3) Hwf. destruct e as [a|a b|y a b|y a|y a st|y a]; try discriminate; cbn [step].
    - destruct (local w a) as [t'|] eqn:E; [|repeat split; assumption]. destruct (Z.eqb t' b); [|repeat split; assumption].
      repeat split; cbn.
      + intros y t'' Hl. unfold set1 in Hl. destruct (Nat.eqb y a); [discriminate|eauto].
      + intros y Hy Hl. unfold set1 in Hl. destruct (Nat.eqb y a); [discriminate|]. exact (H2 y Hy Hl).
      + exact H3.
    - destruct (local w y) as [t'|] eqn:E; [|repeat split; assumption]. destruct (Z.ltb t' b); [|repeat split; assumption].
      repeat split; cbn.
      + intros z t'' Hl. unfold set1 in Hl. destruct (Nat.eqb z y); [discriminate|eauto].
      + intros z Hz Hl. unfold set1 in Hl. destruct (Nat.eqb z y); [discriminate|]. exact (H2 z Hz Hl).
      + exact H3.
    - repeat split; assumption.
    - repeat split; assumption.
    - repeat split; assumption.
  Qed.

  (* once an instance has lost the shard it does not get it back in the tail *)
  Lemma tail_none_stays h : forall w y, forallb (fun e => negb (is_reg e)) h = true -> local w y = None -> local (run h w) y = None.
  Proof.
    induction h as [|e h IH]; intros w y Hr Hl; [exact Hl|]. cbn [forallb] in Hr. apply andb_prop in Hr. destruct Hr as [He Hr].
    cbn [run fold_left]. apply IH; [exact Hr|].
    destruct e as [a|a b|z a b|z a|z a st|z a]; try discriminate; cbn [step]; try exact Hl.
    - destruct (local w a) as [t'|]; [|exact Hl]. destruct (Z.eqb t' b); [|exact Hl]. cbn. unfold set1. destruct (Nat.eqb y a); [reflexivity|exact Hl].
    - destruct (local w z) as [t'|]; [|exact Hl]. destruct (Z.ltb t' b); [|exact Hl]. cbn. unfold set1. destruct (Nat.eqb y z); [reflexivity|exact Hl].
  Qed.

  (* the newest claimant keeps the shard through the tail unless its own stream ends *)
  Lemma tail_owner_keeps h : forall w,
    forallb (fun e => negb (is_reg e)) h = true -> wf h w -> TInv w -> local w x = Some t ->
    ~ In (Unreg x t) h -> local (run h w) x = Some t.
  Proof.
    induction h as [|e h IH]; intros w Hr Hwf Hinv Hl Hnu; [exact Hl|].
    cbn [forallb] in Hr. apply andb_prop in Hr. destruct Hr as [He Hr]. cbn [wf] in Hwf. destruct Hwf as [Hwe Hwf].
    cbn [run fold_left]. apply IH; try assumption.
    - apply tail_step; [destruct e; try reflexivity; discriminate|exact Hinv|exact Hwe].
    - destruct Hinv as (H1 & H2 & H3).
      destruct e as [a|a b|z a b|z a|z a st|z a]; try discriminate; cbn [step]; try exact Hl.
      + destruct (local w a) as [t'|] eqn:E; [|exact Hl]. destruct (Z.eqb t' b) eqn:Eb; [|exact Hl]. cbn. unfold set1.
        destruct (Nat.eqb x a) eqn:Exa; [|exact Hl]. apply Nat.eqb_eq in Exa. subst a. rewrite Hl in E. inversion E; subst t'.
        apply Z.eqb_eq in Eb. subst b. exfalso. apply Hnu. left. reflexivity.
      + destruct (local w z) as [t'|] eqn:E; [|exact Hl]. destruct (Z.ltb t' b) eqn:Eb; [|exact Hl]. cbn. unfold set1.
        destruct (Nat.eqb x z) eqn:Exz; [|exact Hl]. apply Nat.eqb_eq in Exz. subst z. rewrite Hl in E. inversion E; subst t'.
        apply Z.ltb_lt in Eb. specialize (H3 _ _ Hwe). lia.
    - intros Hin. apply Hnu. right. exact Hin.
  Qed.

  (* whoever is handed the newest announcement loses the shard, and stays without it *)
  Lemma tail_delivery_evicts h : forall w y,
    forallb (fun e => negb (is_reg e)) h = true -> wf h w -> TInv w -> y <> x ->
    In (DelReg y x t) h -> local (run h w) y = None.
  Proof.
    induction h as [|e h IH]; intros w y Hr Hwf Hinv Hy Hin; [destruct Hin|].
    cbn [forallb] in Hr. apply andb_prop in Hr. destruct Hr as [He Hr]. cbn [wf] in Hwf. destruct Hwf as [Hwe Hwf].
    cbn [run fold_left]. destruct Hin as [E|Hin].
    - subst e. apply tail_none_stays; [exact Hr|]. cbn [step]. destruct Hinv as (H1 & H2 & H3).
      destruct (local w y) as [t'|] eqn:El; [|exact El].
      assert (t' < t) by (specialize (H1 _ _ El); specialize (H2 y Hy); assert (t' <> t) by (intros ->; apply H2; exact El); lia).
      destruct (Z.ltb_spec t' t); [|lia]. cbn. unfold set1. rewrite Nat.eqb_refl. reflexivity.
    - apply IH; try assumption. apply tail_step; [destruct e; try reflexivity; discriminate|exact Hinv|exact Hwe].
  Qed.
End Tail.

(* ---------- convergence ---------- *)
(* any history; (x, t) is its newest claim: h = h1 ++ Reg x :: h2 with no registration in h2 *)
Theorem convergence h1 x h2 :
  let w1 := run h1 world0 in
  let t := clock w1 in
  let w := run (h1 ++ Reg x :: h2) world0 in
  wf (h1 ++ Reg x :: h2) world0 ->
  forallb (fun e => negb (is_reg e)) h2 = true ->
  (forall y, y <> x -> In (DelReg y x t) h2 -> local w y = None)
  /\ (~ In (Unreg x t) h2 -> local w x = Some t).
Proof.
  cbv zeta. intros Hwf Hr. rewrite run_app. cbn [run fold_left]. fold (run h2 (step (run h1 world0) (Reg x))).
  set (w1 := run h1 world0) in *.
  destruct (wf_app h1 (Reg x :: h2) world0 Hwf) as [_ Hwf2]. fold w1 in Hwf2. cbn [wf] in Hwf2. destruct Hwf2 as [_ Hwf2].
  assert (Hs : sent_lt w1) by (apply run_sent_lt; intros a b []).
  assert (Hl : local_lt w1) by (apply run_local_lt; intros a b; discriminate).
  assert (Hinv : TInv x (clock w1) (step w1 (Reg x))).
  { repeat split; cbn [step local sent].
    - intros y t' E. unfold set1 in E. destruct (Nat.eqb y x); [inversion E; lia|specialize (Hl _ _ E); lia].
    - intros y Hy E. unfold set1 in E. destruct (Nat.eqb y x) eqn:Ey; [apply Nat.eqb_eq in Ey; contradiction|]. specialize (Hl _ _ E). lia.
    - intros a b [E|Hin]; [inversion E; lia|specialize (Hs _ _ Hin); lia]. }
  split.
  - intros y Hy Hin. apply (tail_delivery_evicts x (clock w1) h2 _ y Hr Hwf2 Hinv Hy Hin).
  - intros Hnu. apply (tail_owner_keeps x (clock w1) h2 _ Hr Hwf2 Hinv); [|exact Hnu].
    cbn [step local]. unfold set1. rewrite Nat.eqb_refl. reflexivity.
Qed.

(* at most one owner once the newest announcement has reached everyone *)
Corollary single_owner h1 x h2 (n : nat) :
  let t := clock (run h1 world0) in
  let w := run (h1 ++ Reg x :: h2) world0 in
  wf (h1 ++ Reg x :: h2) world0 ->
  forallb (fun e => negb (is_reg e)) h2 = true ->
  (forall y, (y < n)%nat -> y <> x -> In (DelReg y x t) h2) ->
  forall y, (y < n)%nat -> local w y <> None -> y = x.
Proof.
  cbv zeta. intros Hwf Hr Hall y Hy Hown. destruct (Nat.eq_dec y x) as [E|Ne]; [exact E|].
  exfalso. apply Hown. apply (proj1 (convergence h1 x h2 Hwf Hr) y Ne). apply Hall; assumption.
Qed.

(* ---------- instances that left ---------- *)
Fixpoint no_merge_from (y x : nat) (h : list ev) : Prop :=
  match h with
  | [] => True
  | Merge y' x' _ :: rest => ~ (y' = y /\ x' = x) /\ no_merge_from y x rest
  | _ :: rest => no_merge_from y x rest
  end.

Lemma remote_unchanged h : forall w y x, no_merge_from y x h -> remote w y x = None -> remote (run h w) y x = None.
Proof.
  induction h as [|e h IH]; intros w y x Hn Hr; [exact Hr|]. cbn [run fold_left]. 
  destruct e as [a|a b|z a b|z a|z a st|z a]; cbn [no_merge_from] in Hn.
  - apply IH; [exact Hn|exact Hr].
  - apply IH; [exact Hn|]. cbn [step]. destruct (local w a) as [t'|]; [|exact Hr]. destruct (Z.eqb t' b); exact Hr.
  - apply IH; [exact Hn|]. cbn [step]. destruct (local w z) as [t'|]; [|exact Hr]. destruct (Z.ltb t' b); exact Hr.
  - apply IH; [exact Hn|exact Hr].
  - destruct Hn as [Hne Hn]. apply IH; [exact Hn|]. cbn [step remote]. unfold set2.
    destruct (Nat.eqb y z) eqn:E1; destruct (Nat.eqb x a) eqn:E2; cbn [andb]; try exact Hr.
    apply Nat.eqb_eq in E1, E2. subst. exfalso. apply Hne. split; reflexivity.
  - apply IH; [exact Hn|]. cbn [step remote]. unfold set2. destruct (Nat.eqb y z && Nat.eqb x a); [reflexivity|exact Hr].
Qed.

(* after y has been told that x left, and as long as no state of x is merged at y afterwards, y knows nothing of x
   and never picks x as the owner to forward to *)
Theorem leave_forgets h1 y x h2 w :
  no_merge_from y x h2 ->
  let w' := run (h1 ++ Leave y x :: h2) w in
  remote w' y x = None /\ owner_candidate w' y x = false.
Proof.
  intros Hn. cbv zeta. rewrite run_app. cbn [run fold_left]. fold (run h2 (step (run h1 w) (Leave y x))).
  assert (H : remote (run h2 (step (run h1 w) (Leave y x))) y x = None).
  { apply remote_unchanged; [exact Hn|]. cbn [step remote]. unfold set2. rewrite !Nat.eqb_refl. reflexivity. }
  split; [exact H|]. unfold owner_candidate. rewrite H. apply andb_false_r.
Qed.

(* ---------- the defect that was repaired (F6): announcing time.Now() taken at broadcast, not the registration stamp ---------- *)
(* x registers at 100 and announces 103, y registers at 101 and announces 102: each evicts the other *)
Lemma f6_witness :
  let deliver (mine : Z) (ann : Z) := if Z.ltb mine ann then None else Some mine in
  deliver 100 102 = None /\ deliver 101 103 = None.
Proof. split; reflexivity. Qed.

(* non-vacuity: two instances claim, the newer announcement reaches the older claimant *)
Example two_claims :
  let h := [Reg 0%nat; Reg 1%nat; DelReg 1%nat 0%nat 1; DelReg 0%nat 1%nat 2] in
  wf h world0 /\ local (run h world0) 0%nat = None /\ local (run h world0) 1%nat = Some 2.
Proof. cbn. repeat split; auto. Qed.
