(* explore_all P ths r = true  ->  P holds of the final state of every execution of ths from r *)
From Coq Require Import List Arith Bool Lia.
From S2S Require Import Registry.Model.
Import ListNotations.

Lemma picks_in pre : forall pre0 o t post,
  In (o, pre0 ++ pre ++ t :: post) (picks pre0 (pre ++ (o :: t) :: post)).
Proof.
  induction pre as [|a pre IH]; intros pre0 o t post; cbn [app picks].
  - left. reflexivity.
  - destruct a as [|x a].
    + specialize (IH (pre0 ++ [[]]) o t post). rewrite <- app_assoc in IH. cbn [app] in IH. exact IH.
    + right. specialize (IH (pre0 ++ [x :: a]) o t post). rewrite <- app_assoc in IH. cbn [app] in IH. exact IH.
Qed.

Lemma picks_all_empty ths : Forall (fun t => t = []) ths -> forall pre0, picks pre0 ths = [].
Proof.
  induction 1 as [|t ths Ht _ IH]; intros pre0; cbn [picks]; [reflexivity|]. subst t. apply IH.
Qed.

Lemma step_in_succs pre o t post r :
  enabled r o = true -> In (pre ++ t :: post, exec r o) (succs (pre ++ (o :: t) :: post, r)).
Proof.
  intros He. unfold succs. apply in_flat_map. exists (o, pre ++ t :: post). split.
  - apply (picks_in pre [] o t post).
  - cbn [fst snd]. rewrite He. left. reflexivity.
Qed.

Lemma bfs_sound fuel P : forall cs, bfs fuel P cs = true ->
  forall ths r l r', In (ths, r) cs -> Execution ths r l r' -> P r' = true.
Proof.
  induction fuel as [|f IH]; intros cs H ths r l r' Hin Hex; cbn [bfs] in H; apply andb_prop in H; destruct H as [Hok Hnext];
    rewrite forallb_forall in Hok; specialize (Hok _ Hin); unfold cfg_ok in Hok; cbn [fst snd] in Hok.
  - inversion Hex as [ths0 r0 Hall|pre o t post r0 l' r0' Hen Hex']; subst.
    + rewrite (picks_all_empty ths Hall []) in Hok. exact Hok.
    + exfalso. pose proof (step_in_succs pre o t post r Hen) as Hs.
      assert (Hin2 : In (pre ++ t :: post, exec r o) (flat_map succs cs)) by (apply in_flat_map; eexists; split; [exact Hin|exact Hs]).
      destruct (flat_map succs cs); [destruct Hin2|discriminate].
  - inversion Hex as [ths0 r0 Hall|pre o t post r0 l' r0' Hen Hex']; subst.
    + rewrite (picks_all_empty ths Hall []) in Hok. exact Hok.
    + pose proof (step_in_succs pre o t post r Hen) as Hs.
      assert (Hin2 : In (pre ++ t :: post, exec r o) (flat_map succs cs)) by (apply in_flat_map; eexists; split; [exact Hin|exact Hs]).
      destruct (flat_map succs cs) as [|c0 rest] eqn:En; [destruct Hin2|].
      apply (IH _ Hnext (pre ++ t :: post) (exec r o) l' r'); [|exact Hex'].
      apply nodup_In. exact Hin2.
Qed.

Theorem explore_all_sound P ths r :
  explore_all P ths r = true -> forall l r', Execution ths r l r' -> P r' = true.
Proof. intros H l r' Hex. apply (bfs_sound _ P _ H ths r l r'); [left; reflexivity|exact Hex]. Qed.

(* ... and no execution prefix gets stuck: explore_all also rules out deadlock (cfg_ok on non-final configurations) *)

(* every execution's final state is among the outcomes *)
Lemma finals_complete fuel : forall cs ths r l r',
  In (ths, r) cs -> Execution ths r l r' -> length l <= fuel -> In r' (finals fuel cs).
Proof.
  induction fuel as [|f IH]; intros cs ths r l r' Hin Hex Hl; cbn [finals]; apply in_or_app;
    inversion Hex as [ths0 r0 Hall|pre o t post r0 l' r0' Hen Hex']; subst.
  - left. apply in_map_iff. exists (ths, r'). split; [reflexivity|]. apply filter_In. split; [exact Hin|].
    cbn [fst]. rewrite (picks_all_empty ths Hall []). reflexivity.
  - cbn [length] in Hl. lia.
  - left. apply in_map_iff. exists (ths, r'). split; [reflexivity|]. apply filter_In. split; [exact Hin|].
    cbn [fst]. rewrite (picks_all_empty ths Hall []). reflexivity.
  - right. pose proof (step_in_succs pre o t post r Hen) as Hs.
    assert (Hin2 : In (pre ++ t :: post, exec r o) (flat_map succs cs)) by (apply in_flat_map; eexists; split; [exact Hin|exact Hs]).
    destruct (flat_map succs cs) as [|c0 rest] eqn:En; [destruct Hin2|].
    apply (IH _ (pre ++ t :: post) (exec r o) l' r'); [apply nodup_In; exact Hin2|exact Hex'|cbn [length] in Hl; lia].
Qed.

Lemma execution_length ths r l r' : Execution ths r l r' -> length l = total_ops ths.
Proof.
  induction 1 as [ths r Hall|pre o t post r l r' Hen Hex IH].
  - induction Hall as [|t ths Ht _ IHa]; [reflexivity|]. subst t. cbn. exact IHa.
  - cbn [length]. rewrite IH. unfold total_ops. rewrite !fold_right_app. cbn [fold_right length].
    clear. induction pre as [|a pre IHp]; cbn [fold_right]; [lia|]. rewrite <- IHp. lia.
Qed.

Theorem outcomes_complete ths r l r' : Execution ths r l r' -> In r' (outcomes ths r).
Proof.
  intros H. unfold outcomes. apply nodup_In. apply (finals_complete _ _ ths r l r'); [left; reflexivity|exact H|].
  rewrite (execution_length _ _ _ _ H). lia.
Qed.

(* run agrees with the execution relation *)
Lemma execution_run ths r l r' : Execution ths r l r' -> r' = run l r.
Proof. induction 1 as [|pre o t post r l r' _ _ IH]; [reflexivity|]. cbn [run fold_left]. exact IH. Qed.
