From Coq Require Import List Arith Bool Lia.
From S2S Require Import Registry.Model Registry.Explore.
Import ListNotations.

Lemma is_some o i : is o i = true -> o = Some i.
Proof. unfold is. destruct o as [x|]; [|discriminate]. intros E. apply Nat.eqb_eq in E. subst. reflexivity. Qed.
Lemma is_refl i : is (Some i) i = true.
Proof. apply Nat.eqb_refl. Qed.
Lemma is_neq o i : o <> Some i -> is o i = false.
Proof. unfold is. destruct o as [x|]; [|reflexivity]. intros H. apply Nat.eqb_neq. intros E. subst. apply H. reflexivity. Qed.

(* ---------- a cleanup removes only its own entries (any state, any incarnation) ---------- *)
Definition five (r : reg) := (r_shard r, r_send r, r_ack r, r_cancel r, r_active r).

Theorem sender_cleanup_only_own r i :
  r_shard r <> Some i -> r_send r <> Some i -> five (run (sender_cleanup i) r) = five r.
Proof.
  intros H1 H2. apply is_neq in H1, H2. destruct r; cbn in *. rewrite H1. cbn. rewrite H2. reflexivity.
Qed.

Theorem sender_cleanup_own_entries r i :
  let r' := run (sender_cleanup i) r in
  (r_shard r' = if is (r_shard r) i then None else r_shard r)
  /\ (r_send r' = if is (r_send r) i then None else r_send r)
  /\ r_ack r' = r_ack r /\ r_cancel r' = r_cancel r /\ r_active r' = r_active r.
Proof.
  destruct r as [sh se ac ca av mu cl cn sp g d cr mk]; cbn in *.
  destruct (is sh i) eqn:E1; cbn; destruct (is se i) eqn:E2; cbn; repeat split; reflexivity.
Qed.

Theorem receiver_cleanup_only_own r j :
  amu r = None -> r_ack r <> Some j -> r_active r <> Some j -> five (run (receiver_cleanup j) r) = five r /\ amu (run (receiver_cleanup j) r) = None.
Proof.
  intros Hm H1 H2. apply is_neq in H1, H2. destruct r; cbn in *. subst. rewrite H1. cbn. rewrite H2. cbn. split; reflexivity.
Qed.

Theorem receiver_cleanup_own_entries r j :
  amu r = None ->
  let r' := run (receiver_cleanup j) r in
  (r_ack r' = if is (r_ack r) j then None else r_ack r)
  /\ (r_active r' = if is (r_active r) j then None else r_active r)
  /\ (r_cancel r' = if is (r_active r) j then None else r_cancel r)
  /\ r_shard r' = r_shard r /\ r_send r' = r_send r /\ amu r' = None.
Proof.
  intros Hm. destruct r as [sh se ac ca av mu cl cn sp g d cr mk]; cbn in *. subst.
  destruct (is ac j) eqn:E1; cbn; destruct (is av j) eqn:E2; cbn; rewrite ?Nat.eqb_refl; cbn; repeat split; reflexivity.
Qed.

(* ---------- every execution, for two and three successive incarnations ---------- *)
(* incarnation 0 is registered and shutting down, incarnation 1 registers, a watermark replay happens at any point:
   in EVERY execution the final registries belong to incarnation 1, nothing crashed, the lock is free *)
Definition two_sender_threads : list (list op) := [sender_cleanup 0; sender_register 1; replay 0 true].
Definition two_receiver_threads : list (list op) := [receiver_cleanup 0; receiver_register 1].
Definition senders_are (i : nat) (r : reg) : bool := is (r_shard r) i && is (r_send r) i && negb (crashed r).
Definition receivers_are (i : nat) (r : reg) : bool :=
  is (r_ack r) i && is (r_cancel r) i && is (r_active r) i && match amu r with None => true | _ => false end.

Lemma two_senders_check : explore_all (senders_are 1) two_sender_threads registered0 = true.
Proof. vm_cast_no_check (eq_refl true). Qed.
Theorem two_senders_newest_wins l r :
  Execution two_sender_threads registered0 l r -> r_shard r = Some 1 /\ r_send r = Some 1 /\ crashed r = false.
Proof.
  intros H. pose proof (explore_all_sound _ _ _ two_senders_check l r H) as E. unfold senders_are in E.
  apply andb_prop in E. destruct E as [E E3]. apply andb_prop in E. destruct E as [E1 E2].
  split; [apply is_some; exact E1|]. split; [apply is_some; exact E2|]. destruct (crashed _); [discriminate|reflexivity].
Qed.

Lemma two_receivers_check : explore_all (receivers_are 1) two_receiver_threads registered0 = true.
Proof. vm_cast_no_check (eq_refl true). Qed.
Theorem two_receivers_newest_wins l r :
  Execution two_receiver_threads registered0 l r -> r_ack r = Some 1 /\ r_cancel r = Some 1 /\ r_active r = Some 1 /\ amu r = None.
Proof.
  intros H. pose proof (explore_all_sound _ _ _ two_receivers_check l r H) as E. unfold receivers_are in E.
  apply andb_prop in E. destruct E as [E E4]. apply andb_prop in E. destruct E as [E E3]. apply andb_prop in E. destruct E as [E1 E2].
  repeat split; try (apply is_some; assumption). destruct (amu r); [discriminate|reflexivity].
Qed.

(* the predecessor is cancelled by its successor in every execution in which it had not unregistered first *)
Lemma predecessor_cancelled_check :
  explore_all (fun r => mem 0 (cancelled r) || negb (mem 1 (seen_prev r))) two_receiver_threads registered0 = true.
Proof. vm_cast_no_check (eq_refl true). Qed.

(* ... and when incarnation 1 ends as well (after or while 0 cleans up), nothing remains registered *)
Definition ended_sender_threads : list (list op) := [sender_cleanup 0; sender_register 1 ++ sender_cleanup 1; replay 0 true].
Definition ended_receiver_threads : list (list op) := [receiver_cleanup 0; receiver_register 1 ++ receiver_cleanup 1].
Definition senders_empty (r : reg) : bool :=
  match r_shard r, r_send r with None, None => negb (crashed r) | _, _ => false end.
Definition receivers_empty (r : reg) : bool :=
  match r_ack r, r_cancel r, r_active r, amu r with None, None, None, None => true | _, _, _, _ => false end.
Lemma ended_senders_check : explore_all senders_empty ended_sender_threads registered0 = true.
Proof. vm_cast_no_check (eq_refl true). Qed.
Lemma ended_receivers_check : explore_all receivers_empty ended_receiver_threads registered0 = true.
Proof. vm_cast_no_check (eq_refl true). Qed.
Theorem all_ended_senders_empty l r :
  Execution ended_sender_threads registered0 l r -> r_shard r = None /\ r_send r = None /\ crashed r = false.
Proof.
  intros H. pose proof (explore_all_sound _ _ _ ended_senders_check l r H) as E. unfold senders_empty in E.
  destruct (r_shard r); [discriminate|]. destruct (r_send r); [discriminate|]. destruct (crashed r); [discriminate|]. auto.
Qed.
Theorem all_ended_receivers_empty l r :
  Execution ended_receiver_threads registered0 l r -> r_ack r = None /\ r_cancel r = None /\ r_active r = None /\ amu r = None.
Proof.
  intros H. pose proof (explore_all_sound _ _ _ ended_receivers_check l r H) as E. unfold receivers_empty in E.
  destruct (r_ack r); [discriminate|]. destruct (r_cancel r); [discriminate|]. destruct (r_active r); [discriminate|].
  destruct (amu r); [discriminate|]. auto.
Qed.

(* three successive incarnations: 0 cleaning up, 1 registering and then cleaning up, 2 registering once 1 has registered
   (Mark / Await); cleanups arbitrarily late; a replay at any point *)
Definition three_sender_threads : list (list op) :=
  [sender_cleanup 0; sender_register 1 ++ [Mark 1] ++ sender_cleanup 1; [Await 1] ++ sender_register 2; replay 0 true].
Lemma three_senders_check : explore_all (senders_are 2) three_sender_threads (run (sender_register 0) empty_reg) = true.
Proof. vm_cast_no_check (eq_refl true). Qed.
Theorem three_senders_newest_wins l r :
  Execution three_sender_threads (run (sender_register 0) empty_reg) l r ->
  r_shard r = Some 2 /\ r_send r = Some 2 /\ crashed r = false.
Proof.
  intros H. pose proof (explore_all_sound _ _ _ three_senders_check l r H) as E. unfold senders_are in E.
  apply andb_prop in E. destruct E as [E E3]. apply andb_prop in E. destruct E as [E1 E2].
  split; [apply is_some; exact E1|]. split; [apply is_some; exact E2|]. destruct (crashed r); [discriminate|reflexivity].
Qed.

Definition three_receiver_threads : list (list op) :=
  [receiver_cleanup 0; receiver_register 1 ++ [Mark 1] ++ receiver_cleanup 1; [Await 1] ++ receiver_register 2].
Lemma three_receivers_check : explore_all (receivers_are 2) three_receiver_threads (run (receiver_register 0) empty_reg) = true.
Proof. vm_cast_no_check (eq_refl true). Qed.
Theorem three_receivers_newest_wins l r :
  Execution three_receiver_threads (run (receiver_register 0) empty_reg) l r ->
  r_ack r = Some 2 /\ r_cancel r = Some 2 /\ r_active r = Some 2 /\ amu r = None.
Proof.
  intros H. pose proof (explore_all_sound _ _ _ three_receivers_check l r H) as E. unfold receivers_are in E.
  apply andb_prop in E. destruct E as [E E4]. apply andb_prop in E. destruct E as [E E3]. apply andb_prop in E. destruct E as [E1 E2].
  repeat split; try (apply is_some; assumption). destruct (amu r); [discriminate|reflexivity].
Qed.

(* all three ended: nothing remains *)
Definition three_ended_sender_threads : list (list op) :=
  [sender_cleanup 0; sender_register 1 ++ [Mark 1] ++ sender_cleanup 1; [Await 1] ++ sender_register 2 ++ sender_cleanup 2].
Lemma three_ended_senders_check : explore_all senders_empty three_ended_sender_threads (run (sender_register 0) empty_reg) = true.
Proof. vm_cast_no_check (eq_refl true). Qed.
Definition three_ended_receiver_threads : list (list op) :=
  [receiver_cleanup 0; receiver_register 1 ++ [Mark 1] ++ receiver_cleanup 1; [Await 1] ++ receiver_register 2 ++ receiver_cleanup 2].
Lemma three_ended_receivers_check : explore_all receivers_empty three_ended_receiver_threads (run (receiver_register 0) empty_reg) = true.
Proof. vm_cast_no_check (eq_refl true). Qed.
Theorem three_ended_empty l r :
  (Execution three_ended_sender_threads (run (sender_register 0) empty_reg) l r -> r_shard r = None /\ r_send r = None /\ crashed r = false)
  /\ (Execution three_ended_receiver_threads (run (receiver_register 0) empty_reg) l r -> r_ack r = None /\ r_cancel r = None /\ r_active r = None /\ amu r = None).
Proof.
  split; intros H.
  - pose proof (explore_all_sound _ _ _ three_ended_senders_check l r H) as E. unfold senders_empty in E.
    destruct (r_shard r); [discriminate|]. destruct (r_send r); [discriminate|]. destruct (crashed r); [discriminate|]. auto.
  - pose proof (explore_all_sound _ _ _ three_ended_receivers_check l r H) as E. unfold receivers_empty in E.
    destruct (r_ack r); [discriminate|]. destruct (r_cancel r); [discriminate|]. destruct (r_active r); [discriminate|].
    destruct (amu r); [discriminate|]. auto.
Qed.

(* the premises are satisfiable: a sequential execution *)
Lemma Execution_seq_head o t post r l r' :
  enabled r o = true -> Execution (t :: post) (exec r o) l r' -> Execution ((o :: t) :: post) r (o :: l) r'.
Proof. intros He H. apply (Ex_step [] o t post r l r' He H). Qed.

Example two_receivers_nonvacuous : exists l r, Execution two_receiver_threads registered0 l r.
Proof.
  eexists. eexists. unfold two_receiver_threads, receiver_cleanup, receiver_register.
  do 3 (apply Execution_seq_head; [reflexivity|]).
  apply (Ex_step [[]] (TermGet 1) _ []); [reflexivity|]. apply (Ex_step [[]] (TermRemCancel 1) _ []); [reflexivity|].
  apply (Ex_step [[]] (TermRemAck 1) _ []); [reflexivity|]. apply (Ex_step [[]] (SetAck 1) _ []); [reflexivity|].
  apply (Ex_step [[]] (RegRecv1 1) _ []); [reflexivity|]. apply (Ex_step [[]] (RegRecv2 1) _ []); [reflexivity|].
  apply Ex_done. repeat constructor.
Qed.

Example three_senders_nonvacuous :
  existsb (fun r => is (r_shard r) 2) (outcomes three_sender_threads (run (sender_register 0) empty_reg)) = true.
Proof. vm_cast_no_check (eq_refl true). Qed.

(* ---------- the defects that were repaired, as counterexamples for the code as it was ---------- *)
(* F3: UnregisterShard's second, unconditional delete after the lock had been released *)
Definition exec_old_second_delete (matched : bool) (r : reg) : reg :=
  if matched then upd r None (r_send r) (r_ack r) (r_cancel r) (r_active r) (amu r) else r.
Lemma f3_witness :
  let r0 := run (sender_register 0) empty_reg in
  let matched := is (r_shard r0) 0 in
  let r1 := exec r0 (UnregShard 0) in
  let r2 := run (sender_register 1) r1 in
  let r3 := exec_old_second_delete matched r2 in
  r_shard r3 = None /\ r_send r3 = Some 1.
Proof. vm_compute. split; reflexivity. Qed.

(* F5: an unguarded replay between close and removal crashes *)
Lemma f5_witness :
  crashed (run [ReplayGet 0; CloseCh 0; ReplaySend 0 false; UnregShard 0; RemSend 0] (run (sender_register 0) empty_reg)) = true.
Proof. vm_cast_no_check (eq_refl true). Qed.
Lemma f5_refuted :
  explore_all (senders_are 1) [sender_cleanup 0; sender_register 1; replay 0 false] registered0 = false.
Proof. vm_compute. reflexivity. Qed.

(* F4: the old receiver cleanup removed the cancel function and the active receiver unconditionally *)
Lemma f4_witness :
  let uncond := fun r : reg => upd r (r_shard r) (r_send r) (r_ack r) None None (amu r) in
  let r := uncond (exec (run (receiver_register 1) registered0) (RemAck 0)) in
  r_cancel r = None /\ r_active r = None /\ r_ack r = Some 1.
Proof. vm_compute. repeat split. Qed.

(* ---------- an unbounded statement: a registry updated by "set i" and "delete iff still i" ---------- *)
(* for ANY number of incarnations and ANY interleaving in which the sets happen in increasing incarnation order: the
   registry never holds an incarnation other than the latest one that set it, so a conditional delete by an older
   incarnation never removes a newer one *)
Inductive cop := CSet (i : nat) | CDel (i : nat).
Definition cexec (st : option nat * nat) (o : cop) : option nat * nat :=   (* (value, latest set so far + 1) *)
  match o with
  | CSet i => (Some i, S i)
  | CDel i => if is (fst st) i then (None, snd st) else st
  end.
Fixpoint sets_increasing (l : list cop) (lo : nat) : Prop :=
  match l with
  | [] => True
  | CSet i :: t => lo <= i /\ sets_increasing t (S i)
  | CDel _ :: t => sets_increasing t lo
  end.

Lemma cond_registry_inv l : forall v n,
  (forall x, v = Some x -> S x = n) -> sets_increasing l n ->
  let '(v', n') := fold_left cexec l (v, n) in (forall x, v' = Some x -> S x = n') /\ n <= n'.
Proof.
  induction l as [|o l IH]; intros v n Hv Hs; cbn [fold_left].
  - split; [exact Hv|lia].
  - destruct o as [i|i]; cbn [cexec fst snd].
    + destruct Hs as [Hle Hs]. specialize (IH (Some i) (S i) ltac:(intros x E; inversion E; reflexivity) Hs).
      destruct (fold_left cexec l (Some i, S i)) as [v' n']. destruct IH as [H1 H2]. split; [exact H1|lia].
    + cbn in Hs. destruct (is v i).
      * specialize (IH None n ltac:(intros x E; discriminate) Hs). exact IH.
      * specialize (IH v n Hv Hs). exact IH.
Qed.

Theorem cond_registry_newest l :
  sets_increasing l 0 ->
  forall x, fst (fold_left cexec l (None, 0)) = Some x -> S x = snd (fold_left cexec l (None, 0)).
Proof.
  intros Hs x Hx. pose proof (cond_registry_inv l None 0 ltac:(intros y E; discriminate) Hs) as H.
  destruct (fold_left cexec l (None, 0)) as [v n]. destruct H as [H _]. apply H. exact Hx.
Qed.

(* and the last set survives unless its own incarnation deletes it afterwards *)
Fixpoint no_del (i : nat) (l : list cop) : Prop :=
  match l with [] => True | CDel j :: t => j <> i /\ no_del i t | CSet _ :: t => no_del i t end.
Fixpoint no_set (l : list cop) : Prop :=
  match l with [] => True | CSet _ :: _ => False | CDel _ :: t => no_set t end.
Theorem cond_registry_last_set_survives pre i post n0 v0 :
  no_set post -> no_del i post -> fst (fold_left cexec (pre ++ CSet i :: post) (v0, n0)) = Some i.
Proof.
  intros Hs Hd. rewrite fold_left_app. cbn [fold_left cexec].
  generalize (S i) as n. clear pre v0 n0. induction post as [|o post IH]; intros n; [reflexivity|].
  destruct o as [j|j]; [destruct Hs|]. cbn [fold_left cexec fst snd]. destruct Hd as [Hne Hd].
  assert (E : is (Some i) j = false) by (apply Nat.eqb_neq; intros E; apply Hne; symmetry; exact E).
  rewrite E. apply IH; assumption.
Qed.

(* ---------- the sender-side registries for ANY number of incarnations and ANY interleaving ---------- *)
(* the ownership entry and the delivery-channel entry are each a conditional registry in the sense above *)
Definition proj_send (o : op) : list cop := match o with SetSend i => [CSet i] | RemSend i => [CDel i] | _ => [] end.
Definition proj_shard (o : op) : list cop := match o with RegShard i => [CSet i] | UnregShard i => [CDel i] | _ => [] end.

Lemma cexec_fst st st' o : fst st = fst st' -> fst (cexec st o) = fst (cexec st' o).
Proof. intros H. destruct o as [i|i]; cbn [cexec]; [reflexivity|]. rewrite H. destruct (is (fst st') i); [reflexivity|exact H]. Qed.

Lemma fold_cexec_fst l : forall st st', fst st = fst st' -> fst (fold_left cexec l st) = fst (fold_left cexec l st').
Proof. induction l as [|o l IH]; intros st st' H; cbn [fold_left]; [exact H|]. apply IH. apply cexec_fst. exact H. Qed.

Lemma run_send_proj l : forall r n, r_send (run l r) = fst (fold_left cexec (flat_map proj_send l) (r_send r, n)).
Proof.
  induction l as [|o l IH]; intros r n; [reflexivity|]. cbn [run fold_left flat_map]. fold (run l (exec r o)). rewrite fold_left_app.
  rewrite (IH (exec r o) n). apply fold_cexec_fst.
  destruct o; cbn [proj_send fold_left exec cexec fst]; try reflexivity;
    try (destruct r; cbn; repeat match goal with |- context [if ?c then _ else _] => destruct c | |- context [match ?c with Some _ => _ | None => _ end] => destruct c end; reflexivity).
Qed.

Lemma run_shard_proj l : forall r n, r_shard (run l r) = fst (fold_left cexec (flat_map proj_shard l) (r_shard r, n)).
Proof.
  induction l as [|o l IH]; intros r n; [reflexivity|]. cbn [run fold_left flat_map]. fold (run l (exec r o)). rewrite fold_left_app.
  rewrite (IH (exec r o) n). apply fold_cexec_fst.
  destruct o; cbn [proj_shard fold_left exec cexec fst]; try reflexivity;
    try (destruct r; cbn; repeat match goal with |- context [if ?c then _ else _] => destruct c | |- context [match ?c with Some _ => _ | None => _ end] => destruct c end; reflexivity).
Qed.

(* any operation sequence whatsoever (any number of sender and receiver incarnations, replays, any interleaving): if the
   last registration of a delivery channel is incarnation i's and i's own cleanup does not follow it, the channel
   registered at the end is i's; the same for the ownership entry.  No cleanup of another incarnation can remove it. *)
Theorem sender_newest_survives_unbounded pre i post r :
  no_set (flat_map proj_send post) -> no_del i (flat_map proj_send post) ->
  r_send (run (pre ++ SetSend i :: post) r) = Some i.
Proof.
  intros Hs Hd. rewrite (run_send_proj _ r 0). rewrite flat_map_app. cbn [flat_map proj_send app].
  apply cond_registry_last_set_survives; assumption.
Qed.

Theorem shard_newest_survives_unbounded pre i post r :
  no_set (flat_map proj_shard post) -> no_del i (flat_map proj_shard post) ->
  r_shard (run (pre ++ RegShard i :: post) r) = Some i.
Proof.
  intros Hs Hd. rewrite (run_shard_proj _ r 0). rewrite flat_map_app. cbn [flat_map proj_shard app].
  apply cond_registry_last_set_survives; assumption.
Qed.

(* with the recover guard in place no sequence of operations crashes *)
Fixpoint all_guarded (l : list op) : Prop :=
  match l with [] => True | ReplaySend _ g :: rest => g = true /\ all_guarded rest | _ :: rest => all_guarded rest end.
Theorem guarded_never_crashes l : forall r, all_guarded l -> crashed r = false -> crashed (run l r) = false.
Proof.
  induction l as [|o l IH]; intros r Hg Hc; [exact Hc|]. cbn [run fold_left]. fold (run l (exec r o)).
  apply IH; [destruct o; cbn [all_guarded] in Hg; try exact Hg; destruct Hg as [_ Hg]; exact Hg|].
  destruct o; cbn [exec]; try exact Hc;
    try (repeat match goal with |- context [if ?c then _ else _] => destruct c | |- context [match ?c with Some _ => _ | None => _ end] => destruct c end; cbn; exact Hc).
  cbn [all_guarded] in Hg. destruct Hg as [-> _].
  repeat match goal with |- context [if ?c then _ else _] => destruct c | |- context [match ?c with Some _ => _ | None => _ end] => destruct c end; cbn; exact Hc.
Qed.
