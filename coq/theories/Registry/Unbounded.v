(* The receiver-side registries for ANY number of incarnations and ANY interleaving.
   Premise (the one the property states): incarnations start one after the other - once incarnation j has published its
   acknowledgement channel, no other incarnation is in its registration sequence (a newer one that is, is "the newest" of
   the statement instead).  Cleanups of every other incarnation - arbitrarily many, arbitrarily late, interleaved at the
   granularity of critical sections, blocked or not by activeReceiversMu - may happen anywhere. *)
From Coq Require Import List Arith Bool Lia.
From S2S Require Import Registry.Model.
Import ListNotations.

(* every operation is enabled when it is executed (activeReceiversMu is respected, Await waits for its Mark) *)
Fixpoint valid (l : list op) (r : reg) : Prop :=
  match l with
  | [] => True
  | o :: t => enabled r o = true /\ valid t (exec r o)
  end.

Lemma valid_app l1 : forall l2 r, valid (l1 ++ l2) r <-> valid l1 r /\ valid l2 (run l1 r).
Proof.
  induction l1 as [|o l1 IH]; intros l2 r; cbn [app valid run fold_left].
  - tauto.
  - fold (run l1 (exec r o)). rewrite IH. tauto.
Qed.

Lemma run_app l1 l2 r : run (l1 ++ l2) r = run l2 (run l1 r).
Proof. unfold run. apply fold_left_app. Qed.

(* every execution of every set of threads is a valid run of its linearisation *)
Lemma Execution_valid_run ths r l r' : Execution ths r l r' -> valid l r /\ run l r = r'.
Proof.
  induction 1 as [ths r _|pre o t post r l r' He _ IH]; [split; [exact I|reflexivity]|].
  destruct IH as [Hv Hr]. split; [split; assumption|exact Hr].
Qed.

(* what the other incarnations (and the sender side, replays, scenario marks) may do once j has published its channel *)
Definition quiet (j : nat) (o : op) : Prop :=
  match o with
  | TermGet _ | TermRemCancel _ | TermRemAck _ | SetAck _ | RegRecv1 _ | RegRecv2 _ => False
  | RemAck i | UnregRecv1 i | UnregRecv2 i => i <> j
  | _ => True
  end.

Lemma is_same i : is (Some i) i = true.
Proof. apply Nat.eqb_refl. Qed.

Lemma is_other j i : i <> j -> is (Some j) i = false.
Proof. intros H. apply Nat.eqb_neq. intros E. apply H. symmetry. exact E. Qed.

(* phase A: the channel is published *)
Definition phA (j : nat) (r : reg) : Prop := r_ack r = Some j.
(* phase B: inside RegisterLocalReceiver, holding activeReceiversMu *)
Definition phB (j : nat) (r : reg) : Prop := r_ack r = Some j /\ r_cancel r = Some j /\ amu r = Some j.
(* phase C: registered *)
Definition phC (j : nat) (r : reg) : Prop := r_ack r = Some j /\ r_cancel r = Some j /\ r_active r = Some j /\ amu r = None.

Ltac cases :=
  repeat match goal with
         | |- context [if ?c then _ else _] => destruct c eqn:?
         | |- context [match ?c with Some _ => _ | None => _ end] => destruct c eqn:?
         end.

Lemma stepA j o r : quiet j o -> phA j r -> phA j (exec r o).
Proof.
  unfold phA. intros Hq Ha. destruct o; cbn [quiet] in Hq; try contradiction; cbn [exec]; cases; cbn; try exact Ha.
  (* RemAck i, i <> j, matched: impossible *)
  rewrite Ha, (is_other j _ Hq) in *. discriminate.
Qed.

Lemma stepB j o r : quiet j o -> enabled r o = true -> phB j r -> phB j (exec r o).
Proof.
  unfold phB. intros Hq He (Ha & Hc & Hm).
  destruct o; cbn [quiet] in Hq; try contradiction; cbn [exec]; cases; cbn; try (repeat split; assumption).
  - rewrite Ha, (is_other j _ Hq) in *. discriminate.
  - (* UnregRecv1 needs the lock that j holds *) cbn [enabled] in He. rewrite Hm in He. discriminate.
  - rewrite Hm, (is_other j _ Hq) in *. discriminate.
Qed.

Lemma stepC j o r : quiet j o -> phC j r -> phC j (exec r o).
Proof.
  unfold phC. intros Hq (Ha & Hc & Hv & Hm).
  destruct o; cbn [quiet] in Hq; try contradiction; cbn [exec]; cases; cbn; try (repeat split; assumption).
  - rewrite Ha, (is_other j _ Hq) in *. discriminate.
  - rewrite Hv, (is_other j _ Hq) in *. discriminate.
  - rewrite Hm in *. cbn in *. discriminate.
Qed.

Lemma runA j l : forall r, Forall (quiet j) l -> phA j r -> phA j (run l r).
Proof.
  induction l as [|o l IH]; intros r Hq Ha; [exact Ha|]. inversion Hq; subst. cbn [run fold_left]. fold (run l (exec r o)).
  apply IH; [assumption|apply stepA; assumption].
Qed.
Lemma runB j l : forall r, Forall (quiet j) l -> valid l r -> phB j r -> phB j (run l r).
Proof.
  induction l as [|o l IH]; intros r Hq Hv Hb; [exact Hb|]. inversion Hq; subst. destruct Hv as [He Hv]. cbn [run fold_left]. fold (run l (exec r o)).
  apply IH; [assumption|exact Hv|apply stepB; assumption].
Qed.
Lemma runC j l : forall r, Forall (quiet j) l -> phC j r -> phC j (run l r).
Proof.
  induction l as [|o l IH]; intros r Hq Hc; [exact Hc|]. inversion Hq; subst. cbn [run fold_left]. fold (run l (exec r o)).
  apply IH; [assumption|apply stepC; assumption].
Qed.

(* ANY operation sequence that respects the lock - any number of sender and receiver incarnations, any interleaving of
   their critical sections: if incarnation j publishes its channel and registers, and from the publication on every other
   incarnation only cleans up, then at the end every receiver-side entry is j's and the lock is free.  No cleanup of
   another incarnation, however late or however interleaved, removes or replaces any of them. *)
Theorem receiver_newest_survives_unbounded pre mid1 mid2 post j r :
  valid (pre ++ SetAck j :: mid1 ++ RegRecv1 j :: mid2 ++ RegRecv2 j :: post) r ->
  Forall (quiet j) mid1 -> Forall (quiet j) mid2 -> Forall (quiet j) post ->
  let r' := run (pre ++ SetAck j :: mid1 ++ RegRecv1 j :: mid2 ++ RegRecv2 j :: post) r in
  r_ack r' = Some j /\ r_cancel r' = Some j /\ r_active r' = Some j /\ amu r' = None.
Proof.
  intros Hv Q1 Q2 Q3. cbv zeta.
  apply valid_app in Hv. destruct Hv as [_ Hv]. rewrite run_app. set (r0 := run pre r) in *.
  cbn [valid] in Hv. destruct Hv as [_ Hv]. cbn [run fold_left]. fold (run (mid1 ++ RegRecv1 j :: mid2 ++ RegRecv2 j :: post) (exec r0 (SetAck j))).
  set (r1 := exec r0 (SetAck j)) in *.
  assert (A1 : phA j r1) by reflexivity.
  apply valid_app in Hv. destruct Hv as [_ Hv]. rewrite run_app.
  pose proof (runA j mid1 r1 Q1 A1) as A2. set (r2 := run mid1 r1) in *.
  cbn [valid] in Hv. destruct Hv as [He Hv]. cbn [run fold_left]. fold (run (mid2 ++ RegRecv2 j :: post) (exec r2 (RegRecv1 j))).
  set (r3 := exec r2 (RegRecv1 j)) in *.
  assert (B3 : phB j r3) by (unfold phB, r3; cbn; repeat split; try reflexivity; exact A2).
  apply valid_app in Hv. destruct Hv as [Hv2 Hv]. rewrite run_app.
  pose proof (runB j mid2 r3 Q2 Hv2 B3) as B4. set (r4 := run mid2 r3) in *.
  cbn [run fold_left]. fold (run post (exec r4 (RegRecv2 j))).
  set (r5 := exec r4 (RegRecv2 j)) in *.
  assert (C5 : phC j r5) by (destruct B4 as (X1 & X2 & X3); unfold phC, r5; cbn; repeat split; try reflexivity; assumption).
  exact (runC j post r5 Q3 C5).
Qed.

(* the same for every execution of every set of threads whose linearisation has that shape *)
Corollary receiver_newest_survives_every_execution ths r l r' pre mid1 mid2 post j :
  Execution ths r l r' ->
  l = pre ++ SetAck j :: mid1 ++ RegRecv1 j :: mid2 ++ RegRecv2 j :: post ->
  Forall (quiet j) mid1 -> Forall (quiet j) mid2 -> Forall (quiet j) post ->
  r_ack r' = Some j /\ r_cancel r' = Some j /\ r_active r' = Some j /\ amu r' = None.
Proof.
  intros Hex -> Q1 Q2 Q3. destruct (Execution_valid_run _ _ _ _ Hex) as [Hv Hr]. subst r'.
  exact (receiver_newest_survives_unbounded pre mid1 mid2 post j r Hv Q1 Q2 Q3).
Qed.

(* ---------- once the newest incarnation ends as well, nothing remains ---------- *)
(* after j's own cleanup, whatever the others still do (cleanups only), every receiver-side entry is empty *)
Definition quiet_all (o : op) : Prop :=
  match o with
  | TermGet _ | TermRemCancel _ | TermRemAck _ | SetAck _ | RegRecv1 _ | RegRecv2 _ => False
  | _ => True
  end.

Definition phD (j : nat) (r : reg) : Prop := r_ack r = None /\ r_cancel r = Some j /\ r_active r = Some j /\ amu r = None.
Definition phE (j : nat) (r : reg) : Prop := r_ack r = None /\ r_cancel r = Some j /\ r_active r = None /\ amu r = Some j.
Definition phF (r : reg) : Prop := r_ack r = None /\ r_cancel r = None /\ r_active r = None /\ amu r = None.

Lemma stepD j o r : quiet j o -> phD j r -> phD j (exec r o).
Proof.
  unfold phD. intros Hq (Ha & Hc & Hv & Hm).
  destruct o; cbn [quiet] in Hq; try contradiction; cbn [exec]; cases; cbn; try (repeat split; assumption).
  - rewrite Hv, (is_other j _ Hq) in *. discriminate.
  - rewrite Hm in *. cbn in *. discriminate.
Qed.
Lemma stepE j o r : quiet j o -> enabled r o = true -> phE j r -> phE j (exec r o).
Proof.
  unfold phE. intros Hq He (Ha & Hc & Hv & Hm).
  destruct o; cbn [quiet] in Hq; try contradiction; cbn [exec]; cases; cbn; try (repeat split; assumption).
  - cbn [enabled] in He. rewrite Hm in He. discriminate.
  - rewrite Hm, (is_other j _ Hq) in *. discriminate.
Qed.
Lemma stepF o r : quiet_all o -> phF r -> phF (exec r o).
Proof.
  unfold phF. intros Hq (Ha & Hc & Hv & Hm).
  destruct o; cbn [quiet_all] in Hq; try contradiction; cbn [exec]; cases; cbn; try (repeat split; assumption);
    rewrite ?Ha, ?Hv, ?Hm in *; cbn in *; discriminate.
Qed.

Lemma runD j l : forall r, Forall (quiet j) l -> phD j r -> phD j (run l r).
Proof.
  induction l as [|o l IH]; intros r Hq Hd; [exact Hd|]. inversion Hq; subst. cbn [run fold_left]. fold (run l (exec r o)).
  apply IH; [assumption|apply stepD; assumption].
Qed.
Lemma runE j l : forall r, Forall (quiet j) l -> valid l r -> phE j r -> phE j (run l r).
Proof.
  induction l as [|o l IH]; intros r Hq Hv He; [exact He|]. inversion Hq; subst. destruct Hv as [Hen Hv]. cbn [run fold_left]. fold (run l (exec r o)).
  apply IH; [assumption|exact Hv|apply stepE; assumption].
Qed.
Lemma runF l : forall r, Forall quiet_all l -> phF r -> phF (run l r).
Proof.
  induction l as [|o l IH]; intros r Hq Hf; [exact Hf|]. inversion Hq; subst. cbn [run fold_left]. fold (run l (exec r o)).
  apply IH; [assumption|apply stepF; assumption].
Qed.

Theorem receiver_all_ended_empty_unbounded j r c1 c2 c3 c4 :
  phC j r ->
  valid (c1 ++ RemAck j :: c2 ++ UnregRecv1 j :: c3 ++ UnregRecv2 j :: c4) r ->
  Forall (quiet j) c1 -> Forall (quiet j) c2 -> Forall (quiet j) c3 -> Forall quiet_all c4 ->
  let r' := run (c1 ++ RemAck j :: c2 ++ UnregRecv1 j :: c3 ++ UnregRecv2 j :: c4) r in
  r_ack r' = None /\ r_cancel r' = None /\ r_active r' = None /\ amu r' = None.
Proof.
  intros C0 Hv Q1 Q2 Q3 Q4. cbv zeta.
  apply valid_app in Hv. destruct Hv as [_ Hv]. rewrite run_app.
  pose proof (runC j c1 r Q1 C0) as C1. set (r1 := run c1 r) in *.
  cbn [valid] in Hv. destruct Hv as [_ Hv]. cbn [run fold_left]. fold (run (c2 ++ UnregRecv1 j :: c3 ++ UnregRecv2 j :: c4) (exec r1 (RemAck j))).
  set (r2 := exec r1 (RemAck j)) in *.
  assert (D2 : phD j r2).
  { destruct C1 as (X1 & X2 & X3 & X4). unfold phD, r2. cbn [exec]. rewrite X1, is_same. cbn. repeat split; assumption. }
  apply valid_app in Hv. destruct Hv as [_ Hv]. rewrite run_app.
  pose proof (runD j c2 r2 Q2 D2) as D3. set (r3 := run c2 r2) in *.
  cbn [valid] in Hv. destruct Hv as [_ Hv]. cbn [run fold_left]. fold (run (c3 ++ UnregRecv2 j :: c4) (exec r3 (UnregRecv1 j))).
  set (r4 := exec r3 (UnregRecv1 j)) in *.
  assert (E4 : phE j r4).
  { destruct D3 as (X1 & X2 & X3 & X4). unfold phE, r4. cbn [exec]. rewrite X3, is_same. cbn. repeat split; assumption. }
  apply valid_app in Hv. destruct Hv as [Hv3 Hv]. rewrite run_app.
  pose proof (runE j c3 r4 Q3 Hv3 E4) as E5. set (r5 := run c3 r4) in *.
  cbn [run fold_left]. fold (run c4 (exec r5 (UnregRecv2 j))).
  set (r6 := exec r5 (UnregRecv2 j)) in *.
  assert (F6 : phF r6).
  { destruct E5 as (X1 & X2 & X3 & X4). unfold phF, r6. cbn [exec]. rewrite X4, is_same. cbn. repeat split; assumption. }
  exact (runF c4 r6 Q4 F6).
Qed.

(* non-vacuity: five incarnations, the first four cleaning up in an interleaved fashion around the registration of the
   fifth; the shape and the premises of the theorem are met and the run is valid *)
Example unbounded_premises_met :
  let pre := receiver_register 0 ++ receiver_register 1 ++ receiver_register 2 ++ receiver_register 3 ++ [RemAck 1; TermGet 4; TermRemCancel 4; TermRemAck 4] in
  let mid1 := [RemAck 0; UnregRecv1 3; UnregRecv2 3] in
  let mid2 := [RemAck 2; UnregRecv2 1] in
  let post := [UnregRecv1 0; UnregRecv2 0; RemAck 3; UnregRecv1 2; UnregRecv2 2; UnregRecv1 1] in
  valid (pre ++ SetAck 4 :: mid1 ++ RegRecv1 4 :: mid2 ++ RegRecv2 4 :: post) empty_reg
  /\ Forall (quiet 4) mid1 /\ Forall (quiet 4) mid2 /\ Forall (quiet 4) post.
Proof.
  cbv zeta. split; [vm_compute; tauto|].
  repeat split; repeat constructor; cbn; discriminate.
Qed.
