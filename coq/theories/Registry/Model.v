(* Model of the per-shard registries of shardManagerImpl (proxy/shard_manager.go) as used by successive incarnations of
   the routing stream pair of one shard (proxyStreamSender.Run / proxyStreamReceiver.Run in proxy/proxy_streams.go).
   An operation is one critical section of the code (one Lock..Unlock region), executed atomically; an execution is an
   interleaving of the incarnations' programs.  Values in the registries are incarnation numbers. *)
From Coq Require Import List Arith Bool.
Import ListNotations.

Record reg := {
  r_shard : option nat;     (* localShards[s]: registration stamp of incarnation i *)
  r_send : option nat;      (* remoteSendChannels[s] *)
  r_ack : option nat;       (* localAckChannels[s] *)
  r_cancel : option nat;    (* localReceiverCancelFuncs[s] *)
  r_active : option nat;    (* activeReceivers[s] *)
  amu : option nat;         (* holder of activeReceiversMu across the two nested critical sections of Register/UnregisterLocalReceiver *)
  closed : list nat;        (* incarnations whose send channel has been closed *)
  cancelled : list nat;     (* incarnations whose receiver context has been cancelled by a successor *)
  seen_prev : list nat;     (* incarnations j whose TerminatePrevious found a cancel function *)
  got : list (nat * nat);   (* (k, i): watermark replay k fetched incarnation i's send channel *)
  delivered : list (nat * nat); (* (k, i): replay k put its watermark into incarnation i's (open) channel *)
  crashed : bool;           (* a send on a closed channel without a recover guard *)
  marks : list nat          (* scenario bookkeeping: points reached (Mark), awaited by Await *)
}.

Definition empty_reg : reg :=
  {| r_shard := None; r_send := None; r_ack := None; r_cancel := None; r_active := None; amu := None; closed := [];
     cancelled := []; seen_prev := []; got := []; delivered := []; crashed := false; marks := [] |}.

Inductive op :=
(* sender incarnation i *)
| SetSend (i : nat)          (* SetRemoteSendChan(s, ch_i) *)
| RegShard (i : nat)         (* RegisterShard -> addLocalShard: localShards[s] := stamp_i *)
| CloseCh (i : nat)          (* close(sendMsgChan) at the end of Run *)
| UnregShard (i : nat)       (* UnregisterShard(s, stamp_i): delete iff the stamp is still i's (one conditional delete, fix F3) *)
| RemSend (i : nat)          (* RemoveRemoteSendChan(s, ch_i): delete iff the channel is still i's *)
(* receiver incarnation j *)
| TermGet (j : nat)          (* TerminatePreviousLocalReceiver: read the cancel function, call it *)
| TermRemCancel (j : nat)    (* ... RemoveLocalReceiverCancelFunc (unconditional), only when one was found *)
| TermRemAck (j : nat)       (* ... forceRemoveLocalAckChan (unconditional), only when one was found *)
| SetAck (j : nat)           (* SetLocalAckChan(s, ack_j) *)
| RegRecv1 (j : nat)         (* RegisterLocalReceiver: take activeReceiversMu; cancel := j (inner critical section) *)
| RegRecv2 (j : nat)         (* ... active := j; release activeReceiversMu *)
| RemAck (j : nat)           (* RemoveLocalAckChan(s, ack_j): conditional *)
| UnregRecv1 (j : nat)       (* UnregisterLocalReceiver: take activeReceiversMu; iff active = j: delete active, keep the lock *)
| UnregRecv2 (j : nat)       (* ... (only when it matched) delete cancel; release activeReceiversMu *)
(* a receiver replays its pending watermark to the shard's channel (NotifyNewTargetShard) *)
| ReplayGet (k : nat)        (* GetRemoteSendChan *)
| ReplaySend (k : nat) (guarded : bool)   (* non-blocking send on the fetched channel, inside a recover guard (fix F5) or not *)
(* scenario structure: "incarnation n+1 connects once incarnation n has registered" *)
| Mark (n : nat)
| Await (n : nat).

Definition is (o : option nat) (i : nat) : bool := match o with Some x => Nat.eqb x i | None => false end.
Definition mem (i : nat) (l : list nat) : bool := existsb (Nat.eqb i) l.
Fixpoint lookup (k : nat) (l : list (nat * nat)) : option nat :=
  match l with [] => None | (a, b) :: t => if Nat.eqb a k then Some b else lookup k t end.

Definition upd (r : reg) (sh se ac ca av mu : option nat) : reg :=
  {| r_shard := sh; r_send := se; r_ack := ac; r_cancel := ca; r_active := av; amu := mu; closed := closed r;
     cancelled := cancelled r; seen_prev := seen_prev r; got := got r; delivered := delivered r; crashed := crashed r; marks := marks r |}.
Definition ghost (r : reg) (cl ca sp : list nat) (g d : list (nat * nat)) (cr : bool) : reg :=
  {| r_shard := r_shard r; r_send := r_send r; r_ack := r_ack r; r_cancel := r_cancel r; r_active := r_active r; amu := amu r;
     closed := cl; cancelled := ca; seen_prev := sp; got := g; delivered := d; crashed := cr; marks := marks r |}.

(* an operation that needs activeReceiversMu waits while another thread holds it *)
Definition enabled (r : reg) (o : op) : bool :=
  match o with
  | RegRecv1 _ | UnregRecv1 _ => match amu r with None => true | Some _ => false end
  | Await n => mem n (marks r)
  | _ => true
  end.

Definition exec (r : reg) (o : op) : reg :=
  match o with
  | SetSend i => upd r (r_shard r) (Some i) (r_ack r) (r_cancel r) (r_active r) (amu r)
  | RegShard i => upd r (Some i) (r_send r) (r_ack r) (r_cancel r) (r_active r) (amu r)
  | CloseCh i => ghost r (i :: closed r) (cancelled r) (seen_prev r) (got r) (delivered r) (crashed r)
  | UnregShard i => if is (r_shard r) i then upd r None (r_send r) (r_ack r) (r_cancel r) (r_active r) (amu r) else r
  | RemSend i => if is (r_send r) i then upd r (r_shard r) None (r_ack r) (r_cancel r) (r_active r) (amu r) else r
  | TermGet j =>
      match r_cancel r with
      | Some i => ghost r (closed r) (i :: cancelled r) (j :: seen_prev r) (got r) (delivered r) (crashed r)
      | None => r
      end
  | TermRemCancel j => if mem j (seen_prev r) then upd r (r_shard r) (r_send r) (r_ack r) None (r_active r) (amu r) else r
  | TermRemAck j => if mem j (seen_prev r) then upd r (r_shard r) (r_send r) None (r_cancel r) (r_active r) (amu r) else r
  | SetAck j => upd r (r_shard r) (r_send r) (Some j) (r_cancel r) (r_active r) (amu r)
  | RegRecv1 j => upd r (r_shard r) (r_send r) (r_ack r) (Some j) (r_active r) (Some j)
  | RegRecv2 j => upd r (r_shard r) (r_send r) (r_ack r) (r_cancel r) (Some j) None
  | RemAck j => if is (r_ack r) j then upd r (r_shard r) (r_send r) None (r_cancel r) (r_active r) (amu r) else r
  | UnregRecv1 j => if is (r_active r) j then upd r (r_shard r) (r_send r) (r_ack r) (r_cancel r) None (Some j) else r
  | UnregRecv2 j => if is (amu r) j then upd r (r_shard r) (r_send r) (r_ack r) None (r_active r) None else r
  | ReplayGet k =>
      match r_send r with
      | Some i => ghost r (closed r) (cancelled r) (seen_prev r) ((k, i) :: got r) (delivered r) (crashed r)
      | None => r
      end
  | ReplaySend k guarded =>
      match lookup k (got r) with
      | Some i =>
          if mem i (closed r)
          then (if guarded then r else ghost r (closed r) (cancelled r) (seen_prev r) (got r) (delivered r) true)
          else ghost r (closed r) (cancelled r) (seen_prev r) (got r) ((k, i) :: delivered r) (crashed r)
      | None => r
      end
  | Mark n =>
      {| r_shard := r_shard r; r_send := r_send r; r_ack := r_ack r; r_cancel := r_cancel r; r_active := r_active r; amu := amu r;
         closed := closed r; cancelled := cancelled r; seen_prev := seen_prev r; got := got r; delivered := delivered r;
         crashed := crashed r; marks := n :: marks r |}
  | Await _ => r
  end.

Definition run (l : list op) (r : reg) : reg := fold_left exec l r.

(* ---------- the calls of the shard manager's interface, as sequences of critical sections ---------- *)
Inductive call :=
| CSetRemoteSendChan | CRegisterShard | CClose | CUnregisterShard | CRemoveRemoteSendChan
| CTerminatePreviousLocalReceiver | CSetLocalAckChan | CRegisterLocalReceiver | CRemoveLocalAckChan | CUnregisterLocalReceiver.

Definition ops_of_call (c : call) (i : nat) : list op :=
  match c with
  | CSetRemoteSendChan => [SetSend i]
  | CRegisterShard => [RegShard i]
  | CClose => [CloseCh i]
  | CUnregisterShard => [UnregShard i]
  | CRemoveRemoteSendChan => [RemSend i]
  | CTerminatePreviousLocalReceiver => [TermGet i; TermRemCancel i; TermRemAck i]
  | CSetLocalAckChan => [SetAck i]
  | CRegisterLocalReceiver => [RegRecv1 i; RegRecv2 i]
  | CRemoveLocalAckChan => [RemAck i]
  | CUnregisterLocalReceiver => [UnregRecv1 i; UnregRecv2 i]
  end.

(* programs of one incarnation, in the order proxyStreamSender.Run / proxyStreamReceiver.Run make the calls (the check
   compares these four lists with the call sequences it reads off the source of the two Run functions) *)
Definition sender_register_calls : list call := [CSetRemoteSendChan; CRegisterShard].
Definition sender_cleanup_calls : list call := [CClose; CUnregisterShard; CRemoveRemoteSendChan].
Definition receiver_register_calls : list call := [CTerminatePreviousLocalReceiver; CSetLocalAckChan; CRegisterLocalReceiver].
Definition receiver_cleanup_calls : list call := [CRemoveLocalAckChan; CUnregisterLocalReceiver].
Definition prog (cs : list call) (i : nat) : list op := flat_map (fun c => ops_of_call c i) cs.
Definition sender_register (i : nat) : list op := prog sender_register_calls i.
Definition sender_cleanup (i : nat) : list op := prog sender_cleanup_calls i.
Definition receiver_register (j : nat) : list op := prog receiver_register_calls j.
Definition receiver_cleanup (j : nat) : list op := prog receiver_cleanup_calls j.
Definition replay (k : nat) (guarded : bool) : list op := [ReplayGet k; ReplaySend k guarded].

(* ---------- executions: interleavings of the threads' programs that respect the lock ---------- *)
Inductive Execution : list (list op) -> reg -> list op -> reg -> Prop :=
| Ex_done ths r : Forall (fun t => t = []) ths -> Execution ths r [] r
| Ex_step pre o t post r l r' :
    enabled r o = true -> Execution (pre ++ t :: post) (exec r o) l r' -> Execution (pre ++ (o :: t) :: post) r (o :: l) r'.

(* the possible next steps: (operation, remaining threads) *)
Fixpoint picks (pre post : list (list op)) : list (op * list (list op)) :=
  match post with
  | [] => []
  | [] :: rest => picks (pre ++ [[]]) rest
  | (o :: t) :: rest => (o, pre ++ t :: rest) :: picks (pre ++ [o :: t]) rest
  end.

(* ---------- breadth-first exploration of every execution, configurations deduplicated ---------- *)
Definition cfg := (list (list op) * reg)%type.

Definition op_eq_dec (a b : op) : {a = b} + {a <> b}.
Proof. decide equality; try apply Nat.eq_dec; apply Bool.bool_dec. Defined.
Definition reg_eq_dec (a b : reg) : {a = b} + {a <> b}.
Proof.
  decide equality; try apply Bool.bool_dec; try (apply list_eq_dec; try apply Nat.eq_dec; decide equality; apply Nat.eq_dec);
    decide equality; apply Nat.eq_dec.
Defined.
Definition cfg_eq_dec (a b : cfg) : {a = b} + {a <> b}.
Proof. decide equality; [apply reg_eq_dec|apply list_eq_dec; apply list_eq_dec; apply op_eq_dec]. Defined.

Definition succs (c : cfg) : list cfg :=
  flat_map (fun p => if enabled (snd c) (fst p) then [(snd p, exec (snd c) (fst p))] else []) (picks [] (fst c)).

(* a configuration is fine when it is final and satisfies P, or it is not final and some thread can move (no deadlock) *)
Definition cfg_ok (P : reg -> bool) (c : cfg) : bool :=
  match picks [] (fst c) with
  | [] => P (snd c)
  | _ => match succs c with [] => false | _ => true end
  end.

Fixpoint bfs (fuel : nat) (P : reg -> bool) (cs : list cfg) : bool :=
  forallb (cfg_ok P) cs &&
  match flat_map succs cs with
  | [] => true
  | next => match fuel with O => false | S f => bfs f P (nodup cfg_eq_dec next) end
  end.

Definition total_ops (ths : list (list op)) : nat := fold_right (fun t n => length t + n) 0 ths.
Definition explore_all (P : reg -> bool) (ths : list (list op)) (r : reg) : bool := bfs (total_ops ths) P [(ths, r)].

(* the final states of all executions, for the correspondence check *)
Fixpoint finals (fuel : nat) (cs : list cfg) : list reg :=
  map snd (filter (fun c => match picks [] (fst c) with [] => true | _ => false end) cs) ++
  match flat_map succs cs with
  | [] => []
  | next => match fuel with O => [] | S f => finals f (nodup cfg_eq_dec next) end
  end.
Definition outcomes (ths : list (list op)) (r : reg) : list reg := nodup reg_eq_dec (finals (total_ops ths) [(ths, r)]).
(* configurations in which threads remain but none can move *)
Fixpoint deadlocks (fuel : nat) (cs : list cfg) : list cfg :=
  filter (fun c => match picks [] (fst c), succs c with _ :: _, [] => true | _, _ => false end) cs ++
  match flat_map succs cs with
  | [] => []
  | next => match fuel with O => [] | S f => deadlocks f (nodup cfg_eq_dec next) end
  end.

Definition all_some (r : reg) (i : nat) : bool :=
  is (r_shard r) i && is (r_send r) i && is (r_ack r) i && is (r_cancel r) i && is (r_active r) i.

(* incarnation 0 fully registered *)
Definition registered0 : reg := run (sender_register 0 ++ receiver_register 0) empty_reg.
