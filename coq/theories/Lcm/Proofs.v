From Coq Require Import List ZArith Bool Lia Znumtheory.
From S2S Require Import Base.MachineInt Lcm.Model.
Import ListNotations.
Open Scope Z_scope.

Lemma gcd_loop_correct fuel : forall a b,
  0 <= a -> 0 <= b -> (Z.to_nat b < fuel)%nat -> gcd_loop fuel a b = Z.gcd a b.
Proof.
  induction fuel as [|f IH]; intros a b Ha Hb Hf; [lia|].
  cbn [gcd_loop]. destruct (Z.eqb_spec b 0) as [->|Hnz].
  - rewrite Z.gcd_0_r. rewrite Z.abs_eq; lia.
  - rewrite Z.rem_mod_nonneg by lia.
    pose proof (Z.mod_pos_bound a b ltac:(lia)) as Hm.
    rewrite IH by lia.
    rewrite Z.gcd_comm. rewrite Z.gcd_mod by lia. apply Z.gcd_comm.
Qed.

Theorem gcd32_correct a b : 0 < a -> 0 < b -> gcd32 a b = Z.gcd a b.
Proof.
  intros Ha Hb. unfold gcd32.
  destruct (Z.eqb_spec a 0); [lia|]. destruct (Z.eqb_spec b 0); [lia|]. cbn [orb].
  destruct (Z.gtb_spec a b).
  - rewrite gcd_loop_correct by lia. apply Z.gcd_comm.
  - apply gcd_loop_correct; lia.
Qed.

Theorem lcm32_correct a b :
  0 < a -> 0 < b -> a * b <= max_int32 -> lcm32 a b = Z.lcm a b.
Proof.
  intros Ha Hb Hp. unfold lcm32.
  destruct (Z.eqb_spec a 0); [lia|]. destruct (Z.eqb_spec b 0); [lia|]. cbn [orb].
  rewrite gcd32_correct by lia.
  rewrite wrap32_id by (unfold is_int32, min_int32, max_int32 in *; nia).
  assert (Hg : 0 < Z.gcd a b).
  { pose proof (Z.gcd_nonneg a b). destruct (Z.eq_dec (Z.gcd a b) 0) as [E|]; [|lia].
    apply Z.gcd_eq_0_l in E. lia. }
  rewrite Z.quot_div_nonneg by nia.
  unfold Z.lcm.
  rewrite Z.abs_eq.
  - apply Z.divide_div_mul_exact; [lia|apply Z.gcd_divide_r].
  - apply Z.mul_nonneg_nonneg; [lia|]. apply Z.div_pos; lia.
Qed.

Lemma lcm_pos a b : 0 < a -> 0 < b -> 0 < Z.lcm a b.
Proof.
  intros Ha Hb. pose proof (Z.lcm_nonneg a b).
  destruct (Z.eq_dec (Z.lcm a b) 0) as [E|]; [|lia]. apply Z.lcm_eq_0 in E. lia.
Qed.

(* the unique real shard an LCM shard maps to *)
Theorem map_unique_divides L c s :
  0 < c -> (c | L) -> 1 <= s <= L ->
  map_unique L c s = Some ((s - 1) mod c + 1) /\ 1 <= (s - 1) mod c + 1 <= c.
Proof.
  intros Hc Hdiv Hs.
  assert (HL : c <= L) by (apply Z.divide_pos_le; [lia|exact Hdiv]).
  pose proof (Z.mod_pos_bound (s - 1) c Hc) as Hm.
  split; [|lia].
  unfold map_unique, map_shard_id.
  assert (Hrem : Z.rem L c = 0).
  { rewrite Z.rem_mod_nonneg by lia. apply Z.mod_divide; [lia|exact Hdiv]. }
  rewrite Hrem. cbn [Z.eqb negb andb].
  destruct (Z.ltb_spec L c); [lia|].
  destruct (Z.gtb_spec L c).
  - rewrite Z.rem_mod_nonneg by lia. try reflexivity.
  - assert (L = c) by lia. subst L.
    rewrite Z.mod_small by lia. reflexivity.
Qed.

(* every workflow hashing to LCM shard s is owned, under the serving cluster's own count,
   by the shard the stream is forwarded to *)
Theorem owner_consistent L c h s :
  0 < c -> 0 < L -> (c | L) -> 0 <= h ->
  owner_n h L = s -> owner_n h c = (s - 1) mod c + 1.
Proof.
  intros Hc HL Hdiv Hh <-. unfold owner_n.
  replace (h mod L + 1 - 1) with (h mod L) by lia.
  rewrite <- Zmod_div_mod by (auto; lia). reflexivity.
Qed.

(* the supported range: the int32 product does not wrap *)
Definition supported (n : Z) : Prop := 1 <= n <= 46340.

Lemma supported_product a b : supported a -> supported b -> a * b <= max_int32.
Proof. unfold supported, max_int32. intros. nia. Qed.

Theorem lcm_mode_consistent local remote inbound s :
  supported local -> supported remote ->
  let p := params local remote inbound in
  let c := p_target p in
  p_lcm p = Z.lcm local remote
  /\ (1 <= s <= p_lcm p ->
      forall cc ci sc,
        exists r, rewrite p ((cc, ci), (sc, s)) = Some ((cc, s), (sc, r))
                  /\ 1 <= r <= c
                  /\ forall h, 0 <= h -> owner_n h (p_lcm p) = s -> owner_n h c = r).
Proof.
  intros Hl Hr p c.
  assert (Hlcm : p_lcm p = Z.lcm local remote).
  { unfold p, params; cbn [p_lcm]. apply lcm32_correct; unfold supported in *; try lia.
    apply supported_product; assumption. }
  split; [exact Hlcm|]. intros Hs cc ci sc.
  assert (Hc : 0 < c) by (unfold c, p, params; cbn [p_target]; destruct inbound; unfold supported in *; lia).
  assert (Hdiv : (c | p_lcm p)).
  { rewrite Hlcm. unfold c, p, params; cbn [p_target].
    destruct inbound; [apply Z.divide_lcm_l|apply Z.divide_lcm_r]. }
  destruct (map_unique_divides (p_lcm p) c s Hc Hdiv Hs) as (Hmu & Hrange).
  exists ((s - 1) mod c + 1). split; [|split].
  - unfold rewrite. fold c. rewrite Hmu. reflexivity.
  - exact Hrange.
  - intros h Hh Ho. apply owner_consistent with (L := p_lcm p); auto.
    rewrite Hlcm. apply lcm_pos; unfold supported in *; lia.
Qed.

(* outside the supported range the int32 product wraps: 46341 * 46341 *)
Lemma lcm32_overflow_example : lcm32 65536 65537 <> Z.lcm 65536 65537.
Proof. vm_compute. discriminate. Qed.

Example lcm_example : lcm32 12 18 = 36 /\ map_unique 36 12 29 = Some 5 /\ map_unique 36 18 29 = Some 11.
Proof. vm_compute. repeat split. Qed.
