(* Executable model of LCM mode: common.GCD / common.LCM (int32), Temporal's MapShardID,
   mapShardIDUnique, the metadata rewrite of handleStream and the parameters each server gets
   (common/common.go, proxy/admin_stream_transfer.go, proxy/cluster_connection.go). *)
From Coq Require Import List ZArith Bool.
From S2S Require Import Base.MachineInt.
Import ListNotations.
Open Scope Z_scope.

(* for b != 0 { a, b = b, a % b } *)
Fixpoint gcd_loop (fuel : nat) (a b : Z) : Z :=
  match fuel with
  | O => a
  | S f => if b =? 0 then a else gcd_loop f b (Z.rem a b)
  end.

Definition gcd32 (a b : Z) : Z :=
  if (a =? 0) || (b =? 0) then 0
  else let '(x, y) := if a >? b then (b, a) else (a, b) in
       gcd_loop (S (Z.to_nat y)) x y.

(* a * b / GCD(a, b), product evaluated in int32, truncated division *)
Definition lcm32 (a b : Z) : Z :=
  if (a =? 0) || (b =? 0) then 0
  else Z.quot (wrap32 (a * b)) (gcd32 a b).

(* servercommon.MapShardID; None = panic *)
Definition map_shard_id (sc tc sid : Z) : option (list Z) :=
  if negb (Z.rem sc tc =? 0) && negb (Z.rem tc sc =? 0) then None
  else
    let sid0 := sid - 1 in
    if sc <? tc then
      let ratio := Z.quot tc sc in
      Some (map (fun i => sid0 + Z.of_nat i * sc + 1) (seq 0 (Z.to_nat ratio)))
    else if sc >? tc then Some [Z.rem sid0 tc + 1]
    else Some [sid0 + 1].

(* mapShardIDUnique; None = panic *)
Definition map_unique (sc tc sid : Z) : option Z :=
  match map_shard_id sc tc sid with
  | Some [r] => Some r
  | _ => None
  end.

(* shard ownership under a count: hash%uint32(n) + 1 *)
Definition owner_n (h n : Z) : Z := h mod n + 1.

Record lcm_params := { p_lcm : Z; p_target : Z }.

(* getLCMParameters: the inbound server serves the local cluster, the outbound one the remote *)
Definition params (local remote : Z) (inbound : bool) : lcm_params :=
  {| p_lcm := lcm32 local remote; p_target := if inbound then local else remote |}.

(* ((client cluster, client shard), (server cluster, server shard)) *)
Definition md := ((Z * Z) * (Z * Z))%type.

(* the LCM branch of handleStream: what is put into the outgoing metadata; None = panic *)
Definition rewrite (p : lcm_params) (m : md) : option md :=
  let '((cc, _), (sc, ss)) := m in
  match map_unique (p_lcm p) (p_target p) ss with
  | Some r => Some ((cc, ss), (sc, r))
  | None => None
  end.

(* DescribeCluster in LCM mode: the shard count shown to the caller *)
Definition described_count (p : lcm_params) (_real : Z) : Z := p_lcm p.
