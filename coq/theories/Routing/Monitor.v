(* Executable statement of "the proxy never acknowledges a task its target has not confirmed",
   evaluated on model states (ghost fields r_rcv / s_hist / s_acked), and concrete witnesses. *)
From Coq Require Import List ZArith Bool Arith.
From S2S Require Import Routing.Model.
Import ListNotations.
Open Scope Z_scope.

(* entry i of the history has proxy id i+1; it is confirmed once the target acknowledged a watermark above it *)
Fixpoint find_confirmed (sr : nat) (id : Z) (acked : Z) (pid : Z) (h : list rentry) : bool :=
  match h with
  | [] => false
  | e :: rest =>
      (e_task e && Nat.eqb (e_src e) sr && (e_val e =? id) && (pid <? acked))
      || find_confirmed sr id acked (pid + 1) rest
  end.

Definition confirmed (x : st) (sr : nat) (t : task) : bool :=
  match nth_error (sends x) (t_owner t) with
  | Some s => find_confirmed sr (t_id t) (s_acked s) 1 (s_hist s)
  | None => false
  end.

(* an acknowledgement [a] to source [sr] is unsafe in state [x] when some task of [sr] below [a]
   that the proxy received is not confirmed by the target stream it belongs to *)
Definition unsafe_ack (x : st) (o : out) : bool :=
  match o with
  | OSrc sr a =>
      match nth_error (recvs x) sr with
      | Some r => existsb (fun t => (t_id t <? a) && negb (confirmed x sr t)) (r_rcv r)
      | None => false
      end
  | OTgt _ _ _ => false
  end.

Fixpoint run_events (fix1 : bool) (x : st) (evs : list ev) : st * list (list out) :=
  match evs with
  | [] => (x, [])
  | e :: rest => let '(x1, o) := step fix1 x e in
                 let '(x2, os) := run_events fix1 x1 rest in (x2, o :: os)
  end.

(* does some event of the history emit an unsafe acknowledgement (checked in the state after the event)? *)
Fixpoint any_unsafe (fix1 : bool) (x : st) (evs : list ev) : bool :=
  match evs with
  | [] => false
  | e :: rest => let '(x1, o) := step fix1 x e in
                 existsb (unsafe_ack x1) o || any_unsafe fix1 x1 rest
  end.

Definition tk (id : Z) (owner : nat) : task := {| t_id := id; t_owner := owner; t_pay := id |}.

(* F1 (before the fix): two targets, task 5 -> T1, task 6 -> T0, T0 acknowledges: the source is told 6 *)
Definition f1_history : list ev :=
  [EConnect 0; EConnect 1; ESrc 0 [tk 5 1] 6; ESrc 0 [tk 6 0] 7; EAck 0 2].

(* F2a: target stream T1 breaks holding the unacknowledged task 5; after it reconnects, the acknowledgement
   of a later watermark by its next incarnation lets the minimum pass task 5 *)
Definition f2a_history : list ev :=
  [EConnect 0; EConnect 1; ESrc 0 [tk 5 1] 6; ESrc 0 [tk 6 0] 7; EBreakT 1; EConnect 1;
   ESrc 0 [] 7; EAck 1 1; EAck 0 2].

(* F2b: the source stream restarts; an acknowledgement derived from a ring entry of the previous incarnation
   reaches the new receiver, whose map does not contain the slow target T1 *)
Definition f2b_history : list ev :=
  [EConnect 0; EConnect 1; ESrc 0 [tk 35 1] 36; ESrc 0 [tk 45 0] 46; ERestartS 0; EAck 0 1].
