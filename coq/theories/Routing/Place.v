(* Exact placement (property C02): in every reachable state of every fault-free execution, for every source and target,
   the tasks of that source in what has been handed to the target's sender, followed by the receiver's pending group for
   that target, are EXACTLY the tasks received from the source that the target owns, in reception order.  Hence every
   received task is on its way to its owner exactly once and to nobody else. *)
From Coq Require Import List ZArith Bool Arith Lia.
From S2S Require Import Routing.Model Routing.Basic Routing.Delivery Routing.Monitor Routing.Inv.
Import ListNotations.
Open Scope Z_scope.

Definition is_task_of (sr : nat) (e : rentry) : bool := e_task e && Nat.eqb (e_src e) sr.
Definition tasks_of (sr : nat) (l : list rentry) : list Z := map e_val (filter (is_task_of sr) l).

Definition Place (x : st) : Prop :=
  forall sr r T s, recv_at x sr r -> send_at x T s ->
    tasks_of sr (L s) ++ map t_id (pend r T) = map t_id (owned_by T (r_rcv r)).

Lemma tasks_of_app sr l1 l2 : tasks_of sr (l1 ++ l2) = tasks_of sr l1 ++ tasks_of sr l2.
Proof. unfold tasks_of. rewrite filter_app, map_app. reflexivity. Qed.

Lemma tasks_of_te sr ts : tasks_of sr (map (te sr) ts) = map t_id ts.
Proof. unfold tasks_of. induction ts as [|t ts IH]; [reflexivity|]. cbn. unfold is_task_of at 1. cbn. rewrite Nat.eqb_refl. cbn. f_equal. exact IH. Qed.

Lemma tasks_of_te_other sr sr' ts : sr <> sr' -> tasks_of sr (map (te sr') ts) = [].
Proof.
  intros Hne. unfold tasks_of. induction ts as [|t ts IH]; [reflexivity|]. cbn. unfold is_task_of at 1. cbn.
  destruct (Nat.eqb_spec sr' sr) as [E|_]; [congruence|]. cbn. exact IH.
Qed.

Lemma tasks_of_chan_entries_wm sr c : c_tasks c = [] -> tasks_of sr (chan_entries c) = [].
Proof. intros H. unfold chan_entries. rewrite H. reflexivity. Qed.

Lemma owned_by_app T l1 l2 : owned_by T (l1 ++ l2) = owned_by T l1 ++ owned_by T l2.
Proof. unfold owned_by. apply filter_app. Qed.

(* the pending group of a target, as a list *)
Lemma pend_nokey ps T : ~ In T (map fst ps) -> flat_map (fun p : nat * cmsg => if Nat.eqb (fst p) T then c_tasks (snd p) else []) ps = [].
Proof.
  induction ps as [|[k c] ps IH]; intros H; [reflexivity|]. cbn [flat_map fst snd]. cbn [map fst] in H.
  destruct (Nat.eqb_spec k T) as [->|Hne]; [exfalso; apply H; left; reflexivity|]. cbn. apply IH. intros Hin. apply H. right. exact Hin.
Qed.

Lemma pend_groups sr gs T : NoDup (map fst gs) ->
  flat_map (fun p : nat * cmsg => if Nat.eqb (fst p) T then c_tasks (snd p) else [])
           (map (fun g : nat * list task => (fst g, {| c_src := sr; c_tasks := snd g; c_high := last_id (snd g) + 1 |})) gs) = gget T gs.
Proof.
  induction gs as [|[k l] gs IH]; intros Hnd; [reflexivity|]. cbn [map fst snd flat_map gget c_tasks]. cbn [map fst] in Hnd. inversion Hnd as [|? ? Hnin Hnd']; subst.
  rewrite (Nat.eqb_sym T k). destruct (Nat.eqb_spec k T) as [->|Hne].
  - rewrite pend_nokey; [apply app_nil_r|]. rewrite map_map. cbn. exact Hnin.
  - cbn. apply IH. exact Hnd'.
Qed.

Lemma take_group_pend T : forall ps c rest, take_group T ps = Some (c, rest) -> NoDup (map fst ps) ->
  forall T', flat_map (fun p : nat * cmsg => if Nat.eqb (fst p) T' then c_tasks (snd p) else []) ps =
             if Nat.eqb T' T then c_tasks c else flat_map (fun p : nat * cmsg => if Nat.eqb (fst p) T' then c_tasks (snd p) else []) rest.
Proof.
  induction ps as [|[k c0] ps IH]; intros c rest H Hnd T'; cbn [take_group] in H; [discriminate|].
  cbn [map fst] in Hnd. inversion Hnd as [|? ? Hnin Hnd']; subst.
  destruct (Nat.eqb_spec T k) as [<-|Hne].
  - inversion H; subst. cbn [flat_map fst snd]. rewrite (Nat.eqb_sym T' T). destruct (Nat.eqb_spec T T') as [->|Hn2].
    + rewrite pend_nokey by exact Hnin. apply app_nil_r.
    + reflexivity.
  - destruct (take_group T ps) as [[c1 rest1]|] eqn:E; [|discriminate]. inversion H; subst.
    cbn [flat_map fst snd]. rewrite (IH _ _ eq_refl Hnd' T'). destruct (Nat.eqb_spec T' T) as [->|Hn2].
    + destruct (Nat.eqb_spec k T) as [Ek|_]; [congruence|]. reflexivity.
    + reflexivity.
Qed.

Lemma take_group_none_key T : forall ps c rest, take_group T ps = Some (c, rest) -> NoDup (map fst ps) -> ~ In T (map fst rest).
Proof. intros ps c rest H Hnd. destruct (take_group_spec T ps c rest H) as (_ & _ & _ & H4). apply (H4 Hnd). Qed.

Lemma place_init ns nt : Place (init ns nt).
Proof.
  intros sr r T s Hr Hs. unfold recv_at, send_at in *. cbn in *. apply nth_error_repeat in Hr. apply nth_error_repeat in Hs. subst. reflexivity.
Qed.

(* steps that leave every sender's handed-over sequence and every receiver's received / pending lists unchanged *)
Lemma place_frame x x' : Place x ->
  (forall T s', send_at x' T s' -> exists s, send_at x T s /\ L s' = L s) ->
  (forall sr r', recv_at x' sr r' -> exists r, recv_at x sr r /\ r_rcv r' = r_rcv r /\ r_pending r' = r_pending r) ->
  Place x'.
Proof.
  intros HP Hs Hr sr r' T s' Hr' Hs'. destruct (Hs _ _ Hs') as (s & Hsat & HL). destruct (Hr _ _ Hr') as (r & Hrat & E1 & E2).
  rewrite HL, E1. unfold pend. rewrite E2. apply (HP sr r T s Hrat Hsat).
Qed.

Lemma send_frame_set x T s s' : send_at x T s -> L s' = L s ->
  forall T0 s0, send_at (set_send x T (fun _ => s')) T0 s0 -> exists s1, send_at x T0 s1 /\ L s0 = L s1.
Proof.
  intros Hs HL T0 s0 H. apply send_at_set_send in H. destruct H as [[E (s1 & Hs1 & ->)]|[Hne H]].
  - subst T0. exists s. split; [exact Hs|exact HL].
  - exists s0. split; [exact H|reflexivity].
Qed.

Lemma recv_frame_id x x' : recvs x' = recvs x ->
  forall sr r', recv_at x' sr r' -> exists r, recv_at x sr r /\ r_rcv r' = r_rcv r /\ r_pending r' = r_pending r.
Proof. intros E sr r' H. exists r'. unfold recv_at in *. rewrite E in H. auto. Qed.

Lemma send_frame_id x x' : sends x' = sends x ->
  forall T s', send_at x' T s' -> exists s, send_at x T s /\ L s' = L s.
Proof. intros E T s' H. exists s'. unfold send_at in *. rewrite E in H. auto. Qed.

Lemma recv_frame_set x sr r r' : recv_at x sr r -> r_rcv r' = r_rcv r -> r_pending r' = r_pending r ->
  forall sr0 r0, recv_at (set_recv x sr (fun _ => r')) sr0 r0 -> exists r1, recv_at x sr0 r1 /\ r_rcv r0 = r_rcv r1 /\ r_pending r0 = r_pending r1.
Proof.
  intros Hr E1 E2 sr0 r0 H. apply recv_at_set_recv in H. destruct H as [[E (r1 & Hr1 & ->)]|[Hne H]].
  - subst sr0. exists r. auto.
  - exists r0. auto.
Qed.

Theorem place_step x a : Inv x -> Place x -> wf_act x a -> Place (fst (apply_act true x a)).
Proof.
  intros HI HP Hwf. destruct a; cbn [apply_act].
  - (* APush *) cbn [fst]. destruct (nth_error (recvs x) sr) as [r|] eqn:Hr; [|rewrite set_recv_none by exact Hr; exact HP].
    rewrite (set_recv_const x sr _ r Hr). apply (place_frame x); [exact HP|apply send_frame_id; reflexivity|apply (recv_frame_set x sr r); auto].
  - (* ARead *)
    destruct (nth_error (recvs x) sr) as [r|] eqn:Hr; [|exact HP].
    destruct (r_pending r) eqn:Hp; [|exact HP]. destruct (r_inq r) as [|[ts high] q] eqn:Hq; [exact HP|].
    destruct ts as [|t0 ts0]; cbn [fst].
    + (* watermark batch *)
      intros sr0 r0 T s0 Hr0 Hs0. unfold recv_at in Hr0. cbn [recvs] in Hr0. unfold send_at in Hs0. cbn [sends] in Hs0. unfold broadcast in Hs0. rewrite nth_error_map in Hs0.
      destruct (nth_error (sends x) T) as [s|] eqn:Hs; [|discriminate]. cbn in Hs0. inversion Hs0; subst s0; clear Hs0.
      assert (Hrr : exists r1, recv_at x sr0 r1 /\ r_rcv r0 = r_rcv r1 /\ r_pending r0 = r_pending r1).
      { apply nth_error_upd_inv in Hr0. destruct Hr0 as [[E (r1 & Hr1 & ->)]|[Hne H]]; [subst sr0; exists r; rewrite Hr in Hr1; inversion Hr1; subst; cbn; auto|exists r0; auto]. }
      destruct Hrr as (r1 & Hr1 & E1 & E2). rewrite E1. unfold pend. rewrite E2.
      destruct (try_enqueue_cases {| c_src := sr; c_tasks := []; c_high := high |} s) as [E|[_ E]]; rewrite E.
      * apply (HP sr0 r1 T s Hr1 Hs).
      * rewrite L_enqueue, tasks_of_app, tasks_of_chan_entries_wm by reflexivity. rewrite app_nil_r. apply (HP sr0 r1 T s Hr1 Hs).
    + (* task batch *)
      intros sr0 r0 T s0 Hr0 Hs0. apply recv_at_set_recv in Hr0. assert (Hs : send_at x T s0) by exact Hs0.
      destruct Hr0 as [[E (r1 & Hr1 & ->)]|[Hne H]]; [|apply (HP sr0 r0 T s0 H Hs)].
      subst sr0. assert (r1 = r) by (unfold recv_at in Hr1; congruence). subst r1.
      pose proof (HP sr r T s0 Hr Hs) as Hold. unfold pend in Hold. rewrite Hp in Hold. cbn [flat_map] in Hold. rewrite app_nil_r in Hold.
      unfold pend. cbn [r_pending r_rcv r_set_rcv r_set_inq r_set_pending r_set_map r_set_high].
      destruct (group_spec (t0 :: ts0)) as [Gnd Gg]. rewrite (pend_groups sr (group (t0 :: ts0)) T Gnd), Gg, owned_by_app, map_app, Hold. reflexivity.
  - (* AHandoff *)
    destruct (nth_error (recvs x) sr) as [r|] eqn:Hr; [|exact HP]. destruct (nth_error (sends x) T) as [s|] eqn:Hs; [|exact HP].
    destruct (s_conn s && has_room s); [|exact HP]. destruct (take_group T (r_pending r)) as [[c rest]|] eqn:Htg; [|exact HP]. cbn [fst].
    pose proof (i_pend x HI sr r Hr) as [Pnd Pall]. destruct (take_group_spec T _ _ _ Htg) as (Hin & _).
    destruct (Pall T c Hin) as (Csrc & Cne & _).
    intros sr0 r0 T0 s0 Hr0 Hs0. unfold recv_at in Hr0. cbn [recvs] in Hr0. unfold send_at in Hs0. cbn [sends] in Hs0.
    apply nth_error_upd_inv in Hr0. apply nth_error_upd_inv in Hs0.
    pose proof (take_group_pend T _ _ _ Htg Pnd) as Hpend.
    destruct Hs0 as [[ET (s1 & Hs1 & ->)]|[HneT Hs1]]; destruct Hr0 as [[Esr (r1 & Hr1 & ->)]|[Hnesr Hr1]].
    + subst T0 sr0. rewrite Hs in Hs1. inversion Hs1; subst s1. rewrite Hr in Hr1. inversion Hr1; subst r1.
      pose proof (HP sr r T s Hr Hs) as Hold. unfold pend in *. rewrite (Hpend T), Nat.eqb_refl in Hold. cbn [r_pending r_set_pending r_rcv].
      rewrite pend_nokey by (apply (take_group_none_key T _ _ _ Htg Pnd)). rewrite app_nil_r.
      rewrite L_enqueue, chan_entries_tasks by exact Cne. rewrite Csrc, tasks_of_app, tasks_of_te. exact Hold.
    + subst T0. rewrite Hs in Hs1. inversion Hs1; subst s1.
      rewrite L_enqueue, chan_entries_tasks by exact Cne. rewrite Csrc, tasks_of_app, tasks_of_te_other by auto. rewrite app_nil_r. apply (HP sr0 r0 T s Hr1 Hs).
    + subst sr0. rewrite Hr in Hr1. inversion Hr1; subst r1.
      pose proof (HP sr r T0 s0 Hr Hs1) as Hold. unfold pend in *. rewrite (Hpend T0) in Hold. destruct (Nat.eqb_spec T0 T) as [E|_]; [congruence|]. cbn [r_pending r_set_pending r_rcv]. exact Hold.
    + apply (HP sr0 r0 T0 s0 Hr1 Hs1).
  - (* ADequeue *)
    destruct (nth_error (sends x) T) as [s|] eqn:Hs; [|exact HP].
    destruct (s_conn s) eqn:Hc; [|exact HP]. destruct (s_inflight s) eqn:Hf; [exact HP|]. destruct (s_chan s) as [|c rest] eqn:Hch; [exact HP|].
    destruct (c_tasks c) as [|t0 ts0] eqn:Ect.
    + cbn [fst]. apply (place_frame x); [exact HP| |apply recv_frame_id; reflexivity]. apply (send_frame_set x T s); [exact Hs|].
      unfold L. cbn. rewrite Hch. cbn [flat_map]. unfold chan_entries at 2. rewrite Ect. rewrite <- app_assoc. reflexivity.
    + rewrite <- Ect. pose proof (chan_entries_assign c (s_next s) ltac:(rewrite Ect; discriminate)) as Ha.
      destruct (assign (c_src c) (c_tasks c) (s_next s)) as [[ws es] n'] eqn:Eas. destruct Ha as [Hes _]. cbn [fst].
      apply (place_frame x); [exact HP| |apply recv_frame_id; reflexivity]. apply (send_frame_set x T s); [exact Hs|].
      unfold L. cbn. rewrite Hch. cbn [flat_map]. rewrite Hes, <- app_assoc. reflexivity.
  - (* ASend *)
    destruct (nth_error (sends x) T) as [s|] eqn:Hs; [|exact HP]. destruct (s_conn s && negb (s_stalled s)); [|exact HP]. destruct (s_inflight s) as [f|]; [|exact HP]. cbn [fst].
    apply (place_frame x); [exact HP| |apply recv_frame_id; reflexivity]. apply (send_frame_set x T s); [exact Hs|]. destruct (f_keepalive f); reflexivity.
  - (* AKeepalive *)
    destruct (nth_error (sends x) T) as [s|] eqn:Hs; [|exact HP]. destruct (s_conn s); [|exact HP]. destruct (s_inflight s); [exact HP|]. destruct (s_lastwm s >? 0); [|exact HP]. cbn [fst].
    rewrite (set_send_const x T _ s Hs). apply (place_frame x); [exact HP| |apply recv_frame_id; reflexivity]. apply (send_frame_set x T s); [exact Hs|reflexivity].
  - (* AAckIn *)
    destruct (nth_error (sends x) T) as [s|] eqn:Hs; [|exact HP]. destruct (s_conn s); [|exact HP]. cbn [fst].
    rewrite (set_send_const x T _ s Hs). apply (place_frame x); [exact HP| |apply recv_frame_id; reflexivity]. apply (send_frame_set x T s); [exact Hs|reflexivity].
  - (* AAggregate *)
    destruct (nth_error (sends x) T) as [s|] eqn:Hs; [|exact HP]. destruct (s_conn s); [|exact HP]. destruct (s_ackflight s); [exact HP|]. destruct (s_ackin s) as [|w rest]; [exact HP|].
    destruct (aggregate s w) as [acks c]. cbn [fst].
    apply (place_frame x); [exact HP| |apply recv_frame_id; reflexivity]. apply (send_frame_set x T s); [exact Hs|reflexivity].
  - (* ADeliver *)
    destruct (nth_error (sends x) T) as [s|] eqn:Hs; [|exact HP]. destruct (s_conn s); [|exact HP]. destruct (s_ackflight s) as [fl|]; [|exact HP].
    destruct (af_todo fl) as [|[sr a] rest]; [exact HP|]. destruct (nth_error (recvs x) sr) as [r|] eqn:Hr; [|exact HP].
    destruct (Nat.ltb (length (r_ackq r)) chan_cap); [|exact HP]. cbn [fst].
    apply (place_frame x); [exact HP| |].
    + intros T0 s0 H. unfold send_at in H. cbn [sends] in H. apply nth_error_upd_inv in H. destruct H as [[E (s1 & Hs1 & ->)]|[Hne H]].
      * subst T0. exists s. split; [exact Hs|]. destruct (af_new fl); reflexivity.
      * exists s0. split; [exact H|reflexivity].
    + intros sr0 r0 H. unfold recv_at in H. cbn [recvs] in H. apply nth_error_upd_inv in H. destruct H as [[E (r1 & Hr1 & ->)]|[Hne H]].
      * subst sr0. exists r1. split; [exact Hr1|split; reflexivity].
      * exists r0. split; [exact H|split; reflexivity].
  - (* ADiscard *)
    destruct (nth_error (sends x) T) as [s|] eqn:Hs; [|exact HP]. destruct (s_conn s); [|exact HP]. destruct (s_ackflight s) as [fl|]; [|exact HP]. destruct (af_todo fl); [|exact HP]. cbn [fst].
    apply (place_frame x); [exact HP| |apply recv_frame_id; reflexivity]. apply (send_frame_set x T s); [exact Hs|reflexivity].
  - (* AProcAck *)
    destruct (nth_error (recvs x) sr) as [r|] eqn:Hr; [|exact HP]. destruct (r_ackq r) as [|[T v] q] eqn:Hq; [exact HP|].
    pose proof (process_ack_spec sr T v (r_set_ackq q r)) as Hspec. destruct (process_ack sr T v (r_set_ackq q r)) as [r' o]. cbn [fst].
    destruct Hspec as (_ & _ & _ & Hrcv & Hpend & _). cbn in Hrcv, Hpend.
    apply (place_frame x); [exact HP|apply send_frame_id; reflexivity|apply (recv_frame_set x sr r); auto].
  - (* AConnect *)
    destruct (nth_error (sends x) T) as [s|] eqn:Hs; [|exact HP]. cbn [fst].
    set (s0 := {| s_conn := true; s_stalled := false; s_chan := []; s_inflight := None; s_next := 0; s_start := 0; s_ring := [];
                  s_prev := []; s_lastwm := 0; s_ackin := []; s_ackflight := None; s_hist := []; s_acked := 0 |}).
    pose proof (Hwf s Hs) as Hnc. destruct (i_nc x HI T s Hs Hnc) as (N1 & N2 & _).
    destruct (replay_from_spec (recvs x) 0 s0) as (_ & B2 & _ & _ & _ & _ & _ & _ & _ & extra & Ech & Hex). cbn in B2, Ech.
    intros sr0 r0 T0 s1 Hr0 Hs1. apply send_at_set_send in Hs1. destruct Hs1 as [[E (s2 & Hs2 & ->)]|[Hne Hs1]]; [|apply (HP sr0 r0 T0 s1 Hr0 Hs1)].
    subst T0. pose proof (HP sr0 r0 T s Hr0 Hs) as Hold. unfold L in Hold. rewrite N1, N2 in Hold. cbn in Hold.
    unfold L. rewrite B2, Ech. cbn [app].
    assert (Hnil : tasks_of sr0 (flat_map chan_entries extra) = []).
    { clear -Hex. induction extra as [|c ex IH]; [reflexivity|]. cbn [flat_map]. rewrite tasks_of_app.
      rewrite tasks_of_chan_entries_wm by (apply (Hex c); left; reflexivity). apply IH. intros c0 H0. apply Hex. right. exact H0. }
    rewrite Hnil. exact Hold.
  - destruct Hwf.
  - destruct Hwf.
  - (* AStall *) cbn [fst]. destruct (nth_error (sends x) T) as [s|] eqn:Hs; [|rewrite set_send_none by exact Hs; exact HP].
    rewrite (set_send_const x T _ s Hs). apply (place_frame x); [exact HP| |apply recv_frame_id; reflexivity]. apply (send_frame_set x T s); [exact Hs|reflexivity].
  - (* AUnstall *) cbn [fst]. destruct (nth_error (sends x) T) as [s|] eqn:Hs; [|rewrite set_send_none by exact Hs; exact HP].
    rewrite (set_send_const x T _ s Hs). apply (place_frame x); [exact HP| |apply recv_frame_id; reflexivity]. apply (send_frame_set x T s); [exact Hs|reflexivity].
Qed.

Theorem place_run l : forall x, Inv x -> Place x -> wf_run x l -> Place (fst (run_acts true x l)).
Proof.
  induction l as [|a l IH]; intros x HI HP Hwf; cbn [run_acts]; [exact HP|]. destruct Hwf as [Hwa Hwr].
  pose proof (inv_step x a HI Hwa) as H1. pose proof (place_step x a HI HP Hwa) as H2.
  destruct (apply_act true x a) as [x1 o1]. cbn [fst] in *. specialize (IH x1 H1 H2 Hwr). destruct (run_acts true x1 l) as [x2 o2]. exact IH.
Qed.
