(* Local facts behind C02: proxy id assignment and grouping by owner. *)
From Coq Require Import List ZArith Bool Arith Lia.
From S2S Require Import Routing.Model.
Import ListNotations.
Open Scope Z_scope.

(* ---------- assign: fresh, contiguous, strictly increasing proxy ids; payload untouched ---------- *)
Fixpoint pids_from (next : Z) (n : nat) : list Z :=
  match n with O => [] | S n' => (next + 1) :: pids_from (next + 1) n' end.

Theorem assign_spec src ts : forall next,
  let '(ws, es, n') := assign src ts next in
  map w_pay ws = map t_pay ts
  /\ map w_pid ws = pids_from next (length ts)
  /\ es = map (fun t => {| e_src := src; e_val := t_id t; e_task := true |}) ts
  /\ n' = next + Z.of_nat (length ts).
Proof.
  induction ts as [|t rest IH]; intros next; cbn [assign map length pids_from].
  - repeat split; lia.
  - specialize (IH (next + 1)). destruct (assign src rest (next + 1)) as [[ws es] n'].
    destruct IH as (Hp & Hi & He & Hn). cbn [map w_pay w_pid].
    rewrite Hp, Hi, He. repeat split; lia.
Qed.

Lemma pids_from_spec next n : forall i, (i < n)%nat -> nth i (pids_from next n) 0 = next + 1 + Z.of_nat i.
Proof.
  revert next; induction n as [|n IH]; intros next i Hi; [lia|].
  cbn [pids_from]. destruct i as [|i]; cbn [nth]; [lia|]. rewrite IH by lia. lia.
Qed.

Lemma pids_from_length next n : length (pids_from next n) = n.
Proof. revert next; induction n as [|n IH]; intros next; cbn [pids_from length]; auto. Qed.

(* strictly increasing, all above [next], the last one is [next + n] *)
Theorem pids_increasing next n i j :
  (i < j)%nat -> (j < n)%nat -> nth i (pids_from next n) 0 < nth j (pids_from next n) 0.
Proof. intros Hij Hj. rewrite !pids_from_spec by lia. lia. Qed.

(* ---------- group: a partition by owner that keeps the order ---------- *)
Fixpoint gget (T : nat) (gs : list (nat * list task)) : list task :=
  match gs with
  | [] => []
  | (T', ts) :: rest => if Nat.eqb T T' then ts else gget T rest
  end.

Definition owned_by (T : nat) (ts : list task) : list task := filter (fun t => Nat.eqb (t_owner t) T) ts.

Definition keys_nodup (gs : list (nat * list task)) : Prop := NoDup (map fst gs).

Lemma add_to_group_gget t gs T :
  gget T (add_to_group t gs) = if Nat.eqb (t_owner t) T then gget T gs ++ [t] else gget T gs.
Proof.
  induction gs as [|[T' ts] rest IH]; cbn [add_to_group gget].
  - rewrite (Nat.eqb_sym T (t_owner t)). destruct (Nat.eqb (t_owner t) T); reflexivity.
  - destruct (Nat.eqb_spec T' (t_owner t)) as [->|Hne]; cbn [gget].
    + rewrite (Nat.eqb_sym T (t_owner t)). destruct (Nat.eqb (t_owner t) T); reflexivity.
    + rewrite IH. destruct (Nat.eqb_spec T T') as [->|Hn2].
      * destruct (Nat.eqb_spec (t_owner t) T'); [congruence|reflexivity].
      * reflexivity.
Qed.

Lemma add_to_group_keys t gs :
  keys_nodup gs -> keys_nodup (add_to_group t gs)
  /\ forall k, In k (map fst (add_to_group t gs)) <-> (k = t_owner t \/ In k (map fst gs)).
Proof.
  unfold keys_nodup. induction gs as [|[T' ts] rest IH]; cbn [add_to_group map fst]; intros Hnd.
  - split; [constructor; [intros []|constructor]|]. intros k; cbn. intuition congruence.
  - inversion Hnd as [|? ? Hnin Hnd']; subst.
    destruct (Nat.eqb_spec T' (t_owner t)) as [->|Hne]; cbn [map fst].
    + split; [constructor; assumption|]. intros k; cbn. intuition congruence.
    + destruct (IH Hnd') as (Hnd2 & Hk). split.
      * constructor; [|exact Hnd2]. rewrite Hk. intros [E|Hin]; [congruence|contradiction].
      * intros k; cbn. rewrite Hk. intuition congruence.
Qed.

Lemma fold_group_spec ts : forall gs,
  keys_nodup gs ->
  keys_nodup (fold_left (fun gs t => add_to_group t gs) ts gs)
  /\ (forall T, gget T (fold_left (fun gs t => add_to_group t gs) ts gs) = gget T gs ++ owned_by T ts).
Proof.
  induction ts as [|t rest IH]; intros gs Hnd; cbn [fold_left owned_by filter].
  - split; [exact Hnd|]. intros T. rewrite app_nil_r. reflexivity.
  - destruct (add_to_group_keys t gs Hnd) as (Hnd1 & _).
    destruct (IH _ Hnd1) as (Hnd2 & Hg). split; [exact Hnd2|].
    intros T. rewrite Hg, add_to_group_gget. fold (owned_by T rest).
    destruct (Nat.eqb (t_owner t) T); [rewrite <- app_assoc; reflexivity|reflexivity].
Qed.

(* Every task of the batch ends up in exactly one group - the one of its owner - and each group lists the
   owner's tasks in source order. *)
Theorem group_spec ts :
  keys_nodup (group ts) /\ forall T, gget T (group ts) = owned_by T ts.
Proof.
  unfold group. destruct (fold_group_spec ts [] ltac:(constructor)) as (H1 & H2).
  split; [exact H1|]. intros T. rewrite H2. reflexivity.
Qed.
