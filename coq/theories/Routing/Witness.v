From Coq Require Import List ZArith Bool.
From S2S Require Import Routing.Model Routing.Monitor.
Import ListNotations.

Lemma f1_unsafe_before_fix : any_unsafe false (init 1 2) f1_history = true.
Proof. vm_compute. reflexivity. Qed.
Lemma f1_safe_after_fix : any_unsafe true (init 1 2) f1_history = false.
Proof. vm_compute. reflexivity. Qed.
Lemma f2a_unsafe : any_unsafe true (init 1 2) f2a_history = true.
Proof. vm_compute. reflexivity. Qed.
Lemma f2b_unsafe : any_unsafe true (init 1 2) f2b_history = true.
Proof. vm_compute. reflexivity. Qed.
