(* The last hop (property C02), watermarks: in every fault-free execution, on every target's stream, each task-bearing message
   carries an exclusive high watermark greater than each of its task ids and greater than the watermark of EVERY earlier
   message on that stream (task-bearing, watermark-only or keep-alive) - which is what a Temporal receiver
   (ExecutableTaskTracker.TrackTasks) requires to accept every task instead of dropping the message silently. *)
From Coq Require Import List ZArith Bool Arith Lia.
From S2S Require Import Routing.Model Routing.Basic Routing.Delivery Routing.Monitor Routing.Inv.
Import ListNotations.
Open Scope Z_scope.

(* the messages written on target T's stream, in order: (tasks, exclusive high watermark) *)
Definition msgs (T : nat) (outs : list out) : list (list wtask * Z) :=
  flat_map (fun o => match o with OTgt T' ws h => if Nat.eqb T' T then [(ws, h)] else [] | OSrc _ _ => [] end) outs.

(* what Temporal's receiver needs of a stream *)
Definition wm_ok (l : list (list wtask * Z)) : Prop :=
  forall l1 ws h l2, l = l1 ++ (ws, h) :: l2 -> ws <> [] ->
    (forall w, In w ws -> w_pid w < h) /\ (forall ws' h', In (ws', h') l1 -> h' < h).

Lemma msgs_app T o1 o2 : msgs T (o1 ++ o2) = msgs T o1 ++ msgs T o2.
Proof. unfold msgs. apply flat_map_app. Qed.

Lemma msgs_osrc_only T o : (forall T' ws h, ~ In (OTgt T' ws h) o) -> msgs T o = [].
Proof.
  intros H. unfold msgs. induction o as [|x o IH]; [reflexivity|]. cbn [flat_map]. destruct x as [T' ws h|sr a].
  - exfalso. apply (H T' ws h). left. reflexivity.
  - cbn. apply IH. intros T' ws h Hin. apply (H T' ws h). right. exact Hin.
Qed.

Lemma wm_ok_nil : wm_ok [].
Proof. intros l1 ws h l2 E. destruct l1; discriminate. Qed.

Lemma wm_ok_snoc l ws h :
  wm_ok l -> (ws <> [] -> (forall w, In w ws -> w_pid w < h) /\ (forall ws' h', In (ws', h') l -> h' < h)) -> wm_ok (l ++ [(ws, h)]).
Proof.
  intros Hl Hn l1 ws0 h0 l2 E Hne.
  destruct l2 as [|m l2].
  - (* the new last message *)
    apply app_inj_tail in E. destruct E as [E1 E2]. inversion E2; subst ws0 h0 l1. apply Hn. exact Hne.
  - (* an earlier one *)
    assert (Hsplit : exists l2', m :: l2 = l2' ++ [(ws, h)]).
    { destruct (exists_last (l := m :: l2) ltac:(discriminate)) as (l2' & a & Ea). exists l2'. rewrite Ea.
      assert (E' : l ++ [(ws, h)] = (l1 ++ (ws0, h0) :: l2') ++ [a]) by (rewrite E, Ea, <- app_assoc; reflexivity).
      apply app_inj_tail in E'. destruct E' as [_ <-]. reflexivity. }
    destruct Hsplit as (l2' & E2). rewrite E2 in E.
    assert (E3 : l = l1 ++ (ws0, h0) :: l2').
    { change (l1 ++ (ws0, h0) :: l2' ++ [(ws, h)]) with (l1 ++ ((ws0, h0) :: l2') ++ [(ws, h)]) in E. rewrite app_assoc in E.
      apply app_inj_tail in E. destruct E as [E _]. exact E. }
    exact (Hl l1 ws0 h0 l2' E3 Hne).
Qed.

(* the invariant: everything written so far is below the id allocator, and the message in flight is above everything written *)
Definition inflight_ok (T : nat) (s : send) (outs : list out) : Prop :=
  match s_inflight s with
  | None => True
  | Some f => f_high f <= s_next s + 1 /\
              (f_ws f <> [] -> (forall w, In w (f_ws f) -> w_pid w < f_high f) /\ (forall ws' h', In (ws', h') (msgs T outs) -> h' < f_high f))
  end.

Definition H (x : st) (outs : list out) : Prop :=
  forall T s, send_at x T s ->
    (forall ws h, In (ws, h) (msgs T outs) -> h <= s_next s + 1)
    /\ s_lastwm s <= s_next s + 1
    /\ inflight_ok T s outs
    /\ (s_conn s = false -> msgs T outs = [] /\ s_inflight s = None)
    /\ wm_ok (msgs T outs).

Lemma h_init ns nt : H (init ns nt) [].
Proof.
  intros T s Hs. unfold send_at in Hs. cbn in Hs. apply nth_error_repeat in Hs. subst. unfold inflight_ok. cbn.
  split; [intros ? ? []|]. split; [lia|]. split; [exact I|]. split; [intros _; split; reflexivity|exact wm_ok_nil].
Qed.

(* steps that neither write on a target stream nor touch a sender's allocator, last watermark, in-flight message or connection *)
Lemma h_frame x x' outs o : H x outs ->
  (forall T s', send_at x' T s' -> exists s, send_at x T s /\ s_next s' = s_next s /\ s_lastwm s' = s_lastwm s /\ s_inflight s' = s_inflight s /\ s_conn s' = s_conn s) ->
  (forall T' ws h, ~ In (OTgt T' ws h) o) -> H x' (outs ++ o).
Proof.
  intros HH Hs Ho T s' Hs'. destruct (Hs _ _ Hs') as (s & Hsat & E1 & E2 & E3 & E4). destruct (HH T s Hsat) as (H1 & H2 & H3 & H4 & H5).
  unfold inflight_ok in *. rewrite msgs_app, (msgs_osrc_only T o Ho), app_nil_r. rewrite E1, E2, E3, E4.
  split; [exact H1|]. split; [exact H2|]. split; [exact H3|]. split; [exact H4|exact H5].
Qed.

Lemma same_set x T s s' : send_at x T s -> s_next s' = s_next s -> s_lastwm s' = s_lastwm s -> s_inflight s' = s_inflight s -> s_conn s' = s_conn s ->
  forall T0 s0, send_at (set_send x T (fun _ => s')) T0 s0 ->
    exists s1, send_at x T0 s1 /\ s_next s0 = s_next s1 /\ s_lastwm s0 = s_lastwm s1 /\ s_inflight s0 = s_inflight s1 /\ s_conn s0 = s_conn s1.
Proof.
  intros Hs E1 E2 E3 E4 T0 s0 Hat. apply send_at_set_send in Hat. destruct Hat as [[E (s1 & Hs1 & ->)]|[Hne Hat]].
  - subst T0. exists s. auto.
  - exists s0. auto.
Qed.

Lemma same_id x x' : sends x' = sends x ->
  forall T s', send_at x' T s' -> exists s, send_at x T s /\ s_next s' = s_next s /\ s_lastwm s' = s_lastwm s /\ s_inflight s' = s_inflight s /\ s_conn s' = s_conn s.
Proof. intros E T s' Hat. exists s'. unfold send_at in *. rewrite E in Hat. auto. Qed.

Lemma try_enqueue_keeps c s :
  s_next (try_enqueue c s) = s_next s /\ s_lastwm (try_enqueue c s) = s_lastwm s /\ s_inflight (try_enqueue c s) = s_inflight s /\ s_conn (try_enqueue c s) = s_conn s.
Proof. destruct (try_enqueue_cases c s) as [E|[_ E]]; rewrite E; cbn; auto. Qed.

Lemma replay_from_keeps rs : forall i s,
  s_next (replay_from i rs s) = s_next s /\ s_lastwm (replay_from i rs s) = s_lastwm s /\ s_inflight (replay_from i rs s) = s_inflight s /\ s_conn (replay_from i rs s) = s_conn s.
Proof.
  induction rs as [|r rs IH]; intros i s; cbn [replay_from]; [auto|].
  destruct (r_lastwm r =? 0); [apply IH|].
  destruct (IH (S i) (try_enqueue {| c_src := i; c_tasks := []; c_high := r_lastwm r |} s)) as (A1 & A2 & A3 & A4).
  destruct (try_enqueue_keeps {| c_src := i; c_tasks := []; c_high := r_lastwm r |} s) as (B1 & B2 & B3 & B4).
  rewrite A1, A2, A3, A4. auto.
Qed.

Lemma pids_from_bounds n : forall next p, In p (pids_from next n) -> next < p <= next + Z.of_nat n.
Proof.
  induction n as [|n IH]; intros next p Hin; cbn [pids_from] in Hin; [destruct Hin|].
  destruct Hin as [<-|Hin]; [lia|]. specialize (IH _ _ Hin). lia.
Qed.

Theorem h_step x outs a : Inv x -> H x outs -> wf_act x a ->
  let '(x', o) := apply_act true x a in H x' (outs ++ o).
Proof.
  intros HI HH Hwf.
  assert (Hid : H x (outs ++ [])) by (rewrite app_nil_r; exact HH).
  assert (Hno : forall T' ws h, ~ In (OTgt T' ws h) (@nil out)) by (intros T' ws h []).
  destruct a; cbn [apply_act].
  - (* APush *) apply (h_frame x); [exact HH|apply same_id; reflexivity|exact Hno].
  - (* ARead *)
    destruct (nth_error (recvs x) sr) as [r|]; [|exact Hid]. destruct (r_pending r); [|exact Hid]. destruct (r_inq r) as [|[ts high] q]; [exact Hid|].
    destruct ts as [|t0 ts0].
    + apply (h_frame x); [exact HH| |exact Hno]. intros T s' Hat. unfold send_at in Hat. cbn [sends] in Hat. unfold broadcast in Hat. rewrite nth_error_map in Hat.
      destruct (nth_error (sends x) T) as [s|] eqn:Hs; [|discriminate]. cbn in Hat. inversion Hat. exists s. split; [exact Hs|].
      apply try_enqueue_keeps.
    + apply (h_frame x); [exact HH|apply same_id; reflexivity|exact Hno].
  - (* AHandoff *)
    destruct (nth_error (recvs x) sr) as [r|]; [|exact Hid]. destruct (nth_error (sends x) T) as [s|] eqn:Hs; [|exact Hid].
    destruct (s_conn s && has_room s); [|exact Hid]. destruct (take_group T (r_pending r)) as [[c rest]|]; [|exact Hid].
    apply (h_frame x); [exact HH| |exact Hno]. intros T0 s0 Hat. unfold send_at in Hat. cbn [sends] in Hat. apply nth_error_upd_inv in Hat.
    destruct Hat as [[E (s1 & Hs1 & ->)]|[Hne Hat]]; [subst T0; exists s1; cbn; auto|exists s0; auto].
  - (* ADequeue: ids are allocated, the message in flight is above everything written *)
    destruct (nth_error (sends x) T) as [s|] eqn:Hs; [|exact Hid].
    destruct (s_conn s) eqn:Hc; [|exact Hid]. destruct (s_inflight s) eqn:Hf; [exact Hid|]. destruct (s_chan s) as [|c rest] eqn:Hch; [exact Hid|].
    destruct (HH T s Hs) as (H1 & H2 & _ & _ & H5).
    destruct (c_tasks c) as [|t0 ts0] eqn:Ect.
    + rewrite app_nil_r. intros T0 s0 Hat. apply send_at_set_send in Hat. destruct Hat as [[E (s1 & Hs1 & ->)]|[Hne Hat]]; [|apply (HH T0 s0 Hat)].
      subst T0. unfold inflight_ok. cbn [s_next s_lastwm s_inflight s_conn s_append s_set_inflight s_set_chan f_high f_ws].
      split; [intros ws h Hin; specialize (H1 _ _ Hin); lia|]. split; [lia|]. split; [split; [lia|intros Hne; exfalso; apply Hne; reflexivity]|].
      split; [intros Hcf; rewrite Hc in Hcf; discriminate|exact H5].
    + rewrite <- Ect. pose proof (assign_spec (c_src c) (c_tasks c) (s_next s)) as Ha.
      destruct (assign (c_src c) (c_tasks c) (s_next s)) as [[ws es] n'] eqn:Eas. destruct Ha as (_ & Hpid & _ & Hn).
      assert (Hlen : (0 < length (c_tasks c))%nat) by (rewrite Ect; cbn; lia).
      rewrite app_nil_r. intros T0 s0 Hat. apply send_at_set_send in Hat. destruct Hat as [[E (s1 & Hs1 & ->)]|[Hne Hat]]; [|apply (HH T0 s0 Hat)].
      subst T0. unfold inflight_ok. cbn [s_next s_lastwm s_inflight s_conn s_append s_set_inflight s_set_chan f_high f_ws].
      split; [intros ws0 h Hin; specialize (H1 _ _ Hin); lia|]. split; [lia|]. split; [|split; [intros Hcf; rewrite Hc in Hcf; discriminate|exact H5]].
      split; [lia|]. intros _. split.
      * intros w Hw. assert (Hp : In (w_pid w) (map w_pid ws)) by (apply in_map; exact Hw). rewrite Hpid in Hp.
        pose proof (pids_from_bounds _ _ _ Hp). lia.
      * intros ws' h' Hin. specialize (H1 _ _ Hin). lia.
  - (* ASend: the in-flight message goes onto the wire *)
    destruct (nth_error (sends x) T) as [s|] eqn:Hs; [|exact Hid]. destruct (s_conn s && negb (s_stalled s)) eqn:Hcs; [|exact Hid].
    destruct (s_inflight s) as [f|] eqn:Hf; [|exact Hid]. apply andb_prop in Hcs. destruct Hcs as [Hc _].
    intros T0 s0 Hat. apply send_at_set_send in Hat. unfold inflight_ok. rewrite msgs_app. cbn [msgs flat_map]. rewrite app_nil_r.
    destruct Hat as [[E (s1 & Hs1 & ->)]|[Hne Hat]].
    + subst T0. rewrite Nat.eqb_refl. destruct (HH T s Hs) as (H1 & H2 & H3 & _ & H5). unfold inflight_ok in H3. rewrite Hf in H3. destruct H3 as [H3a H3b].
      set (s' := if f_keepalive f then s_set_inflight None s else s_set_lastwm (f_high f) (s_set_inflight None s)).
      assert (En : s_next s' = s_next s) by (unfold s'; destruct (f_keepalive f); reflexivity).
      assert (Ei : s_inflight s' = None) by (unfold s'; destruct (f_keepalive f); reflexivity).
      assert (Ec : s_conn s' = true) by (unfold s'; destruct (f_keepalive f); exact Hc).
      assert (El : s_lastwm s' <= s_next s + 1) by (unfold s'; destruct (f_keepalive f); cbn; lia).
      unfold inflight_ok. rewrite En, Ei. split; [|split; [exact El|split; [exact I|split; [intros Hcf; rewrite Ec in Hcf; discriminate|]]]].
      * intros ws h Hin. apply in_app_or in Hin. destruct Hin as [Hin|[E|[]]]; [exact (H1 _ _ Hin)|inversion E; subst; exact H3a].
      * apply wm_ok_snoc; [exact H5|exact H3b].
    + destruct (Nat.eqb_spec T T0) as [E|_]; [congruence|]. rewrite app_nil_r. apply (HH T0 s0 Hat).
  - (* AKeepalive: repeats the last watermark, carries no task *)
    destruct (nth_error (sends x) T) as [s|] eqn:Hs; [|exact Hid]. destruct (s_conn s) eqn:Hc; [|exact Hid]. destruct (s_inflight s) eqn:Hf; [exact Hid|].
    destruct (s_lastwm s >? 0); [|exact Hid]. rewrite app_nil_r. rewrite (set_send_const x T _ s Hs).
    intros T0 s0 Hat. apply send_at_set_send in Hat. destruct Hat as [[E (s1 & Hs1 & ->)]|[Hne Hat]]; [|apply (HH T0 s0 Hat)].
    subst T0. destruct (HH T s Hs) as (H1 & H2 & _ & _ & H5). unfold inflight_ok. cbn.
    split; [exact H1|]. split; [exact H2|]. split; [split; [exact H2|intros Hne; exfalso; apply Hne; reflexivity]|].
    split; [intros Hcf; rewrite Hc in Hcf; discriminate|exact H5].
  - (* AAckIn *)
    destruct (nth_error (sends x) T) as [s|] eqn:Hs; [|exact Hid]. destruct (s_conn s); [|exact Hid].
    rewrite (set_send_const x T _ s Hs). apply (h_frame x); [exact HH|apply (same_set x T s); auto|exact Hno].
  - (* AAggregate *)
    destruct (nth_error (sends x) T) as [s|] eqn:Hs; [|exact Hid]. destruct (s_conn s); [|exact Hid]. destruct (s_ackflight s); [exact Hid|]. destruct (s_ackin s) as [|w rest]; [exact Hid|].
    destruct (aggregate s w) as [acks c]. apply (h_frame x); [exact HH|apply (same_set x T s); auto|exact Hno].
  - (* ADeliver *)
    destruct (nth_error (sends x) T) as [s|] eqn:Hs; [|exact Hid]. destruct (s_conn s); [|exact Hid]. destruct (s_ackflight s) as [fl|]; [|exact Hid].
    destruct (af_todo fl) as [|[sr a] rest]; [exact Hid|]. destruct (nth_error (recvs x) sr) as [r|]; [|exact Hid].
    destruct (Nat.ltb (length (r_ackq r)) chan_cap); [|exact Hid].
    apply (h_frame x); [exact HH| |exact Hno]. intros T0 s0 Hat. unfold send_at in Hat. cbn [sends] in Hat. apply nth_error_upd_inv in Hat.
    destruct Hat as [[E (s1 & Hs1 & ->)]|[Hne Hat]]; [subst T0; exists s; split; [exact Hs|destruct (af_new fl); cbn; auto]|exists s0; auto].
  - (* ADiscard *)
    destruct (nth_error (sends x) T) as [s|] eqn:Hs; [|exact Hid]. destruct (s_conn s); [|exact Hid]. destruct (s_ackflight s) as [fl|]; [|exact Hid]. destruct (af_todo fl); [|exact Hid].
    apply (h_frame x); [exact HH|apply (same_set x T s); auto|exact Hno].
  - (* AProcAck: writes to a source, not to a target *)
    destruct (nth_error (recvs x) sr) as [r|]; [|exact Hid]. destruct (r_ackq r) as [|[T v] q]; [exact Hid|].
    pose proof (process_ack_spec sr T v (r_set_ackq q r)) as Hspec. destruct (process_ack sr T v (r_set_ackq q r)) as [r' o].
    apply (h_frame x); [exact HH|apply same_id; reflexivity|].
    destruct Hspec as ([[-> _]|(a & -> & _)] & _); intros T' ws h Hin; [destruct Hin|destruct Hin as [E|[]]; discriminate].
  - (* AConnect: a fresh sender on a stream nothing has been written on *)
    destruct (nth_error (sends x) T) as [s|] eqn:Hs; [|exact Hid]. rewrite app_nil_r.
    set (s0 := {| s_conn := true; s_stalled := false; s_chan := []; s_inflight := None; s_next := 0; s_start := 0; s_ring := [];
                  s_prev := []; s_lastwm := 0; s_ackin := []; s_ackflight := None; s_hist := []; s_acked := 0 |}).
    pose proof (Hwf s Hs) as Hnc. destruct (HH T s Hs) as (_ & _ & _ & H4 & _). destruct (H4 Hnc) as [Hmnil _].
    destruct (replay_from_keeps (recvs x) 0%nat s0) as (B1 & B2 & B3 & B4). cbn in B1, B2, B3, B4.
    intros T0 s1 Hat. apply send_at_set_send in Hat. destruct Hat as [[E (s2 & Hs2 & ->)]|[Hne Hat]]; [|apply (HH T0 s1 Hat)].
    subst T0. unfold inflight_ok. rewrite Hmnil, B1, B2, B3, B4.
    split; [intros ? ? []|]. split; [lia|]. split; [exact I|]. split; [intros Hcf; discriminate|exact wm_ok_nil].
  - destruct Hwf.
  - destruct Hwf.
  - (* AStall *) destruct (nth_error (sends x) T) as [s|] eqn:Hs; [|rewrite set_send_none by exact Hs; exact Hid].
    rewrite (set_send_const x T _ s Hs). apply (h_frame x); [exact HH|apply (same_set x T s); auto|exact Hno].
  - (* AUnstall *) destruct (nth_error (sends x) T) as [s|] eqn:Hs; [|rewrite set_send_none by exact Hs; exact Hid].
    rewrite (set_send_const x T _ s Hs). apply (h_frame x); [exact HH|apply (same_set x T s); auto|exact Hno].
Qed.

Theorem h_run l : forall x outs, Inv x -> H x outs -> wf_run x l ->
  let '(x', o) := run_acts true x l in H x' (outs ++ o).
Proof.
  induction l as [|a l IH]; intros x outs HI HH Hwf; cbn [run_acts]; [rewrite app_nil_r; exact HH|]. destruct Hwf as [Hwa Hwr].
  pose proof (inv_step x a HI Hwa) as H1. pose proof (h_step x outs a HI HH Hwa) as H2.
  destruct (apply_act true x a) as [x1 o1]. cbn [fst] in *. specialize (IH x1 (outs ++ o1) H1 H2 Hwr).
  destruct (run_acts true x1 l) as [x2 o2]. rewrite app_assoc. exact IH.
Qed.

(* from the initial state, for every number of sources and targets and every fault-free sequence of actions: on every target's
   stream every task-bearing message has a watermark above each of its task ids and above the watermark of every earlier
   message on that stream *)
Theorem wire_watermarks ns nt l :
  wf_run (init ns nt) l ->
  let '(x, outs) := run_acts true (init ns nt) l in
  forall T s, send_at x T s -> wm_ok (msgs T outs).
Proof.
  intros Hwf. pose proof (h_run l (init ns nt) [] (inv_init ns nt) (h_init ns nt) Hwf) as HR.
  destruct (run_acts true (init ns nt) l) as [x outs]. cbn [app] in HR. intros T s Hs. destruct (HR T s Hs) as (_ & _ & _ & _ & H5). exact H5.
Qed.

(* the statement has teeth: a stream whose second task-bearing message has a watermark that is not above the first one's is
   rejected, and a well-formed one is accepted *)
Example wm_ok_rejects :
  ~ wm_ok [([{| w_pid := 5; w_pay := 0 |}], 9); ([{| w_pid := 6; w_pay := 0 |}], 8)].
Proof.
  intros Hok. destruct (Hok [([{| w_pid := 5; w_pay := 0 |}], 9)] [{| w_pid := 6; w_pay := 0 |}] 8 [] eq_refl ltac:(discriminate)) as [_ Hb].
  specialize (Hb _ _ (or_introl eq_refl)). lia.
Qed.
Example wm_ok_accepts :
  wm_ok [([{| w_pid := 5; w_pay := 0 |}], 6); ([], 6); ([{| w_pid := 7; w_pay := 0 |}], 8)].
Proof.
  apply (wm_ok_snoc [([{| w_pid := 5; w_pay := 0 |}], 6); ([], 6)]).
  - apply (wm_ok_snoc [([{| w_pid := 5; w_pay := 0 |}], 6)]).
    + apply (wm_ok_snoc []); [exact wm_ok_nil|]. intros _. split; [intros w [<-|[]]; cbn; lia|intros ? ? []].
    + intros Hne. exfalso. apply Hne. reflexivity.
  - intros _. split; [intros w [<-|[]]; cbn; lia|]. intros ws' h' [E|[E|[]]]; inversion E; lia.
Qed.
