(* First layer of facts about the routing model: the executable scheduler is an instance of the
   action system, and the local arithmetic of acknowledgement aggregation. *)
From Coq Require Import List ZArith Bool Arith Lia.
From S2S Require Import Routing.Model.
Import ListNotations.
Open Scope Z_scope.

(* ---------- [step] only ever performs actions of the LTS ---------- *)
Lemma run_acts_app fix1 l1 : forall x l2,
  run_acts fix1 x (l1 ++ l2) =
  let '(x1, o1) := run_acts fix1 x l1 in
  let '(x2, o2) := run_acts fix1 x1 l2 in (x2, o1 ++ o2).
Proof.
  induction l1 as [|a l1 IH]; intros x l2; cbn [app run_acts].
  - destruct (run_acts fix1 x l2); reflexivity.
  - destruct (apply_act fix1 x a) as [x1 o1]. rewrite IH.
    destruct (run_acts fix1 x1 l1) as [x2 o2]. destruct (run_acts fix1 x2 l2) as [x3 o3].
    rewrite app_assoc. reflexivity.
Qed.

Lemma settle_is_run_acts fix1 fuel : forall x,
  settle fuel fix1 x = run_acts fix1 x (settle_acts fuel fix1 x).
Proof.
  induction fuel as [|f IH]; intros x; cbn [settle settle_acts run_acts]; [reflexivity|].
  destruct (next_act x) as [a|]; cbn [run_acts]; [|reflexivity].
  destruct (apply_act fix1 x a) as [x1 o1] eqn:E. cbn [fst]. rewrite IH. reflexivity.
Qed.

Definition step_acts (fix1 : bool) (x : st) (e : ev) : list act :=
  ev_acts e ++ settle_acts (work (fst (run_acts fix1 x (ev_acts e)))) fix1 (fst (run_acts fix1 x (ev_acts e))).

Theorem step_is_run_acts fix1 x e : step fix1 x e = run_acts fix1 x (step_acts fix1 x e).
Proof.
  unfold step, step_acts. rewrite run_acts_app.
  destruct (run_acts fix1 x (ev_acts e)) as [x1 o1]. cbn [fst].
  rewrite settle_is_run_acts. reflexivity.
Qed.

(* ---------- association lists ---------- *)
Lemma aget_aset_same k v m : aget k (aset k v m) = Some v.
Proof.
  induction m as [|[k' v'] t IH]; cbn [aset aget].
  - rewrite Nat.eqb_refl. reflexivity.
  - destruct (Nat.eqb k k') eqn:E; cbn [aget]; rewrite ?Nat.eqb_refl, ?E; auto.
Qed.

Lemma aget_aset_other k k' v m : k <> k' -> aget k (aset k' v m) = aget k m.
Proof.
  intros Hne. induction m as [|[k2 v2] t IH]; cbn [aset aget].
  - destruct (Nat.eqb_spec k k'); [contradiction|reflexivity].
  - destruct (Nat.eqb_spec k' k2) as [->|Hn2]; cbn [aget].
    + destruct (Nat.eqb_spec k k2); [contradiction|reflexivity].
    + rewrite IH. reflexivity.
Qed.

Lemma fold_min_le (l : list (nat * Z)) : forall acc,
  fold_left (fun a kv => Z.min a (snd kv)) l acc <= acc
  /\ forall k v, In (k, v) l -> fold_left (fun a kv => Z.min a (snd kv)) l acc <= v.
Proof.
  induction l as [|[k0 v0] t IH]; intros acc; cbn [fold_left snd].
  - split; [lia|intros ? ? []].
  - destruct (IH (Z.min acc v0)) as (H1 & H2). split; [lia|].
    intros k v [E|Hin]; [inversion E; subst; lia|eauto].
Qed.

(* the aggregated value is the minimum over ALL targets in the map *)
Lemma amin_le m mn : amin m = Some mn -> forall k v, In (k, v) m -> mn <= v.
Proof.
  destruct m as [|[k0 v0] t]; cbn [amin]; [discriminate|].
  intros E k v Hin. inversion E; subst mn. clear E.
  destruct (fold_min_le t v0) as (H1 & H2).
  destruct Hin as [E|Hin]; [inversion E; subst; exact H1|eauto].
Qed.

Lemma aget_In k v m : aget k m = Some v -> In (k, v) m.
Proof.
  induction m as [|[k' v'] t IH]; cbn [aget]; [discriminate|].
  destruct (Nat.eqb_spec k k') as [->|]; [intros E; inversion E; left; reflexivity|right; auto].
Qed.

(* what the receiver sends upstream when it processes an acknowledgement *)
Definition lastsent_ok (r : recv) : Prop := 0 < r_high r -> r_lastsent r <= r_high r.

Theorem process_ack_spec sr T v r :
  let '(r', os) := process_ack sr T v r in
  (os = [] /\ r_lastsent r' = r_lastsent r
   \/ exists a, os = [OSrc sr a]
               /\ r_lastsent r' = a
               /\ (lastsent_ok r -> r_lastsent r <= a)
               /\ (0 < r_high r -> a <= r_high r)
               /\ (forall T' v', aget T' (r_map r') = Some v' -> a <= v'))
  /\ r_map r' = aset T v (r_map r)
  /\ r_high r' = r_high r /\ r_rcv r' = r_rcv r /\ r_pending r' = r_pending r
  /\ r_inq r' = r_inq r /\ r_ackq r' = r_ackq r /\ r_lastwm r' = r_lastwm r.
Proof.
  unfold process_ack, lastsent_ok.
  destruct (amin (aset T v (r_map r))) as [mn|] eqn:Emin.
  - destruct (Z.geb_spec mn (r_lastsent r)) as [Hge|Hlt].
    + split; [|cbn; repeat split; reflexivity].
      right. eexists. split; [reflexivity|].
      cbn [r_set_lastsent r_set_map r_lastsent r_map].
      assert (Hall : forall T' v', aget T' (aset T v (r_map r)) = Some v' -> mn <= v').
      { intros T' v' Hg. apply aget_In in Hg. exact (amin_le _ _ Emin _ _ Hg). }
      destruct (Z.gtb_spec (r_high r) 0) as [Hh|Hh]; cbn [andb].
      * destruct (Z.gtb_spec mn (r_high r)) as [Hc|Hc].
        -- split; [reflexivity|]. split; [intros Hok; apply Hok; lia|]. split; [lia|].
           intros T' v' Hg. specialize (Hall _ _ Hg). lia.
        -- split; [reflexivity|]. split; [lia|]. split; [lia|]. exact Hall.
      * split; [reflexivity|]. split; [lia|]. split; [lia|]. exact Hall.
    + split; [left; split; reflexivity|cbn; repeat split; reflexivity].
  - split; [left; split; reflexivity|cbn; repeat split; reflexivity].
Qed.

(* registration (the F1 fix): every target of the batch is in the map afterwards, existing values are kept *)
Lemma register_keeps gs : forall m k v, aget k m = Some v -> aget k (register gs m) = Some v.
Proof.
  induction gs as [|[T ts] rest IH]; intros m k v H; cbn [register]; [exact H|].
  apply IH. destruct (aget T m) eqn:E; [exact H|].
  destruct (Nat.eq_dec k T) as [->|Hne]; [congruence|]. rewrite aget_aset_other by exact Hne. exact H.
Qed.

Lemma register_covers gs : forall m T ts, In (T, ts) gs -> exists v, aget T (register gs m) = Some v.
Proof.
  induction gs as [|[T0 ts0] rest IH]; intros m T ts Hin; cbn [register]; [destruct Hin|].
  destruct Hin as [E|Hin].
  - inversion E; subst.
    destruct (aget T m) as [v|] eqn:Eg.
    + exists v. apply register_keeps. exact Eg.
    + exists (first_id ts). apply register_keeps. apply aget_aset_same.
  - eapply IH. exact Hin.
Qed.

Lemma register_new gs : forall m T v,
  aget T m = None -> aget T (register gs m) = Some v ->
  exists ts, In (T, ts) gs /\ v = first_id ts.
Proof.
  induction gs as [|[T0 ts0] rest IH]; intros m T v Hn Hs; cbn [register] in Hs; [congruence|].
  destruct (aget T0 m) eqn:E0.
  - destruct (IH _ _ _ Hn Hs) as (ts & Hin & Hv). exists ts. split; [right; exact Hin|exact Hv].
  - destruct (Nat.eq_dec T T0) as [->|Hne].
    + assert (Hk : aget T0 (register rest (aset T0 (first_id ts0) m)) = Some (first_id ts0))
        by (apply register_keeps, aget_aset_same).
      rewrite Hk in Hs. inversion Hs. exists ts0. split; [left; reflexivity|reflexivity].
    + assert (Hn' : aget T (aset T0 (first_id ts0) m) = None) by (rewrite aget_aset_other by exact Hne; exact Hn).
      destruct (IH _ _ _ Hn' Hs) as (ts & Hin & Hv). exists ts. split; [right; exact Hin|exact Hv].
Qed.
