(* The last hop (property C02): what is written on a target's stream.  In every fault-free execution the proxy ids of the
   tasks written on target T's stream so far, followed by those of the message about to be written, are exactly - in
   order, each once - the proxy ids of the task entries of T's id table.  Together with exact placement (Place.v: the
   table's task entries are exactly the received tasks T owns) every received task reaches its owner's wire at most once,
   under a fresh increasing id, and never another target's wire. *)
From Coq Require Import List ZArith Bool Arith Lia.
From S2S Require Import Routing.Model Routing.Basic Routing.Delivery Routing.Monitor Routing.Inv.
Import ListNotations.
Open Scope Z_scope.

Definition wire (T : nat) (outs : list out) : list wtask :=
  flat_map (fun o => match o with OTgt T' ws _ => if Nat.eqb T' T then ws else [] | OSrc _ _ => [] end) outs.
Definition inflight_ws (s : send) : list wtask := match s_inflight s with Some f => f_ws f | None => [] end.
Fixpoint tpids (start : Z) (h : list rentry) : list Z :=
  match h with [] => [] | e :: rest => (if e_task e then [start] else []) ++ tpids (start + 1) rest end.

Definition W (x : st) (outs : list out) : Prop :=
  forall T s, send_at x T s ->
    map w_pid (wire T outs ++ inflight_ws s) = tpids 1 (s_hist s) /\ (s_conn s = false -> wire T outs = [] /\ s_inflight s = None).

Lemma wire_app T o1 o2 : wire T (o1 ++ o2) = wire T o1 ++ wire T o2.
Proof. unfold wire. apply flat_map_app. Qed.

Lemma tpids_app h1 : forall start h2, tpids start (h1 ++ h2) = tpids start h1 ++ tpids (start + Z.of_nat (length h1)) h2.
Proof.
  induction h1 as [|e h1 IH]; intros start h2; cbn [app tpids length].
  - rewrite Z.add_0_r. reflexivity.
  - rewrite IH, <- app_assoc. f_equal. replace (start + 1 + Z.of_nat (length h1)) with (start + Z.of_nat (S (length h1))) by lia. reflexivity.
Qed.

Lemma tpids_tasks ts src : forall start, tpids start (map (fun t => {| e_src := src; e_val := t_id t; e_task := true |}) ts) = pids_from (start - 1) (length ts).
Proof.
  induction ts as [|t ts IH]; intros start; cbn [map tpids length pids_from e_task app]; [reflexivity|].
  f_equal; [lia|]. rewrite IH. f_equal. lia.
Qed.

Lemma w_init ns nt : W (init ns nt) [].
Proof. intros T s H. unfold send_at in H. cbn in H. apply nth_error_repeat in H. subst. cbn. auto. Qed.

Lemma wire_osrc_only T o : (forall T' ws h, ~ In (OTgt T' ws h) o) -> wire T o = [].
Proof.
  intros H. unfold wire. induction o as [|x o IH]; [reflexivity|]. cbn [flat_map]. destruct x as [T' ws h|sr a].
  - exfalso. apply (H T' ws h). left. reflexivity.
  - cbn. apply IH. intros T' ws h Hin. apply (H T' ws h). right. exact Hin.
Qed.

(* steps that neither write on a target stream nor touch a sender's table / in-flight message *)
Lemma w_frame x x' outs o : W x outs ->
  (forall T s', send_at x' T s' -> exists s, send_at x T s /\ s_hist s' = s_hist s /\ s_inflight s' = s_inflight s /\ s_conn s' = s_conn s) ->
  (forall T' ws h, ~ In (OTgt T' ws h) o) -> W x' (outs ++ o).
Proof.
  intros HW Hs Ho T s' Hs'. destruct (Hs _ _ Hs') as (s & Hsat & E1 & E2 & E3). destruct (HW T s Hsat) as [H1 H2].
  rewrite wire_app, (wire_osrc_only T o Ho), app_nil_r. unfold inflight_ws. rewrite E1, E2, E3. split; [exact H1|exact H2].
Qed.

Lemma send_same_set x T s s' : send_at x T s -> s_hist s' = s_hist s -> s_inflight s' = s_inflight s -> s_conn s' = s_conn s ->
  forall T0 s0, send_at (set_send x T (fun _ => s')) T0 s0 -> exists s1, send_at x T0 s1 /\ s_hist s0 = s_hist s1 /\ s_inflight s0 = s_inflight s1 /\ s_conn s0 = s_conn s1.
Proof.
  intros Hs E1 E2 E3 T0 s0 H. apply send_at_set_send in H. destruct H as [[E (s1 & Hs1 & ->)]|[Hne H]].
  - subst T0. exists s. auto.
  - exists s0. auto.
Qed.

Lemma send_same_id x x' : sends x' = sends x ->
  forall T s', send_at x' T s' -> exists s, send_at x T s /\ s_hist s' = s_hist s /\ s_inflight s' = s_inflight s /\ s_conn s' = s_conn s.
Proof. intros E T s' H. exists s'. unfold send_at in *. rewrite E in H. auto. Qed.

Theorem w_step x outs a : Inv x -> W x outs -> wf_act x a ->
  let '(x', o) := apply_act true x a in W x' (outs ++ o).
Proof.
  intros HI HW Hwf.
  assert (Hid : W x (outs ++ [])) by (rewrite app_nil_r; exact HW).
  assert (Hno : forall T' ws h, ~ In (OTgt T' ws h) (@nil out)) by (intros T' ws h []).
  destruct a; cbn [apply_act].
  - (* APush *) apply (w_frame x); [exact HW|apply send_same_id; reflexivity|exact Hno].
  - (* ARead *)
    destruct (nth_error (recvs x) sr) as [r|]; [|exact Hid]. destruct (r_pending r); [|exact Hid]. destruct (r_inq r) as [|[ts high] q]; [exact Hid|].
    destruct ts as [|t0 ts0].
    + apply (w_frame x); [exact HW| |exact Hno]. intros T s' H. unfold send_at in H. cbn [sends] in H. unfold broadcast in H. rewrite nth_error_map in H.
      destruct (nth_error (sends x) T) as [s|] eqn:Hs; [|discriminate]. cbn in H. inversion H. exists s. split; [exact Hs|].
      destruct (try_enqueue_cases {| c_src := sr; c_tasks := []; c_high := high |} s) as [E|[_ E]]; rewrite E; cbn; auto.
    + apply (w_frame x); [exact HW|apply send_same_id; reflexivity|exact Hno].
  - (* AHandoff *)
    destruct (nth_error (recvs x) sr) as [r|]; [|exact Hid]. destruct (nth_error (sends x) T) as [s|] eqn:Hs; [|exact Hid].
    destruct (s_conn s && has_room s); [|exact Hid]. destruct (take_group T (r_pending r)) as [[c rest]|]; [|exact Hid].
    apply (w_frame x); [exact HW| |exact Hno]. intros T0 s0 H. unfold send_at in H. cbn [sends] in H. apply nth_error_upd_inv in H.
    destruct H as [[E (s1 & Hs1 & ->)]|[Hne H]]; [subst T0; exists s1; cbn; auto|exists s0; auto].
  - (* ADequeue *)
    destruct (nth_error (sends x) T) as [s|] eqn:Hs; [|exact Hid].
    destruct (s_conn s) eqn:Hc; [|exact Hid]. destruct (s_inflight s) eqn:Hf; [exact Hid|]. destruct (s_chan s) as [|c rest] eqn:Hch; [exact Hid|].
    destruct (i_ring x HI T s Hs) as [Hnext _]. destruct (HW T s Hs) as [HwT _]. unfold inflight_ws in HwT. rewrite Hf, app_nil_r in HwT.
    destruct (c_tasks c) as [|t0 ts0] eqn:Ect.
    + rewrite app_nil_r. intros T0 s0 H. apply send_at_set_send in H. destruct H as [[E (s1 & Hs1 & ->)]|[Hne H]]; [|apply (HW T0 s0 H)].
      subst T0. cbn [s_hist s_append s_set_inflight s_set_chan s_conn s_inflight inflight_ws f_ws]. rewrite app_nil_r, tpids_app. cbn [tpids e_task app]. rewrite app_nil_r.
      split; [exact HwT|intros Hcf; rewrite Hc in Hcf; discriminate].
    + rewrite <- Ect. pose proof (assign_spec (c_src c) (c_tasks c) (s_next s)) as Ha.
      destruct (assign (c_src c) (c_tasks c) (s_next s)) as [[ws es] n'] eqn:Eas. destruct Ha as (_ & Hpid & Hes & _).
      rewrite app_nil_r. intros T0 s0 H. apply send_at_set_send in H. destruct H as [[E (s1 & Hs1 & ->)]|[Hne H]]; [|apply (HW T0 s0 H)].
      subst T0. cbn [s_hist s_append s_set_inflight s_set_chan s_conn s_inflight inflight_ws f_ws]. rewrite map_app, tpids_app, HwT. split; [|intros Hcf; rewrite Hc in Hcf; discriminate].
      f_equal. rewrite Hpid, Hes, tpids_tasks. f_equal. lia.
  - (* ASend: the in-flight message goes onto the wire *)
    destruct (nth_error (sends x) T) as [s|] eqn:Hs; [|exact Hid]. destruct (s_conn s && negb (s_stalled s)) eqn:Hcs; [|exact Hid].
    destruct (s_inflight s) as [f|] eqn:Hf; [|exact Hid]. apply andb_prop in Hcs. destruct Hcs as [Hc _].
    intros T0 s0 H. apply send_at_set_send in H. rewrite wire_app. cbn [wire flat_map]. rewrite app_nil_r.
    destruct H as [[E (s1 & Hs1 & ->)]|[Hne H]].
    + subst T0. rewrite Nat.eqb_refl. destruct (HW T s Hs) as [HwT _]. unfold inflight_ws in HwT. rewrite Hf in HwT.
      assert (E : s_hist (if f_keepalive f then s_set_inflight None s else s_set_lastwm (f_high f) (s_set_inflight None s)) = s_hist s) by (destruct (f_keepalive f); reflexivity).
      assert (E2 : inflight_ws (if f_keepalive f then s_set_inflight None s else s_set_lastwm (f_high f) (s_set_inflight None s)) = []) by (destruct (f_keepalive f); reflexivity).
      assert (E3 : s_conn (if f_keepalive f then s_set_inflight None s else s_set_lastwm (f_high f) (s_set_inflight None s)) = true) by (destruct (f_keepalive f); exact Hc).
      rewrite E, E2, app_nil_r. split; [exact HwT|intros Hcf; rewrite E3 in Hcf; discriminate].
    + destruct (Nat.eqb_spec T T0) as [E|_]; [congruence|]. rewrite app_nil_r. apply (HW T0 s0 H).
  - (* AKeepalive *)
    destruct (nth_error (sends x) T) as [s|] eqn:Hs; [|exact Hid]. destruct (s_conn s) eqn:Hc; [|exact Hid]. destruct (s_inflight s) eqn:Hf; [exact Hid|].
    destruct (s_lastwm s >? 0); [|exact Hid]. rewrite app_nil_r. rewrite (set_send_const x T _ s Hs).
    intros T0 s0 H. apply send_at_set_send in H. destruct H as [[E (s1 & Hs1 & ->)]|[Hne H]]; [|apply (HW T0 s0 H)].
    subst T0. destruct (HW T s Hs) as [HwT _]. unfold inflight_ws in *. rewrite Hf in HwT. cbn. split; [exact HwT|intros Hcf; rewrite Hc in Hcf; discriminate].
  - (* AAckIn *)
    destruct (nth_error (sends x) T) as [s|] eqn:Hs; [|exact Hid]. destruct (s_conn s); [|exact Hid].
    rewrite (set_send_const x T _ s Hs). apply (w_frame x); [exact HW|apply (send_same_set x T s); auto|exact Hno].
  - (* AAggregate *)
    destruct (nth_error (sends x) T) as [s|] eqn:Hs; [|exact Hid]. destruct (s_conn s); [|exact Hid]. destruct (s_ackflight s); [exact Hid|]. destruct (s_ackin s) as [|w rest]; [exact Hid|].
    destruct (aggregate s w) as [acks c]. apply (w_frame x); [exact HW|apply (send_same_set x T s); auto|exact Hno].
  - (* ADeliver *)
    destruct (nth_error (sends x) T) as [s|] eqn:Hs; [|exact Hid]. destruct (s_conn s); [|exact Hid]. destruct (s_ackflight s) as [fl|]; [|exact Hid].
    destruct (af_todo fl) as [|[sr a] rest]; [exact Hid|]. destruct (nth_error (recvs x) sr) as [r|]; [|exact Hid].
    destruct (Nat.ltb (length (r_ackq r)) chan_cap); [|exact Hid].
    apply (w_frame x); [exact HW| |exact Hno]. intros T0 s0 H. unfold send_at in H. cbn [sends] in H. apply nth_error_upd_inv in H.
    destruct H as [[E (s1 & Hs1 & ->)]|[Hne H]]; [subst T0; exists s; split; [exact Hs|destruct (af_new fl); cbn; auto]|exists s0; auto].
  - (* ADiscard *)
    destruct (nth_error (sends x) T) as [s|] eqn:Hs; [|exact Hid]. destruct (s_conn s); [|exact Hid]. destruct (s_ackflight s) as [fl|]; [|exact Hid]. destruct (af_todo fl); [|exact Hid].
    apply (w_frame x); [exact HW|apply (send_same_set x T s); auto|exact Hno].
  - (* AProcAck: writes to a source, not to a target *)
    destruct (nth_error (recvs x) sr) as [r|]; [|exact Hid]. destruct (r_ackq r) as [|[T v] q]; [exact Hid|].
    pose proof (process_ack_spec sr T v (r_set_ackq q r)) as Hspec. destruct (process_ack sr T v (r_set_ackq q r)) as [r' o].
    apply (w_frame x); [exact HW|apply send_same_id; reflexivity|].
    destruct Hspec as ([[-> _]|(a & -> & _)] & _); intros T' ws h Hin; [destruct Hin|destruct Hin as [E|[]]; discriminate].
  - (* AConnect *)
    destruct (nth_error (sends x) T) as [s|] eqn:Hs; [|exact Hid]. rewrite app_nil_r.
    set (s0 := {| s_conn := true; s_stalled := false; s_chan := []; s_inflight := None; s_next := 0; s_start := 0; s_ring := [];
                  s_prev := []; s_lastwm := 0; s_ackin := []; s_ackflight := None; s_hist := []; s_acked := 0 |}).
    pose proof (Hwf s Hs) as Hnc. destruct (HW T s Hs) as [_ Hnw]. destruct (Hnw Hnc) as [Hwnil _].
    destruct (replay_from_spec (recvs x) 0 s0) as (B1 & B2 & _). cbn in B1, B2.
    intros T0 s1 H. apply send_at_set_send in H. destruct H as [[E (s2 & Hs2 & ->)]|[Hne H]]; [|apply (HW T0 s1 H)].
    subst T0. rewrite Hwnil, B2. cbn [app tpids].
    assert (Hinf : s_inflight (replay_from 0 (recvs x) s0) = None).
    { assert (G : forall rs (sx : send) i, s_inflight sx = None -> s_inflight (replay_from i rs sx) = None).
      { induction rs as [|r rs IH]; intros sx i Hx; cbn [replay_from]; [exact Hx|]. apply IH. destruct (r_lastwm r =? 0); [exact Hx|].
        destruct (try_enqueue_cases {| c_src := i; c_tasks := []; c_high := r_lastwm r |} sx) as [Ex|[_ Ex]]; rewrite Ex; exact Hx. }
      apply G. reflexivity. }
    unfold inflight_ws. rewrite Hinf. split; [reflexivity|intros Hcf; rewrite B1 in Hcf; discriminate].
  - destruct Hwf.
  - destruct Hwf.
  - (* AStall *) destruct (nth_error (sends x) T) as [s|] eqn:Hs; [|rewrite set_send_none by exact Hs; exact Hid].
    rewrite (set_send_const x T _ s Hs). apply (w_frame x); [exact HW|apply (send_same_set x T s); auto|exact Hno].
  - (* AUnstall *) destruct (nth_error (sends x) T) as [s|] eqn:Hs; [|rewrite set_send_none by exact Hs; exact Hid].
    rewrite (set_send_const x T _ s Hs). apply (w_frame x); [exact HW|apply (send_same_set x T s); auto|exact Hno].
Qed.

Theorem w_run l : forall x outs, Inv x -> W x outs -> wf_run x l ->
  let '(x', o) := run_acts true x l in W x' (outs ++ o).
Proof.
  induction l as [|a l IH]; intros x outs HI HW Hwf; cbn [run_acts]; [rewrite app_nil_r; exact HW|]. destruct Hwf as [Hwa Hwr].
  pose proof (inv_step x a HI Hwa) as H1. pose proof (w_step x outs a HI HW Hwa) as H2.
  destruct (apply_act true x a) as [x1 o1]. cbn [fst] in *. specialize (IH x1 (outs ++ o1) H1 H2 Hwr).
  destruct (run_acts true x1 l) as [x2 o2]. rewrite app_assoc. exact IH.
Qed.

(* strictly increasing list of integers *)
Fixpoint increasing (l : list Z) : Prop := match l with [] => True | a :: rest => (match rest with [] => True | b :: _ => a < b end) /\ increasing rest end.

Lemma tpids_lower h : forall start p, In p (tpids start h) -> start <= p.
Proof.
  induction h as [|e h IH]; intros start p H; cbn [tpids] in H; [destruct H|]. apply in_app_or in H. destruct H as [H|H].
  - destruct (e_task e); [destruct H as [<-|[]]; lia|destruct H].
  - specialize (IH _ _ H). lia.
Qed.

Lemma tpids_increasing h : forall start, increasing (tpids start h).
Proof.
  induction h as [|e h IH]; intros start; cbn [tpids]; [exact I|]. destruct (e_task e); cbn [app]; [|apply IH].
  cbn [increasing]. split; [|apply IH]. destruct (tpids (start + 1) h) as [|b rest] eqn:E; [exact I|].
  assert (In b (tpids (start + 1) h)) by (rewrite E; left; reflexivity). pose proof (tpids_lower _ _ _ H). lia.
Qed.

Lemma increasing_prefix l1 : forall l2, increasing (l1 ++ l2) -> increasing l1.
Proof.
  induction l1 as [|a l1 IH]; intros l2 H; [exact I|]. cbn [app increasing] in *. destruct H as [H1 H2]. split; [|apply (IH l2 H2)].
  destruct l1 as [|b l1]; [exact I|exact H1].
Qed.

(* from the initial state: what has been written on T's stream carries exactly the proxy ids of T's table entries that are
   tasks (less the message in flight), in strictly increasing order - so no task is written twice and none out of order *)
Theorem wire_ids ns nt l :
  wf_run (init ns nt) l ->
  let '(x, outs) := run_acts true (init ns nt) l in
  forall T s, send_at x T s ->
    map w_pid (wire T outs ++ inflight_ws s) = tpids 1 (s_hist s) /\ increasing (map w_pid (wire T outs)).
Proof.
  intros Hwf. pose proof (w_run l (init ns nt) [] (inv_init ns nt) (w_init ns nt) Hwf) as H.
  destruct (run_acts true (init ns nt) l) as [x outs]. cbn [app] in H. intros T s Hs. destruct (H T s Hs) as [H1 _]. split; [exact H1|].
  pose proof (tpids_increasing (s_hist s) 1) as Hi. rewrite <- H1, map_app in Hi. apply (increasing_prefix _ _ Hi).
Qed.
