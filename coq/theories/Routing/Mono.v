(* Acknowledgements to a source are monotone and bounded in every fault-free execution (property C03, safety part):
   a consequence of the invariant of Routing/Inv.v. *)
From Coq Require Import List ZArith Bool Arith Lia.
From S2S Require Import Routing.Model Routing.Basic Routing.Delivery Routing.Monitor Routing.Inv.
Import ListNotations.
Open Scope Z_scope.

(* what the receiver last sent upstream never exceeds the source's last high watermark *)
Definition LS (x : st) : Prop := forall sr r, recv_at x sr r -> r_lastsent r <= r_high r.

Lemma ls_init ns nt : LS (init ns nt).
Proof. intros sr r H. unfold recv_at in H. cbn in H. apply nth_error_repeat in H. subst. cbn. lia. Qed.

(* the acknowledgement emitted by one action, if any, with the receiver's state before it *)
Definition ack_ok (x : st) (a : act) : Prop :=
  forall sr v, In (OSrc sr v) (snd (apply_act true x a)) ->
  exists r, recv_at x sr r /\ r_lastsent r <= v /\ (forall r', recv_at (fst (apply_act true x a)) sr r' -> r_lastsent r' = v /\ v <= r_high r').

Lemma recvs_unchanged_ls x x' : LS x ->
  (forall sr r', recv_at x' sr r' -> exists r, recv_at x sr r /\ r_lastsent r' = r_lastsent r /\ r_high r <= r_high r') -> LS x'.
Proof. intros H Hr sr r' Hr'. destruct (Hr _ _ Hr') as (r & Hat & E1 & E2). specialize (H _ _ Hat). lia. Qed.

Theorem ls_step x a : Inv x -> LS x -> wf_act x a -> LS (fst (apply_act true x a)) /\ ack_ok x a.
Proof.
  intros HI HL Hwf.
  assert (Hnoack : forall a0, (forall sr', a0 <> AProcAck sr') -> ack_ok x a0).
  { intros a0 Hne sr v Hin. destruct (only_procack_acks x a0 (OSrc sr v) sr v Hin eq_refl) as (sr' & E). exfalso. apply (Hne sr' E). }
  destruct a; try (split; [|apply Hnoack; intros sr' E; discriminate]).
  - (* APush *) cbn [apply_act fst]. apply (recvs_unchanged_ls x); [exact HL|]. intros sr0 r' H. apply recv_at_set_recv in H.
    destruct H as [[E (r & Hr & ->)]|[Hne H]]; [subst; exists r; cbn; repeat split; auto; lia|exists r'; repeat split; auto; lia].
  - (* ARead *) cbn [apply_act]. destruct (nth_error (recvs x) sr) as [r|] eqn:Hr; [|exact HL].
    destruct (r_pending r) eqn:Hp; [|exact HL]. destruct (r_inq r) as [|[ts high] q] eqn:Hq; [exact HL|].
    pose proof (i_q x HI sr r Hr) as Hc. rewrite Hq in Hc. cbn [chain] in Hc. destruct Hc as (_ & _ & Hle & _).
    destruct ts as [|t0 ts0]; cbn [fst]; apply (recvs_unchanged_ls x); try exact HL; intros sr0 r' H.
    + unfold recv_at in H. cbn [recvs] in H. apply nth_error_upd_inv in H. destruct H as [[E (r1 & Hr1 & ->)]|[Hne H]]; [subst; exists r; cbn; repeat split; auto|exists r'; repeat split; auto; lia].
    + apply recv_at_set_recv in H. destruct H as [[E (r1 & Hr1 & ->)]|[Hne H]]; [subst; exists r; cbn; repeat split; auto|exists r'; repeat split; auto; lia].
  - (* AHandoff *) cbn [apply_act]. destruct (nth_error (recvs x) sr) as [r|] eqn:Hr; [|exact HL]. destruct (nth_error (sends x) T) as [s|]; [|exact HL].
    destruct (s_conn s && has_room s); [|exact HL]. destruct (take_group T (r_pending r)) as [[c rest]|]; [|exact HL]. cbn [fst].
    apply (recvs_unchanged_ls x); [exact HL|]. intros sr0 r' H. unfold recv_at in H. cbn [recvs] in H. apply nth_error_upd_inv in H.
    destruct H as [[E (r1 & Hr1 & ->)]|[Hne H]]; [subst; exists r1; cbn; repeat split; auto; lia|exists r'; repeat split; auto; lia].
  - (* ADequeue *) apply (recvs_unchanged_ls x); [exact HL|]. intros sr0 r' H. exists r'. split; [|split; [reflexivity|lia]].
    cbn [apply_act] in H. destruct (nth_error (sends x) T) as [s|]; [|exact H]. destruct (s_conn s), (s_inflight s), (s_chan s) as [|c rest]; try exact H.
    destruct (c_tasks c); [exact H|]. destruct (assign (c_src c) (t :: l) (s_next s)) as [[ws es] n']. exact H.
  - (* ASend *) apply (recvs_unchanged_ls x); [exact HL|]. intros sr0 r' H. exists r'. split; [|split; [reflexivity|lia]].
    cbn [apply_act] in H. destruct (nth_error (sends x) T) as [s|]; [|exact H]. destruct (s_conn s && negb (s_stalled s)), (s_inflight s); exact H.
  - (* AKeepalive *) apply (recvs_unchanged_ls x); [exact HL|]. intros sr0 r' H. exists r'. split; [|split; [reflexivity|lia]].
    cbn [apply_act] in H. destruct (nth_error (sends x) T) as [s|]; [|exact H]. destruct (s_conn s), (s_inflight s); try exact H. destruct (s_lastwm s >? 0); exact H.
  - (* AAckIn *) apply (recvs_unchanged_ls x); [exact HL|]. intros sr0 r' H. exists r'. split; [|split; [reflexivity|lia]].
    cbn [apply_act] in H. destruct (nth_error (sends x) T) as [s|]; [|exact H]. destruct (s_conn s); exact H.
  - (* AAggregate *) apply (recvs_unchanged_ls x); [exact HL|]. intros sr0 r' H. exists r'. split; [|split; [reflexivity|lia]].
    cbn [apply_act] in H. destruct (nth_error (sends x) T) as [s|]; [|exact H]. destruct (s_conn s), (s_ackflight s), (s_ackin s) as [|w rest]; try exact H.
  - (* ADeliver *) cbn [apply_act]. destruct (nth_error (sends x) T) as [s|]; [|exact HL]. destruct (s_conn s); [|exact HL]. destruct (s_ackflight s) as [fl|]; [|exact HL].
    destruct (af_todo fl) as [|[sr a] rest]; [exact HL|]. destruct (nth_error (recvs x) sr) as [r|] eqn:Hr; [|exact HL].
    destruct (Nat.ltb (length (r_ackq r)) chan_cap); [|exact HL]. cbn [fst].
    apply (recvs_unchanged_ls x); [exact HL|]. intros sr0 r' H. unfold recv_at in H. cbn [recvs] in H. apply nth_error_upd_inv in H.
    destruct H as [[E (r1 & Hr1 & ->)]|[Hne H]]; [subst; exists r1; cbn; repeat split; auto; lia|exists r'; repeat split; auto; lia].
  - (* ADiscard *) apply (recvs_unchanged_ls x); [exact HL|]. intros sr0 r' H. exists r'. split; [|split; [reflexivity|lia]].
    cbn [apply_act] in H. destruct (nth_error (sends x) T) as [s|]; [|exact H]. destruct (s_conn s), (s_ackflight s) as [fl|]; try exact H. destruct (af_todo fl); exact H.
  - (* AProcAck: the only action that sends upstream *)
    cbn [apply_act]. unfold ack_ok. cbn [apply_act]. destruct (nth_error (recvs x) sr) as [r|] eqn:Hr; [|split; [exact HL|intros sr0 v []]].
    destruct (r_ackq r) as [|[T v] q] eqn:Hq; [split; [exact HL|intros sr0 v0 []]|].
    pose proof (process_ack_spec sr T v (r_set_ackq q r)) as Hspec.
    destruct (process_ack sr T v (r_set_ackq q r)) as [r' o]. cbn [fst snd].
    destruct Hspec as (Hout & Hmap & Hhigh & _). cbn in Hhigh, Hmap.
    assert (Hgood : v <= r_high r) by (apply (i_gackq x HI sr r Hr T v); [rewrite Hq; left; reflexivity|exact Hr]).
    assert (Hls : r_lastsent r <= r_high r) by (apply (HL sr r); exact Hr).
    assert (Hcase : forall sr0 r0, recv_at (set_recv x sr (fun _ => r')) sr0 r0 -> (sr0 = sr /\ r0 = r') \/ (sr0 <> sr /\ recv_at x sr0 r0)).
    { intros sr0 r0 H. apply recv_at_set_recv in H. destruct H as [[E (r1 & _ & E2)]|[Hne H]]; [left; auto|right; auto]. }
    destruct Hout as [[-> Hsame]|(a & -> & Hnew & Hge & Hcl & Hall)].
    + split; [|intros sr0 v0 []]. intros sr0 r0 H. destruct (Hcase _ _ H) as [[-> ->]|[Hne H1]]; [cbn in Hsame; rewrite Hsame, Hhigh; exact Hls|apply (HL _ _ H1)].
    + assert (Ha : a <= r_high r).
      { assert (Hv : aget T (r_map r') = Some v) by (rewrite Hmap; apply aget_aset_same). specialize (Hall _ _ Hv). lia. }
      split.
      * intros sr0 r0 H. destruct (Hcase _ _ H) as [[-> ->]|[Hne H1]]; [rewrite Hnew, Hhigh; exact Ha|apply (HL _ _ H1)].
      * intros sr0 v0 [E|[]]. inversion E; subst sr0 v0. exists r. split; [exact Hr|]. split.
        -- cbn in Hge. apply Hge. unfold lastsent_ok. cbn. intros _. exact Hls.
        -- intros r0 H. destruct (Hcase _ _ H) as [[_ ->]|[Hne _]]; [rewrite Hnew, Hhigh; split; [reflexivity|exact Ha]|contradiction].
  - (* AConnect *) apply (recvs_unchanged_ls x); [exact HL|]. intros sr0 r' H. exists r'. split; [|split; [reflexivity|lia]].
    cbn [apply_act] in H. destruct (nth_error (sends x) T); exact H.
  - destruct Hwf.
  - destruct Hwf.
  - (* AStall *) apply (recvs_unchanged_ls x); [exact HL|]. intros sr0 r' H. exists r'. split; [exact H|split; [reflexivity|lia]].
  - (* AUnstall *) apply (recvs_unchanged_ls x); [exact HL|]. intros sr0 r' H. exists r'. split; [exact H|split; [reflexivity|lia]].
Qed.

Fixpoint all_acks_ok (x : st) (l : list act) : Prop :=
  match l with [] => True | a :: rest => ack_ok x a /\ all_acks_ok (fst (apply_act true x a)) rest end.

(* every acknowledgement of every fault-free run is at least the previous one sent to that source and at most the
   source's last high watermark *)
Theorem acks_monotone_bounded l : forall x, Inv x -> LS x -> wf_run x l -> all_acks_ok x l.
Proof.
  induction l as [|a l IH]; intros x HI HL Hwf; cbn [all_acks_ok]; [exact I|]. destruct Hwf as [Hwa Hwr].
  destruct (ls_step x a HI HL Hwa) as [HL1 Hok]. split; [exact Hok|]. apply IH; [apply inv_step; assumption|exact HL1|exact Hwr].
Qed.
