(* The end-to-end safety invariant of routing mode (fault-free executions): for EVERY sequence of actions of the
   transition system - every interleaving of the receivers', senders' and acknowledgement goroutines' critical sections -
   every value a receiver sends upstream covers only tasks that the owning target's stream has confirmed. *)
From Coq Require Import List ZArith Bool Arith Lia.
From S2S Require Import Routing.Model Routing.Basic Routing.Delivery Routing.Monitor.
Import ListNotations.
Open Scope Z_scope.

(* ---------- views of the state ---------- *)
Definition te (sr : nat) (t : task) : rentry := {| e_src := sr; e_val := t_id t; e_task := true |}.
Definition chan_entries (c : cmsg) : list rentry :=
  match c_tasks c with
  | [] => [{| e_src := c_src c; e_val := c_high c; e_task := false |}]
  | ts => map (te (c_src c)) ts
  end.
(* everything that has been handed to target T's sender, in order: appended to its id table or still in its channel *)
Definition L (s : send) : list rentry := s_hist s ++ flat_map chan_entries (s_chan s).
Definition pend (r : recv) (T : nat) : list task :=
  flat_map (fun p => if Nat.eqb (fst p) T then c_tasks (snd p) else []) (r_pending r).
Definition recv_at (x : st) (sr : nat) (r : recv) : Prop := nth_error (recvs x) sr = Some r.
Definition send_at (x : st) (T : nat) (s : send) : Prop := nth_error (sends x) T = Some s.

(* task (sr, id) has an entry in the sender's table with a proxy id below what the target acknowledged *)
Definition conf (s : send) (sr : nat) (id : Z) : Prop :=
  exists i, nth_error (s_hist s) i = Some {| e_src := sr; e_val := id; e_task := true |} /\ Z.of_nat i + 1 < s_acked s.

(* v is a safe acknowledgement value of target T towards source sr *)
Definition Good (x : st) (sr T : nat) (v : Z) : Prop :=
  forall r, recv_at x sr r ->
    v <= r_high r /\
    forall t, In t (r_rcv r) -> t_owner t = T -> t_id t < v -> exists s, send_at x T s /\ conf s sr (t_id t).

Fixpoint incr (lo : Z) (ts : list task) : Prop :=
  match ts with [] => True | t :: rest => lo <= t_id t /\ incr (t_id t + 1) rest end.
(* the batches a source has sent and the receiver has not read yet continue where the last read batch ended *)
Fixpoint chain (lo : Z) (q : list (list task * Z)) : Prop :=
  match q with
  | [] => True
  | (ts, h) :: rest => incr lo ts /\ (forall t, In t ts -> t_id t < h) /\ lo <= h /\ chain h rest
  end.

Definition pend_ok (sr : nat) (r : recv) : Prop :=
  NoDup (map fst (r_pending r)) /\
  forall T c, In (T, c) (r_pending r) ->
    c_src c = sr /\ c_tasks c <> [] /\ (exists lo, incr lo (c_tasks c)) /\
    forall t, In t (c_tasks c) -> t_owner t = T /\ In t (r_rcv r) /\ r_lastwm r <= t_id t.

Record Inv (x : st) : Prop := {
  i_lw : forall sr r, recv_at x sr r -> r_lastwm r <= r_high r;
  i_rcvb : forall sr r, recv_at x sr r -> forall t, In t (r_rcv r) -> t_id t < r_high r;
  i_q : forall sr r, recv_at x sr r -> chain (r_high r) (r_inq r);
  i_pend : forall sr r, recv_at x sr r -> pend_ok sr r;
  i_p : forall sr r, recv_at x sr r -> forall t, In t (r_rcv r) ->
        (exists s, send_at x (t_owner t) s /\ In (te sr t) (L s)) \/ In t (pend r (t_owner t));
  i_nc : forall T s, send_at x T s -> s_conn s = false ->
         s_hist s = [] /\ s_chan s = [] /\ s_ackflight s = None /\ s_prev s = [] /\ s_ring s = [] /\ s_ackin s = [];
  i_before : forall sr r T s, recv_at x sr r -> send_at x T s ->
             forall l1 e l2, L s = l1 ++ e :: l2 -> e_src e = sr ->
             forall t, In t (r_rcv r) -> t_owner t = T -> t_id t < e_val e -> In (te sr t) l1;
  i_bnd : forall sr r T s, recv_at x sr r -> send_at x T s -> forall e, In e (L s) -> e_src e = sr -> e_val e <= r_high r;
  i_ring : forall T s, send_at x T s ->
           s_next s = Z.of_nat (length (s_hist s)) /\
           (s_ring s <> [] -> 1 <= s_start s /\ s_ring s = skipn (Z.to_nat (s_start s - 1)) (s_hist s));
  i_gmap : forall sr r, recv_at x sr r -> forall T v, aget T (r_map r) = Some v -> Good x sr T v;
  i_gackq : forall sr r, recv_at x sr r -> forall T v, In (T, v) (r_ackq r) -> Good x sr T v;
  i_gflight : forall T s fl, send_at x T s -> s_ackflight s = Some fl -> forall sr a, In (sr, a) (af_todo fl) -> Good x sr T a;
  i_gprev : forall T s, send_at x T s -> forall sr a, In (sr, a) (s_prev s) -> Good x sr T a;
  i_reg : forall sr r, recv_at x sr r -> forall t, In t (r_rcv r) -> exists v, aget (t_owner t) (r_map r) = Some v
}.

(* ---------- list helpers ---------- *)
Lemma nth_error_upd {A} (l : list A) n f : forall m,
  nth_error (upd l n f) m = if Nat.eqb n m then option_map f (nth_error l m) else nth_error l m.
Proof.
  revert n. induction l as [|a l IH]; intros n m.
  - destruct n, m; cbn; try reflexivity; destruct (Nat.eqb n m); reflexivity.
  - destruct n as [|n], m as [|m]; cbn [upd nth_error Nat.eqb option_map]; try reflexivity. apply IH.
Qed.

Lemma nth_error_upd_same {A} (l : list A) n f a : nth_error l n = Some a -> nth_error (upd l n f) n = Some (f a).
Proof. intros H. rewrite nth_error_upd, Nat.eqb_refl, H. reflexivity. Qed.

Lemma nth_error_upd_other {A} (l : list A) n f m : n <> m -> nth_error (upd l n f) m = nth_error l m.
Proof. intros H. rewrite nth_error_upd. apply Nat.eqb_neq in H. rewrite H. reflexivity. Qed.

Lemma nth_error_upd_inv {A} (l : list A) n f m b :
  nth_error (upd l n f) m = Some b ->
  (n = m /\ exists a, nth_error l m = Some a /\ b = f a) \/ (n <> m /\ nth_error l m = Some b).
Proof.
  rewrite nth_error_upd. destruct (Nat.eqb n m) eqn:E.
  - apply Nat.eqb_eq in E. destruct (nth_error l m) as [a|]; cbn; [|discriminate]. intros H. inversion H. left. split; [exact E|]. exists a. auto.
  - apply Nat.eqb_neq in E. intros H. right. auto.
Qed.

Lemma aset_In k v m : forall k' v', In (k', v') (aset k v m) -> (k' = k /\ v' = v) \/ In (k', v') m.
Proof.
  induction m as [|[a b] m IH]; intros k' v' H; cbn [aset] in H.
  - destruct H as [E|[]]. inversion E. auto.
  - destruct (Nat.eqb k a) eqn:E.
    + destruct H as [E1|H]; [inversion E1; auto|right; right; exact H].
    + destruct H as [E1|H]; [right; left; exact E1|]. destruct (IH _ _ H) as [H1|H1]; [auto|right; right; exact H1].
Qed.

Lemma aget_aset k v m k' : aget k' (aset k v m) = if Nat.eqb k' k then Some v else aget k' m.
Proof.
  destruct (Nat.eqb k' k) eqn:E.
  - apply Nat.eqb_eq in E. subst. apply aget_aset_same.
  - apply Nat.eqb_neq in E. apply aget_aset_other. exact E.
Qed.

(* ---------- Good is stable ---------- *)
(* one step never forgets a received task, never lowers a source's high watermark, only adds ids above it, only
   extends a sender's table at the tail and only raises what its target acknowledged *)
Definition mono (x x' : st) : Prop :=
  (forall sr r', recv_at x' sr r' -> exists r, recv_at x sr r /\ r_high r <= r_high r' /\
      forall t, In t (r_rcv r') -> In t (r_rcv r) \/ r_high r <= t_id t) /\
  (forall T s, send_at x T s -> exists s', send_at x' T s' /\ (exists ext, s_hist s' = s_hist s ++ ext) /\ s_acked s <= s_acked s').

Lemma conf_mono s s' sr id : (exists ext, s_hist s' = s_hist s ++ ext) -> s_acked s <= s_acked s' -> conf s sr id -> conf s' sr id.
Proof.
  intros [ext He] Ha (i & Hn & Hl). exists i. split; [|lia].
  rewrite He. rewrite nth_error_app1; [exact Hn|]. apply nth_error_Some. congruence.
Qed.

Lemma good_mono x x' sr T v : mono x x' -> Good x sr T v -> Good x' sr T v.
Proof.
  intros [Hr Hs] HG r' Hr'. destruct (Hr _ _ Hr') as (r & Hat & Hh & Hrcv).
  destruct (HG _ Hat) as [Hv Ht]. split; [lia|].
  intros t Hin Ho Hlt. destruct (Hrcv _ Hin) as [Hold|Hnew]; [|lia].
  destruct (Ht _ Hold Ho Hlt) as (s & Hsat & Hc). destruct (Hs _ _ Hsat) as (s' & Hs' & Hext & Hack).
  exists s'. split; [exact Hs'|]. eapply conf_mono; eassumption.
Qed.

Lemma mono_refl x : mono x x.
Proof.
  split.
  - intros sr r H. exists r. split; [exact H|]. split; [lia|]. intros t Ht. left. exact Ht.
  - intros T s H. exists s. split; [exact H|]. split; [exists []; rewrite app_nil_r; reflexivity|lia].
Qed.

(* confirmed (the monitor's boolean) follows from conf *)
Lemma find_confirmed_nth sr id acked h : forall pid i,
  nth_error h i = Some {| e_src := sr; e_val := id; e_task := true |} -> pid + Z.of_nat i < acked ->
  find_confirmed sr id acked pid h = true.
Proof.
  induction h as [|e h IH]; intros pid i Hn Hl; [destruct i; discriminate|].
  cbn [find_confirmed]. destruct i as [|i]; cbn [nth_error] in Hn.
  - inversion Hn; subst e. cbn. rewrite Nat.eqb_refl, Z.eqb_refl. cbn.
    replace (pid <? acked) with true by (symmetry; apply Z.ltb_lt; lia). reflexivity.
  - apply orb_true_iff. right. apply (IH (pid + 1) i Hn). lia.
Qed.

Lemma conf_confirmed x sr t s : send_at x (t_owner t) s -> conf s sr (t_id t) -> confirmed x sr t = true.
Proof.
  intros Hs (i & Hn & Hl). unfold confirmed. unfold send_at in Hs. rewrite Hs.
  apply (find_confirmed_nth sr (t_id t) (s_acked s) (s_hist s) 1 i Hn). lia.
Qed.

(* ---------- the initial state ---------- *)
Lemma nth_error_repeat {A} (a : A) n i b : nth_error (repeat a n) i = Some b -> b = a.
Proof. intros H. apply nth_error_In in H. apply repeat_spec in H. exact H. Qed.

Lemma inv_init ns nt : Inv (init ns nt).
Proof.
  constructor; unfold recv_at, send_at; cbn [init recvs sends].
  - intros sr r H. apply nth_error_repeat in H. subst. cbn. lia.
  - intros sr r H t Ht. apply nth_error_repeat in H. subst. destruct Ht.
  - intros sr r H. apply nth_error_repeat in H. subst. exact I.
  - intros sr r H. apply nth_error_repeat in H. subst. split; [constructor|]. intros T c [].
  - intros sr r H t Ht. apply nth_error_repeat in H. subst. destruct Ht.
  - intros T s H _. apply nth_error_repeat in H. subst. cbn. repeat split; reflexivity.
  - intros sr r T s Hr Hs l1 e l2 HL. apply nth_error_repeat in Hs. subst. cbn in HL. destruct l1; discriminate.
  - intros sr r T s Hr Hs e He. apply nth_error_repeat in Hs. subst. destruct He.
  - intros T s H. apply nth_error_repeat in H. subst. cbn. split; [reflexivity|]. intros C. exfalso. apply C. reflexivity.
  - intros sr r H T v Hg. apply nth_error_repeat in H. subst. discriminate.
  - intros sr r H T v Hin. apply nth_error_repeat in H. subst. destruct Hin.
  - intros T s fl H Hf. apply nth_error_repeat in H. subst. discriminate.
  - intros T s H sr a Hin. apply nth_error_repeat in H. subst. destruct Hin.
  - intros sr r H t Ht. apply nth_error_repeat in H. subst. destruct Ht.
Qed.

(* ---------- a step that changes one sender and leaves what was handed to it unchanged ---------- *)
Definition ring_ok (s : send) : Prop :=
  s_next s = Z.of_nat (length (s_hist s)) /\
  (s_ring s <> [] -> 1 <= s_start s /\ s_ring s = skipn (Z.to_nat (s_start s - 1)) (s_hist s)).

Lemma send_at_set_send x T f T' s' :
  send_at (set_send x T f) T' s' ->
  (T = T' /\ exists s, send_at x T s /\ s' = f s) \/ (T <> T' /\ send_at x T' s').
Proof.
  unfold send_at, set_send. cbn [sends]. intros H. apply nth_error_upd_inv in H.
  destruct H as [[E (a & Ha & Hb)]|[Hne H]]; [left; subst T'; split; [reflexivity|exists a; auto]|right; auto].
Qed.

Lemma mono_set_send x T s s' :
  send_at x T s -> (exists ext, s_hist s' = s_hist s ++ ext) -> s_acked s <= s_acked s' ->
  mono x (set_send x T (fun _ => s')).
Proof.
  intros Hs Hext Hack. split.
  - intros sr r H. exists r. split; [exact H|]. split; [lia|]. intros t Ht. left. exact Ht.
  - intros T0 s0 H0. destruct (Nat.eq_dec T T0) as [->|Hne].
    + unfold send_at in *. rewrite Hs in H0. inversion H0; subst s0. exists s'. split.
      * cbn [set_send sends]. exact (nth_error_upd_same (sends x) T0 (fun _ => s') s Hs).
      * split; assumption.
    + exists s0. split.
      * unfold send_at. cbn [set_send sends]. rewrite nth_error_upd_other by exact Hne. exact H0.
      * split; [exists []; rewrite app_nil_r; reflexivity|lia].
Qed.

Lemma inv_set_send x T s s' :
  Inv x -> send_at x T s ->
  L s' = L s ->
  (exists ext, s_hist s' = s_hist s ++ ext) -> s_acked s <= s_acked s' ->
  (s_conn s' = false -> s_hist s' = [] /\ s_chan s' = [] /\ s_ackflight s' = None /\ s_prev s' = [] /\ s_ring s' = [] /\ s_ackin s' = []) ->
  ring_ok s' ->
  (forall fl', s_ackflight s' = Some fl' -> forall sr a, In (sr, a) (af_todo fl') -> Good (set_send x T (fun _ => s')) sr T a) ->
  (forall sr a, In (sr, a) (s_prev s') -> Good (set_send x T (fun _ => s')) sr T a) ->
  Inv (set_send x T (fun _ => s')).
Proof.
  intros HI Hs HL Hext Hack Hnc Hring Hfl Hprev.
  pose proof (mono_set_send x T s s' Hs Hext Hack) as Hm.
  set (x' := set_send x T (fun _ => s')) in *.
  assert (Hrecv : forall sr r, recv_at x' sr r <-> recv_at x sr r) by (intros; unfold recv_at; cbn; reflexivity).
  assert (Hsend : forall T' s0, send_at x' T' s0 -> (T' = T /\ s0 = s') \/ (T' <> T /\ send_at x T' s0)).
  { intros T' s0 H. apply send_at_set_send in H. destruct H as [[E (s1 & _ & E2)]|[Hne H]]; [left; auto|right; auto]. }
  assert (Hsame : send_at x' T s') by (unfold send_at; cbn; exact (nth_error_upd_same (sends x) T (fun _ => s') s Hs)).
  assert (Hother : forall T' s0, T' <> T -> send_at x T' s0 -> send_at x' T' s0).
  { intros T' s0 Hne H. unfold send_at. cbn. rewrite nth_error_upd_other by auto. exact H. }
  destruct HI as [Ilw Ircvb Iq Ipend Ip Inc Ibefore Ibnd Iring Igmap Igackq Igflight Igprev Ireg].
  constructor.
  - intros sr r H. apply (Ilw sr r). apply Hrecv. exact H.
  - intros sr r H. apply (Ircvb sr r). apply Hrecv. exact H.
  - intros sr r H. apply (Iq sr r). apply Hrecv. exact H.
  - intros sr r H. apply (Ipend sr r). apply Hrecv. exact H.
  - intros sr r H t Ht. apply Hrecv in H. destruct (Ip sr r H t Ht) as [(s0 & Hs0 & Hin)|Hp]; [|right; exact Hp].
    left. destruct (Nat.eq_dec (t_owner t) T) as [E|Hne].
    + exists s'. rewrite E. split; [exact Hsame|]. rewrite HL. rewrite E in Hs0. unfold send_at in *. rewrite Hs in Hs0. inversion Hs0; subst. exact Hin.
    + exists s0. split; [apply Hother; assumption|exact Hin].
  - intros T' s0 H Hc. destruct (Hsend _ _ H) as [[-> ->]|[Hne H0]]; [apply Hnc; exact Hc|apply (Inc T' s0 H0 Hc)].
  - intros sr r T' s0 Hr H l1 e l2 HLs He t Ht Ho Hlt. apply Hrecv in Hr.
    destruct (Hsend _ _ H) as [[-> ->]|[Hne H0]].
    + rewrite HL in HLs. apply (Ibefore sr r T s Hr Hs l1 e l2 HLs He t Ht Ho Hlt).
    + apply (Ibefore sr r T' s0 Hr H0 l1 e l2 HLs He t Ht Ho Hlt).
  - intros sr r T' s0 Hr H e Hin He. apply Hrecv in Hr.
    destruct (Hsend _ _ H) as [[-> ->]|[Hne H0]].
    + rewrite HL in Hin. apply (Ibnd sr r T s Hr Hs e Hin He).
    + apply (Ibnd sr r T' s0 Hr H0 e Hin He).
  - intros T' s0 H. destruct (Hsend _ _ H) as [[-> ->]|[Hne H0]]; [exact Hring|apply (Iring T' s0 H0)].
  - intros sr r H T' v Hg. apply Hrecv in H. apply (good_mono x x'); [exact Hm|]. apply (Igmap sr r H T' v Hg).
  - intros sr r H T' v Hin. apply Hrecv in H. apply (good_mono x x'); [exact Hm|]. apply (Igackq sr r H T' v Hin).
  - intros T' s0 fl H Hf sr a Hin. destruct (Hsend _ _ H) as [[-> ->]|[Hne H0]].
    + apply (Hfl fl Hf sr a Hin).
    + apply (good_mono x x'); [exact Hm|]. apply (Igflight T' s0 fl H0 Hf sr a Hin).
  - intros T' s0 H sr a Hin. destruct (Hsend _ _ H) as [[-> ->]|[Hne H0]].
    + apply (Hprev sr a Hin).
    + apply (good_mono x x'); [exact Hm|]. apply (Igprev T' s0 H0 sr a Hin).
  - intros sr r H. apply (Ireg sr r). apply Hrecv. exact H.
Qed.

(* ---------- list index helpers ---------- *)
Lemma skipn_skipn {A} (a b : nat) (l : list A) : skipn a (skipn b l) = skipn (b + a) l.
Proof.
  revert l. induction b as [|b IH]; intros l; [reflexivity|]. destruct l as [|y l]; cbn [skipn plus].
  - destruct a; reflexivity.
  - apply IH.
Qed.

Lemma nth_error_skipn' {A} (d k : nat) (l : list A) : nth_error (skipn d l) k = nth_error l (d + k).
Proof.
  revert l. induction d as [|d IH]; intros l; [reflexivity|]. destruct l as [|y l]; cbn [skipn plus nth_error].
  - destruct k; reflexivity.
  - apply IH.
Qed.

Lemma nth_error_firstn' {A} (c k : nat) (l : list A) e : nth_error (firstn c l) k = Some e -> (k < c)%nat /\ nth_error l k = Some e.
Proof.
  revert k l. induction c as [|c IH]; intros k l H; [destruct k; discriminate|].
  destruct l as [|y l]; [destruct k; discriminate|]. destruct k as [|k]; cbn [firstn nth_error] in *.
  - split; [lia|exact H].
  - destruct (IH _ _ H) as [H1 H2]. split; [lia|exact H2].
Qed.

Lemma in_prefix_index {A} (l l1 l2 : list A) (e a : A) :
  l = l1 ++ e :: l2 -> In a l1 -> exists i, (i < length l1)%nat /\ nth_error l i = Some a.
Proof.
  intros -> Hin. apply In_nth_error in Hin. destruct Hin as [i Hi]. exists i.
  assert (i < length l1)%nat by (apply nth_error_Some; congruence). split; [assumption|].
  rewrite nth_error_app1 by assumption. exact Hi.
Qed.

(* ---------- aggregation ---------- *)
Lemma agg_max_in es : forall acc sr a,
  In (sr, a) (agg_max es acc) -> In (sr, a) acc \/ exists e, In e es /\ e_src e = sr /\ e_val e = a.
Proof.
  induction es as [|e es IH]; intros acc sr a H; cbn [agg_max] in H; [left; exact H|].
  destruct (IH _ _ _ H) as [Hacc|(e' & Hin & H1 & H2)]; [|right; exists e'; split; [right; exact Hin|auto]].
  destruct (aget (e_src e) acc) as [cur|].
  - destruct (e_val e >? cur); [|left; exact Hacc].
    destruct (aset_In _ _ _ _ _ Hacc) as [[-> ->]|Hold]; [right; exists e; split; [left; reflexivity|auto]|left; exact Hold].
  - destruct (aset_In _ _ _ _ _ Hacc) as [[-> ->]|Hold]; [right; exists e; split; [left; reflexivity|auto]|left; exact Hold].
Qed.

Lemma covered_bound s w k e :
  ring_ok s -> nth_error (firstn (covered s w) (s_ring s)) k = Some e ->
  exists j, nth_error (s_hist s) j = Some e /\ Z.of_nat j + 1 <= w.
Proof.
  intros [_ Hring] H. apply nth_error_firstn' in H. destruct H as [Hk Hn].
  assert (Hne : s_ring s <> []) by (intros E; rewrite E in Hn; destruct k; discriminate).
  destruct (Hring Hne) as [Hstart Hr]. unfold covered in Hk.
  destruct (s_ring s) as [|e0 ring] eqn:Er; [contradiction|]. rewrite <- Er in *.
  destruct (Z.ltb_spec w (s_start s)) as [Hlt|Hge]; [lia|].
  rewrite Hr in Hn. rewrite nth_error_skipn' in Hn. exists (Z.to_nat (s_start s - 1) + k)%nat. split; [exact Hn|].
  destruct (Z.ltb_spec (Z.of_nat (length (s_ring s))) (w - s_start s + 1)) as [Hc|Hc].
  - assert (Z.of_nat k < Z.of_nat (length (s_ring s))) by lia. lia.
  - assert (Z.of_nat k < w - s_start s + 1) by lia. lia.
Qed.

Lemma aggregate_good x T s w sr a :
  Inv x -> send_at x T s ->
  In (sr, a) (fst (aggregate s w)) ->
  forall s', s_hist s' = s_hist s -> w <= s_acked s' ->
  Good (set_send x T (fun _ => s')) sr T a.
Proof.
  intros HI Hs Hin s' Hh Hack r Hr. unfold recv_at in Hr. cbn [set_send recvs] in Hr.
  unfold aggregate in Hin. cbn [fst] in Hin.
  destruct (agg_max_in _ _ _ _ Hin) as [[]|(e & He & Hsrc & Hval)].
  apply In_nth_error in He. destruct He as [k Hk].
  destruct (covered_bound s w k e (i_ring x HI T s Hs) Hk) as (j & Hj & Hjw).
  assert (HinL : In e (L s)) by (unfold L; apply in_or_app; left; eapply nth_error_In; exact Hj).
  split; [rewrite <- Hval; apply (i_bnd x HI sr r T s Hr Hs e HinL Hsrc)|].
  intros t Ht Ho Hlt.
  destruct (nth_error_split (s_hist s) j Hj) as (l1 & l2 & Hsplit & Hlen).
  assert (HL : L s = l1 ++ e :: (l2 ++ flat_map chan_entries (s_chan s))) by (unfold L; rewrite Hsplit, <- app_assoc; reflexivity).
  rewrite <- Hval in Hlt.
  pose proof (i_before x HI sr r T s Hr Hs l1 e _ HL Hsrc t Ht Ho Hlt) as Hbefore.
  destruct (in_prefix_index (s_hist s) l1 l2 e (te sr t) Hsplit Hbefore) as (i & Hi & Hni).
  exists s'. split.
  - unfold send_at. cbn [set_send sends]. exact (nth_error_upd_same (sends x) T (fun _ => s') s Hs).
  - exists i. rewrite Hh. split; [exact Hni|]. lia.
Qed.

(* ---------- actions that only touch one sender ---------- *)
Lemma good_after_set_send x T s s' sr T' v :
  send_at x T s -> (exists ext, s_hist s' = s_hist s ++ ext) -> s_acked s <= s_acked s' ->
  Good x sr T' v -> Good (set_send x T (fun _ => s')) sr T' v.
Proof. intros Hs He Ha. apply good_mono. apply (mono_set_send x T s s' Hs He Ha). Qed.

Lemma hist_ext_refl (s : send) : exists ext, s_hist s = s_hist s ++ ext.
Proof. exists []. rewrite app_nil_r. reflexivity. Qed.

Lemma skipn_app_le {A} (d : nat) (l es : list A) : (d <= length l)%nat -> skipn d (l ++ es) = skipn d l ++ es.
Proof. intros H. rewrite skipn_app. replace (d - length l)%nat with 0%nat by lia. reflexivity. Qed.

Lemma ring_ok_append s es n' :
  ring_ok s -> n' = s_next s + Z.of_nat (length es) -> ring_ok (s_append es n' s).
Proof.
  intros [Hn Hr] ->. unfold ring_ok. cbn [s_append s_next s_hist s_ring s_start]. split; [rewrite app_length, Hn; lia|].
  intros Hne. destruct (s_ring s) as [|e0 ring] eqn:Er.
  - split; [lia|]. cbn [app]. rewrite Hn. replace (Z.to_nat (Z.of_nat (length (s_hist s)) + 1 - 1)) with (length (s_hist s)) by lia.
    rewrite skipn_app, skipn_all, Nat.sub_diag. reflexivity.
  - destruct (Hr ltac:(discriminate)) as [H1 H2]. split; [exact H1|].
    rewrite H2 at 1. rewrite skipn_app_le; [reflexivity|].
    destruct (Nat.le_gt_cases (Z.to_nat (s_start s - 1)) (length (s_hist s))) as [Hle|Hgt]; [exact Hle|].
    rewrite skipn_all2 in H2 by lia. discriminate.
Qed.

Lemma chan_entries_assign c next :
  c_tasks c <> [] -> let '(_, es, n') := assign (c_src c) (c_tasks c) next in es = chan_entries c /\ n' = next + Z.of_nat (length es).
Proof.
  intros Hne. pose proof (assign_spec (c_src c) (c_tasks c) next) as H.
  destruct (assign (c_src c) (c_tasks c) next) as [[ws es] n']. destruct H as (_ & _ & He & Hn).
  unfold chan_entries. destruct (c_tasks c) as [|t ts] eqn:E; [contradiction|]. split; [exact He|]. rewrite He, map_length. exact Hn.
Qed.

(* premises of [inv_set_send] for the parts of a sender that an action leaves alone *)
Lemma keep_flight x T s s' :
  Inv x -> send_at x T s -> (exists ext, s_hist s' = s_hist s ++ ext) -> s_acked s <= s_acked s' ->
  s_ackflight s' = s_ackflight s ->
  forall fl', s_ackflight s' = Some fl' -> forall sr a, In (sr, a) (af_todo fl') -> Good (set_send x T (fun _ => s')) sr T a.
Proof.
  intros HI Hs He Ha Hf fl' Hfl sr a Hin. rewrite Hf in Hfl.
  apply (good_after_set_send x T s s' sr T a Hs He Ha). apply (i_gflight x HI T s fl' Hs Hfl sr a Hin).
Qed.

Lemma keep_prev x T s s' :
  Inv x -> send_at x T s -> (exists ext, s_hist s' = s_hist s ++ ext) -> s_acked s <= s_acked s' ->
  s_prev s' = s_prev s ->
  forall sr a, In (sr, a) (s_prev s') -> Good (set_send x T (fun _ => s')) sr T a.
Proof.
  intros HI Hs He Ha Hp sr a Hin. rewrite Hp in Hin.
  apply (good_after_set_send x T s s' sr T a Hs He Ha). apply (i_gprev x HI T s Hs sr a Hin).
Qed.

Lemma upd_const {A} (l : list A) n f a : nth_error l n = Some a -> upd l n f = upd l n (fun _ => f a).
Proof.
  revert n. induction l as [|y l IH]; intros [|n] H; cbn in *; try discriminate; [inversion H; reflexivity|f_equal; apply IH; exact H].
Qed.
Lemma upd_none {A} (l : list A) n f : nth_error l n = None -> upd l n f = l.
Proof.
  revert n. induction l as [|y l IH]; intros [|n] H; cbn in *; try discriminate; try reflexivity. f_equal. apply IH. exact H.
Qed.

Lemma set_send_const x T f s : send_at x T s -> set_send x T f = set_send x T (fun _ => f s).
Proof. intros H. unfold set_send. f_equal. apply upd_const. exact H. Qed.
Lemma set_send_none x T f : nth_error (sends x) T = None -> set_send x T f = x.
Proof. intros H. destruct x as [rs ss]. unfold set_send. cbn in *. f_equal. apply upd_none. exact H. Qed.

Ltac conn_true Hc := intros Hcf; cbn in Hcf; rewrite Hc in Hcf; discriminate.

Lemma inv_dequeue x T : Inv x -> Inv (fst (apply_act true x (ADequeue T))).
Proof.
  intros HI. cbn [apply_act]. destruct (nth_error (sends x) T) as [s|] eqn:Hs; [|exact HI].
  destruct (s_conn s) eqn:Hc; [|exact HI]. destruct (s_inflight s) eqn:Hf; [exact HI|].
  destruct (s_chan s) as [|c rest] eqn:Hch; [exact HI|].
  pose proof (i_ring x HI T s Hs) as Hring.
  destruct (c_tasks c) as [|t0 ts0] eqn:Ect.
  - cbn [fst]. apply (inv_set_send x T s); try exact HI; try exact Hs.
    + unfold L. cbn. rewrite Hch. cbn [flat_map]. unfold chan_entries at 2. rewrite Ect. rewrite <- app_assoc. reflexivity.
    + cbn. eexists. reflexivity.
    + cbn. lia.
    + cbn. intros Hcf. rewrite Hc in Hcf. discriminate.
    + apply (ring_ok_append (s_set_chan rest s)); [exact Hring|]. cbn. lia.
    + apply (keep_flight x T s); try assumption; cbn; [eexists; reflexivity|lia|reflexivity].
    + apply (keep_prev x T s); try assumption; cbn; [eexists; reflexivity|lia|reflexivity].
  - rewrite <- Ect. pose proof (chan_entries_assign c (s_next s) ltac:(rewrite Ect; discriminate)) as Ha.
    destruct (assign (c_src c) (c_tasks c) (s_next s)) as [[ws es] n'] eqn:Eas. destruct Ha as [Hes Hn'].
    cbn [fst]. apply (inv_set_send x T s); try exact HI; try exact Hs.
    + unfold L. cbn. rewrite Hch. cbn [flat_map]. rewrite Hes, <- app_assoc. reflexivity.
    + cbn. eexists. reflexivity.
    + cbn. lia.
    + cbn. intros Hcf. rewrite Hc in Hcf. discriminate.
    + apply (ring_ok_append (s_set_chan rest s)); [exact Hring|]. cbn. exact Hn'.
    + apply (keep_flight x T s); try assumption; cbn; [eexists; reflexivity|lia|reflexivity].
    + apply (keep_prev x T s); try assumption; cbn; [eexists; reflexivity|lia|reflexivity].
Qed.

(* an update of one sender that touches none of the fields the invariant reads *)
Lemma inv_send_irrelevant x T s s' :
  Inv x -> send_at x T s ->
  s_conn s' = s_conn s -> s_chan s' = s_chan s -> s_hist s' = s_hist s -> s_acked s' = s_acked s -> s_next s' = s_next s ->
  s_start s' = s_start s -> s_ring s' = s_ring s -> s_prev s' = s_prev s -> s_ackflight s' = s_ackflight s ->
  (s_conn s = true \/ s_ackin s' = s_ackin s) ->
  Inv (set_send x T (fun _ => s')).
Proof.
  intros HI Hs Hc Hch Hh Ha Hn Hst Hr Hp Hf Hai.
  apply (inv_set_send x T s); try assumption.
  - unfold L. rewrite Hh, Hch. reflexivity.
  - rewrite Hh. apply hist_ext_refl.
  - lia.
  - intros Hcf. rewrite Hc in Hcf. destruct (i_nc x HI T s Hs Hcf) as (H1 & H2 & H3 & H4 & H5 & H6).
    rewrite Hh, Hch, Hf, Hp, Hr. destruct Hai as [Hai|Hai]; [congruence|rewrite Hai]. repeat split; assumption.
  - destruct (i_ring x HI T s Hs) as [R1 R2]. unfold ring_ok. rewrite Hn, Hh, Hr, Hst. split; assumption.
  - apply (keep_flight x T s); try assumption; [rewrite Hh; apply hist_ext_refl|lia].
  - apply (keep_prev x T s); try assumption; [rewrite Hh; apply hist_ext_refl|lia].
Qed.

Lemma inv_simple_sender x a :
  Inv x ->
  match a with ASend _ | AKeepalive _ | AStall _ | AUnstall _ | AAckIn _ _ => True | _ => False end ->
  Inv (fst (apply_act true x a)).
Proof.
  intros HI Ha. destruct a; try contradiction; cbn [apply_act].
  - (* ASend *)
    destruct (nth_error (sends x) T) as [s|] eqn:Hs; [|exact HI].
    destruct (s_conn s && negb (s_stalled s)) eqn:E; [|exact HI]. destruct (s_inflight s) as [f|] eqn:Hf; [|exact HI].
    cbn [fst]. apply (inv_send_irrelevant x T s); try exact HI; try exact Hs; destruct (f_keepalive f); try reflexivity; try (right; reflexivity).
  - (* AKeepalive *)
    destruct (nth_error (sends x) T) as [s|] eqn:Hs; [|exact HI].
    destruct (s_conn s) eqn:Hc; [|exact HI]. destruct (s_inflight s) eqn:Hf; [exact HI|].
    destruct (s_lastwm s >? 0); [|exact HI]. cbn [fst].
    rewrite (set_send_const x T _ s Hs). apply (inv_send_irrelevant x T s); try exact HI; try exact Hs; try reflexivity. right; reflexivity.
  - (* AAckIn *)
    destruct (nth_error (sends x) T) as [s|] eqn:Hs; [|exact HI].
    destruct (s_conn s) eqn:Hc; [|exact HI]. cbn [fst].
    rewrite (set_send_const x T _ s Hs). apply (inv_send_irrelevant x T s); try exact HI; try exact Hs; try reflexivity. left. exact Hc.
  - (* AStall *)
    destruct (nth_error (sends x) T) as [s|] eqn:Hs.
    + cbn [fst]. rewrite (set_send_const x T _ s Hs). apply (inv_send_irrelevant x T s); try exact HI; try exact Hs; try reflexivity. right; reflexivity.
    + cbn [fst]. rewrite (set_send_none x T _ Hs). exact HI.
  - (* AUnstall *)
    destruct (nth_error (sends x) T) as [s|] eqn:Hs.
    + cbn [fst]. rewrite (set_send_const x T _ s Hs). apply (inv_send_irrelevant x T s); try exact HI; try exact Hs; try reflexivity. right; reflexivity.
    + cbn [fst]. rewrite (set_send_none x T _ Hs). exact HI.
Qed.

Lemma inv_aggregate x T : Inv x -> Inv (fst (apply_act true x (AAggregate T))).
Proof.
  intros HI. cbn [apply_act]. destruct (nth_error (sends x) T) as [s|] eqn:Hs; [|exact HI].
  destruct (s_conn s) eqn:Hc; [|exact HI]. destruct (s_ackflight s) eqn:Hf; [exact HI|].
  destruct (s_ackin s) as [|w rest] eqn:Hai; [exact HI|].
  destruct (aggregate s w) as [acks c] eqn:Eagg. cbn [fst].
  apply (inv_set_send x T s); try exact HI; try exact Hs.
  - reflexivity.
  - cbn. apply hist_ext_refl.
  - cbn. lia.
  - cbn. intros Hcf. rewrite Hc in Hcf. discriminate.
  - exact (i_ring x HI T s Hs).
  - cbn [s_ackflight s_set_acked s_set_ackflight]. intros fl' Hfl sr a Hin. inversion Hfl; subst fl'; clear Hfl.
    destruct acks as [|p acks'] eqn:Eacks; cbn [af_todo] in Hin.
    + apply (good_after_set_send x T s); [exact Hs|cbn; apply hist_ext_refl|cbn; lia|]. apply (i_gprev x HI T s Hs sr a Hin).
    + apply (aggregate_good x T s w sr a HI Hs); [rewrite Eagg; exact Hin|reflexivity|cbn; lia].
  - apply (keep_prev x T s); try assumption; cbn; [apply hist_ext_refl|lia|reflexivity].
Qed.

Lemma inv_discard x T : Inv x -> Inv (fst (apply_act true x (ADiscard T))).
Proof.
  intros HI. cbn [apply_act]. destruct (nth_error (sends x) T) as [s|] eqn:Hs; [|exact HI].
  destruct (s_conn s) eqn:Hc; [|exact HI]. destruct (s_ackflight s) as [fl|] eqn:Hf; [|exact HI].
  destruct (af_todo fl) eqn:Htodo; [|exact HI]. cbn [fst].
  apply (inv_set_send x T s); try exact HI; try exact Hs.
  - reflexivity.
  - cbn. apply hist_ext_refl.
  - cbn. lia.
  - cbn. intros Hcf. rewrite Hc in Hcf. discriminate.
  - destruct (i_ring x HI T s Hs) as [R1 R2]. unfold ring_ok. cbn. split; [exact R1|].
    intros Hne. assert (Hr : s_ring s <> []) by (intros E; rewrite E in Hne; rewrite skipn_nil in Hne; contradiction).
    destruct (R2 Hr) as [R3 R4]. split; [lia|]. rewrite R4 at 1. rewrite skipn_skipn. f_equal. lia.
  - cbn. intros fl' Hfl. discriminate.
  - apply (keep_prev x T s); try assumption; cbn; [apply hist_ext_refl|lia|reflexivity].
Qed.

(* ---------- a step that changes one receiver's queues / map only ---------- *)
Lemma recv_at_set_recv x sr f sr' r' :
  recv_at (set_recv x sr f) sr' r' ->
  (sr = sr' /\ exists r, recv_at x sr r /\ r' = f r) \/ (sr <> sr' /\ recv_at x sr' r').
Proof.
  unfold recv_at, set_recv. cbn [recvs]. intros H. apply nth_error_upd_inv in H.
  destruct H as [[E (a & Ha & Hb)]|[Hne H]]; [left; subst sr'; split; [reflexivity|exists a; auto]|right; auto].
Qed.

Lemma set_recv_const x sr f r : recv_at x sr r -> set_recv x sr f = set_recv x sr (fun _ => f r).
Proof. intros H. unfold set_recv. f_equal. apply upd_const. exact H. Qed.

Lemma good_same_rcv x x' sr T v :
  sends x' = sends x ->
  (forall r', recv_at x' sr r' -> exists r, recv_at x sr r /\ r_high r = r_high r' /\ r_rcv r = r_rcv r') ->
  Good x sr T v -> Good x' sr T v.
Proof.
  intros Hs Hr HG r' Hr'. destruct (Hr _ Hr') as (r & Hat & Hh & Hrcv). destruct (HG _ Hat) as [Hv Ht].
  split; [lia|]. intros t Hin Ho Hlt. rewrite <- Hrcv in Hin. destruct (Ht _ Hin Ho Hlt) as (s & Hsat & Hc).
  exists s. split; [unfold send_at; rewrite Hs; exact Hsat|exact Hc].
Qed.

Lemma inv_set_recv_light x sr r r' :
  Inv x -> recv_at x sr r ->
  r_rcv r' = r_rcv r -> r_high r' = r_high r -> r_lastwm r' = r_lastwm r -> r_pending r' = r_pending r ->
  chain (r_high r') (r_inq r') ->
  (forall T v, aget T (r_map r') = Some v -> Good x sr T v) ->
  (forall T v, In (T, v) (r_ackq r') -> Good x sr T v) ->
  (forall t, In t (r_rcv r) -> exists v, aget (t_owner t) (r_map r') = Some v) ->
  Inv (set_recv x sr (fun _ => r')).
Proof.
  intros HI Hr Hrcv Hhigh Hlw Hpend Hq Hgm Hga Hreg.
  set (x' := set_recv x sr (fun _ => r')).
  assert (Hsends : sends x' = sends x) by reflexivity.
  assert (Hcase : forall sr0 r0, recv_at x' sr0 r0 -> (sr0 = sr /\ r0 = r') \/ (sr0 <> sr /\ recv_at x sr0 r0)).
  { intros sr0 r0 H. apply recv_at_set_recv in H. destruct H as [[E (r1 & _ & E2)]|[Hne H]]; [left; auto|right; auto]. }
  assert (Hgood : forall sr0 T v, Good x sr0 T v -> Good x' sr0 T v).
  { intros sr0 T v. apply good_same_rcv; [exact Hsends|]. intros r0 H0. destruct (Hcase _ _ H0) as [[-> ->]|[Hne H1]].
    - exists r. auto.
    - exists r0. auto. }
  destruct HI as [Ilw Ircvb Iq Ipend Ip Inc Ibefore Ibnd Iring Igmap Igackq Igflight Igprev Ireg].
  constructor.
  - intros sr0 r0 H. destruct (Hcase _ _ H) as [[-> ->]|[Hne H1]]; [rewrite Hlw, Hhigh; apply (Ilw sr r Hr)|apply (Ilw _ _ H1)].
  - intros sr0 r0 H t Ht. destruct (Hcase _ _ H) as [[-> ->]|[Hne H1]]; [rewrite Hrcv in Ht; rewrite Hhigh; apply (Ircvb sr r Hr t Ht)|apply (Ircvb _ _ H1 t Ht)].
  - intros sr0 r0 H. destruct (Hcase _ _ H) as [[-> ->]|[Hne H1]]; [exact Hq|apply (Iq _ _ H1)].
  - intros sr0 r0 H. destruct (Hcase _ _ H) as [[-> ->]|[Hne H1]]; [|apply (Ipend _ _ H1)].
    unfold pend_ok. rewrite Hpend, Hrcv, Hlw. apply (Ipend sr r Hr).
  - intros sr0 r0 H t Ht. destruct (Hcase _ _ H) as [[-> ->]|[Hne H1]].
    + rewrite Hrcv in Ht. unfold pend. rewrite Hpend. apply (Ip sr r Hr t Ht).
    + apply (Ip _ _ H1 t Ht).
  - intros T s H. apply (Inc T s H).
  - intros sr0 r0 T s H Hs. destruct (Hcase _ _ H) as [[-> ->]|[Hne H1]].
    + rewrite Hrcv. apply (Ibefore sr r T s Hr Hs).
    + apply (Ibefore _ _ T s H1 Hs).
  - intros sr0 r0 T s H Hs. destruct (Hcase _ _ H) as [[-> ->]|[Hne H1]].
    + rewrite Hhigh. apply (Ibnd sr r T s Hr Hs).
    + apply (Ibnd _ _ T s H1 Hs).
  - intros T s H. apply (Iring T s H).
  - intros sr0 r0 H T v Hg. apply Hgood. destruct (Hcase _ _ H) as [[-> ->]|[Hne H1]]; [apply (Hgm T v Hg)|apply (Igmap _ _ H1 T v Hg)].
  - intros sr0 r0 H T v Hin. apply Hgood. destruct (Hcase _ _ H) as [[-> ->]|[Hne H1]]; [apply (Hga T v Hin)|apply (Igackq _ _ H1 T v Hin)].
  - intros T s fl H Hf sr0 a Hin. apply Hgood. apply (Igflight T s fl H Hf sr0 a Hin).
  - intros T s H sr0 a Hin. apply Hgood. apply (Igprev T s H sr0 a Hin).
  - intros sr0 r0 H t Ht. destruct (Hcase _ _ H) as [[-> ->]|[Hne H1]]; [rewrite Hrcv in Ht; apply (Hreg t Ht)|apply (Ireg _ _ H1 t Ht)].
Qed.

Lemma set_recv_none x sr f : nth_error (recvs x) sr = None -> set_recv x sr f = x.
Proof. intros H. destruct x as [rs ss]. unfold set_recv. cbn in *. f_equal. apply upd_none. exact H. Qed.

(* ---------- well-formed environment actions ---------- *)
Fixpoint lastpush_from (lo : Z) (q : list (list task * Z)) : Z :=
  match q with [] => lo | (_, h) :: rest => lastpush_from h rest end.
Definition lastpush (r : recv) : Z := lastpush_from (r_high r) (r_inq r).

(* sources follow Temporal's sender contract: ids increase across batches, a batch's watermark is above its ids and
   watermarks never go back; a target is connected once (re-connections are stream failures: property C04) *)
Definition wf_act (x : st) (a : act) : Prop :=
  match a with
  | APush sr ts high =>
      forall r, recv_at x sr r -> incr (lastpush r) ts /\ (forall t, In t ts -> t_id t < high) /\ lastpush r <= high
  | AConnect T => forall s, send_at x T s -> s_conn s = false
  | ABreak _ | ARestart _ => False
  | _ => True
  end.

Lemma chain_app q : forall lo ts h,
  chain lo q -> incr (lastpush_from lo q) ts -> (forall t, In t ts -> t_id t < h) -> lastpush_from lo q <= h ->
  chain lo (q ++ [(ts, h)]).
Proof.
  induction q as [|[ts0 h0] q IH]; intros lo ts h Hc Hi Hlt Hle; cbn [app chain lastpush_from] in *.
  - repeat split; assumption.
  - destruct Hc as (H1 & H2 & H3 & H4). repeat split; try assumption. apply IH; assumption.
Qed.

Lemma inv_push x sr ts high : Inv x -> wf_act x (APush sr ts high) -> Inv (fst (apply_act true x (APush sr ts high))).
Proof.
  intros HI Hwf. cbn [apply_act fst]. destruct (nth_error (recvs x) sr) as [r|] eqn:Hr; [|rewrite set_recv_none by exact Hr; exact HI].
  rewrite (set_recv_const x sr _ r Hr). destruct (Hwf r Hr) as (W1 & W2 & W3).
  apply (inv_set_recv_light x sr r); try exact HI; try exact Hr; try reflexivity.
  - cbn. apply chain_app; [apply (i_q x HI sr r Hr)|exact W1|exact W2|exact W3].
  - cbn. apply (i_gmap x HI sr r Hr).
  - cbn. apply (i_gackq x HI sr r Hr).
  - cbn. apply (i_reg x HI sr r Hr).
Qed.

Lemma inv_procack x sr : Inv x -> Inv (fst (apply_act true x (AProcAck sr))).
Proof.
  intros HI. cbn [apply_act]. destruct (nth_error (recvs x) sr) as [r|] eqn:Hr; [|exact HI].
  destruct (r_ackq r) as [|[T v] q] eqn:Hq; [exact HI|].
  pose proof (process_ack_spec sr T v (r_set_ackq q r)) as Hspec.
  destruct (process_ack sr T v (r_set_ackq q r)) as [r' o]. cbn [fst].
  destruct Hspec as (_ & Hmap & Hhigh & Hrcv & Hpend & Hinq & Hackq & Hlw). cbn in Hmap, Hhigh, Hrcv, Hpend, Hinq, Hackq, Hlw.
  apply (inv_set_recv_light x sr r); try exact HI; try exact Hr; try assumption.
  - rewrite Hhigh, Hinq. apply (i_q x HI sr r Hr).
  - intros T' v' Hg. rewrite Hmap, aget_aset in Hg. destruct (Nat.eqb T' T) eqn:E.
    + apply Nat.eqb_eq in E. subst T'. inversion Hg; subst v'. apply (i_gackq x HI sr r Hr T v). rewrite Hq. left. reflexivity.
    + apply (i_gmap x HI sr r Hr T' v' Hg).
  - intros T' v' Hin. rewrite Hackq in Hin. apply (i_gackq x HI sr r Hr T' v'). rewrite Hq. right. exact Hin.
  - intros t Ht. rewrite Hmap, aget_aset. destruct (Nat.eqb (t_owner t) T); [eexists; reflexivity|apply (i_reg x HI sr r Hr t Ht)].
Qed.

Lemma inv_deliver x T : Inv x -> Inv (fst (apply_act true x (ADeliver T))).
Proof.
  intros HI. cbn [apply_act]. destruct (nth_error (sends x) T) as [s|] eqn:Hs; [|exact HI].
  destruct (s_conn s) eqn:Hc; [|exact HI]. destruct (s_ackflight s) as [fl|] eqn:Hf; [|exact HI].
  destruct (af_todo fl) as [|[sr a] rest] eqn:Htodo; [exact HI|].
  destruct (nth_error (recvs x) sr) as [r|] eqn:Hr; [|exact HI].
  destruct (Nat.ltb (length (r_ackq r)) chan_cap); [|exact HI]. cbn [fst].
  set (s1 := s_set_ackflight (Some {| af_todo := rest; af_count := af_count fl; af_new := af_new fl |}) s).
  set (s2 := if af_new fl then s_set_prev (aset sr a (s_prev s1)) s1 else s1).
  (* first the receiver's queue, then the sender's bookkeeping *)
  set (r1 := r_set_ackq (r_ackq r ++ [(T, a)]) r).
  assert (Hx1 : Inv (set_recv x sr (fun _ => r1))).
  { apply (inv_set_recv_light x sr r); try exact HI; try exact Hr; try reflexivity.
    - cbn. apply (i_q x HI sr r Hr).
    - cbn. apply (i_gmap x HI sr r Hr).
    - cbn. intros T' v' Hin. apply in_app_or in Hin. destruct Hin as [Hin|[E|[]]]; [apply (i_gackq x HI sr r Hr T' v' Hin)|].
      inversion E; subst T' v'. apply (i_gflight x HI T s fl Hs Hf sr a). rewrite Htodo. left. reflexivity.
    - cbn. apply (i_reg x HI sr r Hr). }
  assert (Heq : {| recvs := upd (recvs x) sr (fun r0 => r_set_ackq (r_ackq r0 ++ [(T, a)]) r0); sends := upd (sends x) T (fun _ => s2) |}
                = set_send (set_recv x sr (fun _ => r1)) T (fun _ => s2)).
  { unfold set_send, set_recv. cbn [recvs sends]. f_equal.
    exact (upd_const (recvs x) sr (fun r0 => r_set_ackq (r_ackq r0 ++ [(T, a)]) r0) r Hr). }
  rewrite Heq. set (x1 := set_recv x sr (fun _ => r1)) in *.
  assert (Hs1 : send_at x1 T s) by exact Hs.
  assert (Hh2 : s_hist s2 = s_hist s) by (unfold s2, s1; destruct (af_new fl); reflexivity).
  assert (Ha2 : s_acked s2 = s_acked s) by (unfold s2, s1; destruct (af_new fl); reflexivity).
  apply (inv_set_send x1 T s); try exact Hx1; try exact Hs1.
  - unfold L. rewrite Hh2. unfold s2, s1. destruct (af_new fl); reflexivity.
  - rewrite Hh2. apply hist_ext_refl.
  - lia.
  - intros Hcf. unfold s2, s1 in Hcf. destruct (af_new fl); cbn in Hcf; rewrite Hc in Hcf; discriminate.
  - destruct (i_ring x HI T s Hs) as [R1 R2]. unfold ring_ok, s2, s1. destruct (af_new fl); cbn; split; assumption.
  - intros fl' Hfl sr0 a0 Hin.
    assert (Hfl2 : fl' = {| af_todo := rest; af_count := af_count fl; af_new := af_new fl |}) by (unfold s2, s1 in Hfl; destruct (af_new fl); cbn in Hfl; inversion Hfl; reflexivity).
    subst fl'. cbn in Hin. apply (good_after_set_send x1 T s); [exact Hs1|rewrite Hh2; apply hist_ext_refl|lia|].
    apply (i_gflight x1 Hx1 T s fl Hs1 Hf sr0 a0). rewrite Htodo. right. exact Hin.
  - intros sr0 a0 Hin. apply (good_after_set_send x1 T s); [exact Hs1|rewrite Hh2; apply hist_ext_refl|lia|].
    unfold s2, s1 in Hin. destruct (af_new fl); cbn in Hin.
    + destruct (aset_In _ _ _ _ _ Hin) as [[-> ->]|Hold].
      * apply (i_gflight x1 Hx1 T s fl Hs1 Hf sr a). rewrite Htodo. left. reflexivity.
      * apply (i_gprev x1 Hx1 T s Hs1 sr0 a0 Hold).
    + apply (i_gprev x1 Hx1 T s Hs1 sr0 a0 Hin).
Qed.
