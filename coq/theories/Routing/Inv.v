(* The end-to-end safety invariant of routing mode (fault-free executions): for EVERY sequence of actions of the
   transition system - every interleaving of the receivers', senders' and acknowledgement goroutines' critical sections -
   every value a receiver sends upstream covers only tasks that the owning target's stream has confirmed. *)
From Coq Require Import List ZArith Bool Arith Lia.
From S2S Require Import Routing.Model Routing.Basic Routing.Delivery Routing.Monitor.
Import ListNotations.
Open Scope Z_scope.

(* ---------- views of the state ---------- *)
Definition te (sr : nat) (t : task) : rentry := {| e_src := sr; e_val := t_id t; e_task := true |}.
Definition chan_entries (c : cmsg) : list rentry :=
  match c_tasks c with
  | [] => [{| e_src := c_src c; e_val := c_high c; e_task := false |}]
  | ts => map (te (c_src c)) ts
  end.
(* everything that has been handed to target T's sender, in order: appended to its id table or still in its channel *)
Definition L (s : send) : list rentry := s_hist s ++ flat_map chan_entries (s_chan s).
Definition pend (r : recv) (T : nat) : list task :=
  flat_map (fun p => if Nat.eqb (fst p) T then c_tasks (snd p) else []) (r_pending r).
Definition recv_at (x : st) (sr : nat) (r : recv) : Prop := nth_error (recvs x) sr = Some r.
Definition send_at (x : st) (T : nat) (s : send) : Prop := nth_error (sends x) T = Some s.

(* task (sr, id) has an entry in the sender's table with a proxy id below what the target acknowledged *)
Definition conf (s : send) (sr : nat) (id : Z) : Prop :=
  exists i, nth_error (s_hist s) i = Some {| e_src := sr; e_val := id; e_task := true |} /\ Z.of_nat i + 1 < s_acked s.

(* v is a safe acknowledgement value of target T towards source sr *)
Definition Good (x : st) (sr T : nat) (v : Z) : Prop :=
  forall r, recv_at x sr r ->
    v <= r_high r /\
    forall t, In t (r_rcv r) -> t_owner t = T -> t_id t < v -> exists s, send_at x T s /\ conf s sr (t_id t).

Fixpoint incr (lo : Z) (ts : list task) : Prop :=
  match ts with [] => True | t :: rest => lo <= t_id t /\ incr (t_id t + 1) rest end.
(* the batches a source has sent and the receiver has not read yet continue where the last read batch ended *)
Fixpoint chain (lo : Z) (q : list (list task * Z)) : Prop :=
  match q with
  | [] => True
  | (ts, h) :: rest => incr lo ts /\ (forall t, In t ts -> t_id t < h) /\ lo <= h /\ chain h rest
  end.

Definition pend_ok (sr : nat) (r : recv) : Prop :=
  NoDup (map fst (r_pending r)) /\
  forall T c, In (T, c) (r_pending r) ->
    c_src c = sr /\ c_tasks c <> [] /\ (exists lo, incr lo (c_tasks c)) /\
    forall t, In t (c_tasks c) -> t_owner t = T /\ In t (r_rcv r) /\ r_lastwm r <= t_id t.

Record Inv (x : st) : Prop := {
  i_lw : forall sr r, recv_at x sr r -> r_lastwm r <= r_high r;
  i_rcvb : forall sr r, recv_at x sr r -> forall t, In t (r_rcv r) -> t_id t < r_high r;
  i_q : forall sr r, recv_at x sr r -> chain (r_high r) (r_inq r);
  i_pend : forall sr r, recv_at x sr r -> pend_ok sr r;
  i_p : forall sr r, recv_at x sr r -> forall t, In t (r_rcv r) ->
        (exists s, send_at x (t_owner t) s /\ In (te sr t) (L s)) \/ In t (pend r (t_owner t));
  i_nc : forall T s, send_at x T s -> s_conn s = false ->
         s_hist s = [] /\ s_chan s = [] /\ s_ackflight s = None /\ s_prev s = [] /\ s_ring s = [] /\ s_ackin s = [];
  i_before : forall sr r T s, recv_at x sr r -> send_at x T s ->
             forall l1 e l2, L s = l1 ++ e :: l2 -> e_src e = sr ->
             forall t, In t (r_rcv r) -> t_owner t = T -> t_id t < e_val e -> In (te sr t) l1;
  i_bnd : forall sr r T s, recv_at x sr r -> send_at x T s -> forall e, In e (L s) -> e_src e = sr -> e_val e <= r_high r;
  i_ring : forall T s, send_at x T s ->
           s_next s = Z.of_nat (length (s_hist s)) /\
           (s_ring s <> [] -> 1 <= s_start s /\ s_ring s = skipn (Z.to_nat (s_start s - 1)) (s_hist s));
  i_gmap : forall sr r, recv_at x sr r -> forall T v, aget T (r_map r) = Some v -> Good x sr T v;
  i_gackq : forall sr r, recv_at x sr r -> forall T v, In (T, v) (r_ackq r) -> Good x sr T v;
  i_gflight : forall T s fl, send_at x T s -> s_ackflight s = Some fl -> forall sr a, In (sr, a) (af_todo fl) -> Good x sr T a;
  i_gprev : forall T s, send_at x T s -> forall sr a, In (sr, a) (s_prev s) -> Good x sr T a;
  i_reg : forall sr r, recv_at x sr r -> forall t, In t (r_rcv r) -> exists v, aget (t_owner t) (r_map r) = Some v
}.

(* ---------- list helpers ---------- *)
Lemma nth_error_upd {A} (l : list A) n f : forall m,
  nth_error (upd l n f) m = if Nat.eqb n m then option_map f (nth_error l m) else nth_error l m.
Proof.
  revert n. induction l as [|a l IH]; intros n m.
  - destruct n, m; cbn; try reflexivity; destruct (Nat.eqb n m); reflexivity.
  - destruct n as [|n], m as [|m]; cbn [upd nth_error Nat.eqb option_map]; try reflexivity. apply IH.
Qed.

Lemma nth_error_upd_same {A} (l : list A) n f a : nth_error l n = Some a -> nth_error (upd l n f) n = Some (f a).
Proof. intros H. rewrite nth_error_upd, Nat.eqb_refl, H. reflexivity. Qed.

Lemma nth_error_upd_other {A} (l : list A) n f m : n <> m -> nth_error (upd l n f) m = nth_error l m.
Proof. intros H. rewrite nth_error_upd. apply Nat.eqb_neq in H. rewrite H. reflexivity. Qed.

Lemma nth_error_upd_inv {A} (l : list A) n f m b :
  nth_error (upd l n f) m = Some b ->
  (n = m /\ exists a, nth_error l m = Some a /\ b = f a) \/ (n <> m /\ nth_error l m = Some b).
Proof.
  rewrite nth_error_upd. destruct (Nat.eqb n m) eqn:E.
  - apply Nat.eqb_eq in E. destruct (nth_error l m) as [a|]; cbn; [|discriminate]. intros H. inversion H. left. split; [exact E|]. exists a. auto.
  - apply Nat.eqb_neq in E. intros H. right. auto.
Qed.

Lemma aset_In k v m : forall k' v', In (k', v') (aset k v m) -> (k' = k /\ v' = v) \/ In (k', v') m.
Proof.
  induction m as [|[a b] m IH]; intros k' v' H; cbn [aset] in H.
  - destruct H as [E|[]]. inversion E. auto.
  - destruct (Nat.eqb k a) eqn:E.
    + destruct H as [E1|H]; [inversion E1; auto|right; right; exact H].
    + destruct H as [E1|H]; [right; left; exact E1|]. destruct (IH _ _ H) as [H1|H1]; [auto|right; right; exact H1].
Qed.

Lemma aget_aset k v m k' : aget k' (aset k v m) = if Nat.eqb k' k then Some v else aget k' m.
Proof.
  destruct (Nat.eqb k' k) eqn:E.
  - apply Nat.eqb_eq in E. subst. apply aget_aset_same.
  - apply Nat.eqb_neq in E. apply aget_aset_other. exact E.
Qed.

(* ---------- Good is stable ---------- *)
(* one step never forgets a received task, never lowers a source's high watermark, only adds ids above it, only
   extends a sender's table at the tail and only raises what its target acknowledged *)
Definition mono (x x' : st) : Prop :=
  (forall sr r', recv_at x' sr r' -> exists r, recv_at x sr r /\ r_high r <= r_high r' /\
      forall t, In t (r_rcv r') -> In t (r_rcv r) \/ r_high r <= t_id t) /\
  (forall T s, send_at x T s -> exists s', send_at x' T s' /\ (exists ext, s_hist s' = s_hist s ++ ext) /\ s_acked s <= s_acked s').

Lemma conf_mono s s' sr id : (exists ext, s_hist s' = s_hist s ++ ext) -> s_acked s <= s_acked s' -> conf s sr id -> conf s' sr id.
Proof.
  intros [ext He] Ha (i & Hn & Hl). exists i. split; [|lia].
  rewrite He. rewrite nth_error_app1; [exact Hn|]. apply nth_error_Some. congruence.
Qed.

Lemma good_mono x x' sr T v : mono x x' -> Good x sr T v -> Good x' sr T v.
Proof.
  intros [Hr Hs] HG r' Hr'. destruct (Hr _ _ Hr') as (r & Hat & Hh & Hrcv).
  destruct (HG _ Hat) as [Hv Ht]. split; [lia|].
  intros t Hin Ho Hlt. destruct (Hrcv _ Hin) as [Hold|Hnew]; [|lia].
  destruct (Ht _ Hold Ho Hlt) as (s & Hsat & Hc). destruct (Hs _ _ Hsat) as (s' & Hs' & Hext & Hack).
  exists s'. split; [exact Hs'|]. eapply conf_mono; eassumption.
Qed.

Lemma mono_refl x : mono x x.
Proof.
  split.
  - intros sr r H. exists r. split; [exact H|]. split; [lia|]. intros t Ht. left. exact Ht.
  - intros T s H. exists s. split; [exact H|]. split; [exists []; rewrite app_nil_r; reflexivity|lia].
Qed.

(* confirmed (the monitor's boolean) follows from conf *)
Lemma find_confirmed_nth sr id acked h : forall pid i,
  nth_error h i = Some {| e_src := sr; e_val := id; e_task := true |} -> pid + Z.of_nat i < acked ->
  find_confirmed sr id acked pid h = true.
Proof.
  induction h as [|e h IH]; intros pid i Hn Hl; [destruct i; discriminate|].
  cbn [find_confirmed]. destruct i as [|i]; cbn [nth_error] in Hn.
  - inversion Hn; subst e. cbn. rewrite Nat.eqb_refl, Z.eqb_refl. cbn.
    replace (pid <? acked) with true by (symmetry; apply Z.ltb_lt; lia). reflexivity.
  - apply orb_true_iff. right. apply (IH (pid + 1) i Hn). lia.
Qed.

Lemma conf_confirmed x sr t s : send_at x (t_owner t) s -> conf s sr (t_id t) -> confirmed x sr t = true.
Proof.
  intros Hs (i & Hn & Hl). unfold confirmed. unfold send_at in Hs. rewrite Hs.
  apply (find_confirmed_nth sr (t_id t) (s_acked s) (s_hist s) 1 i Hn). lia.
Qed.
