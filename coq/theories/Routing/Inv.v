(* The end-to-end safety invariant of routing mode (fault-free executions): for EVERY sequence of actions of the
   transition system - every interleaving of the receivers', senders' and acknowledgement goroutines' critical sections -
   every value a receiver sends upstream covers only tasks that the owning target's stream has confirmed. *)
From Coq Require Import List ZArith Bool Arith Lia.
From S2S Require Import Routing.Model Routing.Basic Routing.Delivery Routing.Monitor.
Import ListNotations.
Open Scope Z_scope.

(* ---------- views of the state ---------- *)
Definition te (sr : nat) (t : task) : rentry := {| e_src := sr; e_val := t_id t; e_task := true |}.
Definition chan_entries (c : cmsg) : list rentry :=
  match c_tasks c with
  | [] => [{| e_src := c_src c; e_val := c_high c; e_task := false |}]
  | ts => map (te (c_src c)) ts
  end.
(* everything that has been handed to target T's sender, in order: appended to its id table or still in its channel *)
Definition L (s : send) : list rentry := s_hist s ++ flat_map chan_entries (s_chan s).
Definition pend (r : recv) (T : nat) : list task :=
  flat_map (fun p => if Nat.eqb (fst p) T then c_tasks (snd p) else []) (r_pending r).
Definition recv_at (x : st) (sr : nat) (r : recv) : Prop := nth_error (recvs x) sr = Some r.
Definition send_at (x : st) (T : nat) (s : send) : Prop := nth_error (sends x) T = Some s.

(* task (sr, id) has an entry in the sender's table with a proxy id below what the target acknowledged *)
Definition conf (s : send) (sr : nat) (id : Z) : Prop :=
  exists i, nth_error (s_hist s) i = Some {| e_src := sr; e_val := id; e_task := true |} /\ Z.of_nat i + 1 < s_acked s.

(* v is a safe acknowledgement value of target T towards source sr *)
Definition Good (x : st) (sr T : nat) (v : Z) : Prop :=
  forall r, recv_at x sr r ->
    v <= r_high r /\
    forall t, In t (r_rcv r) -> t_owner t = T -> t_id t < v -> exists s, send_at x T s /\ conf s sr (t_id t).

Fixpoint incr (lo : Z) (ts : list task) : Prop :=
  match ts with [] => True | t :: rest => lo <= t_id t /\ incr (t_id t + 1) rest end.
(* the batches a source has sent and the receiver has not read yet continue where the last read batch ended *)
Fixpoint chain (lo : Z) (q : list (list task * Z)) : Prop :=
  match q with
  | [] => True
  | (ts, h) :: rest => incr lo ts /\ (forall t, In t ts -> t_id t < h) /\ lo <= h /\ chain h rest
  end.

Definition pend_ok (sr : nat) (r : recv) : Prop :=
  NoDup (map fst (r_pending r)) /\
  forall T c, In (T, c) (r_pending r) ->
    c_src c = sr /\ c_tasks c <> [] /\ (exists lo, incr lo (c_tasks c)) /\
    forall t, In t (c_tasks c) -> t_owner t = T /\ In t (r_rcv r) /\ r_lastwm r <= t_id t.

Record Inv (x : st) : Prop := {
  i_lw : forall sr r, recv_at x sr r -> r_lastwm r <= r_high r;
  i_rcvb : forall sr r, recv_at x sr r -> forall t, In t (r_rcv r) -> t_id t < r_high r;
  i_q : forall sr r, recv_at x sr r -> chain (r_high r) (r_inq r);
  i_pend : forall sr r, recv_at x sr r -> pend_ok sr r;
  i_p : forall sr r, recv_at x sr r -> forall t, In t (r_rcv r) ->
        (exists s, send_at x (t_owner t) s /\ In (te sr t) (L s)) \/ In t (pend r (t_owner t));
  i_nc : forall T s, send_at x T s -> s_conn s = false ->
         s_hist s = [] /\ s_chan s = [] /\ s_ackflight s = None /\ s_prev s = [] /\ s_ring s = [] /\ s_ackin s = [];
  i_before : forall sr r T s, recv_at x sr r -> send_at x T s ->
             forall l1 e l2, L s = l1 ++ e :: l2 -> e_src e = sr ->
             forall t, In t (r_rcv r) -> t_owner t = T -> t_id t < e_val e -> In (te sr t) l1;
  i_bnd : forall sr r T s, recv_at x sr r -> send_at x T s -> forall e, In e (L s) -> e_src e = sr -> e_val e <= r_high r;
  i_ring : forall T s, send_at x T s ->
           s_next s = Z.of_nat (length (s_hist s)) /\
           (s_ring s <> [] -> 1 <= s_start s /\ s_ring s = skipn (Z.to_nat (s_start s - 1)) (s_hist s));
  i_gmap : forall sr r, recv_at x sr r -> forall T v, aget T (r_map r) = Some v -> Good x sr T v;
  i_gackq : forall sr r, recv_at x sr r -> forall T v, In (T, v) (r_ackq r) -> Good x sr T v;
  i_gflight : forall T s fl, send_at x T s -> s_ackflight s = Some fl -> forall sr a, In (sr, a) (af_todo fl) -> Good x sr T a;
  i_gprev : forall T s, send_at x T s -> forall sr a, In (sr, a) (s_prev s) -> Good x sr T a;
  i_reg : forall sr r, recv_at x sr r -> forall t, In t (r_rcv r) -> exists v, aget (t_owner t) (r_map r) = Some v
}.

(* ---------- list helpers ---------- *)
Lemma nth_error_upd {A} (l : list A) n f : forall m,
  nth_error (upd l n f) m = if Nat.eqb n m then option_map f (nth_error l m) else nth_error l m.
Proof.
  revert n. induction l as [|a l IH]; intros n m.
  - destruct n, m; cbn; try reflexivity; destruct (Nat.eqb n m); reflexivity.
  - destruct n as [|n], m as [|m]; cbn [upd nth_error Nat.eqb option_map]; try reflexivity. apply IH.
Qed.

Lemma nth_error_upd_same {A} (l : list A) n f a : nth_error l n = Some a -> nth_error (upd l n f) n = Some (f a).
Proof. intros H. rewrite nth_error_upd, Nat.eqb_refl, H. reflexivity. Qed.

Lemma nth_error_upd_other {A} (l : list A) n f m : n <> m -> nth_error (upd l n f) m = nth_error l m.
Proof. intros H. rewrite nth_error_upd. apply Nat.eqb_neq in H. rewrite H. reflexivity. Qed.

Lemma nth_error_upd_inv {A} (l : list A) n f m b :
  nth_error (upd l n f) m = Some b ->
  (n = m /\ exists a, nth_error l m = Some a /\ b = f a) \/ (n <> m /\ nth_error l m = Some b).
Proof.
  rewrite nth_error_upd. destruct (Nat.eqb n m) eqn:E.
  - apply Nat.eqb_eq in E. destruct (nth_error l m) as [a|]; cbn; [|discriminate]. intros H. inversion H. left. split; [exact E|]. exists a. auto.
  - apply Nat.eqb_neq in E. intros H. right. auto.
Qed.

Lemma aset_In k v m : forall k' v', In (k', v') (aset k v m) -> (k' = k /\ v' = v) \/ In (k', v') m.
Proof.
  induction m as [|[a b] m IH]; intros k' v' H; cbn [aset] in H.
  - destruct H as [E|[]]. inversion E. auto.
  - destruct (Nat.eqb k a) eqn:E.
    + destruct H as [E1|H]; [inversion E1; auto|right; right; exact H].
    + destruct H as [E1|H]; [right; left; exact E1|]. destruct (IH _ _ H) as [H1|H1]; [auto|right; right; exact H1].
Qed.

Lemma aget_aset k v m k' : aget k' (aset k v m) = if Nat.eqb k' k then Some v else aget k' m.
Proof.
  destruct (Nat.eqb k' k) eqn:E.
  - apply Nat.eqb_eq in E. subst. apply aget_aset_same.
  - apply Nat.eqb_neq in E. apply aget_aset_other. exact E.
Qed.

(* ---------- Good is stable ---------- *)
(* one step never forgets a received task, never lowers a source's high watermark, only adds ids above it, only
   extends a sender's table at the tail and only raises what its target acknowledged *)
Definition mono (x x' : st) : Prop :=
  (forall sr r', recv_at x' sr r' -> exists r, recv_at x sr r /\ r_high r <= r_high r' /\
      forall t, In t (r_rcv r') -> In t (r_rcv r) \/ r_high r <= t_id t) /\
  (forall T s, send_at x T s -> exists s', send_at x' T s' /\ (exists ext, s_hist s' = s_hist s ++ ext) /\ s_acked s <= s_acked s').

Lemma conf_mono s s' sr id : (exists ext, s_hist s' = s_hist s ++ ext) -> s_acked s <= s_acked s' -> conf s sr id -> conf s' sr id.
Proof.
  intros [ext He] Ha (i & Hn & Hl). exists i. split; [|lia].
  rewrite He. rewrite nth_error_app1; [exact Hn|]. apply nth_error_Some. congruence.
Qed.

Lemma good_mono x x' sr T v : mono x x' -> Good x sr T v -> Good x' sr T v.
Proof.
  intros [Hr Hs] HG r' Hr'. destruct (Hr _ _ Hr') as (r & Hat & Hh & Hrcv).
  destruct (HG _ Hat) as [Hv Ht]. split; [lia|].
  intros t Hin Ho Hlt. destruct (Hrcv _ Hin) as [Hold|Hnew]; [|lia].
  destruct (Ht _ Hold Ho Hlt) as (s & Hsat & Hc). destruct (Hs _ _ Hsat) as (s' & Hs' & Hext & Hack).
  exists s'. split; [exact Hs'|]. eapply conf_mono; eassumption.
Qed.

Lemma mono_refl x : mono x x.
Proof.
  split.
  - intros sr r H. exists r. split; [exact H|]. split; [lia|]. intros t Ht. left. exact Ht.
  - intros T s H. exists s. split; [exact H|]. split; [exists []; rewrite app_nil_r; reflexivity|lia].
Qed.

(* confirmed (the monitor's boolean) follows from conf *)
Lemma find_confirmed_nth sr id acked h : forall pid i,
  nth_error h i = Some {| e_src := sr; e_val := id; e_task := true |} -> pid + Z.of_nat i < acked ->
  find_confirmed sr id acked pid h = true.
Proof.
  induction h as [|e h IH]; intros pid i Hn Hl; [destruct i; discriminate|].
  cbn [find_confirmed]. destruct i as [|i]; cbn [nth_error] in Hn.
  - inversion Hn; subst e. cbn. rewrite Nat.eqb_refl, Z.eqb_refl. cbn.
    replace (pid <? acked) with true by (symmetry; apply Z.ltb_lt; lia). reflexivity.
  - apply orb_true_iff. right. apply (IH (pid + 1) i Hn). lia.
Qed.

Lemma conf_confirmed x sr t s : send_at x (t_owner t) s -> conf s sr (t_id t) -> confirmed x sr t = true.
Proof.
  intros Hs (i & Hn & Hl). unfold confirmed. unfold send_at in Hs. rewrite Hs.
  apply (find_confirmed_nth sr (t_id t) (s_acked s) (s_hist s) 1 i Hn). lia.
Qed.

(* ---------- the initial state ---------- *)
Lemma nth_error_repeat {A} (a : A) n i b : nth_error (repeat a n) i = Some b -> b = a.
Proof. intros H. apply nth_error_In in H. apply repeat_spec in H. exact H. Qed.

Lemma inv_init ns nt : Inv (init ns nt).
Proof.
  constructor; unfold recv_at, send_at; cbn [init recvs sends].
  - intros sr r H. apply nth_error_repeat in H. subst. cbn. lia.
  - intros sr r H t Ht. apply nth_error_repeat in H. subst. destruct Ht.
  - intros sr r H. apply nth_error_repeat in H. subst. exact I.
  - intros sr r H. apply nth_error_repeat in H. subst. split; [constructor|]. intros T c [].
  - intros sr r H t Ht. apply nth_error_repeat in H. subst. destruct Ht.
  - intros T s H _. apply nth_error_repeat in H. subst. cbn. repeat split; reflexivity.
  - intros sr r T s Hr Hs l1 e l2 HL. apply nth_error_repeat in Hs. subst. cbn in HL. destruct l1; discriminate.
  - intros sr r T s Hr Hs e He. apply nth_error_repeat in Hs. subst. destruct He.
  - intros T s H. apply nth_error_repeat in H. subst. cbn. split; [reflexivity|]. intros C. exfalso. apply C. reflexivity.
  - intros sr r H T v Hg. apply nth_error_repeat in H. subst. discriminate.
  - intros sr r H T v Hin. apply nth_error_repeat in H. subst. destruct Hin.
  - intros T s fl H Hf. apply nth_error_repeat in H. subst. discriminate.
  - intros T s H sr a Hin. apply nth_error_repeat in H. subst. destruct Hin.
  - intros sr r H t Ht. apply nth_error_repeat in H. subst. destruct Ht.
Qed.

(* ---------- a step that changes one sender and leaves what was handed to it unchanged ---------- *)
Definition ring_ok (s : send) : Prop :=
  s_next s = Z.of_nat (length (s_hist s)) /\
  (s_ring s <> [] -> 1 <= s_start s /\ s_ring s = skipn (Z.to_nat (s_start s - 1)) (s_hist s)).

Lemma send_at_set_send x T f T' s' :
  send_at (set_send x T f) T' s' ->
  (T = T' /\ exists s, send_at x T s /\ s' = f s) \/ (T <> T' /\ send_at x T' s').
Proof.
  unfold send_at, set_send. cbn [sends]. intros H. apply nth_error_upd_inv in H.
  destruct H as [[E (a & Ha & Hb)]|[Hne H]]; [left; subst T'; split; [reflexivity|exists a; auto]|right; auto].
Qed.

Lemma mono_set_send x T s s' :
  send_at x T s -> (exists ext, s_hist s' = s_hist s ++ ext) -> s_acked s <= s_acked s' ->
  mono x (set_send x T (fun _ => s')).
Proof.
  intros Hs Hext Hack. split.
  - intros sr r H. exists r. split; [exact H|]. split; [lia|]. intros t Ht. left. exact Ht.
  - intros T0 s0 H0. destruct (Nat.eq_dec T T0) as [->|Hne].
    + unfold send_at in *. rewrite Hs in H0. inversion H0; subst s0. exists s'. split.
      * cbn [set_send sends]. exact (nth_error_upd_same (sends x) T0 (fun _ => s') s Hs).
      * split; assumption.
    + exists s0. split.
      * unfold send_at. cbn [set_send sends]. rewrite nth_error_upd_other by exact Hne. exact H0.
      * split; [exists []; rewrite app_nil_r; reflexivity|lia].
Qed.

Lemma inv_set_send x T s s' :
  Inv x -> send_at x T s ->
  L s' = L s ->
  (exists ext, s_hist s' = s_hist s ++ ext) -> s_acked s <= s_acked s' ->
  (s_conn s' = false -> s_hist s' = [] /\ s_chan s' = [] /\ s_ackflight s' = None /\ s_prev s' = [] /\ s_ring s' = [] /\ s_ackin s' = []) ->
  ring_ok s' ->
  (forall fl', s_ackflight s' = Some fl' -> forall sr a, In (sr, a) (af_todo fl') -> Good (set_send x T (fun _ => s')) sr T a) ->
  (forall sr a, In (sr, a) (s_prev s') -> Good (set_send x T (fun _ => s')) sr T a) ->
  Inv (set_send x T (fun _ => s')).
Proof.
  intros HI Hs HL Hext Hack Hnc Hring Hfl Hprev.
  pose proof (mono_set_send x T s s' Hs Hext Hack) as Hm.
  set (x' := set_send x T (fun _ => s')) in *.
  assert (Hrecv : forall sr r, recv_at x' sr r <-> recv_at x sr r) by (intros; unfold recv_at; cbn; reflexivity).
  assert (Hsend : forall T' s0, send_at x' T' s0 -> (T' = T /\ s0 = s') \/ (T' <> T /\ send_at x T' s0)).
  { intros T' s0 H. apply send_at_set_send in H. destruct H as [[E (s1 & _ & E2)]|[Hne H]]; [left; auto|right; auto]. }
  assert (Hsame : send_at x' T s') by (unfold send_at; cbn; exact (nth_error_upd_same (sends x) T (fun _ => s') s Hs)).
  assert (Hother : forall T' s0, T' <> T -> send_at x T' s0 -> send_at x' T' s0).
  { intros T' s0 Hne H. unfold send_at. cbn. rewrite nth_error_upd_other by auto. exact H. }
  destruct HI as [Ilw Ircvb Iq Ipend Ip Inc Ibefore Ibnd Iring Igmap Igackq Igflight Igprev Ireg].
  constructor.
  - intros sr r H. apply (Ilw sr r). apply Hrecv. exact H.
  - intros sr r H. apply (Ircvb sr r). apply Hrecv. exact H.
  - intros sr r H. apply (Iq sr r). apply Hrecv. exact H.
  - intros sr r H. apply (Ipend sr r). apply Hrecv. exact H.
  - intros sr r H t Ht. apply Hrecv in H. destruct (Ip sr r H t Ht) as [(s0 & Hs0 & Hin)|Hp]; [|right; exact Hp].
    left. destruct (Nat.eq_dec (t_owner t) T) as [E|Hne].
    + exists s'. rewrite E. split; [exact Hsame|]. rewrite HL. rewrite E in Hs0. unfold send_at in *. rewrite Hs in Hs0. inversion Hs0; subst. exact Hin.
    + exists s0. split; [apply Hother; assumption|exact Hin].
  - intros T' s0 H Hc. destruct (Hsend _ _ H) as [[-> ->]|[Hne H0]]; [apply Hnc; exact Hc|apply (Inc T' s0 H0 Hc)].
  - intros sr r T' s0 Hr H l1 e l2 HLs He t Ht Ho Hlt. apply Hrecv in Hr.
    destruct (Hsend _ _ H) as [[-> ->]|[Hne H0]].
    + rewrite HL in HLs. apply (Ibefore sr r T s Hr Hs l1 e l2 HLs He t Ht Ho Hlt).
    + apply (Ibefore sr r T' s0 Hr H0 l1 e l2 HLs He t Ht Ho Hlt).
  - intros sr r T' s0 Hr H e Hin He. apply Hrecv in Hr.
    destruct (Hsend _ _ H) as [[-> ->]|[Hne H0]].
    + rewrite HL in Hin. apply (Ibnd sr r T s Hr Hs e Hin He).
    + apply (Ibnd sr r T' s0 Hr H0 e Hin He).
  - intros T' s0 H. destruct (Hsend _ _ H) as [[-> ->]|[Hne H0]]; [exact Hring|apply (Iring T' s0 H0)].
  - intros sr r H T' v Hg. apply Hrecv in H. apply (good_mono x x'); [exact Hm|]. apply (Igmap sr r H T' v Hg).
  - intros sr r H T' v Hin. apply Hrecv in H. apply (good_mono x x'); [exact Hm|]. apply (Igackq sr r H T' v Hin).
  - intros T' s0 fl H Hf sr a Hin. destruct (Hsend _ _ H) as [[-> ->]|[Hne H0]].
    + apply (Hfl fl Hf sr a Hin).
    + apply (good_mono x x'); [exact Hm|]. apply (Igflight T' s0 fl H0 Hf sr a Hin).
  - intros T' s0 H sr a Hin. destruct (Hsend _ _ H) as [[-> ->]|[Hne H0]].
    + apply (Hprev sr a Hin).
    + apply (good_mono x x'); [exact Hm|]. apply (Igprev T' s0 H0 sr a Hin).
  - intros sr r H. apply (Ireg sr r). apply Hrecv. exact H.
Qed.

(* ---------- list index helpers ---------- *)
Lemma skipn_skipn {A} (a b : nat) (l : list A) : skipn a (skipn b l) = skipn (b + a) l.
Proof.
  revert l. induction b as [|b IH]; intros l; [reflexivity|]. destruct l as [|y l]; cbn [skipn plus].
  - destruct a; reflexivity.
  - apply IH.
Qed.

Lemma nth_error_skipn' {A} (d k : nat) (l : list A) : nth_error (skipn d l) k = nth_error l (d + k).
Proof.
  revert l. induction d as [|d IH]; intros l; [reflexivity|]. destruct l as [|y l]; cbn [skipn plus nth_error].
  - destruct k; reflexivity.
  - apply IH.
Qed.

Lemma nth_error_firstn' {A} (c k : nat) (l : list A) e : nth_error (firstn c l) k = Some e -> (k < c)%nat /\ nth_error l k = Some e.
Proof.
  revert k l. induction c as [|c IH]; intros k l H; [destruct k; discriminate|].
  destruct l as [|y l]; [destruct k; discriminate|]. destruct k as [|k]; cbn [firstn nth_error] in *.
  - split; [lia|exact H].
  - destruct (IH _ _ H) as [H1 H2]. split; [lia|exact H2].
Qed.

Lemma in_prefix_index {A} (l l1 l2 : list A) (e a : A) :
  l = l1 ++ e :: l2 -> In a l1 -> exists i, (i < length l1)%nat /\ nth_error l i = Some a.
Proof.
  intros -> Hin. apply In_nth_error in Hin. destruct Hin as [i Hi]. exists i.
  assert (i < length l1)%nat by (apply nth_error_Some; congruence). split; [assumption|].
  rewrite nth_error_app1 by assumption. exact Hi.
Qed.

(* ---------- aggregation ---------- *)
Lemma agg_max_in es : forall acc sr a,
  In (sr, a) (agg_max es acc) -> In (sr, a) acc \/ exists e, In e es /\ e_src e = sr /\ e_val e = a.
Proof.
  induction es as [|e es IH]; intros acc sr a H; cbn [agg_max] in H; [left; exact H|].
  destruct (IH _ _ _ H) as [Hacc|(e' & Hin & H1 & H2)]; [|right; exists e'; split; [right; exact Hin|auto]].
  destruct (aget (e_src e) acc) as [cur|].
  - destruct (e_val e >? cur); [|left; exact Hacc].
    destruct (aset_In _ _ _ _ _ Hacc) as [[-> ->]|Hold]; [right; exists e; split; [left; reflexivity|auto]|left; exact Hold].
  - destruct (aset_In _ _ _ _ _ Hacc) as [[-> ->]|Hold]; [right; exists e; split; [left; reflexivity|auto]|left; exact Hold].
Qed.

Lemma covered_bound s w k e :
  ring_ok s -> nth_error (firstn (covered s w) (s_ring s)) k = Some e ->
  exists j, nth_error (s_hist s) j = Some e /\ Z.of_nat j + 1 <= w.
Proof.
  intros [_ Hring] H. apply nth_error_firstn' in H. destruct H as [Hk Hn].
  assert (Hne : s_ring s <> []) by (intros E; rewrite E in Hn; destruct k; discriminate).
  destruct (Hring Hne) as [Hstart Hr]. unfold covered in Hk.
  destruct (s_ring s) as [|e0 ring] eqn:Er; [contradiction|]. rewrite <- Er in *.
  destruct (Z.ltb_spec w (s_start s)) as [Hlt|Hge]; [lia|].
  rewrite Hr in Hn. rewrite nth_error_skipn' in Hn. exists (Z.to_nat (s_start s - 1) + k)%nat. split; [exact Hn|].
  destruct (Z.ltb_spec (Z.of_nat (length (s_ring s))) (w - s_start s + 1)) as [Hc|Hc].
  - assert (Z.of_nat k < Z.of_nat (length (s_ring s))) by lia. lia.
  - assert (Z.of_nat k < w - s_start s + 1) by lia. lia.
Qed.

Lemma aggregate_good x T s w sr a :
  Inv x -> send_at x T s ->
  In (sr, a) (fst (aggregate s w)) ->
  forall s', s_hist s' = s_hist s -> w <= s_acked s' ->
  Good (set_send x T (fun _ => s')) sr T a.
Proof.
  intros HI Hs Hin s' Hh Hack r Hr. unfold recv_at in Hr. cbn [set_send recvs] in Hr.
  unfold aggregate in Hin. cbn [fst] in Hin.
  destruct (agg_max_in _ _ _ _ Hin) as [[]|(e & He & Hsrc & Hval)].
  apply In_nth_error in He. destruct He as [k Hk].
  destruct (covered_bound s w k e (i_ring x HI T s Hs) Hk) as (j & Hj & Hjw).
  assert (HinL : In e (L s)) by (unfold L; apply in_or_app; left; eapply nth_error_In; exact Hj).
  split; [rewrite <- Hval; apply (i_bnd x HI sr r T s Hr Hs e HinL Hsrc)|].
  intros t Ht Ho Hlt.
  destruct (nth_error_split (s_hist s) j Hj) as (l1 & l2 & Hsplit & Hlen).
  assert (HL : L s = l1 ++ e :: (l2 ++ flat_map chan_entries (s_chan s))) by (unfold L; rewrite Hsplit, <- app_assoc; reflexivity).
  rewrite <- Hval in Hlt.
  pose proof (i_before x HI sr r T s Hr Hs l1 e _ HL Hsrc t Ht Ho Hlt) as Hbefore.
  destruct (in_prefix_index (s_hist s) l1 l2 e (te sr t) Hsplit Hbefore) as (i & Hi & Hni).
  exists s'. split.
  - unfold send_at. cbn [set_send sends]. exact (nth_error_upd_same (sends x) T (fun _ => s') s Hs).
  - exists i. rewrite Hh. split; [exact Hni|]. lia.
Qed.

(* ---------- actions that only touch one sender ---------- *)
Lemma good_after_set_send x T s s' sr T' v :
  send_at x T s -> (exists ext, s_hist s' = s_hist s ++ ext) -> s_acked s <= s_acked s' ->
  Good x sr T' v -> Good (set_send x T (fun _ => s')) sr T' v.
Proof. intros Hs He Ha. apply good_mono. apply (mono_set_send x T s s' Hs He Ha). Qed.

Lemma hist_ext_refl (s : send) : exists ext, s_hist s = s_hist s ++ ext.
Proof. exists []. rewrite app_nil_r. reflexivity. Qed.

Lemma skipn_app_le {A} (d : nat) (l es : list A) : (d <= length l)%nat -> skipn d (l ++ es) = skipn d l ++ es.
Proof. intros H. rewrite skipn_app. replace (d - length l)%nat with 0%nat by lia. reflexivity. Qed.

Lemma ring_ok_append s es n' :
  ring_ok s -> n' = s_next s + Z.of_nat (length es) -> ring_ok (s_append es n' s).
Proof.
  intros [Hn Hr] ->. unfold ring_ok. cbn [s_append s_next s_hist s_ring s_start]. split; [rewrite app_length, Hn; lia|].
  intros Hne. destruct (s_ring s) as [|e0 ring] eqn:Er.
  - split; [lia|]. cbn [app]. rewrite Hn. replace (Z.to_nat (Z.of_nat (length (s_hist s)) + 1 - 1)) with (length (s_hist s)) by lia.
    rewrite skipn_app, skipn_all, Nat.sub_diag. reflexivity.
  - destruct (Hr ltac:(discriminate)) as [H1 H2]. split; [exact H1|].
    rewrite H2 at 1. rewrite skipn_app_le; [reflexivity|].
    destruct (Nat.le_gt_cases (Z.to_nat (s_start s - 1)) (length (s_hist s))) as [Hle|Hgt]; [exact Hle|].
    rewrite skipn_all2 in H2 by lia. discriminate.
Qed.

Lemma chan_entries_assign c next :
  c_tasks c <> [] -> let '(_, es, n') := assign (c_src c) (c_tasks c) next in es = chan_entries c /\ n' = next + Z.of_nat (length es).
Proof.
  intros Hne. pose proof (assign_spec (c_src c) (c_tasks c) next) as H.
  destruct (assign (c_src c) (c_tasks c) next) as [[ws es] n']. destruct H as (_ & _ & He & Hn).
  unfold chan_entries. destruct (c_tasks c) as [|t ts] eqn:E; [contradiction|]. split; [exact He|]. rewrite He, map_length. exact Hn.
Qed.

(* premises of [inv_set_send] for the parts of a sender that an action leaves alone *)
Lemma keep_flight x T s s' :
  Inv x -> send_at x T s -> (exists ext, s_hist s' = s_hist s ++ ext) -> s_acked s <= s_acked s' ->
  s_ackflight s' = s_ackflight s ->
  forall fl', s_ackflight s' = Some fl' -> forall sr a, In (sr, a) (af_todo fl') -> Good (set_send x T (fun _ => s')) sr T a.
Proof.
  intros HI Hs He Ha Hf fl' Hfl sr a Hin. rewrite Hf in Hfl.
  apply (good_after_set_send x T s s' sr T a Hs He Ha). apply (i_gflight x HI T s fl' Hs Hfl sr a Hin).
Qed.

Lemma keep_prev x T s s' :
  Inv x -> send_at x T s -> (exists ext, s_hist s' = s_hist s ++ ext) -> s_acked s <= s_acked s' ->
  s_prev s' = s_prev s ->
  forall sr a, In (sr, a) (s_prev s') -> Good (set_send x T (fun _ => s')) sr T a.
Proof.
  intros HI Hs He Ha Hp sr a Hin. rewrite Hp in Hin.
  apply (good_after_set_send x T s s' sr T a Hs He Ha). apply (i_gprev x HI T s Hs sr a Hin).
Qed.

Lemma upd_const {A} (l : list A) n f a : nth_error l n = Some a -> upd l n f = upd l n (fun _ => f a).
Proof.
  revert n. induction l as [|y l IH]; intros [|n] H; cbn in *; try discriminate; [inversion H; reflexivity|f_equal; apply IH; exact H].
Qed.
Lemma upd_none {A} (l : list A) n f : nth_error l n = None -> upd l n f = l.
Proof.
  revert n. induction l as [|y l IH]; intros [|n] H; cbn in *; try discriminate; try reflexivity. f_equal. apply IH. exact H.
Qed.

Lemma set_send_const x T f s : send_at x T s -> set_send x T f = set_send x T (fun _ => f s).
Proof. intros H. unfold set_send. f_equal. apply upd_const. exact H. Qed.
Lemma set_send_none x T f : nth_error (sends x) T = None -> set_send x T f = x.
Proof. intros H. destruct x as [rs ss]. unfold set_send. cbn in *. f_equal. apply upd_none. exact H. Qed.

Ltac conn_true Hc := intros Hcf; cbn in Hcf; rewrite Hc in Hcf; discriminate.

Lemma inv_dequeue x T : Inv x -> Inv (fst (apply_act true x (ADequeue T))).
Proof.
  intros HI. cbn [apply_act]. destruct (nth_error (sends x) T) as [s|] eqn:Hs; [|exact HI].
  destruct (s_conn s) eqn:Hc; [|exact HI]. destruct (s_inflight s) eqn:Hf; [exact HI|].
  destruct (s_chan s) as [|c rest] eqn:Hch; [exact HI|].
  pose proof (i_ring x HI T s Hs) as Hring.
  destruct (c_tasks c) as [|t0 ts0] eqn:Ect.
  - cbn [fst]. apply (inv_set_send x T s); try exact HI; try exact Hs.
    + unfold L. cbn. rewrite Hch. cbn [flat_map]. unfold chan_entries at 2. rewrite Ect. rewrite <- app_assoc. reflexivity.
    + cbn. eexists. reflexivity.
    + cbn. lia.
    + cbn. intros Hcf. rewrite Hc in Hcf. discriminate.
    + apply (ring_ok_append (s_set_chan rest s)); [exact Hring|]. cbn. lia.
    + apply (keep_flight x T s); try assumption; cbn; [eexists; reflexivity|lia|reflexivity].
    + apply (keep_prev x T s); try assumption; cbn; [eexists; reflexivity|lia|reflexivity].
  - rewrite <- Ect. pose proof (chan_entries_assign c (s_next s) ltac:(rewrite Ect; discriminate)) as Ha.
    destruct (assign (c_src c) (c_tasks c) (s_next s)) as [[ws es] n'] eqn:Eas. destruct Ha as [Hes Hn'].
    cbn [fst]. apply (inv_set_send x T s); try exact HI; try exact Hs.
    + unfold L. cbn. rewrite Hch. cbn [flat_map]. rewrite Hes, <- app_assoc. reflexivity.
    + cbn. eexists. reflexivity.
    + cbn. lia.
    + cbn. intros Hcf. rewrite Hc in Hcf. discriminate.
    + apply (ring_ok_append (s_set_chan rest s)); [exact Hring|]. cbn. exact Hn'.
    + apply (keep_flight x T s); try assumption; cbn; [eexists; reflexivity|lia|reflexivity].
    + apply (keep_prev x T s); try assumption; cbn; [eexists; reflexivity|lia|reflexivity].
Qed.

(* an update of one sender that touches none of the fields the invariant reads *)
Lemma inv_send_irrelevant x T s s' :
  Inv x -> send_at x T s ->
  s_conn s' = s_conn s -> s_chan s' = s_chan s -> s_hist s' = s_hist s -> s_acked s' = s_acked s -> s_next s' = s_next s ->
  s_start s' = s_start s -> s_ring s' = s_ring s -> s_prev s' = s_prev s -> s_ackflight s' = s_ackflight s ->
  (s_conn s = true \/ s_ackin s' = s_ackin s) ->
  Inv (set_send x T (fun _ => s')).
Proof.
  intros HI Hs Hc Hch Hh Ha Hn Hst Hr Hp Hf Hai.
  apply (inv_set_send x T s); try assumption.
  - unfold L. rewrite Hh, Hch. reflexivity.
  - rewrite Hh. apply hist_ext_refl.
  - lia.
  - intros Hcf. rewrite Hc in Hcf. destruct (i_nc x HI T s Hs Hcf) as (H1 & H2 & H3 & H4 & H5 & H6).
    rewrite Hh, Hch, Hf, Hp, Hr. destruct Hai as [Hai|Hai]; [congruence|rewrite Hai]. repeat split; assumption.
  - destruct (i_ring x HI T s Hs) as [R1 R2]. unfold ring_ok. rewrite Hn, Hh, Hr, Hst. split; assumption.
  - apply (keep_flight x T s); try assumption; [rewrite Hh; apply hist_ext_refl|lia].
  - apply (keep_prev x T s); try assumption; [rewrite Hh; apply hist_ext_refl|lia].
Qed.

Lemma inv_simple_sender x a :
  Inv x ->
  match a with ASend _ | AKeepalive _ | AStall _ | AUnstall _ | AAckIn _ _ => True | _ => False end ->
  Inv (fst (apply_act true x a)).
Proof.
  intros HI Ha. destruct a; try contradiction; cbn [apply_act].
  - (* ASend *)
    destruct (nth_error (sends x) T) as [s|] eqn:Hs; [|exact HI].
    destruct (s_conn s && negb (s_stalled s)) eqn:E; [|exact HI]. destruct (s_inflight s) as [f|] eqn:Hf; [|exact HI].
    cbn [fst]. apply (inv_send_irrelevant x T s); try exact HI; try exact Hs; destruct (f_keepalive f); try reflexivity; try (right; reflexivity).
  - (* AKeepalive *)
    destruct (nth_error (sends x) T) as [s|] eqn:Hs; [|exact HI].
    destruct (s_conn s) eqn:Hc; [|exact HI]. destruct (s_inflight s) eqn:Hf; [exact HI|].
    destruct (s_lastwm s >? 0); [|exact HI]. cbn [fst].
    rewrite (set_send_const x T _ s Hs). apply (inv_send_irrelevant x T s); try exact HI; try exact Hs; try reflexivity. right; reflexivity.
  - (* AAckIn *)
    destruct (nth_error (sends x) T) as [s|] eqn:Hs; [|exact HI].
    destruct (s_conn s) eqn:Hc; [|exact HI]. cbn [fst].
    rewrite (set_send_const x T _ s Hs). apply (inv_send_irrelevant x T s); try exact HI; try exact Hs; try reflexivity. left. exact Hc.
  - (* AStall *)
    destruct (nth_error (sends x) T) as [s|] eqn:Hs.
    + cbn [fst]. rewrite (set_send_const x T _ s Hs). apply (inv_send_irrelevant x T s); try exact HI; try exact Hs; try reflexivity. right; reflexivity.
    + cbn [fst]. rewrite (set_send_none x T _ Hs). exact HI.
  - (* AUnstall *)
    destruct (nth_error (sends x) T) as [s|] eqn:Hs.
    + cbn [fst]. rewrite (set_send_const x T _ s Hs). apply (inv_send_irrelevant x T s); try exact HI; try exact Hs; try reflexivity. right; reflexivity.
    + cbn [fst]. rewrite (set_send_none x T _ Hs). exact HI.
Qed.

Lemma inv_aggregate x T : Inv x -> Inv (fst (apply_act true x (AAggregate T))).
Proof.
  intros HI. cbn [apply_act]. destruct (nth_error (sends x) T) as [s|] eqn:Hs; [|exact HI].
  destruct (s_conn s) eqn:Hc; [|exact HI]. destruct (s_ackflight s) eqn:Hf; [exact HI|].
  destruct (s_ackin s) as [|w rest] eqn:Hai; [exact HI|].
  destruct (aggregate s w) as [acks c] eqn:Eagg. cbn [fst].
  apply (inv_set_send x T s); try exact HI; try exact Hs.
  - reflexivity.
  - cbn. apply hist_ext_refl.
  - cbn. lia.
  - cbn. intros Hcf. rewrite Hc in Hcf. discriminate.
  - exact (i_ring x HI T s Hs).
  - cbn [s_ackflight s_set_acked s_set_ackflight]. intros fl' Hfl sr a Hin. inversion Hfl; subst fl'; clear Hfl.
    destruct acks as [|p acks'] eqn:Eacks; cbn [af_todo] in Hin.
    + apply (good_after_set_send x T s); [exact Hs|cbn; apply hist_ext_refl|cbn; lia|]. apply (i_gprev x HI T s Hs sr a Hin).
    + apply (aggregate_good x T s w sr a HI Hs); [rewrite Eagg; exact Hin|reflexivity|cbn; lia].
  - apply (keep_prev x T s); try assumption; cbn; [apply hist_ext_refl|lia|reflexivity].
Qed.

Lemma inv_discard x T : Inv x -> Inv (fst (apply_act true x (ADiscard T))).
Proof.
  intros HI. cbn [apply_act]. destruct (nth_error (sends x) T) as [s|] eqn:Hs; [|exact HI].
  destruct (s_conn s) eqn:Hc; [|exact HI]. destruct (s_ackflight s) as [fl|] eqn:Hf; [|exact HI].
  destruct (af_todo fl) eqn:Htodo; [|exact HI]. cbn [fst].
  apply (inv_set_send x T s); try exact HI; try exact Hs.
  - reflexivity.
  - cbn. apply hist_ext_refl.
  - cbn. lia.
  - cbn. intros Hcf. rewrite Hc in Hcf. discriminate.
  - destruct (i_ring x HI T s Hs) as [R1 R2]. unfold ring_ok. cbn. split; [exact R1|].
    intros Hne. assert (Hr : s_ring s <> []) by (intros E; rewrite E in Hne; rewrite skipn_nil in Hne; contradiction).
    destruct (R2 Hr) as [R3 R4]. split; [lia|]. rewrite R4 at 1. rewrite skipn_skipn. f_equal. lia.
  - cbn. intros fl' Hfl. discriminate.
  - apply (keep_prev x T s); try assumption; cbn; [apply hist_ext_refl|lia|reflexivity].
Qed.

(* ---------- a step that changes one receiver's queues / map only ---------- *)
Lemma recv_at_set_recv x sr f sr' r' :
  recv_at (set_recv x sr f) sr' r' ->
  (sr = sr' /\ exists r, recv_at x sr r /\ r' = f r) \/ (sr <> sr' /\ recv_at x sr' r').
Proof.
  unfold recv_at, set_recv. cbn [recvs]. intros H. apply nth_error_upd_inv in H.
  destruct H as [[E (a & Ha & Hb)]|[Hne H]]; [left; subst sr'; split; [reflexivity|exists a; auto]|right; auto].
Qed.

Lemma set_recv_const x sr f r : recv_at x sr r -> set_recv x sr f = set_recv x sr (fun _ => f r).
Proof. intros H. unfold set_recv. f_equal. apply upd_const. exact H. Qed.

Lemma good_same_rcv x x' sr T v :
  sends x' = sends x ->
  (forall r', recv_at x' sr r' -> exists r, recv_at x sr r /\ r_high r = r_high r' /\ r_rcv r = r_rcv r') ->
  Good x sr T v -> Good x' sr T v.
Proof.
  intros Hs Hr HG r' Hr'. destruct (Hr _ Hr') as (r & Hat & Hh & Hrcv). destruct (HG _ Hat) as [Hv Ht].
  split; [lia|]. intros t Hin Ho Hlt. rewrite <- Hrcv in Hin. destruct (Ht _ Hin Ho Hlt) as (s & Hsat & Hc).
  exists s. split; [unfold send_at; rewrite Hs; exact Hsat|exact Hc].
Qed.

Lemma inv_set_recv_light x sr r r' :
  Inv x -> recv_at x sr r ->
  r_rcv r' = r_rcv r -> r_high r' = r_high r -> r_lastwm r' = r_lastwm r -> r_pending r' = r_pending r ->
  chain (r_high r') (r_inq r') ->
  (forall T v, aget T (r_map r') = Some v -> Good x sr T v) ->
  (forall T v, In (T, v) (r_ackq r') -> Good x sr T v) ->
  (forall t, In t (r_rcv r) -> exists v, aget (t_owner t) (r_map r') = Some v) ->
  Inv (set_recv x sr (fun _ => r')).
Proof.
  intros HI Hr Hrcv Hhigh Hlw Hpend Hq Hgm Hga Hreg.
  set (x' := set_recv x sr (fun _ => r')).
  assert (Hsends : sends x' = sends x) by reflexivity.
  assert (Hcase : forall sr0 r0, recv_at x' sr0 r0 -> (sr0 = sr /\ r0 = r') \/ (sr0 <> sr /\ recv_at x sr0 r0)).
  { intros sr0 r0 H. apply recv_at_set_recv in H. destruct H as [[E (r1 & _ & E2)]|[Hne H]]; [left; auto|right; auto]. }
  assert (Hgood : forall sr0 T v, Good x sr0 T v -> Good x' sr0 T v).
  { intros sr0 T v. apply good_same_rcv; [exact Hsends|]. intros r0 H0. destruct (Hcase _ _ H0) as [[-> ->]|[Hne H1]].
    - exists r. auto.
    - exists r0. auto. }
  destruct HI as [Ilw Ircvb Iq Ipend Ip Inc Ibefore Ibnd Iring Igmap Igackq Igflight Igprev Ireg].
  constructor.
  - intros sr0 r0 H. destruct (Hcase _ _ H) as [[-> ->]|[Hne H1]]; [rewrite Hlw, Hhigh; apply (Ilw sr r Hr)|apply (Ilw _ _ H1)].
  - intros sr0 r0 H t Ht. destruct (Hcase _ _ H) as [[-> ->]|[Hne H1]]; [rewrite Hrcv in Ht; rewrite Hhigh; apply (Ircvb sr r Hr t Ht)|apply (Ircvb _ _ H1 t Ht)].
  - intros sr0 r0 H. destruct (Hcase _ _ H) as [[-> ->]|[Hne H1]]; [exact Hq|apply (Iq _ _ H1)].
  - intros sr0 r0 H. destruct (Hcase _ _ H) as [[-> ->]|[Hne H1]]; [|apply (Ipend _ _ H1)].
    unfold pend_ok. rewrite Hpend, Hrcv, Hlw. apply (Ipend sr r Hr).
  - intros sr0 r0 H t Ht. destruct (Hcase _ _ H) as [[-> ->]|[Hne H1]].
    + rewrite Hrcv in Ht. unfold pend. rewrite Hpend. apply (Ip sr r Hr t Ht).
    + apply (Ip _ _ H1 t Ht).
  - intros T s H. apply (Inc T s H).
  - intros sr0 r0 T s H Hs. destruct (Hcase _ _ H) as [[-> ->]|[Hne H1]].
    + rewrite Hrcv. apply (Ibefore sr r T s Hr Hs).
    + apply (Ibefore _ _ T s H1 Hs).
  - intros sr0 r0 T s H Hs. destruct (Hcase _ _ H) as [[-> ->]|[Hne H1]].
    + rewrite Hhigh. apply (Ibnd sr r T s Hr Hs).
    + apply (Ibnd _ _ T s H1 Hs).
  - intros T s H. apply (Iring T s H).
  - intros sr0 r0 H T v Hg. apply Hgood. destruct (Hcase _ _ H) as [[-> ->]|[Hne H1]]; [apply (Hgm T v Hg)|apply (Igmap _ _ H1 T v Hg)].
  - intros sr0 r0 H T v Hin. apply Hgood. destruct (Hcase _ _ H) as [[-> ->]|[Hne H1]]; [apply (Hga T v Hin)|apply (Igackq _ _ H1 T v Hin)].
  - intros T s fl H Hf sr0 a Hin. apply Hgood. apply (Igflight T s fl H Hf sr0 a Hin).
  - intros T s H sr0 a Hin. apply Hgood. apply (Igprev T s H sr0 a Hin).
  - intros sr0 r0 H t Ht. destruct (Hcase _ _ H) as [[-> ->]|[Hne H1]]; [rewrite Hrcv in Ht; apply (Hreg t Ht)|apply (Ireg _ _ H1 t Ht)].
Qed.

Lemma set_recv_none x sr f : nth_error (recvs x) sr = None -> set_recv x sr f = x.
Proof. intros H. destruct x as [rs ss]. unfold set_recv. cbn in *. f_equal. apply upd_none. exact H. Qed.

(* ---------- well-formed environment actions ---------- *)
Fixpoint lastpush_from (lo : Z) (q : list (list task * Z)) : Z :=
  match q with [] => lo | (_, h) :: rest => lastpush_from h rest end.
Definition lastpush (r : recv) : Z := lastpush_from (r_high r) (r_inq r).

(* sources follow Temporal's sender contract: ids increase across batches, a batch's watermark is above its ids and
   watermarks never go back; a target is connected once (re-connections are stream failures: property C04) *)
Definition wf_act (x : st) (a : act) : Prop :=
  match a with
  | APush sr ts high =>
      forall r, recv_at x sr r -> incr (lastpush r) ts /\ (forall t, In t ts -> t_id t < high) /\ lastpush r <= high
  | AConnect T => forall s, send_at x T s -> s_conn s = false
  | ABreak _ | ARestart _ => False
  | _ => True
  end.

Lemma chain_app q : forall lo ts h,
  chain lo q -> incr (lastpush_from lo q) ts -> (forall t, In t ts -> t_id t < h) -> lastpush_from lo q <= h ->
  chain lo (q ++ [(ts, h)]).
Proof.
  induction q as [|[ts0 h0] q IH]; intros lo ts h Hc Hi Hlt Hle; cbn [app chain lastpush_from] in *.
  - repeat split; assumption.
  - destruct Hc as (H1 & H2 & H3 & H4). repeat split; try assumption. apply IH; assumption.
Qed.

Lemma inv_push x sr ts high : Inv x -> wf_act x (APush sr ts high) -> Inv (fst (apply_act true x (APush sr ts high))).
Proof.
  intros HI Hwf. cbn [apply_act fst]. destruct (nth_error (recvs x) sr) as [r|] eqn:Hr; [|rewrite set_recv_none by exact Hr; exact HI].
  rewrite (set_recv_const x sr _ r Hr). destruct (Hwf r Hr) as (W1 & W2 & W3).
  apply (inv_set_recv_light x sr r); try exact HI; try exact Hr; try reflexivity.
  - cbn. apply chain_app; [apply (i_q x HI sr r Hr)|exact W1|exact W2|exact W3].
  - cbn. apply (i_gmap x HI sr r Hr).
  - cbn. apply (i_gackq x HI sr r Hr).
  - cbn. apply (i_reg x HI sr r Hr).
Qed.

Lemma inv_procack x sr : Inv x -> Inv (fst (apply_act true x (AProcAck sr))).
Proof.
  intros HI. cbn [apply_act]. destruct (nth_error (recvs x) sr) as [r|] eqn:Hr; [|exact HI].
  destruct (r_ackq r) as [|[T v] q] eqn:Hq; [exact HI|].
  pose proof (process_ack_spec sr T v (r_set_ackq q r)) as Hspec.
  destruct (process_ack sr T v (r_set_ackq q r)) as [r' o]. cbn [fst].
  destruct Hspec as (_ & Hmap & Hhigh & Hrcv & Hpend & Hinq & Hackq & Hlw). cbn in Hmap, Hhigh, Hrcv, Hpend, Hinq, Hackq, Hlw.
  apply (inv_set_recv_light x sr r); try exact HI; try exact Hr; try assumption.
  - rewrite Hhigh, Hinq. apply (i_q x HI sr r Hr).
  - intros T' v' Hg. rewrite Hmap, aget_aset in Hg. destruct (Nat.eqb T' T) eqn:E.
    + apply Nat.eqb_eq in E. subst T'. inversion Hg; subst v'. apply (i_gackq x HI sr r Hr T v). rewrite Hq. left. reflexivity.
    + apply (i_gmap x HI sr r Hr T' v' Hg).
  - intros T' v' Hin. rewrite Hackq in Hin. apply (i_gackq x HI sr r Hr T' v'). rewrite Hq. right. exact Hin.
  - intros t Ht. rewrite Hmap, aget_aset. destruct (Nat.eqb (t_owner t) T); [eexists; reflexivity|apply (i_reg x HI sr r Hr t Ht)].
Qed.

Lemma inv_deliver x T : Inv x -> Inv (fst (apply_act true x (ADeliver T))).
Proof.
  intros HI. cbn [apply_act]. destruct (nth_error (sends x) T) as [s|] eqn:Hs; [|exact HI].
  destruct (s_conn s) eqn:Hc; [|exact HI]. destruct (s_ackflight s) as [fl|] eqn:Hf; [|exact HI].
  destruct (af_todo fl) as [|[sr a] rest] eqn:Htodo; [exact HI|].
  destruct (nth_error (recvs x) sr) as [r|] eqn:Hr; [|exact HI].
  destruct (Nat.ltb (length (r_ackq r)) chan_cap); [|exact HI]. cbn [fst].
  set (s1 := s_set_ackflight (Some {| af_todo := rest; af_count := af_count fl; af_new := af_new fl |}) s).
  set (s2 := if af_new fl then s_set_prev (aset sr a (s_prev s1)) s1 else s1).
  (* first the receiver's queue, then the sender's bookkeeping *)
  set (r1 := r_set_ackq (r_ackq r ++ [(T, a)]) r).
  assert (Hx1 : Inv (set_recv x sr (fun _ => r1))).
  { apply (inv_set_recv_light x sr r); try exact HI; try exact Hr; try reflexivity.
    - cbn. apply (i_q x HI sr r Hr).
    - cbn. apply (i_gmap x HI sr r Hr).
    - cbn. intros T' v' Hin. apply in_app_or in Hin. destruct Hin as [Hin|[E|[]]]; [apply (i_gackq x HI sr r Hr T' v' Hin)|].
      inversion E; subst T' v'. apply (i_gflight x HI T s fl Hs Hf sr a). rewrite Htodo. left. reflexivity.
    - cbn. apply (i_reg x HI sr r Hr). }
  assert (Heq : {| recvs := upd (recvs x) sr (fun r0 => r_set_ackq (r_ackq r0 ++ [(T, a)]) r0); sends := upd (sends x) T (fun _ => s2) |}
                = set_send (set_recv x sr (fun _ => r1)) T (fun _ => s2)).
  { unfold set_send, set_recv. cbn [recvs sends]. f_equal.
    exact (upd_const (recvs x) sr (fun r0 => r_set_ackq (r_ackq r0 ++ [(T, a)]) r0) r Hr). }
  rewrite Heq. set (x1 := set_recv x sr (fun _ => r1)) in *.
  assert (Hs1 : send_at x1 T s) by exact Hs.
  assert (Hh2 : s_hist s2 = s_hist s) by (unfold s2, s1; destruct (af_new fl); reflexivity).
  assert (Ha2 : s_acked s2 = s_acked s) by (unfold s2, s1; destruct (af_new fl); reflexivity).
  apply (inv_set_send x1 T s); try exact Hx1; try exact Hs1.
  - unfold L. rewrite Hh2. unfold s2, s1. destruct (af_new fl); reflexivity.
  - rewrite Hh2. apply hist_ext_refl.
  - lia.
  - intros Hcf. unfold s2, s1 in Hcf. destruct (af_new fl); cbn in Hcf; rewrite Hc in Hcf; discriminate.
  - destruct (i_ring x HI T s Hs) as [R1 R2]. unfold ring_ok, s2, s1. destruct (af_new fl); cbn; split; assumption.
  - intros fl' Hfl sr0 a0 Hin.
    assert (Hfl2 : fl' = {| af_todo := rest; af_count := af_count fl; af_new := af_new fl |}) by (unfold s2, s1 in Hfl; destruct (af_new fl); cbn in Hfl; inversion Hfl; reflexivity).
    subst fl'. cbn in Hin. apply (good_after_set_send x1 T s); [exact Hs1|rewrite Hh2; apply hist_ext_refl|lia|].
    apply (i_gflight x1 Hx1 T s fl Hs1 Hf sr0 a0). rewrite Htodo. right. exact Hin.
  - intros sr0 a0 Hin. apply (good_after_set_send x1 T s); [exact Hs1|rewrite Hh2; apply hist_ext_refl|lia|].
    unfold s2, s1 in Hin. destruct (af_new fl); cbn in Hin.
    + destruct (aset_In _ _ _ _ _ Hin) as [[-> ->]|Hold].
      * apply (i_gflight x1 Hx1 T s fl Hs1 Hf sr a). rewrite Htodo. left. reflexivity.
      * apply (i_gprev x1 Hx1 T s Hs1 sr0 a0 Hold).
    + apply (i_gprev x1 Hx1 T s Hs1 sr0 a0 Hin).
Qed.

(* ---------- pending groups ---------- *)
Lemma pend_in r T t : In t (pend r T) <-> exists c, In (T, c) (r_pending r) /\ In t (c_tasks c).
Proof.
  unfold pend. rewrite in_flat_map. split.
  - intros ([T' c] & Hin & Ht). cbn [fst snd] in Ht. destruct (Nat.eqb_spec T' T) as [->|Hne]; [|destruct Ht]. exists c. auto.
  - intros (c & Hin & Ht). exists (T, c). split; [exact Hin|]. cbn [fst snd]. rewrite Nat.eqb_refl. exact Ht.
Qed.

Lemma nodup_key_unique {B} (ps : list (nat * B)) T c c' : NoDup (map fst ps) -> In (T, c) ps -> In (T, c') ps -> c = c'.
Proof.
  induction ps as [|[k b] ps IH]; intros Hnd H1 H2; [destruct H1|]. cbn [map fst] in Hnd. inversion Hnd as [|? ? Hnin Hnd']; subst.
  destruct H1 as [E1|H1], H2 as [E2|H2].
  - congruence.
  - inversion E1; subst. exfalso. apply Hnin. apply in_map_iff. exists (T, c'). auto.
  - inversion E2; subst. exfalso. apply Hnin. apply in_map_iff. exists (T, c). auto.
  - apply IH; assumption.
Qed.

Lemma take_group_spec T : forall ps c rest,
  take_group T ps = Some (c, rest) ->
  In (T, c) ps /\ (forall p, In p rest -> In p ps) /\ (forall T' c', In (T', c') ps -> T' <> T -> In (T', c') rest) /\
  (NoDup (map fst ps) -> NoDup (map fst rest) /\ ~ In T (map fst rest)).
Proof.
  induction ps as [|[T' c0] ps IH]; intros c rest H; cbn [take_group] in H; [discriminate|].
  destruct (Nat.eqb_spec T T') as [<-|Hne].
  - inversion H; subst. split; [left; reflexivity|]. split; [intros p Hp; right; exact Hp|]. split.
    + intros T' c' [E|Hin] Hn; [inversion E; subst; contradiction|exact Hin].
    + intros Hnd. cbn [map fst] in Hnd. inversion Hnd; subst. split; assumption.
  - destruct (take_group T ps) as [[c1 rest1]|] eqn:E; [|discriminate]. inversion H; subst.
    destruct (IH _ _ eq_refl) as (H1 & H2 & H3 & H4). split; [right; exact H1|]. split.
    + intros p [E1|Hp]; [left; exact E1|right; apply H2; exact Hp].
    + split.
      * intros T1 c1' [E1|Hin] Hn; [left; exact E1|right; apply H3; assumption].
      * intros Hnd. cbn [map fst] in Hnd |- *. inversion Hnd as [|? ? Hnin Hnd']; subst. destruct (H4 Hnd') as [H5 H6]. split.
        -- constructor; [|exact H5]. intros Hin. apply Hnin. apply in_map_iff in Hin. destruct Hin as ([k b] & Ek & Hin). cbn in Ek. subst k.
           apply in_map_iff. exists (T', b). split; [reflexivity|apply H2; exact Hin].
        -- intros [E1|Hin]; [congruence|contradiction].
Qed.

Lemma incr_weaken ts : forall lo lo', lo' <= lo -> incr lo ts -> incr lo' ts.
Proof. destruct ts as [|t ts]; intros lo lo' Hle H; [exact I|]. cbn [incr] in *. destruct H as [H1 H2]. split; [lia|exact H2]. Qed.

Lemma incr_lower ts : forall lo t, incr lo ts -> In t ts -> lo <= t_id t.
Proof.
  induction ts as [|t0 ts IH]; intros lo t H Hin; [destruct Hin|]. cbn [incr] in H. destruct H as [H1 H2].
  destruct Hin as [->|Hin]; [exact H1|]. specialize (IH _ _ H2 Hin). lia.
Qed.

(* in an increasing list, an element with a smaller id comes earlier *)
Lemma incr_before ts : forall lo a t' b t, incr lo ts -> ts = a ++ t' :: b -> In t ts -> t_id t < t_id t' -> In t a.
Proof.
  induction ts as [|t0 ts IH]; intros lo a t' b t Hi Hs Hin Hlt; [destruct Hin|].
  cbn [incr] in Hi. destruct Hi as [H1 H2]. destruct a as [|a0 a]; cbn [app] in Hs; inversion Hs; subst.
  - exfalso. destruct Hin as [->|Hin]; [lia|]. pose proof (incr_lower _ _ _ H2 Hin). lia.
  - destruct Hin as [->|Hin]; [left; reflexivity|]. right. apply (IH _ a t' b t H2 eq_refl Hin Hlt).
Qed.

Lemma app_split_cases {A} (l1 : list A) e l2 : forall X Y,
  l1 ++ e :: l2 = X ++ Y ->
  (exists l2', X = l1 ++ e :: l2' /\ l2 = l2' ++ Y) \/ (exists l1', l1 = X ++ l1' /\ Y = l1' ++ e :: l2).
Proof.
  induction l1 as [|a l1 IH]; intros X Y H.
  - destruct X as [|x X]; cbn [app] in H.
    + right. exists []. split; [reflexivity|symmetry; exact H].
    + inversion H; subst. left. exists X. split; reflexivity.
  - destruct X as [|x X]; cbn [app] in H.
    + right. exists (a :: l1). split; [reflexivity|symmetry; exact H].
    + inversion H; subst. destruct (IH X Y H2) as [(l2' & E1 & E2)|(l1' & E1 & E2)].
      * left. exists l2'. split; [rewrite E1; reflexivity|exact E2].
      * right. exists l1'. split; [rewrite E1; reflexivity|exact E2].
Qed.

Lemma chan_entries_tasks c : c_tasks c <> [] -> chan_entries c = map (te (c_src c)) (c_tasks c).
Proof. unfold chan_entries. destruct (c_tasks c); [contradiction|reflexivity]. Qed.

Lemma L_enqueue s c : L (enqueue c s) = L s ++ chan_entries c.
Proof. unfold L, enqueue. cbn. rewrite flat_map_app. cbn [flat_map]. rewrite app_nil_r, app_assoc. reflexivity. Qed.

Lemma inv_handoff x sr T : Inv x -> Inv (fst (apply_act true x (AHandoff sr T))).
Proof.
  intros HI. cbn [apply_act]. destruct (nth_error (recvs x) sr) as [r|] eqn:Hr; [|exact HI].
  destruct (nth_error (sends x) T) as [s|] eqn:Hs; [|exact HI].
  destruct (s_conn s && has_room s) eqn:Hcr; [|exact HI].
  destruct (take_group T (r_pending r)) as [[c rest]|] eqn:Htg; [|exact HI]. cbn [fst].
  apply andb_prop in Hcr. destruct Hcr as [Hc _].
  destruct (take_group_spec T _ _ _ Htg) as (Hin & Hsub & Hoth & Hnd).
  pose proof (i_pend x HI sr r Hr) as [Pnd Pall]. destruct (Hnd Pnd) as [Pnd' PnT].
  destruct (Pall T c Hin) as (Csrc & Cne & (lo & Cincr) & Call).
  set (r' := r_set_pending rest r). set (s' := enqueue c s).
  set (x' := {| recvs := upd (recvs x) sr (r_set_pending rest); sends := upd (sends x) T (enqueue c) |}).
  assert (HL : L s' = L s ++ map (te sr) (c_tasks c)) by (unfold s'; rewrite L_enqueue, chan_entries_tasks by exact Cne; rewrite Csrc; reflexivity).
  assert (Hrcase : forall sr0 r0, recv_at x' sr0 r0 -> (sr0 = sr /\ r0 = r') \/ (sr0 <> sr /\ recv_at x sr0 r0)).
  { intros sr0 r0 H. unfold recv_at in H. cbn [x' recvs] in H. apply nth_error_upd_inv in H.
    destruct H as [[E (a & Ha & Hb)]|[Hne H]]; [left; subst sr0; rewrite Hr in Ha; inversion Ha; subst a; auto|right; auto]. }
  assert (Hscase : forall T0 s0, send_at x' T0 s0 -> (T0 = T /\ s0 = s') \/ (T0 <> T /\ send_at x T0 s0)).
  { intros T0 s0 H. unfold send_at in H. cbn [x' sends] in H. apply nth_error_upd_inv in H.
    destruct H as [[E (a & Ha & Hb)]|[Hne H]]; [left; subst T0; rewrite Hs in Ha; inversion Ha; subst a; auto|right; auto]. }
  assert (HsT : send_at x' T s') by (unfold send_at; cbn [x' sends]; rewrite (nth_error_upd_same _ _ _ _ Hs); reflexivity).
  assert (Hsoth : forall T0 s0, T0 <> T -> send_at x T0 s0 -> send_at x' T0 s0).
  { intros T0 s0 Hne H. unfold send_at. cbn [x' sends]. rewrite nth_error_upd_other by auto. exact H. }
  assert (Hm : mono x x').
  { split.
    - intros sr0 r0 H. destruct (Hrcase _ _ H) as [[-> ->]|[Hne H1]].
      + exists r. split; [exact Hr|]. split; [cbn; lia|]. intros t Ht. left. exact Ht.
      + exists r0. split; [exact H1|]. split; [lia|]. intros t Ht. left. exact Ht.
    - intros T0 s0 H. destruct (Nat.eq_dec T0 T) as [->|Hne].
      + unfold send_at in H. rewrite Hs in H. inversion H; subst s0. exists s'. split; [exact HsT|]. split; [cbn; apply hist_ext_refl|cbn; lia].
      + exists s0. split; [apply Hsoth; assumption|]. split; [apply hist_ext_refl|lia]. }
  constructor.
  - intros sr0 r0 H. destruct (Hrcase _ _ H) as [[-> ->]|[Hne H1]]; [apply (i_lw x HI sr r Hr)|apply (i_lw x HI _ _ H1)].
  - intros sr0 r0 H. destruct (Hrcase _ _ H) as [[-> ->]|[Hne H1]]; [apply (i_rcvb x HI sr r Hr)|apply (i_rcvb x HI _ _ H1)].
  - intros sr0 r0 H. destruct (Hrcase _ _ H) as [[-> ->]|[Hne H1]]; [apply (i_q x HI sr r Hr)|apply (i_q x HI _ _ H1)].
  - intros sr0 r0 H. destruct (Hrcase _ _ H) as [[-> ->]|[Hne H1]]; [|apply (i_pend x HI _ _ H1)].
    split; [exact Pnd'|]. intros T0 c0 Hin0. cbn in Hin0. apply (Pall T0 c0). apply Hsub. exact Hin0.
  - intros sr0 r0 H t Ht. destruct (Hrcase _ _ H) as [[-> ->]|[Hne H1]].
    + cbn in Ht. destruct (i_p x HI sr r Hr t Ht) as [(s0 & Hs0 & Hin0)|Hp].
      * left. destruct (Nat.eq_dec (t_owner t) T) as [E|Hne].
        -- exists s'. rewrite E. split; [exact HsT|]. rewrite HL. apply in_or_app. left. rewrite E in Hs0. unfold send_at in Hs0. rewrite Hs in Hs0. inversion Hs0; subst. exact Hin0.
        -- exists s0. split; [apply Hsoth; assumption|exact Hin0].
      * apply pend_in in Hp. destruct Hp as (c0 & Hc0 & Htc).
        destruct (Nat.eq_dec (t_owner t) T) as [E|Hne].
        -- left. exists s'. rewrite E. split; [exact HsT|]. rewrite HL. apply in_or_app. right.
           rewrite E in Hc0. rewrite (nodup_key_unique _ _ _ _ Pnd Hc0 Hin) in Htc. apply in_map. exact Htc.
        -- right. apply pend_in. exists c0. split; [cbn; apply Hoth; assumption|exact Htc].
    + destruct (i_p x HI _ _ H1 t Ht) as [(s0 & Hs0 & Hin0)|Hp]; [|right; exact Hp].
      left. destruct (Nat.eq_dec (t_owner t) T) as [E|Hne'].
      * exists s'. rewrite E. split; [exact HsT|]. rewrite HL. apply in_or_app. left. rewrite E in Hs0. unfold send_at in Hs0. rewrite Hs in Hs0. inversion Hs0; subst. exact Hin0.
      * exists s0. split; [apply Hsoth; assumption|exact Hin0].
  - intros T0 s0 H Hcf. destruct (Hscase _ _ H) as [[-> ->]|[Hne H1]]; [cbn in Hcf; rewrite Hc in Hcf; discriminate|apply (i_nc x HI _ _ H1 Hcf)].
  - intros sr0 r0 T0 s0 Hr0 Hs0 l1 e l2 HLs He t Ht Ho Hlt.
    assert (Hrr : exists r1, recv_at x sr0 r1 /\ r_rcv r1 = r_rcv r0 /\ r_high r1 = r_high r0).
    { destruct (Hrcase _ _ Hr0) as [[-> ->]|[Hne H1]]; [exists r; auto|exists r0; auto]. }
    destruct Hrr as (r1 & Hr1 & Ercv & _). rewrite <- Ercv in Ht.
    destruct (Hscase _ _ Hs0) as [[-> ->]|[Hne H1]]; [|apply (i_before x HI sr0 r1 T0 s0 Hr1 H1 l1 e l2 HLs He t Ht Ho Hlt)].
    rewrite HL in HLs. symmetry in HLs. destruct (app_split_cases l1 e l2 _ _ HLs) as [(l2' & E1 & E2)|(l1' & E1 & E2)].
    + apply (i_before x HI sr0 r1 T s Hr1 Hs l1 e l2' E1 He t Ht Ho Hlt).
    + (* e is one of the tasks just handed off *)
      rewrite E1. apply in_or_app.
      assert (Hes : In e (map (te sr) (c_tasks c))) by (rewrite E2; apply in_or_app; right; left; reflexivity).
      apply in_map_iff in Hes. destruct Hes as (t' & Et' & Ht').
      assert (sr0 = sr) by (rewrite <- He, <- Et'; reflexivity). subst sr0.
      assert (r1 = r) by (unfold recv_at in Hr1; congruence). subst r1.
      destruct (i_p x HI sr r Hr t Ht) as [(s0 & Hs0' & Hin0)|Hp].
      * left. rewrite Ho in Hs0'. unfold send_at in Hs0'. rewrite Hs in Hs0'. inversion Hs0'; subst. exact Hin0.
      * right. apply pend_in in Hp. destruct Hp as (c0 & Hc0 & Htc). rewrite Ho in Hc0.
        rewrite (nodup_key_unique _ _ _ _ Pnd Hc0 Hin) in Htc.
        (* position of t' in the group *)
        apply map_eq_app in E2. destruct E2 as (a & b & Eab & Ea & Eb). destruct b as [|t'' b]; [discriminate|]. cbn [map] in Eb. inversion Eb as [[Ee Eb']].
        rewrite <- Ea. apply in_map. apply (incr_before (c_tasks c) lo a t'' b t Cincr Eab Htc).
        rewrite <- Et' in Hlt. cbn in Hlt. assert (t_id t'' = t_id t') by (rewrite <- Et' in Ee; inversion Ee; reflexivity). lia.
  - intros sr0 r0 T0 s0 Hr0 Hs0 e Hine He.
    assert (Hrr : exists r1, recv_at x sr0 r1 /\ r_rcv r1 = r_rcv r0 /\ r_high r1 = r_high r0).
    { destruct (Hrcase _ _ Hr0) as [[-> ->]|[Hne H1]]; [exists r; auto|exists r0; auto]. }
    destruct Hrr as (r1 & Hr1 & Ercv & Ehigh). rewrite <- Ehigh.
    destruct (Hscase _ _ Hs0) as [[-> ->]|[Hne H1]]; [|apply (i_bnd x HI sr0 r1 T0 s0 Hr1 H1 e Hine He)].
    rewrite HL in Hine. apply in_app_or in Hine. destruct Hine as [Hold|Hnew]; [apply (i_bnd x HI sr0 r1 T s Hr1 Hs e Hold He)|].
    apply in_map_iff in Hnew. destruct Hnew as (t' & Et' & Ht').
    assert (sr0 = sr) by (rewrite <- He, <- Et'; reflexivity). subst sr0.
    assert (r1 = r) by (unfold recv_at in Hr1; congruence). subst r1. rewrite <- Et'. cbn.
    destruct (Call t' Ht') as (_ & Hrcv' & _). pose proof (i_rcvb x HI sr r Hr t' Hrcv'). lia.
  - intros T0 s0 H. destruct (Hscase _ _ H) as [[-> ->]|[Hne H1]]; [exact (i_ring x HI T s Hs)|apply (i_ring x HI _ _ H1)].
  - intros sr0 r0 H T0 v Hg. apply (good_mono x x' _ _ _ Hm). destruct (Hrcase _ _ H) as [[-> ->]|[Hne H1]]; [apply (i_gmap x HI sr r Hr T0 v Hg)|apply (i_gmap x HI _ _ H1 T0 v Hg)].
  - intros sr0 r0 H T0 v Hg. apply (good_mono x x' _ _ _ Hm). destruct (Hrcase _ _ H) as [[-> ->]|[Hne H1]]; [apply (i_gackq x HI sr r Hr T0 v Hg)|apply (i_gackq x HI _ _ H1 T0 v Hg)].
  - intros T0 s0 fl H Hf sr0 a Hin0. apply (good_mono x x' _ _ _ Hm). destruct (Hscase _ _ H) as [[-> ->]|[Hne H1]]; [apply (i_gflight x HI T s fl Hs Hf sr0 a Hin0)|apply (i_gflight x HI _ _ fl H1 Hf sr0 a Hin0)].
  - intros T0 s0 H sr0 a Hin0. apply (good_mono x x' _ _ _ Hm). destruct (Hscase _ _ H) as [[-> ->]|[Hne H1]]; [apply (i_gprev x HI T s Hs sr0 a Hin0)|apply (i_gprev x HI _ _ H1 sr0 a Hin0)].
  - intros sr0 r0 H. destruct (Hrcase _ _ H) as [[-> ->]|[Hne H1]]; [apply (i_reg x HI sr r Hr)|apply (i_reg x HI _ _ H1)].
Qed.

(* ---------- the receiver reads a batch ---------- *)
Lemma try_enqueue_cases c s : try_enqueue c s = s \/ (s_conn s = true /\ try_enqueue c s = enqueue c s).
Proof. unfold try_enqueue. destruct (s_conn s); cbn [andb]; [destruct (has_room s); [right; split; reflexivity|left; reflexivity]|left; reflexivity]. Qed.

Lemma inv_read_wm x sr r high q :
  Inv x -> recv_at x sr r -> r_pending r = [] -> r_inq r = ([], high) :: q ->
  Inv {| recvs := upd (recvs x) sr (fun _ => r_set_inq q (r_set_lastwm high (r_set_high high r)));
         sends := broadcast {| c_src := sr; c_tasks := []; c_high := high |} (sends x) |}.
Proof.
  intros HI Hr Hpend Hinq.
  set (c := {| c_src := sr; c_tasks := []; c_high := high |}).
  set (r' := r_set_inq q (r_set_lastwm high (r_set_high high r))).
  set (x' := {| recvs := upd (recvs x) sr (fun _ => r'); sends := broadcast c (sends x) |}).
  pose proof (i_q x HI sr r Hr) as Hq. rewrite Hinq in Hq. cbn [chain] in Hq. destruct Hq as (_ & _ & Hle & Hq).
  assert (Hrcase : forall sr0 r0, recv_at x' sr0 r0 -> (sr0 = sr /\ r0 = r') \/ (sr0 <> sr /\ recv_at x sr0 r0)).
  { intros sr0 r0 H. unfold recv_at in H. cbn [x' recvs] in H. apply nth_error_upd_inv in H.
    destruct H as [[E (a & Ha & Hb)]|[Hne H]]; [left; subst sr0; auto|right; auto]. }
  assert (Hscase : forall T0 s0, send_at x' T0 s0 -> exists s, send_at x T0 s /\ s0 = try_enqueue c s).
  { intros T0 s0 H. unfold send_at in H. cbn [x' sends] in H. unfold broadcast in H. rewrite nth_error_map in H.
    destruct (nth_error (sends x) T0) as [s|] eqn:E; [|discriminate]. cbn in H. inversion H. exists s. auto. }
  assert (Hsfwd : forall T0 s, send_at x T0 s -> send_at x' T0 (try_enqueue c s)).
  { intros T0 s H. unfold send_at. cbn [x' sends]. unfold broadcast. rewrite nth_error_map. unfold send_at in H. rewrite H. reflexivity. }
  assert (HLsub : forall s e, In e (L s) -> In e (L (try_enqueue c s))).
  { intros s e H. destruct (try_enqueue_cases c s) as [E|[_ E]]; rewrite E; [exact H|]. rewrite L_enqueue. apply in_or_app. left. exact H. }
  assert (Hrold : forall sr0 r0, recv_at x' sr0 r0 -> exists r1, recv_at x sr0 r1 /\ r_rcv r1 = r_rcv r0 /\ r_high r1 <= r_high r0 /\ r_map r1 = r_map r0 /\ r_ackq r1 = r_ackq r0).
  { intros sr0 r0 H. destruct (Hrcase _ _ H) as [[-> ->]|[Hne H1]]; [exists r; cbn; repeat split; auto|exists r0; repeat split; auto; lia]. }
  assert (Hm : mono x x').
  { split.
    - intros sr0 r0 H. destruct (Hrold _ _ H) as (r1 & H1 & E1 & E2 & _). exists r1. split; [exact H1|]. split; [exact E2|]. intros t Ht. left. rewrite E1. exact Ht.
    - intros T0 s H. exists (try_enqueue c s). split; [apply Hsfwd; exact H|].
      destruct (try_enqueue_cases c s) as [E|[_ E]]; rewrite E; cbn; split; try apply hist_ext_refl; lia. }
  constructor.
  - intros sr0 r0 H. destruct (Hrcase _ _ H) as [[-> ->]|[Hne H1]]; [cbn; lia|apply (i_lw x HI _ _ H1)].
  - intros sr0 r0 H t Ht. destruct (Hrcase _ _ H) as [[-> ->]|[Hne H1]]; [cbn in *; pose proof (i_rcvb x HI sr r Hr t Ht); lia|apply (i_rcvb x HI _ _ H1 t Ht)].
  - intros sr0 r0 H. destruct (Hrcase _ _ H) as [[-> ->]|[Hne H1]]; [cbn; exact Hq|apply (i_q x HI _ _ H1)].
  - intros sr0 r0 H. destruct (Hrcase _ _ H) as [[-> ->]|[Hne H1]]; [|apply (i_pend x HI _ _ H1)].
    unfold pend_ok. cbn. rewrite Hpend. split; [constructor|]. intros T0 c0 [].
  - intros sr0 r0 H t Ht. destruct (Hrold _ _ H) as (r1 & H1 & E1 & _). rewrite <- E1 in Ht.
    destruct (i_p x HI sr0 r1 H1 t Ht) as [(s0 & Hs0 & Hin0)|Hp].
    + left. exists (try_enqueue c s0). split; [apply Hsfwd; exact Hs0|apply HLsub; exact Hin0].
    + destruct (Hrcase _ _ H) as [[-> ->]|[Hne H2]].
      * assert (r1 = r) by (unfold recv_at in *; congruence). subst r1. exfalso. apply pend_in in Hp. destruct Hp as (c0 & Hc0 & _). rewrite Hpend in Hc0. destruct Hc0.
      * assert (r1 = r0) by (unfold recv_at in *; congruence). subst r1. right. exact Hp.
  - intros T0 s0 H Hcf. destruct (Hscase _ _ H) as (s & Hs & ->).
    destruct (try_enqueue_cases c s) as [E|[Hc E]]; rewrite E in *; [apply (i_nc x HI _ _ Hs Hcf)|cbn in Hcf; congruence].
  - intros sr0 r0 T0 s0 Hr0 Hs0 l1 e l2 HLs He t Ht Ho Hlt.
    destruct (Hrold _ _ Hr0) as (r1 & Hr1 & Ercv & _). rewrite <- Ercv in Ht.
    destruct (Hscase _ _ Hs0) as (s & Hs & ->).
    destruct (try_enqueue_cases c s) as [E|[Hc E]]; rewrite E in HLs; [apply (i_before x HI sr0 r1 T0 s Hr1 Hs l1 e l2 HLs He t Ht Ho Hlt)|].
    rewrite L_enqueue in HLs. symmetry in HLs. destruct (app_split_cases l1 e l2 _ _ HLs) as [(l2' & E1 & E2)|(l1' & E1 & E2)].
    + apply (i_before x HI sr0 r1 T0 s Hr1 Hs l1 e l2' E1 He t Ht Ho Hlt).
    + (* e is the watermark just broadcast: every task received so far has been handed off *)
      unfold chan_entries in E2. cbn in E2. destruct l1' as [|y l1']; cbn in E2; [|destruct l1'; discriminate].
      inversion E2; subst e. cbn in He. subst sr0. assert (r1 = r) by (unfold recv_at in *; congruence). subst r1.
      rewrite E1, app_nil_r. destruct (i_p x HI sr r Hr t Ht) as [(s1 & Hs1 & Hin1)|Hp].
      * rewrite Ho in Hs1. assert (s1 = s) by (unfold send_at in *; congruence). subst s1. exact Hin1.
      * exfalso. apply pend_in in Hp. destruct Hp as (c0 & Hc0 & _). rewrite Hpend in Hc0. destruct Hc0.
  - intros sr0 r0 T0 s0 Hr0 Hs0 e Hine He.
    destruct (Hrold _ _ Hr0) as (r1 & Hr1 & _ & Ehigh & _). destruct (Hscase _ _ Hs0) as (s & Hs & ->).
    destruct (try_enqueue_cases c s) as [E|[Hc E]]; rewrite E in Hine.
    + pose proof (i_bnd x HI sr0 r1 T0 s Hr1 Hs e Hine He). lia.
    + rewrite L_enqueue in Hine. apply in_app_or in Hine. destruct Hine as [Hold|Hnew]; [pose proof (i_bnd x HI sr0 r1 T0 s Hr1 Hs e Hold He); lia|].
      unfold chan_entries in Hnew. cbn in Hnew. destruct Hnew as [<-|[]]. cbn in He. subst sr0.
      destruct (Hrcase _ _ Hr0) as [[_ ->]|[Hne _]]; [cbn; lia|contradiction].
  - intros T0 s0 H. destruct (Hscase _ _ H) as (s & Hs & ->).
    destruct (try_enqueue_cases c s) as [E|[Hc E]]; rewrite E; exact (i_ring x HI T0 s Hs).
  - intros sr0 r0 H T0 v Hg. destruct (Hrold _ _ H) as (r1 & H1 & _ & _ & Emap & _). rewrite <- Emap in Hg.
    apply (good_mono x x' _ _ _ Hm). apply (i_gmap x HI sr0 r1 H1 T0 v Hg).
  - intros sr0 r0 H T0 v Hin0. destruct (Hrold _ _ H) as (r1 & H1 & _ & _ & _ & Eackq). rewrite <- Eackq in Hin0.
    apply (good_mono x x' _ _ _ Hm). apply (i_gackq x HI sr0 r1 H1 T0 v Hin0).
  - intros T0 s0 fl H Hf sr0 a Hin0. destruct (Hscase _ _ H) as (s & Hs & ->). apply (good_mono x x' _ _ _ Hm).
    apply (i_gflight x HI T0 s fl Hs); [|exact Hin0]. destruct (try_enqueue_cases c s) as [E|[Hc E]]; rewrite E in Hf; exact Hf.
  - intros T0 s0 H sr0 a Hin0. destruct (Hscase _ _ H) as (s & Hs & ->). apply (good_mono x x' _ _ _ Hm).
    apply (i_gprev x HI T0 s Hs). destruct (try_enqueue_cases c s) as [E|[Hc E]]; rewrite E in Hin0; exact Hin0.
  - intros sr0 r0 H t Ht. destruct (Hrold _ _ H) as (r1 & H1 & Ercv & _ & Emap & _). rewrite <- Ercv in Ht. rewrite <- Emap. apply (i_reg x HI sr0 r1 H1 t Ht).
Qed.

Lemma add_to_group_nonempty t gs : Forall (fun g => snd g <> []) gs -> Forall (fun g => snd g <> []) (add_to_group t gs).
Proof.
  induction gs as [|[T l] gs IH]; intros H; cbn [add_to_group].
  - constructor; [cbn; discriminate|constructor].
  - inversion H; subst. destruct (Nat.eqb T (t_owner t)).
    + constructor; [cbn; destruct l; discriminate|assumption].
    + constructor; [assumption|apply IH; assumption].
Qed.

Lemma group_nonempty ts T l : In (T, l) (group ts) -> l <> [].
Proof.
  assert (H : forall gs, Forall (fun g => snd g <> []) gs -> Forall (fun g => snd g <> []) (fold_left (fun gs t => add_to_group t gs) ts gs)).
  { induction ts as [|t ts IH]; intros gs Hg; cbn [fold_left]; [exact Hg|]. apply IH. apply add_to_group_nonempty. exact Hg. }
  intros Hin. specialize (H [] ltac:(constructor)). rewrite Forall_forall in H. apply (H (T, l) Hin).
Qed.

Lemma gget_in gs : forall T l, NoDup (map fst gs) -> In (T, l) gs -> gget T gs = l.
Proof.
  induction gs as [|[T0 l0] gs IH]; intros T l Hnd Hin; [destruct Hin|]. cbn [map fst] in Hnd. inversion Hnd as [|? ? Hnin Hnd']; subst.
  cbn [gget]. destruct Hin as [E|Hin].
  - inversion E; subst. rewrite Nat.eqb_refl. reflexivity.
  - destruct (Nat.eqb_spec T T0) as [->|Hne]; [|apply IH; assumption].
    exfalso. apply Hnin. apply in_map_iff. exists (T0, l). auto.
Qed.

Lemma incr_filter f ts : forall lo, incr lo ts -> incr lo (filter f ts).
Proof.
  induction ts as [|t ts IH]; intros lo H; [exact I|]. cbn [incr filter] in *. destruct H as [H1 H2].
  destruct (f t); [cbn [incr]; split; [exact H1|apply IH; exact H2]|apply (incr_weaken _ (t_id t + 1)); [lia|apply IH; exact H2]].
Qed.

Lemma group_entry ts T l : In (T, l) (group ts) -> l = owned_by T ts.
Proof.
  intros Hin. destruct (group_spec ts) as [Hnd Hg]. rewrite <- (Hg T). symmetry. apply gget_in; assumption.
Qed.

Lemma owned_by_in T ts t : In t (owned_by T ts) <-> In t ts /\ t_owner t = T.
Proof. unfold owned_by. rewrite filter_In. split; intros [H1 H2]; split; auto; [apply Nat.eqb_eq; exact H2|apply Nat.eqb_eq; exact H2]. Qed.

Lemma group_has_owner ts t : In t ts -> In (t_owner t, owned_by (t_owner t) ts) (group ts).
Proof.
  intros Hin. destruct (group_spec ts) as [Hnd Hg].
  assert (Hne : gget (t_owner t) (group ts) <> []).
  { rewrite Hg. intros E. assert (In t (owned_by (t_owner t) ts)) by (apply owned_by_in; auto). rewrite E in H. destruct H. }
  assert (Hex : forall gs T, gget T gs <> [] -> In (T, gget T gs) gs).
  { induction gs as [|[T0 l0] gs IH]; intros T1 H; cbn [gget] in *; [contradiction|].
    destruct (Nat.eqb T1 T0) eqn:E1; [apply Nat.eqb_eq in E1; subst T1; left; reflexivity|right; apply IH; exact H]. }
  rewrite <- Hg. apply Hex. exact Hne.
Qed.

Lemma first_id_lower lo l : l <> [] -> incr lo l -> forall t, In t l -> first_id l <= t_id t.
Proof.
  destruct l as [|t0 l]; [contradiction|]. intros _ [H1 H2] t [->|Hin]; cbn [first_id]; [lia|]. pose proof (incr_lower _ _ _ H2 Hin). lia.
Qed.

Lemma register_cases gs : forall m T v, aget T (register gs m) = Some v ->
  aget T m = Some v \/ (aget T m = None /\ exists ts, In (T, ts) gs /\ v = first_id ts).
Proof.
  intros m T v H. destruct (aget T m) as [v0|] eqn:E.
  - left. rewrite (register_keeps gs m T v0 E) in H. exact H.
  - right. split; [reflexivity|]. apply (register_new gs m T v E H).
Qed.

Lemma inv_read_tasks x sr r t0 ts0 high q :
  Inv x -> recv_at x sr r -> r_pending r = [] -> r_inq r = (t0 :: ts0, high) :: q ->
  let ts := t0 :: ts0 in
  let gs := group ts in
  let pend := map (fun g => (fst g, {| c_src := sr; c_tasks := snd g; c_high := last_id (snd g) + 1 |})) gs in
  Inv (set_recv x sr (fun _ => r_set_rcv (r_rcv r ++ ts) (r_set_inq q (r_set_pending pend (r_set_map (register gs (r_map r)) (r_set_high high r)))))).
Proof.
  intros HI Hr Hpend Hinq ts gs pend0.
  set (r' := r_set_rcv (r_rcv r ++ ts) (r_set_inq q (r_set_pending pend0 (r_set_map (register gs (r_map r)) (r_set_high high r))))).
  set (x' := set_recv x sr (fun _ => r')).
  pose proof (i_q x HI sr r Hr) as Hq. rewrite Hinq in Hq. cbn [chain] in Hq. fold ts in Hq. destruct Hq as (Hincr & Hlt & Hle & Hq).
  destruct (group_spec ts) as [Gnd Gg]. fold gs in Gnd, Gg.
  assert (Hrcase : forall sr0 r0, recv_at x' sr0 r0 -> (sr0 = sr /\ r0 = r') \/ (sr0 <> sr /\ recv_at x sr0 r0)).
  { intros sr0 r0 H. apply recv_at_set_recv in H. destruct H as [[E (r1 & _ & E2)]|[Hne H]]; [left; auto|right; auto]. }
  assert (Hsends : forall T s, send_at x' T s <-> send_at x T s) by (intros; unfold send_at; cbn; reflexivity).
  assert (Hnew : forall t, In t ts -> r_high r <= t_id t) by (intros t Ht; apply (incr_lower _ _ _ Hincr Ht)).
  assert (Hm : mono x x').
  { split.
    - intros sr0 r0 H. destruct (Hrcase _ _ H) as [[-> ->]|[Hne H1]].
      + exists r. split; [exact Hr|]. split; [cbn; lia|]. intros t Ht. cbn in Ht. apply in_app_or in Ht. destruct Ht as [Ht|Ht]; [left; exact Ht|right; apply Hnew; exact Ht].
      + exists r0. split; [exact H1|]. split; [lia|]. intros t Ht. left. exact Ht.
    - intros T s H. exists s. split; [apply Hsends; exact H|]. split; [apply hist_ext_refl|lia]. }
  assert (Hpend_in : forall T c0, In (T, c0) pend0 -> exists l, In (T, l) gs /\ c0 = {| c_src := sr; c_tasks := l; c_high := last_id l + 1 |}).
  { intros T c0 H. unfold pend0 in H. apply in_map_iff in H. destruct H as ([T1 l] & E & Hin). cbn in E. inversion E; subst. exists l. auto. }
  constructor.
  - intros sr0 r0 H. destruct (Hrcase _ _ H) as [[-> ->]|[Hne H1]]; [cbn; pose proof (i_lw x HI sr r Hr); lia|apply (i_lw x HI _ _ H1)].
  - intros sr0 r0 H t Ht. destruct (Hrcase _ _ H) as [[-> ->]|[Hne H1]]; [|apply (i_rcvb x HI _ _ H1 t Ht)].
    cbn in *. apply in_app_or in Ht. destruct Ht as [Ht|Ht]; [pose proof (i_rcvb x HI sr r Hr t Ht); lia|apply Hlt; exact Ht].
  - intros sr0 r0 H. destruct (Hrcase _ _ H) as [[-> ->]|[Hne H1]]; [cbn; exact Hq|apply (i_q x HI _ _ H1)].
  - intros sr0 r0 H. destruct (Hrcase _ _ H) as [[-> ->]|[Hne H1]]; [|apply (i_pend x HI _ _ H1)].
    split.
    + cbn. unfold pend0. rewrite map_map. cbn. exact Gnd.
    + intros T c0 Hin. cbn in Hin. destruct (Hpend_in _ _ Hin) as (l & Hl & ->). cbn.
      pose proof (group_entry ts T l Hl) as El. split; [reflexivity|]. split; [apply (group_nonempty ts T l Hl)|]. split.
      * exists (r_high r). rewrite El. apply incr_filter. exact Hincr.
      * intros t Ht. rewrite El in Ht. apply owned_by_in in Ht. destruct Ht as [Ht Ho]. split; [exact Ho|]. split; [apply in_or_app; right; exact Ht|].
        pose proof (i_lw x HI sr r Hr). pose proof (Hnew t Ht). lia.
  - intros sr0 r0 H t Ht. destruct (Hrcase _ _ H) as [[-> ->]|[Hne H1]].
    + cbn in Ht. apply in_app_or in Ht. destruct Ht as [Ht|Ht].
      * destruct (i_p x HI sr r Hr t Ht) as [(s0 & Hs0 & Hin0)|Hp]; [left; exists s0; split; [apply Hsends; exact Hs0|exact Hin0]|].
        exfalso. apply pend_in in Hp. destruct Hp as (c0 & Hc0 & _). rewrite Hpend in Hc0. destruct Hc0.
      * right. apply pend_in. exists {| c_src := sr; c_tasks := owned_by (t_owner t) ts; c_high := last_id (owned_by (t_owner t) ts) + 1 |}. split.
        -- cbn [r_pending r' r_set_rcv r_set_inq r_set_pending]. unfold pend0. apply in_map_iff. exists (t_owner t, owned_by (t_owner t) ts). split; [reflexivity|apply group_has_owner; exact Ht].
        -- cbn [c_tasks]. apply owned_by_in. auto.
    + destruct (i_p x HI _ _ H1 t Ht) as [(s0 & Hs0 & Hin0)|Hp]; [left; exists s0; split; [apply Hsends; exact Hs0|exact Hin0]|right; exact Hp].
  - intros T s H Hc. apply (i_nc x HI T s); [apply Hsends; exact H|exact Hc].
  - intros sr0 r0 T s Hr0 Hs0 l1 e l2 HLs He t Ht Ho Hlt0. apply Hsends in Hs0.
    destruct (Hrcase _ _ Hr0) as [[-> ->]|[Hne H1]]; [|apply (i_before x HI sr0 r0 T s H1 Hs0 l1 e l2 HLs He t Ht Ho Hlt0)].
    cbn in Ht. apply in_app_or in Ht. destruct Ht as [Ht|Ht]; [apply (i_before x HI sr r T s Hr Hs0 l1 e l2 HLs He t Ht Ho Hlt0)|].
    exfalso. assert (Hine : In e (L s)) by (rewrite HLs; apply in_or_app; right; left; reflexivity).
    pose proof (i_bnd x HI sr r T s Hr Hs0 e Hine He). pose proof (Hnew t Ht). lia.
  - intros sr0 r0 T s Hr0 Hs0 e Hine He. apply Hsends in Hs0.
    destruct (Hrcase _ _ Hr0) as [[-> ->]|[Hne H1]]; [cbn; pose proof (i_bnd x HI sr r T s Hr Hs0 e Hine He); lia|apply (i_bnd x HI sr0 r0 T s H1 Hs0 e Hine He)].
  - intros T s H. apply (i_ring x HI T s). apply Hsends. exact H.
  - intros sr0 r0 H T v Hg. destruct (Hrcase _ _ H) as [[-> ->]|[Hne H1]]; [|apply (good_mono x x' _ _ _ Hm); apply (i_gmap x HI _ _ H1 T v Hg)].
    cbn in Hg. destruct (register_cases gs _ _ _ Hg) as [Hold|(Hnone & l & Hl & ->)]; [apply (good_mono x x' _ _ _ Hm); apply (i_gmap x HI sr r Hr T v Hold)|].
    (* a target registered by this batch: nothing received before was for it, and the batch's own tasks are not below its first id *)
    pose proof (group_entry ts T l Hl) as El. pose proof (group_nonempty ts T l Hl) as Lne.
    assert (Hlincr : incr (r_high r) l) by (rewrite El; apply incr_filter; exact Hincr).
    intros r0 Hr0. assert (r0 = r') by (destruct (Hrcase _ _ Hr0) as [[_ E]|[Hne _]]; [exact E|contradiction]). subst r0. split.
    + cbn. destruct l as [|tl l']; [contradiction|]. cbn [first_id]. assert (In tl ts) by (apply (proj1 (owned_by_in T ts tl)); rewrite <- El; left; reflexivity). pose proof (Hlt tl H0). lia.
    + intros t Ht Ho Hlt0. exfalso. cbn in Ht. apply in_app_or in Ht. destruct Ht as [Ht|Ht].
      * destruct (i_reg x HI sr r Hr t Ht) as (v0 & Hv0). rewrite Ho in Hv0. congruence.
      * assert (In t l) by (rewrite El; apply owned_by_in; auto). pose proof (first_id_lower _ l Lne Hlincr t H0). lia.
  - intros sr0 r0 H T v Hin0. apply (good_mono x x' _ _ _ Hm). destruct (Hrcase _ _ H) as [[-> ->]|[Hne H1]]; [apply (i_gackq x HI sr r Hr T v Hin0)|apply (i_gackq x HI _ _ H1 T v Hin0)].
  - intros T s fl H Hf sr0 a Hin0. apply (good_mono x x' _ _ _ Hm). apply (i_gflight x HI T s fl); [apply Hsends; exact H|exact Hf|exact Hin0].
  - intros T s H sr0 a Hin0. apply (good_mono x x' _ _ _ Hm). apply (i_gprev x HI T s); [apply Hsends; exact H|exact Hin0].
  - intros sr0 r0 H t Ht. destruct (Hrcase _ _ H) as [[-> ->]|[Hne H1]]; [|apply (i_reg x HI _ _ H1 t Ht)].
    cbn in *. apply in_app_or in Ht. destruct Ht as [Ht|Ht].
    + destruct (i_reg x HI sr r Hr t Ht) as (v0 & Hv0). exists v0. apply register_keeps. exact Hv0.
    + apply (register_covers gs _ (t_owner t) (owned_by (t_owner t) ts)). apply group_has_owner. exact Ht.
Qed.

(* ---------- a target connects for the first time ---------- *)
Lemma replay_from_spec rs : forall i s,
  let s' := replay_from i rs s in
  s_conn s' = s_conn s /\ s_hist s' = s_hist s /\ s_ring s' = s_ring s /\ s_prev s' = s_prev s /\ s_ackflight s' = s_ackflight s /\
  s_ackin s' = s_ackin s /\ s_next s' = s_next s /\ s_start s' = s_start s /\ s_acked s' = s_acked s /\
  exists extra, s_chan s' = s_chan s ++ extra /\
    forall c, In c extra -> c_tasks c = [] /\ exists k r, nth_error rs k = Some r /\ c_src c = (i + k)%nat /\ c_high c = r_lastwm r.
Proof.
  induction rs as [|r rs IH]; intros i s; cbn [replay_from].
  - repeat split; try reflexivity. exists []. rewrite app_nil_r. split; [reflexivity|intros c []].
  - set (s1 := if r_lastwm r =? 0 then s else try_enqueue {| c_src := i; c_tasks := []; c_high := r_lastwm r |} s).
    assert (H1 : s_conn s1 = s_conn s /\ s_hist s1 = s_hist s /\ s_ring s1 = s_ring s /\ s_prev s1 = s_prev s /\ s_ackflight s1 = s_ackflight s /\
                 s_ackin s1 = s_ackin s /\ s_next s1 = s_next s /\ s_start s1 = s_start s /\ s_acked s1 = s_acked s /\
                 exists extra, s_chan s1 = s_chan s ++ extra /\ forall c, In c extra -> c = {| c_src := i; c_tasks := []; c_high := r_lastwm r |}).
    { unfold s1. destruct (r_lastwm r =? 0).
      - repeat split; try reflexivity. exists []. rewrite app_nil_r. split; [reflexivity|intros c []].
      - destruct (try_enqueue_cases {| c_src := i; c_tasks := []; c_high := r_lastwm r |} s) as [E|[_ E]]; rewrite E.
        + repeat split; try reflexivity. exists []. rewrite app_nil_r. split; [reflexivity|intros c []].
        + cbn. repeat split; try reflexivity. exists [{| c_src := i; c_tasks := []; c_high := r_lastwm r |}]. split; [reflexivity|]. intros c [<-|[]]. reflexivity. }
    destruct H1 as (A1 & A2 & A3 & A4 & A5 & A6 & A7 & A8 & A9 & ex1 & Ech1 & Hex1).
    destruct (IH (S i) s1) as (B1 & B2 & B3 & B4 & B5 & B6 & B7 & B8 & B9 & ex2 & Ech2 & Hex2).
    repeat split; try congruence. exists (ex1 ++ ex2). split; [rewrite Ech2, Ech1, app_assoc; reflexivity|].
    intros c Hc. apply in_app_or in Hc. destruct Hc as [Hc|Hc].
    + rewrite (Hex1 c Hc). cbn. split; [reflexivity|]. exists 0%nat, r. cbn. repeat split; lia.
    + destruct (Hex2 c Hc) as (E1 & k & r1 & Hk & Hsrc & Hh). split; [exact E1|]. exists (S k), r1. cbn. repeat split; [exact Hk|lia|exact Hh].
Qed.

Lemma inv_connect x T : Inv x -> wf_act x (AConnect T) -> Inv (fst (apply_act true x (AConnect T))).
Proof.
  intros HI Hwf. cbn [apply_act]. destruct (nth_error (sends x) T) as [s|] eqn:Hs; [|exact HI]. cbn [fst].
  set (s0 := {| s_conn := true; s_stalled := false; s_chan := []; s_inflight := None; s_next := 0; s_start := 0; s_ring := [];
                s_prev := []; s_lastwm := 0; s_ackin := []; s_ackflight := None; s_hist := []; s_acked := 0 |}).
  set (s' := replay_from 0 (recvs x) s0). set (x' := set_send x T (fun _ => s')).
  pose proof (Hwf s Hs) as Hnc. destruct (i_nc x HI T s Hs Hnc) as (N1 & N2 & N3 & N4 & N5 & N6).
  destruct (replay_from_spec (recvs x) 0 s0) as (B1 & B2 & B3 & B4 & B5 & B6 & B7 & B8 & B9 & extra & Ech & Hex). fold s' in B1, B2, B3, B4, B5, B6, B7, B8, B9, Ech.
  cbn in B1, B2, B3, B4, B5, B6, B7, B8, B9, Ech.
  assert (HLs : L s = []) by (unfold L; rewrite N1, N2; reflexivity).
  assert (HL' : L s' = flat_map chan_entries extra) by (unfold L; rewrite B2, Ech; reflexivity).
  assert (Hrecv : forall sr r, recv_at x' sr r <-> recv_at x sr r) by (intros; unfold recv_at; cbn; reflexivity).
  assert (Hscase : forall T0 s1, send_at x' T0 s1 -> (T0 = T /\ s1 = s') \/ (T0 <> T /\ send_at x T0 s1)).
  { intros T0 s1 H. apply send_at_set_send in H. destruct H as [[E (s2 & _ & E2)]|[Hne H]]; [left; auto|right; auto]. }
  assert (HsT : send_at x' T s') by (unfold send_at; cbn; exact (nth_error_upd_same (sends x) T (fun _ => s') s Hs)).
  assert (Hsoth : forall T0 s1, T0 <> T -> send_at x T0 s1 -> send_at x' T0 s1).
  { intros T0 s1 Hne H. unfold send_at. cbn. rewrite nth_error_upd_other by auto. exact H. }
  assert (Hgood : forall sr0 T0 v, Good x sr0 T0 v -> Good x' sr0 T0 v).
  { intros sr0 T0 v HG r0 Hr0. apply Hrecv in Hr0. destruct (HG r0 Hr0) as [Hv Ht]. split; [exact Hv|].
    intros t Hin Ho Hlt. destruct (Ht t Hin Ho Hlt) as (s1 & Hs1 & Hc1). destruct (Nat.eq_dec T0 T) as [->|Hne].
    - exfalso. assert (s1 = s) by (unfold send_at in *; congruence). subst s1. destruct Hc1 as (i & Hi & _). rewrite N1 in Hi. destruct i; discriminate.
    - exists s1. split; [apply Hsoth; assumption|exact Hc1]. }
  (* every entry of the fresh channel is a watermark replay of some receiver *)
  assert (Hentry : forall e, In e (L s') -> e_task e = false /\ exists r, recv_at x (e_src e) r /\ e_val e = r_lastwm r).
  { intros e He. rewrite HL' in He. apply in_flat_map in He. destruct He as (c & Hc & Hec). destruct (Hex c Hc) as (Ect & k & r & Hk & Hsrc & Hh).
    unfold chan_entries in Hec. rewrite Ect in Hec. destruct Hec as [<-|[]]. cbn. split; [reflexivity|]. exists r. rewrite Hsrc, Hh. split; [exact Hk|reflexivity]. }
  constructor.
  - intros sr r H. apply (i_lw x HI sr r). apply Hrecv. exact H.
  - intros sr r H. apply (i_rcvb x HI sr r). apply Hrecv. exact H.
  - intros sr r H. apply (i_q x HI sr r). apply Hrecv. exact H.
  - intros sr r H. apply (i_pend x HI sr r). apply Hrecv. exact H.
  - intros sr r H t Ht. apply Hrecv in H. destruct (i_p x HI sr r H t Ht) as [(s1 & Hs1 & Hin1)|Hp]; [|right; exact Hp].
    destruct (Nat.eq_dec (t_owner t) T) as [E|Hne].
    + exfalso. rewrite E in Hs1. assert (s1 = s) by (unfold send_at in *; congruence). subst s1. rewrite HLs in Hin1. destruct Hin1.
    + left. exists s1. split; [apply Hsoth; assumption|exact Hin1].
  - intros T0 s1 H Hc. destruct (Hscase _ _ H) as [[-> ->]|[Hne H1]]; [congruence|apply (i_nc x HI _ _ H1 Hc)].
  - intros sr r T0 s1 Hr Hs1 l1 e l2 HLe He t Ht Ho Hlt. apply Hrecv in Hr.
    destruct (Hscase _ _ Hs1) as [[-> ->]|[Hne H1]]; [|apply (i_before x HI sr r T0 s1 Hr H1 l1 e l2 HLe He t Ht Ho Hlt)].
    exfalso. assert (Hine : In e (L s')) by (rewrite HLe; apply in_or_app; right; left; reflexivity).
    destruct (Hentry e Hine) as (_ & r1 & Hr1 & Hv). rewrite He in Hr1. assert (r1 = r) by (unfold recv_at, x' in Hr, Hr1; cbn in Hr, Hr1; congruence). subst r1.
    destruct (i_p x HI sr r Hr t Ht) as [(s1 & Hs1' & Hin1)|Hp].
    + rewrite Ho in Hs1'. assert (s1 = s) by (unfold send_at in *; congruence). subst s1. rewrite HLs in Hin1. destruct Hin1.
    + apply pend_in in Hp. destruct Hp as (c0 & Hc0 & Htc). destruct (i_pend x HI sr r Hr) as [_ Pall].
      destruct (Pall _ _ Hc0) as (_ & _ & _ & Call). destruct (Call t Htc) as (_ & _ & Hlw). lia.
  - intros sr r T0 s1 Hr Hs1 e Hine He. apply Hrecv in Hr.
    destruct (Hscase _ _ Hs1) as [[-> ->]|[Hne H1]]; [|apply (i_bnd x HI sr r T0 s1 Hr H1 e Hine He)].
    destruct (Hentry e Hine) as (_ & r1 & Hr1 & Hv). rewrite He in Hr1. assert (r1 = r) by (unfold recv_at, x' in Hr, Hr1; cbn in Hr, Hr1; congruence). subst r1.
    rewrite Hv. apply (i_lw x HI sr r Hr).
  - intros T0 s1 H. destruct (Hscase _ _ H) as [[-> ->]|[Hne H1]]; [|apply (i_ring x HI _ _ H1)].
    unfold ring_ok. rewrite B7, B2, B3. cbn. split; [reflexivity|]. intros C. exfalso. apply C. reflexivity.
  - intros sr r H T0 v Hg. apply Hrecv in H. apply Hgood. apply (i_gmap x HI sr r H T0 v Hg).
  - intros sr r H T0 v Hin. apply Hrecv in H. apply Hgood. apply (i_gackq x HI sr r H T0 v Hin).
  - intros T0 s1 fl H Hf sr a Hin. destruct (Hscase _ _ H) as [[-> ->]|[Hne H1]]; [rewrite B5 in Hf; discriminate|].
    apply Hgood. apply (i_gflight x HI T0 s1 fl H1 Hf sr a Hin).
  - intros T0 s1 H sr a Hin. destruct (Hscase _ _ H) as [[-> ->]|[Hne H1]]; [rewrite B4 in Hin; destruct Hin|].
    apply Hgood. apply (i_gprev x HI T0 s1 H1 sr a Hin).
  - intros sr r H. apply (i_reg x HI sr r). apply Hrecv. exact H.
Qed.

(* ---------- every fault-free, well-formed action preserves the invariant ---------- *)
Theorem inv_step x a : Inv x -> wf_act x a -> Inv (fst (apply_act true x a)).
Proof.
  intros HI Hwf. destruct a.
  - apply inv_push; assumption.
  - (* ARead *)
    cbn [apply_act]. destruct (nth_error (recvs x) sr) as [r|] eqn:Hr; [|exact HI].
    destruct (r_pending r) eqn:Hp; [|exact HI]. destruct (r_inq r) as [|[ts high] q] eqn:Hq; [exact HI|].
    destruct ts as [|t0 ts0]; cbn [fst].
    + apply (inv_read_wm x sr r high q HI Hr Hp Hq).
    + apply (inv_read_tasks x sr r t0 ts0 high q HI Hr Hp Hq).
  - apply inv_handoff; assumption.
  - apply inv_dequeue; assumption.
  - apply inv_simple_sender; [assumption|exact I].
  - apply inv_simple_sender; [assumption|exact I].
  - apply inv_simple_sender; [assumption|exact I].
  - apply inv_aggregate; assumption.
  - apply inv_deliver; assumption.
  - apply inv_discard; assumption.
  - apply inv_procack; assumption.
  - apply inv_connect; assumption.
  - destruct Hwf.
  - destruct Hwf.
  - apply inv_simple_sender; [assumption|exact I].
  - apply inv_simple_sender; [assumption|exact I].
Qed.

Fixpoint wf_run (x : st) (l : list act) : Prop :=
  match l with [] => True | a :: rest => wf_act x a /\ wf_run (fst (apply_act true x a)) rest end.

Theorem inv_run l : forall x, Inv x -> wf_run x l -> Inv (fst (run_acts true x l)).
Proof.
  induction l as [|a l IH]; intros x HI Hwf; cbn [run_acts]; [exact HI|]. destruct Hwf as [Hwa Hwr].
  destruct (apply_act true x a) as [x1 o1] eqn:E. specialize (IH x1). cbn [fst] in Hwr.
  assert (H1 : Inv x1) by (pose proof (inv_step x a HI Hwa) as H; rewrite E in H; exact H).
  specialize (IH H1 Hwr). destruct (run_acts true x1 l) as [x2 o2]. exact IH.
Qed.

(* ---------- safety of every acknowledgement sent to a source ---------- *)
Lemma only_procack_acks x a o sr v : In o (snd (apply_act true x a)) -> o = OSrc sr v -> exists sr', a = AProcAck sr'.
Proof.
  intros Hin ->. destruct a; cbn [apply_act] in Hin; try (eexists; reflexivity);
    repeat match type of Hin with
           | In _ (snd (match ?y with _ => _ end)) => destruct y
           | In _ (snd (if ?y then _ else _)) => destruct y
           | In _ (snd (let '(_, _) := ?y in _)) => destruct y
           end; cbn [snd] in Hin; try (destruct Hin as [E|[]]; discriminate); try destruct Hin.
Qed.

Lemma procack_safe x sr : Inv x ->
  let '(x1, o) := apply_act true x (AProcAck sr) in forall out, In out o -> unsafe_ack x1 out = false.
Proof.
  intros HI. pose proof (inv_procack x sr HI) as HI1. cbn [apply_act] in *.
  destruct (nth_error (recvs x) sr) as [r|] eqn:Hr; [|intros out []].
  destruct (r_ackq r) as [|[T v] q] eqn:Hq; [intros out []|].
  pose proof (process_ack_spec sr T v (r_set_ackq q r)) as Hspec.
  destruct (process_ack sr T v (r_set_ackq q r)) as [r' o]. cbn [fst] in HI1.
  destruct Hspec as ([[-> _]|(a & -> & _ & _ & _ & Hall)] & Hrest); [intros out []|].
  intros out [<-|[]]. cbn [unsafe_ack].
  set (x1 := set_recv x sr (fun _ => r')) in *.
  assert (Hr1 : recv_at x1 sr r') by (unfold recv_at; cbn; exact (nth_error_upd_same (recvs x) sr (fun _ => r') r Hr)).
  unfold recv_at in Hr1. rewrite Hr1.
  apply not_true_is_false. intros Hex. apply existsb_exists in Hex. destruct Hex as (t & Ht & Hbad).
  apply andb_prop in Hbad. destruct Hbad as [Hlt Hnc]. apply Z.ltb_lt in Hlt.
  destruct (i_reg x1 HI1 sr r' Hr1 t Ht) as (v' & Hv'). pose proof (Hall _ _ Hv') as Hle.
  destruct (i_gmap x1 HI1 sr r' Hr1 (t_owner t) v' Hv' r' Hr1) as [_ Hg].
  destruct (Hg t Ht eq_refl ltac:(lia)) as (s & Hs & Hc).
  rewrite (conf_confirmed x1 sr t s Hs Hc) in Hnc. discriminate.
Qed.

Fixpoint all_safe (x : st) (l : list act) : Prop :=
  match l with
  | [] => True
  | a :: rest => let '(x1, o) := apply_act true x a in (forall out, In out o -> unsafe_ack x1 out = false) /\ all_safe x1 rest
  end.

(* for every number of sources and targets and EVERY sequence of actions without stream failures in which the sources
   follow the sender contract: no acknowledgement sent to a source ever covers a task its target has not confirmed *)
Theorem safe_acks l : forall x, Inv x -> wf_run x l -> all_safe x l.
Proof.
  induction l as [|a l IH]; intros x HI Hwf; cbn [all_safe]; [exact I|]. destruct Hwf as [Hwa Hwr].
  pose proof (inv_step x a HI Hwa) as H1.
  destruct (apply_act true x a) as [x1 o] eqn:E. cbn [fst] in H1, Hwr. split; [|apply IH; assumption].
  intros out Hin. destruct out as [T ws high|sr v]; [reflexivity|].
  destruct (only_procack_acks x a (OSrc sr v) sr v) as (sr' & ->); [rewrite E; exact Hin|reflexivity|].
  pose proof (procack_safe x sr' HI) as Hp. rewrite E in Hp. apply Hp. exact Hin.
Qed.

Corollary safe_acks_from_start ns nt l : wf_run (init ns nt) l -> all_safe (init ns nt) l.
Proof. apply safe_acks. apply inv_init. Qed.

(* the premises are satisfiable: the run of the F1 history (two targets, the slower one acknowledges last) is well formed *)
Example wf_nonvacuous :
  wf_run (init 1 2) [AConnect 0; AConnect 1; APush 0 [tk 5 1] 6; ARead 0; AHandoff 0 1; APush 0 [tk 6 0] 7; ARead 0; AHandoff 0 0;
                     ADequeue 0; ASend 0; AAckIn 0 2; AAggregate 0; ADeliver 0; ADiscard 0; AProcAck 0].
Proof.
  cbn. repeat split; try (intros; lia); try (intros s H; inversion H; reflexivity);
    try (intros t [<-|[]]; cbn; lia);
    try (unfold recv_at in H; cbn in H; inversion H; subst r; cbn; lia).
Qed.

(* ---------- the executable event-level semantics (what is extracted and run against the code) ---------- *)
Definition internal (a : act) : Prop :=
  match a with APush _ _ _ | AConnect _ | ABreak _ | ARestart _ => False | _ => True end.

Lemma internal_wf x a : internal a -> wf_act x a.
Proof. destruct a; cbn; intros H; try exact I; destruct H. Qed.

Lemma first_some_internal {A} (f : nat -> A -> option act) (l : list A) :
  (forall i y a, f i y = Some a -> internal a) -> forall i a, first_some f i l = Some a -> internal a.
Proof.
  intros Hf. induction l as [|y l IH]; intros i a H; cbn [first_some] in H; [discriminate|].
  destruct (f i y) as [a'|] eqn:E; [inversion H; subst; eapply Hf; exact E|eapply IH; exact H].
Qed.

Lemma handoff_act_internal ss sr ps a : handoff_act ss sr ps = Some a -> internal a.
Proof.
  induction ps as [|[T c] ps IH]; cbn [handoff_act]; [discriminate|].
  destruct (nth_error ss T) as [s|]; [destruct (s_conn s && has_room s); [intros H; inversion H; exact I|exact IH]|exact IH].
Qed.

Lemma next_act_internal x a : next_act x = Some a -> internal a.
Proof.
  unfold next_act. intros H.
  destruct (first_some sender_act 0 (sends x)) as [a1|] eqn:E1.
  { inversion H; subst. eapply (first_some_internal sender_act); [|exact E1]. intros i s a0 Hs. unfold sender_act in Hs.
    destruct (negb (s_conn s)); [discriminate|]. destruct (s_inflight s); [destruct (s_stalled s); [discriminate|inversion Hs; exact I]|].
    destruct (s_chan s); [discriminate|inversion Hs; exact I]. }
  destruct (first_some (acker_act (recvs x)) 0 (sends x)) as [a2|] eqn:E2.
  { inversion H; subst. eapply (first_some_internal (acker_act (recvs x))); [|exact E2]. intros i s a0 Hs. unfold acker_act in Hs.
    destruct (negb (s_conn s)); [discriminate|]. destruct (s_ackflight s) as [fl|].
    - destruct (af_todo fl) as [|[sr0 v0] rest]; [inversion Hs; exact I|]. destruct (nth_error (recvs x) sr0) as [r0|]; [|discriminate].
      destruct (Nat.ltb (length (r_ackq r0)) chan_cap); [inversion Hs; exact I|discriminate].
    - destruct (s_ackin s); [discriminate|inversion Hs; exact I]. }
  eapply (first_some_internal (receiver_act (sends x))); [|exact H]. intros i r a0 Hr. unfold receiver_act in Hr.
  destruct (r_ackq r); [|inversion Hr; exact I]. destruct (r_pending r) as [|p ps] eqn:Ep.
  - destruct (r_inq r); [discriminate|inversion Hr; exact I].
  - eapply handoff_act_internal. exact Hr.
Qed.

Lemma settle_acts_wf fuel : forall x, wf_run x (settle_acts fuel true x).
Proof.
  induction fuel as [|f IH]; intros x; cbn [settle_acts]; [exact I|].
  destruct (next_act x) as [a|] eqn:E; [|exact I]. cbn [wf_run]. split; [apply internal_wf; eapply next_act_internal; exact E|apply IH].
Qed.

Lemma wf_run_app l1 : forall x l2, wf_run x l1 -> wf_run (fst (run_acts true x l1)) l2 -> wf_run x (l1 ++ l2).
Proof.
  induction l1 as [|a l1 IH]; intros x l2 H1 H2; cbn [app]; [exact H2|]. cbn [wf_run run_acts] in *. destruct H1 as [Ha H1].
  split; [exact Ha|]. destruct (apply_act true x a) as [x1 o1]. cbn [fst] in *. apply IH; [exact H1|].
  destruct (run_acts true x1 l1) as [x2 o2]. exact H2.
Qed.

(* an external event is well formed when its environment action is; stream failures are excluded (property C04) *)
Definition wf_ev (x : st) (e : ev) : Prop :=
  match e with
  | ESrc sr ts high => wf_act x (APush sr ts high)
  | EConnect T => wf_act x (AConnect T)
  | EBreakT _ | ERestartS _ => False
  | _ => True
  end.

Lemma step_acts_wf x e : wf_ev x e -> wf_run x (step_acts true x e).
Proof.
  intros H. unfold step_acts. apply wf_run_app; [|apply settle_acts_wf].
  destruct e; cbn [ev_acts wf_run wf_ev] in *; try (split; [exact H|exact I]); try (split; [exact I|exact I]); try destruct H.
  split; [exact I|split; exact I].
Qed.

(* one event of the executable semantics: every acknowledgement it emits is safe when it is emitted, and the invariant
   holds again afterwards *)
Theorem step_safe x e : Inv x -> wf_ev x e -> all_safe x (step_acts true x e) /\ Inv (fst (step true x e)).
Proof.
  intros HI Hwf. pose proof (step_acts_wf x e Hwf) as Hrun. split; [apply safe_acks; assumption|].
  rewrite step_is_run_acts. apply inv_run; assumption.
Qed.

Fixpoint wf_events (x : st) (evs : list ev) : Prop :=
  match evs with [] => True | e :: rest => wf_ev x e /\ wf_events (fst (step true x e)) rest end.

Fixpoint events_safe (x : st) (evs : list ev) : Prop :=
  match evs with [] => True | e :: rest => all_safe x (step_acts true x e) /\ events_safe (fst (step true x e)) rest end.

Theorem events_safe_all evs : forall x, Inv x -> wf_events x evs -> events_safe x evs.
Proof.
  induction evs as [|e evs IH]; intros x HI Hwf; cbn [events_safe]; [exact I|]. destruct Hwf as [He Hrest].
  destruct (step_safe x e HI He) as [Hs Hi]. split; [exact Hs|apply IH; assumption].
Qed.
