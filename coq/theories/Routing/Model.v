(* Executable model of routing mode (proxy/proxy_streams.go, proxy/shard_manager.go,
   streamRouting in proxy/admin_stream_transfer.go).

   The model is a labelled transition system whose atomic actions [act] are the code's critical
   sections / channel operations, plus an executable scheduler [step] that performs one external
   event and then runs internal actions to quiescence in a canonical order.  [step] is what is
   extracted and run against the real streamRouting pairs; the theorems of Routing/*.v quantify
   over EVERY sequence of actions (so over every interleaving, not only the canonical one).

   [fix1 = true] is the current code (a target is registered in ackByTarget when the batch that
   routes a task to it is read - "fix:" commit for finding F1); [fix1 = false] the code before it.

   Ghost fields (never read by any non-ghost computation): r_rcv, s_hist, s_acked.
   Definitions only: no proofs in this file. *)
From Coq Require Import List ZArith Bool Arith.
Import ListNotations.
Open Scope Z_scope.

(* ---------- data ---------- *)
Record task := { t_id : Z; t_owner : nat; t_pay : Z }.
Record cmsg := { c_src : nat; c_tasks : list task; c_high : Z }.      (* RoutedMessage in a target channel *)
Record rentry := { e_src : nat; e_val : Z; e_task : bool }.            (* ring entry; e_task = false: watermark entry *)
Record wtask := { w_pid : Z; w_pay : Z }.
Inductive out := OTgt (T : nat) (ts : list wtask) (high : Z) | OSrc (sr : nat) (a : Z).

Record recv := {
  r_map : list (nat * Z);            (* ackByTarget *)
  r_lastsent : Z;                    (* lastSentMin *)
  r_high : Z;                        (* lastExclusiveHighOriginal *)
  r_lastwm : Z;                      (* lastWatermark (0 = none) *)
  r_pending : list (nat * cmsg);     (* groups of the batch being handed off *)
  r_inq : list (list task * Z);      (* batches sent by the source, not yet read *)
  r_ackq : list (nat * Z);           (* ackChan *)
  r_rcv : list task                  (* ghost: routable tasks read so far, in order *)
}.

Record flight := { f_ws : list wtask; f_high : Z; f_keepalive : bool }.
Record ackflight := { af_todo : list (nat * Z); af_count : nat; af_new : bool }.

Record send := {
  s_conn : bool;                     (* the target's stream incarnation is alive *)
  s_stalled : bool;                  (* the target does not read: Send blocks *)
  s_chan : list cmsg;                (* sendMsgChan *)
  s_inflight : option flight;        (* message mapped (ring appended) and in / about to enter Send *)
  s_next : Z;                        (* nextProxyTaskID *)
  s_start : Z;                       (* ring: proxy id of the first outstanding entry *)
  s_ring : list rentry;              (* ring: outstanding entries (abstract view, see Ring/) *)
  s_prev : list (nat * Z);           (* prevAckBySource *)
  s_lastwm : Z;                      (* lastSentWatermark *)
  s_ackin : list Z;                  (* acknowledgements received from the target, not yet processed *)
  s_ackflight : option ackflight;    (* aggregation result being delivered *)
  s_hist : list rentry;              (* ghost: every entry appended in this incarnation; entry i has proxy id i+1 *)
  s_acked : Z                        (* ghost: greatest watermark acknowledged by the target in this incarnation *)
}.

Record st := { recvs : list recv; sends : list send }.

Definition chan_cap : nat := 100.

(* ---------- association lists ---------- *)
Fixpoint aget (k : nat) (m : list (nat * Z)) : option Z :=
  match m with [] => None | (k', v) :: t => if Nat.eqb k k' then Some v else aget k t end.
Fixpoint aset (k : nat) (v : Z) (m : list (nat * Z)) : list (nat * Z) :=
  match m with
  | [] => [(k, v)]
  | (k', v') :: t => if Nat.eqb k k' then (k, v) :: t else (k', v') :: aset k v t
  end.
Definition amin (m : list (nat * Z)) : option Z :=
  match m with [] => None | (_, v) :: t => Some (fold_left (fun acc kv => Z.min acc (snd kv)) t v) end.

Fixpoint upd {A} (l : list A) (n : nat) (f : A -> A) : list A :=
  match l, n with
  | [], _ => []
  | x :: t, O => f x :: t
  | x :: t, S n' => x :: upd t n' f
  end.

(* ---------- setters ---------- *)
Definition init_recv : recv :=
  {| r_map := []; r_lastsent := 0; r_high := 0; r_lastwm := 0; r_pending := []; r_inq := []; r_ackq := []; r_rcv := [] |}.
Definition init_send : send :=
  {| s_conn := false; s_stalled := false; s_chan := []; s_inflight := None; s_next := 0; s_start := 0; s_ring := [];
     s_prev := []; s_lastwm := 0; s_ackin := []; s_ackflight := None; s_hist := []; s_acked := 0 |}.
Definition init (ns nt : nat) : st := {| recvs := repeat init_recv ns; sends := repeat init_send nt |}.

Definition r_set_map m r := {| r_map := m; r_lastsent := r_lastsent r; r_high := r_high r; r_lastwm := r_lastwm r; r_pending := r_pending r; r_inq := r_inq r; r_ackq := r_ackq r; r_rcv := r_rcv r |}.
Definition r_set_lastsent v r := {| r_map := r_map r; r_lastsent := v; r_high := r_high r; r_lastwm := r_lastwm r; r_pending := r_pending r; r_inq := r_inq r; r_ackq := r_ackq r; r_rcv := r_rcv r |}.
Definition r_set_high v r := {| r_map := r_map r; r_lastsent := r_lastsent r; r_high := v; r_lastwm := r_lastwm r; r_pending := r_pending r; r_inq := r_inq r; r_ackq := r_ackq r; r_rcv := r_rcv r |}.
Definition r_set_lastwm v r := {| r_map := r_map r; r_lastsent := r_lastsent r; r_high := r_high r; r_lastwm := v; r_pending := r_pending r; r_inq := r_inq r; r_ackq := r_ackq r; r_rcv := r_rcv r |}.
Definition r_set_pending p r := {| r_map := r_map r; r_lastsent := r_lastsent r; r_high := r_high r; r_lastwm := r_lastwm r; r_pending := p; r_inq := r_inq r; r_ackq := r_ackq r; r_rcv := r_rcv r |}.
Definition r_set_inq q r := {| r_map := r_map r; r_lastsent := r_lastsent r; r_high := r_high r; r_lastwm := r_lastwm r; r_pending := r_pending r; r_inq := q; r_ackq := r_ackq r; r_rcv := r_rcv r |}.
Definition r_set_ackq q r := {| r_map := r_map r; r_lastsent := r_lastsent r; r_high := r_high r; r_lastwm := r_lastwm r; r_pending := r_pending r; r_inq := r_inq r; r_ackq := q; r_rcv := r_rcv r |}.
Definition r_set_rcv l r := {| r_map := r_map r; r_lastsent := r_lastsent r; r_high := r_high r; r_lastwm := r_lastwm r; r_pending := r_pending r; r_inq := r_inq r; r_ackq := r_ackq r; r_rcv := l |}.

Definition s_set_stalled b s := {| s_conn := s_conn s; s_stalled := b; s_chan := s_chan s; s_inflight := s_inflight s; s_next := s_next s; s_start := s_start s; s_ring := s_ring s; s_prev := s_prev s; s_lastwm := s_lastwm s; s_ackin := s_ackin s; s_ackflight := s_ackflight s; s_hist := s_hist s; s_acked := s_acked s |}.
Definition s_set_chan c s := {| s_conn := s_conn s; s_stalled := s_stalled s; s_chan := c; s_inflight := s_inflight s; s_next := s_next s; s_start := s_start s; s_ring := s_ring s; s_prev := s_prev s; s_lastwm := s_lastwm s; s_ackin := s_ackin s; s_ackflight := s_ackflight s; s_hist := s_hist s; s_acked := s_acked s |}.
Definition s_set_inflight f s := {| s_conn := s_conn s; s_stalled := s_stalled s; s_chan := s_chan s; s_inflight := f; s_next := s_next s; s_start := s_start s; s_ring := s_ring s; s_prev := s_prev s; s_lastwm := s_lastwm s; s_ackin := s_ackin s; s_ackflight := s_ackflight s; s_hist := s_hist s; s_acked := s_acked s |}.
Definition s_set_prev p s := {| s_conn := s_conn s; s_stalled := s_stalled s; s_chan := s_chan s; s_inflight := s_inflight s; s_next := s_next s; s_start := s_start s; s_ring := s_ring s; s_prev := p; s_lastwm := s_lastwm s; s_ackin := s_ackin s; s_ackflight := s_ackflight s; s_hist := s_hist s; s_acked := s_acked s |}.
Definition s_set_lastwm v s := {| s_conn := s_conn s; s_stalled := s_stalled s; s_chan := s_chan s; s_inflight := s_inflight s; s_next := s_next s; s_start := s_start s; s_ring := s_ring s; s_prev := s_prev s; s_lastwm := v; s_ackin := s_ackin s; s_ackflight := s_ackflight s; s_hist := s_hist s; s_acked := s_acked s |}.
Definition s_set_ackin q s := {| s_conn := s_conn s; s_stalled := s_stalled s; s_chan := s_chan s; s_inflight := s_inflight s; s_next := s_next s; s_start := s_start s; s_ring := s_ring s; s_prev := s_prev s; s_lastwm := s_lastwm s; s_ackin := q; s_ackflight := s_ackflight s; s_hist := s_hist s; s_acked := s_acked s |}.
Definition s_set_ackflight f s := {| s_conn := s_conn s; s_stalled := s_stalled s; s_chan := s_chan s; s_inflight := s_inflight s; s_next := s_next s; s_start := s_start s; s_ring := s_ring s; s_prev := s_prev s; s_lastwm := s_lastwm s; s_ackin := s_ackin s; s_ackflight := f; s_hist := s_hist s; s_acked := s_acked s |}.
Definition s_set_acked v s := {| s_conn := s_conn s; s_stalled := s_stalled s; s_chan := s_chan s; s_inflight := s_inflight s; s_next := s_next s; s_start := s_start s; s_ring := s_ring s; s_prev := s_prev s; s_lastwm := s_lastwm s; s_ackin := s_ackin s; s_ackflight := s_ackflight s; s_hist := s_hist s; s_acked := v |}.
(* append entries to the ring (and to the ghost history), advancing the proxy id counter *)
Definition s_append (es : list rentry) (next' : Z) s :=
  {| s_conn := s_conn s; s_stalled := s_stalled s; s_chan := s_chan s; s_inflight := s_inflight s; s_next := next';
     s_start := match s_ring s with [] => s_next s + 1 | _ => s_start s end;
     s_ring := s_ring s ++ es; s_prev := s_prev s; s_lastwm := s_lastwm s; s_ackin := s_ackin s; s_ackflight := s_ackflight s;
     s_hist := s_hist s ++ es; s_acked := s_acked s |}.
Definition s_discard (c : nat) s :=
  {| s_conn := s_conn s; s_stalled := s_stalled s; s_chan := s_chan s; s_inflight := s_inflight s; s_next := s_next s;
     s_start := s_start s + Z.of_nat c; s_ring := skipn c (s_ring s); s_prev := s_prev s; s_lastwm := s_lastwm s;
     s_ackin := s_ackin s; s_ackflight := s_ackflight s; s_hist := s_hist s; s_acked := s_acked s |}.

Definition set_recv (x : st) (sr : nat) (f : recv -> recv) : st := {| recvs := upd (recvs x) sr f; sends := sends x |}.
Definition set_send (x : st) (T : nat) (f : send -> send) : st := {| recvs := recvs x; sends := upd (sends x) T f |}.

(* ---------- receiver: grouping, registration ---------- *)
Fixpoint add_to_group (t : task) (gs : list (nat * list task)) : list (nat * list task) :=
  match gs with
  | [] => [(t_owner t, [t])]
  | (T, ts) :: rest => if Nat.eqb T (t_owner t) then (T, ts ++ [t]) :: rest else (T, ts) :: add_to_group t rest
  end.
Definition group (ts : list task) : list (nat * list task) := fold_left (fun gs t => add_to_group t gs) ts [].
Definition last_id (ts : list task) : Z := match rev ts with [] => 0 | t :: _ => t_id t end.
Definition first_id (ts : list task) : Z := match ts with [] => 0 | t :: _ => t_id t end.

Fixpoint register (gs : list (nat * list task)) (m : list (nat * Z)) : list (nat * Z) :=
  match gs with
  | [] => m
  | (T, ts) :: rest => register rest (match aget T m with Some _ => m | None => aset T (first_id ts) m end)
  end.

(* ---------- channel sends ---------- *)
Definition has_room (s : send) : bool := Nat.ltb (length (s_chan s)) chan_cap.
Definition enqueue (c : cmsg) (s : send) : send := s_set_chan (s_chan s ++ [c]) s.
(* non-blocking (watermark broadcast / replay): dropped when full or not connected *)
Definition try_enqueue (c : cmsg) (s : send) : send := if s_conn s && has_room s then enqueue c s else s.

(* ---------- sender: id mapping ---------- *)
Fixpoint assign (src : nat) (ts : list task) (next : Z) : list wtask * list rentry * Z :=
  match ts with
  | [] => ([], [], next)
  | t :: rest =>
      let pid := next + 1 in
      let '(ws, es, n') := assign src rest pid in
      ({| w_pid := pid; w_pay := t_pay t |} :: ws, {| e_src := src; e_val := t_id t; e_task := true |} :: es, n')
  end.

(* ---------- sender: aggregation (abstract ring, see Ring/Proofs.v for the buffer itself) ---------- *)
Fixpoint agg_max (es : list rentry) (acc : list (nat * Z)) : list (nat * Z) :=
  match es with
  | [] => acc
  | e :: rest =>
      let acc' := match aget (e_src e) acc with
                  | Some cur => if e_val e >? cur then aset (e_src e) (e_val e) acc else acc
                  | None => aset (e_src e) (e_val e) acc
                  end in
      agg_max rest acc'
  end.
Definition covered (s : send) (w : Z) : nat :=
  match s_ring s with
  | [] => O
  | _ => if w <? s_start s then O
         else let c64 := w - s_start s + 1 in
              if Z.of_nat (length (s_ring s)) <? c64 then length (s_ring s) else Z.to_nat c64
  end.
Definition aggregate (s : send) (w : Z) : list (nat * Z) * nat :=
  let c := covered s w in (agg_max (firstn c (s_ring s)) [], c).


(* ---------- receiver: one acknowledgement from target T ---------- *)
Definition process_ack (sr : nat) (T : nat) (v : Z) (r : recv) : recv * list out :=
  let m := aset T v (r_map r) in
  let r1 := r_set_map m r in
  match amin m with
  | None => (r1, [])
  | Some mn =>
      if mn >=? r_lastsent r then
        let mn' := if (r_high r >? 0) && (mn >? r_high r) then r_high r else mn in
        (r_set_lastsent mn' r1, [OSrc sr mn'])
      else (r1, [])
  end.

(* ---------- actions ---------- *)
Inductive act :=
| APush (sr : nat) (ts : list task) (high : Z)   (* the source sends a batch *)
| ARead (sr : nat)                               (* receiver reads its next batch *)
| AHandoff (sr : nat) (T : nat)                  (* blocking channel send of the pending group for T *)
| ADequeue (T : nat)                             (* sender takes a channel message, maps ids (under mu) *)
| ASend (T : nat)                                (* the (possibly blocked) Send to the target completes *)
| AKeepalive (T : nat)                           (* idle ticker: keep-alive enters Send *)
| AAckIn (T : nat) (w : Z)                       (* the target sends an acknowledgement *)
| AAggregate (T : nat)                           (* recvAck: AggregateUpTo under mu *)
| ADeliver (T : nat)                             (* one blocking send into a receiver's ackChan *)
| ADiscard (T : nat)                             (* Discard under mu, after all acks were forwarded *)
| AProcAck (sr : nat)                            (* receiver processes one ack: minimum, clamp, send upstream *)
| AConnect (T : nat)                             (* target stream opens: fresh sender, watermark replay *)
| ABreak (T : nat)                               (* target stream incarnation ends *)
| ARestart (sr : nat)                            (* source stream breaks and is re-established *)
| AStall (T : nat) | AUnstall (T : nat).

Definition broadcast (c : cmsg) (ss : list send) : list send := map (try_enqueue c) ss.

Fixpoint replay_from (sr : nat) (rs : list recv) (s : send) : send :=
  match rs with
  | [] => s
  | r :: rest => replay_from (S sr) rest
                   (if r_lastwm r =? 0 then s else try_enqueue {| c_src := sr; c_tasks := []; c_high := r_lastwm r |} s)
  end.

Fixpoint take_group (T : nat) (ps : list (nat * cmsg)) : option (cmsg * list (nat * cmsg)) :=
  match ps with
  | [] => None
  | (T', c) :: rest => if Nat.eqb T T' then Some (c, rest)
                       else match take_group T rest with
                            | Some (c', rest') => Some (c', (T', c) :: rest')
                            | None => None
                            end
  end.

Definition apply_act (fix1 : bool) (x : st) (a : act) : st * list out :=
  match a with
  | APush sr ts high => (set_recv x sr (fun r => r_set_inq (r_inq r ++ [(ts, high)]) r), [])
  | ARead sr =>
      match nth_error (recvs x) sr with
      | None => (x, [])
      | Some r =>
          match r_pending r, r_inq r with
          | [], (ts, high) :: q =>
              match ts with
              | [] =>
                  let r' := r_set_inq q (r_set_lastwm high (r_set_high high r)) in
                  ({| recvs := upd (recvs x) sr (fun _ => r');
                      sends := broadcast {| c_src := sr; c_tasks := []; c_high := high |} (sends x) |}, [])
              | _ =>
                  let gs := group ts in
                  let m' := if fix1 then register gs (r_map r) else r_map r in
                  let pend := map (fun g => (fst g, {| c_src := sr; c_tasks := snd g; c_high := last_id (snd g) + 1 |})) gs in
                  let r' := r_set_rcv (r_rcv r ++ ts) (r_set_inq q (r_set_pending pend (r_set_map m' (r_set_high high r)))) in
                  (set_recv x sr (fun _ => r'), [])
              end
          | _, _ => (x, [])
          end
      end
  | AHandoff sr T =>
      match nth_error (recvs x) sr, nth_error (sends x) T with
      | Some r, Some s =>
          if s_conn s && has_room s then
            match take_group T (r_pending r) with
            | Some (c, rest) => ({| recvs := upd (recvs x) sr (r_set_pending rest); sends := upd (sends x) T (enqueue c) |}, [])
            | None => (x, [])
            end
          else (x, [])
      | _, _ => (x, [])
      end
  | ADequeue T =>
      match nth_error (sends x) T with
      | Some s =>
          match s_conn s, s_inflight s, s_chan s with
          | true, None, c :: rest =>
              let s0 := s_set_chan rest s in
              match c_tasks c with
              | [] =>
                  let pid := s_next s + 1 in
                  let s1 := s_append [{| e_src := c_src c; e_val := c_high c; e_task := false |}] pid s0 in
                  (set_send x T (fun _ => s_set_inflight (Some {| f_ws := []; f_high := pid; f_keepalive := false |}) s1), [])
              | ts =>
                  let '(ws, es, n') := assign (c_src c) ts (s_next s) in
                  let s1 := s_append es n' s0 in
                  (set_send x T (fun _ => s_set_inflight (Some {| f_ws := ws; f_high := n' + 1; f_keepalive := false |}) s1), [])
              end
          | _, _, _ => (x, [])
          end
      | None => (x, [])
      end
  | ASend T =>
      match nth_error (sends x) T with
      | Some s =>
          match s_conn s && negb (s_stalled s), s_inflight s with
          | true, Some f =>
              let s1 := s_set_inflight None s in
              let s2 := if f_keepalive f then s1 else s_set_lastwm (f_high f) s1 in
              (set_send x T (fun _ => s2), [OTgt T (f_ws f) (f_high f)])
          | _, _ => (x, [])
          end
      | None => (x, [])
      end
  | AKeepalive T =>
      match nth_error (sends x) T with
      | Some s =>
          match s_conn s, s_inflight s with
          | true, None =>
              if s_lastwm s >? 0
              then (set_send x T (s_set_inflight (Some {| f_ws := []; f_high := s_lastwm s; f_keepalive := true |})), [])
              else (x, [])
          | _, _ => (x, [])
          end
      | None => (x, [])
      end
  | AAckIn T w =>
      match nth_error (sends x) T with
      | Some s => if s_conn s then (set_send x T (fun s => s_set_ackin (s_ackin s ++ [w]) s), []) else (x, [])
      | None => (x, [])
      end
  | AAggregate T =>
      match nth_error (sends x) T with
      | Some s =>
          match s_conn s, s_ackflight s, s_ackin s with
          | true, None, w :: rest =>
              let '(acks, c) := aggregate s w in
              let fl := match acks with
                        | [] => {| af_todo := s_prev s; af_count := c; af_new := false |}
                        | _ => {| af_todo := acks; af_count := c; af_new := true |}
                        end in
              (set_send x T (fun _ => s_set_acked (Z.max (s_acked s) w) (s_set_ackflight (Some fl) (s_set_ackin rest s))), [])
          | _, _, _ => (x, [])
          end
      | None => (x, [])
      end
  | ADeliver T =>
      match nth_error (sends x) T with
      | Some s =>
          match s_conn s, s_ackflight s with
          | true, Some fl =>
              match af_todo fl with
              | (sr, a) :: rest =>
                  match nth_error (recvs x) sr with
                  | Some r =>
                      if Nat.ltb (length (r_ackq r)) chan_cap then
                        let s1 := s_set_ackflight (Some {| af_todo := rest; af_count := af_count fl; af_new := af_new fl |}) s in
                        let s2 := if af_new fl then s_set_prev (aset sr a (s_prev s1)) s1 else s1 in
                        ({| recvs := upd (recvs x) sr (fun r => r_set_ackq (r_ackq r ++ [(T, a)]) r);
                            sends := upd (sends x) T (fun _ => s2) |}, [])
                      else (x, [])
                  | None => (x, [])      (* no ack channel for that source: the sender keeps retrying *)
                  end
              | [] => (x, [])
              end
          | _, _ => (x, [])
          end
      | None => (x, [])
      end
  | ADiscard T =>
      match nth_error (sends x) T with
      | Some s =>
          match s_conn s, s_ackflight s with
          | true, Some fl =>
              match af_todo fl with
              | [] => (set_send x T (fun _ => s_set_ackflight None (s_discard (af_count fl) s)), [])
              | _ => (x, [])
              end
          | _, _ => (x, [])
          end
      | None => (x, [])
      end
  | AProcAck sr =>
      match nth_error (recvs x) sr with
      | Some r =>
          match r_ackq r with
          | (T, v) :: q =>
              let '(r', o) := process_ack sr T v (r_set_ackq q r) in
              (set_recv x sr (fun _ => r'), o)
          | [] => (x, [])
          end
      | None => (x, [])
      end
  | AConnect T =>
      match nth_error (sends x) T with
      | Some _ =>
          let s0 := {| s_conn := true; s_stalled := false; s_chan := []; s_inflight := None; s_next := 0; s_start := 0; s_ring := [];
                       s_prev := []; s_lastwm := 0; s_ackin := []; s_ackflight := None; s_hist := []; s_acked := 0 |} in
          (set_send x T (fun _ => replay_from 0 (recvs x) s0), [])
      | None => (x, [])
      end
  | ABreak T => (set_send x T (fun _ => init_send), [])
  | ARestart sr => (set_recv x sr (fun r => r_set_rcv (r_rcv r) init_recv), [])   (* the ghost record of what was received survives *)
  | AStall T => (set_send x T (s_set_stalled true), [])
  | AUnstall T => (set_send x T (s_set_stalled false), [])
  end.

Fixpoint run_acts (fix1 : bool) (x : st) (l : list act) : st * list out :=
  match l with
  | [] => (x, [])
  | a :: rest => let '(x1, o1) := apply_act fix1 x a in
                 let '(x2, o2) := run_acts fix1 x1 rest in (x2, o1 ++ o2)
  end.

(* ---------- canonical scheduler: the next enabled internal action ---------- *)
Definition sender_act (T : nat) (s : send) : option act :=
  if negb (s_conn s) then None
  else match s_inflight s with
       | Some _ => if s_stalled s then None else Some (ASend T)
       | None => match s_chan s with [] => None | _ => Some (ADequeue T) end
       end.

Definition acker_act (rs : list recv) (T : nat) (s : send) : option act :=
  if negb (s_conn s) then None
  else match s_ackflight s with
       | Some fl => match af_todo fl with
                    | [] => Some (ADiscard T)
                    | (sr, _) :: _ => match nth_error rs sr with
                                      | Some r => if Nat.ltb (length (r_ackq r)) chan_cap then Some (ADeliver T) else None
                                      | None => None
                                      end
                    end
       | None => match s_ackin s with [] => None | _ => Some (AAggregate T) end
       end.

Fixpoint first_some {A} (f : nat -> A -> option act) (i : nat) (l : list A) : option act :=
  match l with
  | [] => None
  | x :: rest => match f i x with Some a => Some a | None => first_some f (S i) rest end
  end.

Fixpoint handoff_act (ss : list send) (sr : nat) (ps : list (nat * cmsg)) : option act :=
  match ps with
  | [] => None
  | (T, _) :: rest =>
      match nth_error ss T with
      | Some s => if s_conn s && has_room s then Some (AHandoff sr T) else handoff_act ss sr rest
      | None => handoff_act ss sr rest
      end
  end.

Definition receiver_act (ss : list send) (sr : nat) (r : recv) : option act :=
  match r_ackq r with
  | _ :: _ => Some (AProcAck sr)
  | [] => match r_pending r with
          | [] => match r_inq r with [] => None | _ => Some (ARead sr) end
          | ps => handoff_act ss sr ps
          end
  end.

Definition next_act (x : st) : option act :=
  match first_some sender_act 0 (sends x) with
  | Some a => Some a
  | None => match first_some (acker_act (recvs x)) 0 (sends x) with
            | Some a => Some a
            | None => first_some (receiver_act (sends x)) 0 (recvs x)
            end
  end.

Fixpoint settle (fuel : nat) (fix1 : bool) (x : st) : st * list out :=
  match fuel with
  | O => (x, [])
  | S f => match next_act x with
           | None => (x, [])
           | Some a => let '(x1, o1) := apply_act fix1 x a in
                       let '(x2, o2) := settle f fix1 x1 in (x2, o1 ++ o2)
           end
  end.

(* enough fuel for every queued item to travel through the whole pipeline *)
Definition work (x : st) : nat :=
  let nt := S (length (sends x)) in
  let rw := fold_left (fun acc r => (acc + length (r_inq r) + length (r_pending r) + length (r_ackq r))%nat) (recvs x) 1%nat in
  let sw := fold_left (fun acc s => (acc + length (s_chan s) + length (s_ackin s)
                                     + match s_ackflight s with Some fl => S (length (af_todo fl)) | None => O end
                                     + match s_inflight s with Some _ => 1 | None => 0 end)%nat) (sends x) 1%nat in
  ((rw + sw) * (4 * nt + 6) * 2)%nat.

(* ---------- external events (what the correspondence harness drives) ---------- *)
Inductive ev :=
| ESrc (sr : nat) (ts : list task) (high : Z)
| EAck (T : nat) (w : Z)
| EConnect (T : nat)
| EStall (T : nat)
| EUnstall (T : nat)
| EBreakT (T : nat)
| ERestartS (sr : nat).

Definition ev_acts (e : ev) : list act :=
  match e with
  | ESrc sr ts high => [APush sr ts high]
  | EAck T w => [AAckIn T w]
  | EConnect T => [AConnect T]
  | EStall T => [AStall T; AKeepalive T]     (* time passes between events: the idle ticker fires into the blocked Send *)
  | EUnstall T => [AUnstall T]
  | EBreakT T => [ABreak T]
  | ERestartS sr => [ARestart sr]
  end.

Definition step (fix1 : bool) (x : st) (e : ev) : st * list out :=
  let '(x1, o1) := run_acts fix1 x (ev_acts e) in
  let '(x2, o2) := settle (work x1) fix1 x1 in
  (x2, o1 ++ o2).

(* the action sequence [step] performs (used to tie [step] to [run_acts]) *)
Fixpoint settle_acts (fuel : nat) (fix1 : bool) (x : st) : list act :=
  match fuel with
  | O => []
  | S f => match next_act x with
           | None => []
           | Some a => a :: settle_acts f fix1 (fst (apply_act fix1 x a))
           end
  end.
