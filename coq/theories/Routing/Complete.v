(* C03, the completeness step: once every target shard that the receiver tracks has acknowledged up to the source's last
   high watermark, the acknowledgement the receiver sends upstream IS that watermark - exactly, not one below it and not
   nothing.  Together with "monotone and bounded" (Mono.v) this is what makes the final acknowledgement of a finished source
   equal to its final high watermark; that the acknowledgements of all targets do arrive is the pipeline's progress, which
   is decided on the implementation and the model under the canonical schedule (completion rounds of the harness). *)
From Coq Require Import List ZArith Lia Bool Arith.
From S2S Require Import Routing.Model Routing.Basic.
Import ListNotations.
Open Scope Z_scope.

Lemma fold_min_In (l : list (nat * Z)) : forall acc,
  fold_left (fun a kv => Z.min a (snd kv)) l acc = acc
  \/ exists k, In (k, fold_left (fun a kv => Z.min a (snd kv)) l acc) l.
Proof.
  induction l as [|[k0 v0] t IH]; intros acc; cbn [fold_left snd]; [left; reflexivity|].
  destruct (IH (Z.min acc v0)) as [E|[k Hin]].
  - rewrite E. destruct (Z.min_spec acc v0) as [[_ Hm]|[_ Hm]]; rewrite Hm.
    + left. reflexivity.
    + right. exists k0. left. reflexivity.
  - right. exists k. right. exact Hin.
Qed.

(* the aggregated value is one of the map's values *)
Lemma amin_In m mn : amin m = Some mn -> exists k, In (k, mn) m.
Proof.
  destruct m as [|[k0 v0] t]; cbn [amin]; [discriminate|]. intros E. inversion E; subst mn. clear E.
  destruct (fold_min_In t v0) as [E|[k Hin]].
  - rewrite E. exists k0. left. reflexivity.
  - exists k. right. exact Hin.
Qed.

Lemma aset_nonempty k v m : aset k v m <> [].
Proof. destruct m as [|[k' v'] t]; cbn [aset]; [discriminate|]. destruct (Nat.eqb k k'); discriminate. Qed.

(* every target tracked after this acknowledgement has caught up with the source's last high watermark *)
Definition all_caught_up (T : nat) (v : Z) (r : recv) : Prop :=
  forall T' v', In (T', v') (aset T v (r_map r)) -> r_high r <= v'.

Theorem process_ack_complete sr T v r :
  0 < r_high r -> r_lastsent r <= r_high r -> all_caught_up T v r ->
  let '(r', os) := process_ack sr T v r in
  os = [OSrc sr (r_high r)] /\ r_lastsent r' = r_high r.
Proof.
  intros Hpos Hls Hall. unfold process_ack.
  destruct (amin (aset T v (r_map r))) as [mn|] eqn:Emin.
  - destruct (amin_In _ _ Emin) as [k Hin]. pose proof (Hall _ _ Hin) as Hge.
    destruct (Z.geb_spec mn (r_lastsent r)) as [_|Hlt]; [|lia].
    destruct (Z.gtb_spec (r_high r) 0) as [_|Hh]; [|lia]. cbn [andb].
    destruct (Z.gtb_spec mn (r_high r)) as [Hc|Hc]; cbn [r_set_lastsent r_lastsent].
    + split; reflexivity.
    + assert (mn = r_high r) by lia. subst mn. split; reflexivity.
  - exfalso. unfold amin in Emin. destruct (aset T v (r_map r)) as [|[k0 v0] t] eqn:E; [exact (aset_nonempty _ _ _ E)|discriminate].
Qed.

(* the same as a statement about the receiver's action in a state of the system *)
Theorem procack_action_complete fix1 x sr r T v q :
  nth_error (recvs x) sr = Some r -> r_ackq r = (T, v) :: q ->
  0 < r_high r -> r_lastsent r <= r_high r -> all_caught_up T v r ->
  snd (apply_act fix1 x (AProcAck sr)) = [OSrc sr (r_high r)].
Proof.
  intros Hr Hq Hpos Hls Hall. cbn [apply_act]. rewrite Hr, Hq.
  pose proof (process_ack_complete sr T v (r_set_ackq q r)) as H.
  cbn [r_set_ackq r_high r_lastsent r_map] in H. specialize (H Hpos Hls).
  assert (Hall' : all_caught_up T v (r_set_ackq q r)) by exact Hall.
  specialize (H Hall'). destruct (process_ack sr T v (r_set_ackq q r)) as [r' os]. destruct H as [-> _]. reflexivity.
Qed.

(* and before every target has caught up the acknowledgement stays below the lagging target's level: nothing is announced
   early (this is C01's direction, restated here next to its converse) *)
Theorem process_ack_not_early sr T v r T' v' a :
  In (T', v') (aset T v (r_map r)) -> snd (process_ack sr T v r) = [OSrc sr a] -> a <= v'.
Proof.
  intros Hin. unfold process_ack.
  destruct (amin (aset T v (r_map r))) as [mn|] eqn:Emin; [|discriminate].
  pose proof (amin_le _ _ Emin _ _ Hin) as Hle.
  destruct (mn >=? r_lastsent r); [|discriminate]. cbn [snd]. intros E. inversion E; subst a.
  destruct ((r_high r >? 0) && (mn >? r_high r)) eqn:Ec; [|exact Hle].
  apply andb_prop in Ec. destruct Ec as [_ Ec]. apply Z.gtb_lt in Ec. lia.
Qed.

(* non-vacuity: two targets, the slower one catches up with the watermark 50 *)
Example complete_example :
  let r := {| r_map := [(0%nat, 50); (1%nat, 31)]; r_lastsent := 31; r_high := 50; r_lastwm := 50; r_pending := []; r_inq := [];
              r_ackq := []; r_rcv := [] |} in
  all_caught_up 1 50 r /\ snd (process_ack 0 1 50 r) = [OSrc 0%nat 50] /\ snd (process_ack 0 1 40 r) = [OSrc 0%nat 40].
Proof.
  cbv zeta. split; [|split; reflexivity].
  intros T' v' Hin. cbn in Hin. destruct Hin as [E|[E|[]]]; inversion E; subst; cbn; lia.
Qed.
