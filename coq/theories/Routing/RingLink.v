(* Composition of C01-C04 with C05: the sender's id table in the routing model (an abstract list, Routing/Model.v) is the
   abstract ring of Ring/Model.v, whose refinement by the circular buffer of the code is proved there (C05_refines).
   Aggregation, discarding and (contiguous) appending of the routing model are exactly a_aggregate, a_discard and a_append
   on the corresponding abstract ring. *)
From Coq Require Import List ZArith Bool Arith Lia.
From S2S Require Import Routing.Model Routing.Basic Routing.Inv.
From S2S Require Ring.Model.
Import ListNotations.
Open Scope Z_scope.

Module R := Ring.Model.

(* source shard number n of the routing model <-> a (cluster, shard) pair that is never the hole (0, 0) *)
Definition conv_src (n : nat) : R.shard := (1, Z.of_nat n + 1).
Definition conv (e : rentry) : R.entry := {| R.e_src := conv_src (e_src e); R.e_task := e_val e |}.
Definition conv_kv (kv : nat * Z) : R.shard * Z := (conv_src (fst kv), snd kv).
Definition view_of (s : send) : R.aring := {| R.a_start := s_start s; R.a_items := map conv (s_ring s) |}.

Lemma conv_src_eqb a b : R.shard_eqb (conv_src a) (conv_src b) = Nat.eqb a b.
Proof.
  unfold R.shard_eqb, conv_src. cbn [fst snd]. rewrite Z.eqb_refl. cbn [andb].
  destruct (Nat.eqb_spec a b) as [->|Hne]; [apply Z.eqb_refl|]. apply Z.eqb_neq. lia.
Qed.

Lemma conv_not_hole e : R.is_hole (conv e) = false.
Proof. unfold R.is_hole, conv, R.shard_eqb, conv_src. cbn. reflexivity. Qed.

Lemma aget_conv k m : R.aget (conv_src k) (map conv_kv m) = aget k m.
Proof.
  induction m as [|[k' v] m IH]; [reflexivity|]. cbn [map conv_kv fst snd R.aget aget]. rewrite conv_src_eqb.
  destruct (Nat.eqb k k'); [reflexivity|exact IH].
Qed.

Lemma aset_conv k v m : R.aset (conv_src k) v (map conv_kv m) = map conv_kv (aset k v m).
Proof.
  induction m as [|[k' v'] m IH]; [reflexivity|]. cbn [map conv_kv fst snd R.aset aset]. rewrite conv_src_eqb.
  destruct (Nat.eqb k k'); [reflexivity|]. cbn [map conv_kv fst snd]. f_equal. exact IH.
Qed.

Lemma agg_max_conv es : forall acc, R.agg_max (map conv es) (map conv_kv acc) = map conv_kv (agg_max es acc).
Proof.
  induction es as [|e es IH]; intros acc; [reflexivity|]. cbn [map R.agg_max agg_max]. rewrite conv_not_hole.
  change (R.e_src (conv e)) with (conv_src (e_src e)). change (R.e_task (conv e)) with (e_val e). rewrite aget_conv.
  destruct (aget (e_src e) acc) as [cur|].
  - destruct (e_val e >? cur); [rewrite aset_conv|]; apply IH.
  - rewrite aset_conv. apply IH.
Qed.

Lemma covered_conv s w : covered s w = R.covered (s_start s) (length (s_ring s)) w.
Proof. unfold covered, R.covered. destruct (s_ring s) as [|e r]; reflexivity. Qed.

(* AggregateUpTo *)
Theorem aggregate_is_ring_aggregate s w :
  R.a_aggregate (view_of s) w = (map conv_kv (fst (aggregate s w)), snd (aggregate s w)).
Proof.
  unfold R.a_aggregate, aggregate, view_of. cbn [R.a_start R.a_items fst snd]. rewrite map_length, <- covered_conv.
  f_equal. rewrite firstn_map. apply (agg_max_conv _ []).
Qed.

(* Discard (the count comes from an earlier aggregation, so it never exceeds what is stored) *)
Theorem discard_is_ring_discard s c :
  (c <= length (s_ring s))%nat -> view_of (s_discard c s) = R.a_discard (view_of s) (Z.of_nat c).
Proof.
  intros Hc. unfold R.a_discard, view_of. cbn [s_discard s_start s_ring R.a_start R.a_items]. rewrite map_length.
  destruct c as [|c].
  - cbn. rewrite Z.add_0_r. reflexivity.
  - destruct (Z.leb_spec (Z.of_nat (S c)) 0) as [H|_]; [lia|].
    destruct (Z.ltb_spec (Z.of_nat (length (s_ring s))) (Z.of_nat (S c))) as [H|_]; [lia|].
    rewrite Nat2Z.id, skipn_map. reflexivity.
Qed.

(* Append of the next proxy id (ids are handed out contiguously: no padding) *)
Theorem append_is_ring_append s e :
  ring_ok s ->
  view_of (s_append [e] (s_next s + 1) s) = R.a_append (view_of s) (s_next s + 1) (conv_src (e_src e)) (e_val e).
Proof.
  intros [Hn Hr]. unfold R.a_append, view_of. cbn [s_append s_start s_ring R.a_start R.a_items].
  destruct (s_ring s) as [|e0 ring] eqn:Er; cbn [map].
  - reflexivity.
  - destruct (Hr ltac:(discriminate)) as [H1 H2].
    (* the ring is the table minus the discarded prefix, so the next id is start + stored count: the gap is empty *)
    assert (Hlen : Z.of_nat (length (e0 :: ring)) = s_next s - (s_start s - 1)).
    { rewrite H2, skipn_length, Hn.
      assert (Z.to_nat (s_start s - 1) < length (s_hist s))%nat.
      { destruct (Nat.le_gt_cases (length (s_hist s)) (Z.to_nat (s_start s - 1))) as [Hle|Hgt]; [|exact Hgt].
        rewrite skipn_all2 in H2 by exact Hle. discriminate. }
      lia. }
    cbn [length] in Hlen. cbn [map length]. rewrite map_length, map_app. cbn [map].
    replace (s_next s + 1 - (s_start s + Z.of_nat (S (length ring)))) with 0 by lia. cbn [Z.to_nat repeat app]. reflexivity.
Qed.
