From Coq Require Import List ZArith Bool Lia Arith.
From S2S Require Import Base.ListExtra Base.MachineInt Observer.Model.
Import ListNotations.
Open Scope Z_scope.

Lemma resize_length n l : (length l <= n)%nat -> length (resize n l) = n.
Proof. intros H. unfold resize. rewrite app_length, firstn_length, repeat_length. lia. Qed.

Lemma nth_repeat0 j k : nth j (repeat 0 k) 0 = 0.
Proof. revert j; induction k as [|k IH]; intros [|j]; simpl; auto. Qed.

Lemma nth_resize n l j : (length l <= n)%nat -> nth j (resize n l) 0 = nth j l 0.
Proof.
  intros H. unfold resize. rewrite firstn_all2 by lia.
  destruct (Nat.lt_ge_cases j (length l)) as [Hlt|Hge].
  - apply app_nth1; auto.
  - rewrite app_nth2 by lia. rewrite nth_repeat0. symmetry. apply nth_overflow. lia.
Qed.

Lemma nth_bump_same i v l : (i < length l)%nat -> nth i (bump i v l) 0 = wrap32 (nth i l 0 + v).
Proof. intros H. unfold bump. apply nth_set_nth_same; auto. Qed.

Lemma nth_bump_other i j v l : i <> j -> nth j (bump i v l) 0 = nth j l 0.
Proof. intros H. unfold bump. apply nth_set_nth_other; auto. Qed.

Lemma grow_enough idx : 0 <= idx -> idx + 1 <= (idx + 1) * 9 / 8.
Proof. intros H. apply Z.div_le_lower_bound; lia. Qed.

(* what one call does *)
Theorem report_spec idx v st :
  let '(st', o) := report idx v st in
  o <> RPanic
  /\ locked st' = locked st
  /\ (o = RWarn -> st' = st /\ (idx < 0 \/ idx > max_observed))
  /\ (o = ROk -> 0 <= idx <= max_observed
               /\ counter st' idx = wrap32 (counter st idx + v)
               /\ (forall j, j <> idx -> counter st' j = counter st j)
               /\ (length (counters st) <= length (counters st'))%nat).
Proof.
  unfold report.
  destruct (Z.ltb_spec idx 0) as [Hneg|Hnn].
  { split; [discriminate|]. split; [reflexivity|]. split; [intros _; split; [reflexivity|left; exact Hneg]|].
    intros H; discriminate H. }
  destruct (Z.gtb_spec idx max_observed) as [Hbig|Hsmall].
  { split; [discriminate|]. split; [reflexivity|]. split; [intros _; split; [reflexivity|right; apply Z.lt_gt; exact Hbig]|].
    intros H; discriminate H. }
  set (cs := if Z.of_nat (length (counters st)) <=? idx
             then resize (Z.to_nat ((idx + 1) * 9 / 8)) (counters st) else counters st).
  assert (Hcs : (Z.to_nat idx < length cs)%nat
                /\ (forall j, nth j cs 0 = nth j (counters st) 0)
                /\ (length (counters st) <= length cs)%nat).
  { unfold cs. destruct (Z.leb_spec (Z.of_nat (length (counters st))) idx) as [Hle|Hgt].
    - pose proof (grow_enough idx Hnn) as Hg.
      assert (Hn : (length (counters st) <= Z.to_nat ((idx + 1) * 9 / 8))%nat) by lia.
      rewrite resize_length by exact Hn. split; [lia|]. split; [|lia].
      intros j. apply nth_resize. exact Hn.
    - split; [lia|]. split; auto. }
  destruct Hcs as (Hlt & Hsame & Hlen).
  destruct (Nat.ltb_spec (Z.to_nat idx) (length cs)) as [_|Hbad]; [|lia].
  split; [discriminate|]. split; [reflexivity|]. split; [discriminate|].
  intros _. split; [lia|].
  unfold counter; cbn [counters].
  destruct (Z.ltb_spec idx 0); [lia|].
  split; [|split].
  - rewrite nth_bump_same by exact Hlt. rewrite Hsame. reflexivity.
  - intros j Hj. destruct (Z.ltb_spec j 0); [reflexivity|].
    rewrite nth_bump_other by lia. apply Hsame.
  - unfold bump. rewrite set_nth_length. exact Hlen.
Qed.

(* all counters stay within int32 *)
Definition obs_wf (st : obs) : Prop := forall j, is_int32 (counter st j).

Lemma init_obs_wf : obs_wf init_obs.
Proof.
  intros j. unfold counter, init_obs; cbn [counters].
  destruct (j <? 0); [unfold is_int32, min_int32, max_int32; lia|].
  rewrite nth_repeat0. unfold is_int32, min_int32, max_int32; lia.
Qed.

Lemma report_wf idx v st : obs_wf st -> obs_wf (fst (report idx v st)).
Proof.
  intros Hwf. pose proof (report_spec idx v st) as H.
  destruct (report idx v st) as [st' o]. cbn [fst].
  destruct H as (Hnp & _ & Hw & Hok).
  destruct o.
  - destruct (Hok eq_refl) as (_ & Hsame & Hother & _).
    intros j. destruct (Z.eq_dec j idx) as [->|Hne].
    + rewrite Hsame. apply wrap32_range.
    + rewrite Hother by exact Hne. apply Hwf.
  - destruct (Hw eq_refl) as [-> _]. exact Hwf.
  - exfalso. apply Hnp. reflexivity.
Qed.

(* ---------- any sequence of reports ---------- *)
Definition tracked (i : Z) : bool := (0 <=? i) && (i <=? max_observed).

Fixpoint expected (ops : list (Z * Z)) (j : Z) (c : Z) : Z :=
  match ops with
  | [] => c
  | (i, v) :: rest => expected rest j (if (i =? j) && tracked i then wrap32 (c + v) else c)
  end.

Theorem run_reports_spec ops : forall st,
  let '(st', os) := run_reports ops st in
  Forall (fun o => o <> RPanic) os
  /\ locked st' = locked st
  /\ forall j, counter st' j = expected ops j (counter st j).
Proof.
  induction ops as [|[i v] rest IH]; intros st; cbn [run_reports expected].
  - split; [constructor|]. split; reflexivity.
  - pose proof (report_spec i v st) as H.
    destruct (report i v st) as [st1 o].
    destruct H as (Hnp & Hl & Hw & Hok).
    specialize (IH st1). destruct (run_reports rest st1) as [st2 os].
    destruct IH as (Hall & Hl2 & Hc).
    split; [constructor; auto|]. split; [congruence|].
    intros j. rewrite Hc. f_equal.
    destruct o.
    + destruct (Hok eq_refl) as (Hr & Hsame & Hother & _).
      assert (Ht : tracked i = true) by (unfold tracked; apply andb_true_iff; split; apply Z.leb_le; lia).
      rewrite Ht, andb_true_r.
      destruct (Z.eqb_spec i j) as [->|Hne]; [exact Hsame|apply Hother; congruence].
    + destruct (Hw eq_refl) as [-> Hout].
      assert (Ht : tracked i = false).
      { unfold tracked. apply andb_false_iff. destruct Hout; [left; apply Z.leb_gt; lia|right; apply Z.leb_gt; lia]. }
      rewrite Ht, andb_false_r. reflexivity.
    + exfalso; apply Hnp; reflexivity.
Qed.

(* ---------- the stream handler's bookkeeping ---------- *)
Theorem handle_spec b m st :
  obs_wf st ->
  let '(st', r) := handle b m st in
  r <> Crashed
  /\ locked st' = locked st
  /\ (forall j, counter st' j = counter st j)
  /\ obs_wf st'.
Proof.
  intros Hwf. unfold handle.
  destruct (decode m) as [[_ [_ ss]]|]; [|split; [discriminate|split; [reflexivity|split; [reflexivity|exact Hwf]]]].
  pose proof (report_spec ss 1 st) as H1. pose proof (report_wf ss 1 st Hwf) as Hwf1.
  destruct (report ss 1 st) as [st1 o1]. cbn [fst] in Hwf1.
  destruct H1 as (Hnp1 & Hl1 & Hw1 & Hok1).
  destruct o1; [| |exfalso; apply Hnp1; reflexivity].
  - pose proof (report_spec ss (-1) st1) as H2. pose proof (report_wf ss (-1) st1 Hwf1) as Hwf2.
    destruct (report ss (-1) st1) as [st2 o2]. cbn [fst] in Hwf2.
    destruct H2 as (Hnp2 & Hl2 & Hw2 & Hok2).
    destruct (Hok1 eq_refl) as (Hr & Hs1 & Ho1 & _).
    destruct o2; [| |exfalso; apply Hnp2; reflexivity].
    + destruct (Hok2 eq_refl) as (_ & Hs2 & Ho2 & _).
      split; [destruct b; discriminate|]. split; [congruence|]. split; [|exact Hwf2].
      intros j. destruct (Z.eq_dec j ss) as [->|Hne].
      * rewrite Hs2, Hs1, wrap32_add_l. replace (counter st ss + 1 + -1) with (counter st ss) by lia.
        apply wrap32_id. apply Hwf.
      * rewrite Ho2, Ho1 by exact Hne. reflexivity.
    + destruct (Hw2 eq_refl) as [-> Hout]. exfalso. lia.
  - destruct (Hw1 eq_refl) as [-> Hout].
    pose proof (report_spec ss (-1) st) as H2.
    destruct (report ss (-1) st) as [st2 o2].
    destruct H2 as (Hnp2 & Hl2 & Hw2 & Hok2).
    destruct o2; [| |exfalso; apply Hnp2; reflexivity].
    + destruct (Hok2 eq_refl) as (Hr & _). exfalso. lia.
    + destruct (Hw2 eq_refl) as [-> _].
      split; [destruct b; discriminate|]. split; [reflexivity|]. split; [reflexivity|exact Hwf].
Qed.

(* a whole history of stream opens with arbitrary metadata: service never wedges *)
Fixpoint handle_all (hs : list (bool * stream_md)) (st : obs) : obs * list served :=
  match hs with
  | [] => (st, [])
  | (b, m) :: rest => let '(st1, r) := handle b m st in
                      let '(st2, rs) := handle_all rest st1 in (st2, r :: rs)
  end.

Theorem handle_all_spec hs : forall st,
  obs_wf st -> locked st = false ->
  let '(st', rs) := handle_all hs st in
  Forall (fun r => r <> Crashed) rs /\ locked st' = false /\ (forall j, counter st' j = counter st j).
Proof.
  induction hs as [|[b m] rest IH]; intros st Hwf Hl; cbn [handle_all].
  - split; [constructor|]. split; auto.
  - pose proof (handle_spec b m st Hwf) as H.
    destruct (handle b m st) as [st1 r]. destruct H as (Hr & Hl1 & Hc1 & Hwf1).
    specialize (IH st1 Hwf1 ltac:(congruence)).
    destruct (handle_all rest st1) as [st2 rs]. destruct IH as (Hall & Hl2 & Hc2).
    split; [constructor; auto|]. split; [exact Hl2|]. intros j. rewrite Hc2. apply Hc1.
Qed.

(* ---------- the code before the F11 fix wedges ---------- *)
Lemma old_code_wedges :
  let '(st1, o1) := report_old 238609294 1 init_obs in
  o1 = RPanic /\ locked st1 = true /\ report_blocking report_old 7 1 st1 = None.
Proof. vm_compute. repeat split. Qed.

Lemma new_code_same_input :
  let '(st1, o1) := report 238609294 1 init_obs in
  o1 = RWarn /\ locked st1 = false /\ exists r, report_blocking report 7 1 st1 = Some r.
Proof. vm_compute. repeat split. eexists. reflexivity. Qed.
