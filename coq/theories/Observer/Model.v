(* Executable model of ReplicationStreamObserver.ReportStreamValue and of the stream-open
   bookkeeping of adminServiceProxyServer.StreamWorkflowReplicationMessages
   (proxy/replication_stream_observer.go, proxy/adminservice.go). Definitions only. *)
From Coq Require Import List ZArith Bool.
From S2S Require Import Base.ListExtra Base.MachineInt.
Import ListNotations.
Open Scope Z_scope.

(* streamActive (a slice of atomic.Int32) and streamGrowLock *)
Record obs := { counters : list Z; locked : bool }.

Inductive outcome := ROk | RWarn | RPanic.

Definition max_observed : Z := 1048576.   (* maxObservedStreamIndex = 1 << 20 *)

Definition counter (st : obs) (j : Z) : Z :=
  if j <? 0 then 0 else nth (Z.to_nat j) (counters st) 0.

(* slices.Grow(s, n)[:n] for n >= len s: keep the prefix, zero-fill *)
Definition resize (n : nat) (l : list Z) : list Z := firstn n l ++ repeat 0 (n - length l).

Definition bump (i : nat) (v : Z) (l : list Z) : list Z := set_nth i (wrap32 (nth i l 0 + v)) l.

(* ReportStreamValue as it is now (after the "fix:" commit for F11). *)
Definition report (idx v : Z) (st : obs) : obs * outcome :=
  if idx <? 0 then (st, RWarn)
  else if idx >? max_observed then (st, RWarn)
  else
    (* Lock; defer Unlock *)
    let i := Z.to_nat idx in
    let cs := if Z.of_nat (length (counters st)) <=? idx
              then resize (Z.to_nat ((idx + 1) * 9 / 8)) (counters st)
              else counters st in
    if (i <? length cs)%nat
    then ({| counters := bump i v cs; locked := locked st |}, ROk)
    else ({| counters := cs; locked := locked st |}, RPanic).   (* index out of range; deferred unlock ran *)

(* ReportStreamValue before the fix, faithful up to and including the first panic:
   newSize := min(int((idx+1)*9), MaxInt32) / 8 with the product evaluated in int32;
   no deferred unlock. *)
Definition report_old (idx v : Z) (st : obs) : obs * outcome :=
  if idx <? 0 then (st, RWarn)
  else
    if Z.of_nat (length (counters st)) <=? idx then
      let prod := wrap32 (wrap32 (idx + 1) * 9) in
      let new_size := Z.quot (Z.min prod max_int32) 8 in
      if new_size <? 0 then ({| counters := counters st; locked := true |}, RPanic)      (* slices.Grow: negative *)
      else if new_size <=? idx
      then ({| counters := resize (Z.to_nat new_size) (counters st); locked := true |}, RPanic)  (* index out of range, lock held *)
      else
        let cs := resize (Z.to_nat new_size) (counters st) in
        ({| counters := bump (Z.to_nat idx) v cs; locked := locked st |}, ROk)
    else ({| counters := bump (Z.to_nat idx) v (counters st); locked := locked st |}, ROk).

(* a later caller blocks forever when the lock was left held *)
Definition report_blocking (rep : Z -> Z -> obs -> obs * outcome) (idx v : Z) (st : obs) : option (obs * outcome) :=
  if locked st && negb (idx <? 0) then None else Some (rep idx v st).

(* ---------- stream-open bookkeeping ---------- *)
(* one metadata value: None = missing / not a decimal int64; Some z = strconv.Atoi result *)
Definition md_value := option Z.
Record stream_md := { md_client_cluster : md_value; md_client_shard : md_value;
                      md_server_cluster : md_value; md_server_shard : md_value }.

(* history.DecodeClusterShardMD: each value is truncated to int32 *)
Definition decode (m : stream_md) : option ((Z * Z) * (Z * Z)) :=
  match md_client_cluster m, md_client_shard m, md_server_cluster m, md_server_shard m with
  | Some cc, Some cs, Some sc, Some ss => Some ((wrap32 cc, wrap32 cs), (wrap32 sc, wrap32 ss))
  | _, _, _, _ => None
  end.

Inductive served := Served | Rejected | Crashed.

(* The handler: decode, report +1 on the server (source) shard, run the stream
   (its own outcome is a parameter: it may return normally, return an error or panic - the
   panic is captured by CapturePanic and becomes an error), report -1 (deferred). *)
Definition handle (body_ok : bool) (m : stream_md) (st : obs) : obs * served :=
  match decode m with
  | None => (st, Rejected)
  | Some (_, (_, sshard)) =>
      let '(st1, o1) := report sshard 1 st in
      match o1 with
      | RPanic => (st1, Rejected)          (* captured; deferred -1 not yet registered *)
      | _ =>
          let '(st2, o2) := report sshard (-1) st1 in
          match o2 with
          | RPanic => (st2, Rejected)
          | _ => (st2, if body_ok then Served else Rejected)
          end
      end
  end.

Fixpoint run_reports (ops : list (Z * Z)) (st : obs) : obs * list outcome :=
  match ops with
  | [] => (st, [])
  | (i, v) :: rest => let '(st1, o) := report i v st in
                      let '(st2, os) := run_reports rest st1 in (st2, o :: os)
  end.

Definition init_obs : obs := {| counters := repeat 0 1024; locked := false |}.
