From Coq Require Import List Arith Bool Lia.
From S2S Require Import Handover.Model.
Import ListNotations.

(* the batches the peer has sent, in order *)
Fixpoint peer_msgs (l : list hop) : list nat :=
  match l with [] => [] | HPeer m :: rest => m :: peer_msgs rest | _ :: rest => peer_msgs rest end.

Lemma peer_msgs_app l1 l2 : peer_msgs (l1 ++ l2) = peer_msgs l1 ++ peer_msgs l2.
Proof. induction l1 as [|o l1 IH]; [reflexivity|]. destruct o; cbn; rewrite ?IH; reflexivity. Qed.

(* nothing lost, nothing twice, nothing reordered: what has been handed over, followed by what is still pending, is exactly
   what the peer sent - in every state reachable by ANY sequence of registrations, closes, removals, batches and attempts *)
Lemma hexec_conserves s o sent :
  map snd (h_log s) ++ h_pending s = sent ->
  map snd (h_log (hexec s o)) ++ h_pending (hexec s o) = sent ++ peer_msgs [o].
Proof.
  intros H. destruct o; cbn [hexec peer_msgs]; rewrite ?app_nil_r; cbn; try exact H.
  - destruct (h_reg s) as [k'|]; [destruct (Nat.eqb k k')|]; cbn; exact H.
  - rewrite app_assoc, H. reflexivity.
  - destruct (h_pending s) as [|m rest] eqn:Ep; [rewrite Ep; exact H|]. destruct (h_reg s) as [k|]; [|rewrite Ep; exact H].
    destruct (memb k (h_closed s)); [rewrite Ep; exact H|]. cbn. rewrite map_app, <- app_assoc. cbn. exact H.
Qed.

Theorem handover_conserves l : forall s sent,
  map snd (h_log s) ++ h_pending s = sent ->
  map snd (h_log (hrun l s)) ++ h_pending (hrun l s) = sent ++ peer_msgs l.
Proof.
  induction l as [|o l IH]; intros s sent H; cbn [hrun fold_left peer_msgs]; [rewrite app_nil_r; exact H|].
  fold (hrun l (hexec s o)). rewrite (IH (hexec s o) (sent ++ peer_msgs [o]) (hexec_conserves s o sent H)).
  rewrite <- app_assoc. f_equal. destruct o; reflexivity.
Qed.

Corollary handover_exactly_once_in_order l :
  map snd (h_log (hrun l h0)) ++ h_pending (hrun l h0) = peer_msgs l.
Proof. exact (handover_conserves l h0 [] eq_refl). Qed.

Ltac lenE E := let Hl := fresh in assert (Hl := f_equal (@length (nat * nat)) E); rewrite app_length in Hl; cbn in Hl; lia.

(* a batch is only ever handed to the incarnation registered at that moment, whose channel is open at that moment *)
Theorem handover_to_live_incarnation s o k m :
  h_log (hexec s o) = h_log s ++ [(k, m)] -> h_reg s = Some k /\ memb k (h_closed s) = false /\ exists rest, h_pending s = m :: rest.
Proof.
  destruct o; cbn [hexec]; try (intros E; lenE E).
  - destruct (h_reg s) as [k'|]; [destruct (Nat.eqb k0 k')|]; cbn; intros E; lenE E.
  - destruct (h_pending s) as [|m0 rest] eqn:Ep; [intros E; lenE E|].
    destruct (h_reg s) as [k0|] eqn:Er; [|intros E; lenE E].
    destruct (memb k0 (h_closed s)) eqn:Ec; [intros E; lenE E|].
    cbn. intros E. apply app_inv_head in E. inversion E; subst. split; [reflexivity|]. split; [exact Ec|]. exists rest. reflexivity.
Qed.

(* progress: whenever an open channel is registered, one attempt hands the pending batch over - whatever happened before
   (the receiver may have hit a closed channel or found none any number of times) *)
Theorem handover_progress s k m rest :
  h_reg s = Some k -> memb k (h_closed s) = false -> h_pending s = m :: rest ->
  h_log (hexec s HTry) = h_log s ++ [(k, m)] /\ h_pending (hexec s HTry) = rest.
Proof. intros Hr Hc Hp. cbn [hexec]. rewrite Hp, Hr, Hc. cbn. split; reflexivity. Qed.

(* the variant that keeps the channel it resolved once is refuted: incarnation 1's channel is closed while it is still
   registered, a batch arrives, the successor registers - and no number of further attempts ever hands the batch over *)
Definition cached_witness_prefix : list hop := [HReg 1; HClose 1; HPeer 7; HTry; HRem 1; HReg 2].
Definition hrun_cached (l : list hop) (s : hstate) : hstate := fold_left hexec_cached l s.

Theorem cached_variant_refuted n :
  let s := hrun_cached (cached_witness_prefix ++ repeat HTry n) h0 in
  h_reg s = Some 2 /\ memb 2 (h_closed s) = false /\ h_pending s = [7] /\ h_log s = [].
Proof.
  cbv zeta. unfold hrun_cached. rewrite fold_left_app.
  set (s1 := fold_left hexec_cached cached_witness_prefix h0).
  assert (E1 : s1 = {| h_reg := Some 2; h_closed := [1]; h_pending := [7]; h_log := []; h_cache := Some 1 |}) by reflexivity.
  assert (Fix : hexec_cached s1 HTry = s1) by (rewrite E1; reflexivity).
  assert (G : fold_left hexec_cached (repeat HTry n) s1 = s1).
  { induction n as [|n IH]; [reflexivity|]. cbn [repeat fold_left]. rewrite Fix. exact IH. }
  rewrite G, E1. cbn. repeat split; reflexivity.
Qed.

(* ... while the code's loop hands it over at the first attempt after the successor registered *)
Example code_hands_over :
  let s := hrun (cached_witness_prefix ++ [HTry]) h0 in h_log s = [(2, 7)] /\ h_pending s = [].
Proof. cbv zeta. split; reflexivity. Qed.
