(* Model of the intra-proxy receiver's hand-over (intraProxyStreamReceiver.recvReplicationMessages, proxy/intra_proxy_router.go):
   batches received from a peer instance for a target shard served here are put, one at a time and in order, into the
   delivery channel registered for that shard (shardManagerImpl.remoteSendChannels), which is looked up AGAIN on every
   attempt; a send on a closed channel panics, is recovered and retried; no channel registered means waiting.
   Incarnations of the shard's sender register, close and remove their channels around it.  Channel capacity is not
   modelled (a full channel only delays an attempt). *)
From Coq Require Import List Arith Bool.
Import ListNotations.

Record hstate := {
  h_reg : option nat;            (* incarnation whose channel is registered for the shard *)
  h_closed : list nat;           (* incarnations whose channel has been closed *)
  h_pending : list nat;          (* batches received from the peer, not yet handed over (head = the one being handed over) *)
  h_log : list (nat * nat);      (* (incarnation, batch) in hand-over order *)
  h_cache : option nat           (* only used by the refuted variant: the channel looked up once per batch *)
}.

Definition h0 : hstate := {| h_reg := None; h_closed := []; h_pending := []; h_log := []; h_cache := None |}.

Inductive hop :=
| HReg (k : nat)      (* SetRemoteSendChan: incarnation k registers its channel (replacing whatever was registered) *)
| HClose (k : nat)    (* incarnation k closes its channel *)
| HRem (k : nat)      (* RemoveRemoteSendChan: removed iff still k's *)
| HPeer (m : nat)     (* the peer sends batch m *)
| HTry.               (* one attempt of the hand-over loop *)

Definition memb (k : nat) (l : list nat) : bool := existsb (Nat.eqb k) l.

Definition deliver (s : hstate) (k m : nat) (rest : list nat) : hstate :=
  {| h_reg := h_reg s; h_closed := h_closed s; h_pending := rest; h_log := h_log s ++ [(k, m)]; h_cache := None |}.

(* the code: look the channel up on every attempt *)
Definition hexec (s : hstate) (o : hop) : hstate :=
  match o with
  | HReg k => {| h_reg := Some k; h_closed := h_closed s; h_pending := h_pending s; h_log := h_log s; h_cache := h_cache s |}
  | HClose k => {| h_reg := h_reg s; h_closed := k :: h_closed s; h_pending := h_pending s; h_log := h_log s; h_cache := h_cache s |}
  | HRem k => match h_reg s with
              | Some k' => if Nat.eqb k k' then {| h_reg := None; h_closed := h_closed s; h_pending := h_pending s; h_log := h_log s; h_cache := h_cache s |} else s
              | None => s
              end
  | HPeer m => {| h_reg := h_reg s; h_closed := h_closed s; h_pending := h_pending s ++ [m]; h_log := h_log s; h_cache := h_cache s |}
  | HTry => match h_pending s with
            | [] => s
            | m :: rest => match h_reg s with
                           | None => s                                             (* no channel yet: wait *)
                           | Some k => if memb k (h_closed s) then s               (* send on a closed channel: recovered, retried *)
                                       else deliver s k m rest
                           end
            end
  end.

Definition hrun (l : list hop) (s : hstate) : hstate := fold_left hexec l s.

(* a variant that resolves the channel once per batch and looks it up again only while none was found (the seeded change
   the harness was extended for): refuted below *)
Definition hexec_cached (s : hstate) (o : hop) : hstate :=
  match o with
  | HTry => match h_pending s with
            | [] => s
            | m :: rest =>
                let c := match h_cache s with Some k => Some k | None => h_reg s end in
                match c with
                | None => s
                | Some k => if memb k (h_closed s)
                            then {| h_reg := h_reg s; h_closed := h_closed s; h_pending := h_pending s; h_log := h_log s; h_cache := Some k |}
                            else deliver s k m rest
                end
            end
  | _ => hexec s o
  end.

(* what the harness observes of a scenario whose operations are all settled: per incarnation the batches it was handed *)
Definition handed (s : hstate) (k : nat) : list nat := map snd (filter (fun e => Nat.eqb (fst e) k) (h_log s)).
