From Coq Require Import List Arith Bool Lia.
From S2S Require Import Repair.Utf8.
Import ListNotations.

Lemma rune_len_bound s n : rune_len s = Some n -> 1 <= n <= 4 /\ n <= length s.
Proof.
  unfold rune_len. destruct s as [|a r]; [discriminate|].
  destruct (a <? 128); [intros E; inversion E; cbn; lia|].
  destruct (between 194 223 a).
  { destruct r as [|b r]; [discriminate|]. destruct (cont b); intros E; inversion E; cbn; lia. }
  destruct (between 224 239 a).
  { destruct r as [|b [|c r]]; try discriminate.
    match goal with |- (if ?c then _ else _) = _ -> _ => destruct c end; intros E; inversion E; cbn; lia. }
  destruct (between 240 244 a); [|discriminate].
  destruct r as [|b [|c [|d r]]]; try discriminate.
  match goal with |- (if ?c then _ else _) = _ -> _ => destruct c end; intros E; inversion E; cbn; lia.
Qed.

(* the decision only looks at the first n bytes *)
Lemma rune_len_prefix s n : rune_len s = Some n -> forall t, rune_len (firstn n s ++ t) = Some n.
Proof.
  unfold rune_len. destruct s as [|a r]; [discriminate|].
  destruct (a <? 128) eqn:E1.
  { intros E t; inversion E; subst. cbn [firstn app]. rewrite E1. reflexivity. }
  destruct (between 194 223 a) eqn:E2.
  { destruct r as [|b r]; [discriminate|]. destruct (cont b) eqn:Eb; intros E t; inversion E; subst. cbn [firstn app]. rewrite E1, E2, Eb. reflexivity. }
  destruct (between 224 239 a) eqn:E3.
  { destruct r as [|b [|c r]]; try discriminate.
    match goal with |- (if ?c then _ else _) = _ -> _ => destruct c eqn:Ec end; intros E t; inversion E; subst.
    cbn [firstn app]. rewrite E1, E2, E3, Ec. reflexivity. }
  destruct (between 240 244 a) eqn:E4; [|discriminate].
  destruct r as [|b [|c [|d r]]]; try discriminate.
  match goal with |- (if ?c then _ else _) = _ -> _ => destruct c eqn:Ec end; intros E t; inversion E; subst.
  cbn [firstn app]. rewrite E1, E2, E3, E4, Ec. reflexivity.
Qed.

Lemma firstn_is_rune s n : rune_len s = Some n -> is_rune (firstn n s).
Proof.
  intros H. unfold is_rune. pose proof (rune_len_prefix s n H []) as Hp. rewrite app_nil_r in Hp.
  rewrite Hp. f_equal. symmetry. apply firstn_length_le. apply (rune_len_bound s n H).
Qed.

Lemma is_rune_app r rest : is_rune r -> rune_len (r ++ rest) = Some (length r).
Proof.
  intros H. unfold is_rune in H. pose proof (rune_len_prefix r (length r) H rest) as Hp.
  rewrite firstn_all in Hp. exact Hp.
Qed.

Lemma is_rune_nonempty r : is_rune r -> r <> [].
Proof. intros H E. subst. discriminate H. Qed.

Lemma replacement_is_rune : is_rune replacement.
Proof. reflexivity. Qed.

(* ---------- the output is always valid ---------- *)
Theorem to_valid_Valid fuel : forall s b, length s <= fuel -> Valid (to_valid fuel s b).
Proof.
  induction fuel as [|f IH]; intros s b Hl; cbn [to_valid]; [constructor|].
  destruct s as [|a r]; [constructor|].
  destruct (rune_len (a :: r)) as [n|] eqn:E.
  - destruct (rune_len_bound _ _ E) as (Hn & Hle).
    apply VRune; [apply firstn_is_rune; exact E|].
    apply IH. rewrite skipn_length. cbn [length] in *. lia.
  - assert (Hr : Valid (to_valid f r true)) by (apply IH; cbn [length] in Hl; lia).
    destruct b; cbn [app]; [exact Hr|].
    change (replacement ++ to_valid f r true) with (replacement ++ to_valid f r true).
    apply VRune; [exact replacement_is_rune|exact Hr].
Qed.

Theorem to_valid_utf8_valid s : Valid (to_valid_utf8 s).
Proof. apply to_valid_Valid. lia. Qed.

(* ---------- valid input comes out unchanged ---------- *)
Theorem to_valid_id s : Valid s -> forall fuel b, length s <= fuel -> to_valid fuel s b = s.
Proof.
  induction 1 as [|r rest Hr Hv IH]; intros fuel b Hl.
  - destruct fuel; reflexivity.
  - pose proof (is_rune_nonempty r Hr) as Hne.
    destruct fuel as [|f]; [rewrite app_length in Hl; destruct r; [contradiction|cbn in Hl; lia]|].
    assert (Hlr : length rest <= f) by (rewrite app_length in Hl; destruct r; [contradiction|cbn in Hl; lia]).
    cbn [to_valid]. destruct (r ++ rest) as [|a l] eqn:Eapp; [destruct r; [contradiction|discriminate]|].
    rewrite <- Eapp. rewrite (is_rune_app r rest Hr).
    rewrite firstn_app, firstn_all, Nat.sub_diag, firstn_O, app_nil_r.
    rewrite skipn_app, skipn_all, Nat.sub_diag, skipn_O. cbn [app].
    f_equal. apply IH. exact Hlr.
Qed.

Theorem to_valid_utf8_id_on_valid s : Valid s -> to_valid_utf8 s = s.
Proof. intros H. apply to_valid_id; [exact H|lia]. Qed.

(* a string is left unchanged exactly when it is valid *)
Theorem to_valid_utf8_fixpoint_iff s : to_valid_utf8 s = s <-> Valid s.
Proof. split; [intros E; rewrite <- E; apply to_valid_utf8_valid|apply to_valid_utf8_id_on_valid]. Qed.

(* ---------- the boolean validity test ---------- *)
Lemma validb_Valid fuel : forall s, length s <= fuel -> validb fuel s = true -> Valid s.
Proof.
  induction fuel as [|f IH]; intros s Hl H; cbn [validb] in H.
  - destruct s; [constructor|discriminate].
  - destruct s as [|a r]; [constructor|].
    destruct (rune_len (a :: r)) as [n|] eqn:E; [|discriminate].
    destruct (rune_len_bound _ _ E) as (Hn & Hle).
    rewrite <- (firstn_skipn n (a :: r)). apply VRune; [apply firstn_is_rune; exact E|].
    apply IH; [rewrite skipn_length; cbn [length] in *; lia|exact H].
Qed.

Lemma Valid_validb s : Valid s -> forall fuel, length s <= fuel -> validb fuel s = true.
Proof.
  induction 1 as [|r rest Hr Hv IH]; intros fuel Hl.
  - destruct fuel; reflexivity.
  - pose proof (is_rune_nonempty r Hr) as Hne.
    destruct fuel as [|f]; [rewrite app_length in Hl; destruct r; [contradiction|cbn in Hl; lia]|].
    assert (Hlr : length rest <= f) by (rewrite app_length in Hl; destruct r; [contradiction|cbn in Hl; lia]).
    cbn [validb]. destruct (r ++ rest) as [|a l] eqn:Eapp; [reflexivity|].
    rewrite <- Eapp. rewrite (is_rune_app r rest Hr).
    rewrite skipn_app, skipn_all, Nat.sub_diag, skipn_O. cbn [app].
    apply IH. exact Hlr.
Qed.

Theorem valid_utf8_spec s : valid_utf8 s = true <-> Valid s.
Proof. split; [apply validb_Valid; lia|intros H; apply Valid_validb; [exact H|lia]]. Qed.

(* ---------- the chain of causes ---------- *)
Theorem repair_chain_within_depth chain :
  length chain <= max_depth ->
  let '(out, changed, err) := repair_chain chain in
  err = false
  /\ out = map to_valid_utf8 chain
  /\ Forall Valid out
  /\ (changed = false <-> Forall Valid chain)
  /\ (Forall Valid chain -> out = chain).
Proof.
  intros Hl. unfold repair_chain.
  rewrite firstn_all2 by exact Hl. rewrite skipn_all2 by exact Hl. rewrite app_nil_r.
  split; [apply Nat.ltb_ge; exact Hl|]. split; [reflexivity|]. split; [|split].
  - apply Forall_forall. intros m Hin. apply in_map_iff in Hin. destruct Hin as (x & <- & _). apply to_valid_utf8_valid.
  - split.
    + intros He. apply Forall_forall. intros m Hin.
      destruct (valid_utf8 m) eqn:Ev; [apply valid_utf8_spec; exact Ev|].
      assert (existsb (fun m => negb (valid_utf8 m)) chain = true) by (apply existsb_exists; exists m; rewrite Ev; auto).
      congruence.
    + intros Hall. destruct (existsb (fun m => negb (valid_utf8 m)) chain) eqn:E; [|reflexivity].
      apply existsb_exists in E. destruct E as (m & Hin & Hn). rewrite Forall_forall in Hall.
      specialize (Hall m Hin). apply valid_utf8_spec in Hall. rewrite Hall in Hn. discriminate.
  - intros Hall. rewrite <- (map_id chain) at 2. apply map_ext_in. intros m Hin.
    apply to_valid_utf8_id_on_valid. rewrite Forall_forall in Hall. auto.
Qed.

Theorem repair_chain_too_deep chain :
  max_depth < length chain -> let '(_, _, err) := repair_chain chain in err = true.
Proof. intros Hl. unfold repair_chain. apply Nat.ltb_lt. exact Hl. Qed.

(* examples: one replacement per maximal invalid run; valid multi-byte text untouched; a truncated 4-byte rune (3 bytes) *)
Example run_collapses : to_valid_utf8 [97; 255; 254; 98] = [97; 239; 191; 189; 98].
Proof. reflexivity. Qed.
Example truncated_emoji : to_valid_utf8 [240; 159; 152] = [239; 191; 189].
Proof. reflexivity. Qed.
Example valid_text_untouched : to_valid_utf8 [104; 195; 169; 226; 130; 172; 240; 159; 152; 128] = [104; 195; 169; 226; 130; 172; 240; 159; 152; 128].
Proof. reflexivity. Qed.
