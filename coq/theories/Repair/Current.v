(* Certificate on the model regenerated from the current sources. *)
From Coq Require Import List PArith Bool.
From S2S Require Import Schema.Check Repair.Cover.
From S2SGen Require Import Repair_gen.
Lemma current_all_covered : all_covered gen_repair = true.
Proof. vm_compute. reflexivity. Qed.
