(* Byte-level model of Go's UTF-8 validity (unicode/utf8) and of strings.ToValidUTF8(s, "�"),
   and of repairInvalidUTF8InFailure's walk over a chain of causes (proto/compat/repair_utf8.go). *)
From Coq Require Import List Arith Bool Lia.
Import ListNotations.

Definition byte := nat.
Definition between (lo hi b : nat) : bool := (lo <=? b) && (b <=? hi).
Definition cont (b : nat) : bool := between 128 191 b.

(* length of the valid rune encoding at the head of s, if there is one (utf8.DecodeRune's accept ranges) *)
Definition rune_len (s : list byte) : option nat :=
  match s with
  | [] => None
  | a :: r =>
      if a <? 128 then Some 1
      else if between 194 223 a then
        match r with b :: _ => if cont b then Some 2 else None | _ => None end
      else if between 224 239 a then
        match r with
        | b :: c :: _ =>
            if (if a =? 224 then between 160 191 b else if a =? 237 then between 128 159 b else cont b) && cont c
            then Some 3 else None
        | _ => None
        end
      else if between 240 244 a then
        match r with
        | b :: c :: d :: _ =>
            if (if a =? 240 then between 144 191 b else if a =? 244 then between 128 143 b else cont b) && cont c && cont d
            then Some 4 else None
        | _ => None
        end
      else None
  end.

Definition replacement : list byte := [239; 191; 189].   (* U+FFFD *)

(* strings.ToValidUTF8: valid runes are copied, every maximal run of invalid bytes becomes ONE replacement *)
Fixpoint to_valid (fuel : nat) (s : list byte) (in_invalid : bool) : list byte :=
  match fuel with
  | O => []
  | S f =>
      match s with
      | [] => []
      | _ :: rest =>
          match rune_len s with
          | Some n => firstn n s ++ to_valid f (skipn n s) false
          | None => (if in_invalid then [] else replacement) ++ to_valid f rest true
          end
      end
  end.
Definition to_valid_utf8 (s : list byte) : list byte := to_valid (length s) s false.

(* a string is valid UTF-8 iff it is a concatenation of valid rune encodings *)
Definition is_rune (r : list byte) : Prop := rune_len r = Some (length r).
Inductive Valid : list byte -> Prop :=
| VNil : Valid []
| VRune r rest : is_rune r -> Valid rest -> Valid (r ++ rest).

Fixpoint validb (fuel : nat) (s : list byte) : bool :=
  match fuel with
  | O => match s with [] => true | _ => false end
  | S f => match s with
           | [] => true
           | _ => match rune_len s with Some n => validb f (skipn n s) | None => false end
           end
  end.
Definition valid_utf8 (s : list byte) : bool := validb (length s) s.

(* ---------- the chain of causes ---------- *)
Definition max_depth : nat := 10.

Fixpoint list_beq (a b : list byte) : bool :=
  match a, b with
  | [], [] => true
  | x :: a', y :: b' => (x =? y) && list_beq a' b'
  | _, _ => false
  end.

(* messages of a failure and its causes, outermost first.  Result: the chain after the repair, whether anything
   changed, whether an error is returned (chain deeper than the supported depth). The first [max_depth] messages are
   repaired in place even when the error is returned. *)
Definition repair_chain (chain : list (list byte)) : list (list byte) * bool * bool :=
  let head := firstn max_depth chain in
  (map to_valid_utf8 head ++ skipn max_depth chain,
   existsb (fun m => negb (valid_utf8 m)) head,
   max_depth <? length chain).
