(* C18: does the generated visitor RepairInvalidUTF8 (read back from its source as a set of access paths per root type)
   reach every place of the legacy (1.22) schema where a failure message can occur?  The schema and the access paths
   are regenerated from /repo on every run (coq/generated/Repair_gen.v). *)
From Coq Require Import List PArith Bool.
From S2S Require Import Schema.Check.
Import ListNotations.

Inductive pstep :=
| SGet (f : positive)                         (* y := x.GetF() *)
| SRange (f : positive)                       (* for _, y := range x.GetF()  (repeated field or map values) *)
| SOneof (f w wf : positive).                 (* switch o := x.GetF().(type) { case *W: y := o.WF } *)

Definition pstep_eqb (a b : pstep) : bool :=
  match a, b with
  | SGet f, SGet g | SRange f, SRange g => Pos.eqb f g
  | SOneof f w wf, SOneof g v vf => Pos.eqb f g && Pos.eqb w v && Pos.eqb wf vf
  | _, _ => false
  end.

Fixpoint path_eqb (p q : list pstep) : bool :=
  match p, q with
  | [], [] => true
  | a :: p', b :: q' => pstep_eqb a b && path_eqb p' q'
  | _, _ => false
  end.

Record repair_model := {
  rm_types : list tydef;                              (* legacy struct graph *)
  rm_roots : list positive;                           (* every legacy type the conversion tables produce *)
  rm_failure : positive;                              (* failure.Failure *)
  rm_ir : list (positive * list (list pstep))         (* visitor: root type -> access paths ending in a repair call *)
}.

Fixpoint ir_of (ir : list (positive * list (list pstep))) (t : positive) : list (list pstep) :=
  match ir with [] => [] | (r, ps) :: rest => if Pos.eqb r t then ps else ir_of rest t end.

(* every structural path from [t] to a failure message: through message fields, repeated fields, map values and oneof
   alternatives; a type is not revisited on one path (recursion bounded); the path stops at the first Failure (its chain
   of causes is handled inside repairInvalidUTF8InFailure) *)
Fixpoint paths (fuel : nat) (m : repair_model) (visited : list positive) (t : positive) : list (list pstep) :=
  if Pos.eqb t (rm_failure m) then [[]]
  else match fuel with
       | O => []
       | S fu =>
           if pmem t visited then []
           else match lookup (rm_types m) t with
                | None => []
                | Some td =>
                    flat_map (fun fld =>
                      match f_kind fld with
                      | KMsg u => map (cons (SGet (f_go fld))) (paths fu m (t :: visited) u)
                      | KListMsg u | KMapMsg u => map (cons (SRange (f_go fld))) (paths fu m (t :: visited) u)
                      | KOneof alts =>
                          flat_map (fun w =>
                            match lookup (rm_types m) w with
                            | Some wd =>
                                match t_fields wd with
                                | [wf] => match f_kind wf with
                                          | KMsg u => map (cons (SOneof (f_go fld) w (f_go wf))) (paths fu m (t :: visited) u)
                                          | _ => []
                                          end
                                | _ => []
                                end
                            | None => []
                            end) alts
                      | _ => []
                      end) (t_fields td)
                end
       end.

Definition required (m : repair_model) (root : positive) : list (list pstep) :=
  paths (S (length (rm_types m))) m [] root.

Definition covers (m : repair_model) (root : positive) : bool :=
  forallb (fun p => existsb (path_eqb p) (ir_of (rm_ir m) root)) (required m root).

Definition all_covered (m : repair_model) : bool := forallb (covers m) (rm_roots m).

(* ---------- lifting ---------- *)
Lemma pstep_eqb_eq a b : pstep_eqb a b = true -> a = b.
Proof.
  destruct a, b; cbn; intros H; try discriminate.
  - apply Pos.eqb_eq in H. subst. reflexivity.
  - apply Pos.eqb_eq in H. subst. reflexivity.
  - apply andb_prop in H. destruct H as [H H3]. apply andb_prop in H. destruct H as [H1 H2].
    apply Pos.eqb_eq in H1, H2, H3. subst. reflexivity.
Qed.

Lemma path_eqb_eq p : forall q, path_eqb p q = true -> p = q.
Proof.
  induction p as [|a p IH]; intros [|b q] H; cbn in H; try discriminate; [reflexivity|].
  apply andb_prop in H. destruct H as [H1 H2]. apply pstep_eqb_eq in H1. apply IH in H2. subst. reflexivity.
Qed.

(* every required path of every root is one of the visitor's access paths *)
Theorem all_covered_spec (m : repair_model) :
  all_covered m = true ->
  forall root p, In root (rm_roots m) -> In p (required m root) -> In p (ir_of (rm_ir m) root).
Proof.
  intros H root p Hr Hp. unfold all_covered in H. rewrite forallb_forall in H. specialize (H root Hr).
  unfold covers in H. rewrite forallb_forall in H. specialize (H p Hp).
  apply existsb_exists in H. destruct H as (q & Hq & He). apply path_eqb_eq in He. subst. exact Hq.
Qed.
