(* Two's-complement wrap of Go's fixed-width integers. *)
From Coq Require Import ZArith Lia.
Open Scope Z_scope.

Definition wrap32 (z : Z) : Z := (z + 2147483648) mod 4294967296 - 2147483648.
Definition min_int32 : Z := -2147483648.
Definition max_int32 : Z := 2147483647.
Definition is_int32 (z : Z) : Prop := min_int32 <= z <= max_int32.

Lemma wrap32_range z : is_int32 (wrap32 z).
Proof.
  unfold is_int32, wrap32, min_int32, max_int32.
  pose proof (Z.mod_pos_bound (z + 2147483648) 4294967296 ltac:(lia)). lia.
Qed.

Lemma wrap32_id z : is_int32 z -> wrap32 z = z.
Proof.
  unfold is_int32, wrap32, min_int32, max_int32. intros H.
  rewrite Z.mod_small by lia. lia.
Qed.

Lemma wrap32_add_l a b : wrap32 (wrap32 a + b) = wrap32 (a + b).
Proof.
  unfold wrap32.
  replace ((a + 2147483648) mod 4294967296 - 2147483648 + b + 2147483648)
    with ((a + 2147483648) mod 4294967296 + b) by lia.
  rewrite Zplus_mod_idemp_l. f_equal. f_equal. lia.
Qed.

Lemma wrap32_0 : wrap32 0 = 0.
Proof. reflexivity. Qed.
