(* Small list / arithmetic helpers shared by the models' proofs. *)
From Coq Require Import List Arith ZArith Lia Bool.
Import ListNotations.

Fixpoint set_nth {A} (n : nat) (x : A) (l : list A) : list A :=
  match l, n with
  | [], _ => []
  | _ :: t, O => x :: t
  | h :: t, S n' => h :: set_nth n' x t
  end.

Lemma set_nth_length {A} n (x : A) l : length (set_nth n x l) = length l.
Proof. revert n; induction l as [|h t IH]; intros [|n]; simpl; auto. Qed.

Lemma nth_set_nth_same {A} n (x d : A) l : n < length l -> nth n (set_nth n x l) d = x.
Proof. revert n; induction l as [|h t IH]; intros [|n] H; simpl in *; try lia; auto; apply IH; lia. Qed.

Lemma nth_set_nth_other {A} n m (x d : A) l : n <> m -> nth m (set_nth n x l) d = nth m l d.
Proof.
  revert n m; induction l as [|h t IH]; intros [|n] [|m] H; simpl; auto; try lia;
  try (apply IH; lia).
Qed.

Lemma map_nth_seq {A} (l : list A) d : map (fun i => nth i l d) (seq 0 (length l)) = l.
Proof.
  induction l as [|h t IH]; simpl; auto.
  f_equal. rewrite <- seq_shift, map_map. exact IH.
Qed.

Lemma map_ext_seq {A} (f g : nat -> A) s n :
  (forall i, s <= i < s + n -> f i = g i) -> map f (seq s n) = map g (seq s n).
Proof.
  intros H. apply map_ext_in. intros i Hi. apply in_seq in Hi. apply H; lia.
Qed.

Lemma mod_small_or_sub x c : 0 < c -> x < 2 * c -> x mod c = if x <? c then x else x - c.
Proof.
  intros Hc Hx. destruct (Nat.ltb_spec x c) as [Hlt|Hge].
  - apply Nat.mod_small; lia.
  - replace x with ((x - c) + 1 * c) at 1 by lia.
    rewrite Nat.mod_add by lia. apply Nat.mod_small; lia.
Qed.

Lemma nth_app_l {A} i (l1 l2 : list A) d : i < length l1 -> nth i (l1 ++ l2) d = nth i l1 d.
Proof. intros; apply app_nth1; auto. Qed.

Lemma seq_S_end s n : seq s (S n) = seq s n ++ [s + n].
Proof. apply seq_S. Qed.

Lemma skipn_map {A B} (f : A -> B) n l : skipn n (map f l) = map f (skipn n l).
Proof. revert l; induction n as [|n IH]; intros [|h t]; simpl; auto. Qed.

Lemma skipn_seq k s n : skipn k (seq s n) = seq (s + k) (n - k).
Proof.
  revert s n; induction k as [|k IH]; intros s n; simpl.
  - rewrite Nat.add_0_r, Nat.sub_0_r; auto.
  - destruct n as [|n]; simpl; auto. rewrite IH. f_equal; lia.
Qed.

Lemma firstn_map {A B} (f : A -> B) n l : firstn n (map f l) = map f (firstn n l).
Proof. revert l; induction n as [|n IH]; intros [|h t]; simpl; auto. f_equal; auto. Qed.

Lemma map_seq_shift {A} (f : nat -> A) k s n :
  map f (seq (s + k) n) = map (fun i => f (i + k)) (seq s n).
Proof.
  revert s; induction n as [|n IH]; intros s; simpl; auto.
  f_equal. apply (IH (S s)).
Qed.
