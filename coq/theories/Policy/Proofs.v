From Coq Require Import List String Bool.
From S2S Require Import Policy.Model.
Import ListNotations.
Open Scope string_scope.

Lemma mem_In n l : mem n l = true <-> In n l.
Proof.
  unfold mem. rewrite existsb_exists. split.
  - intros (x & Hin & He). apply String.eqb_eq in He. subst. exact Hin.
  - intros Hin. exists n. split; [exact Hin|apply String.eqb_refl].
Qed.

Lemma is_allowed_spec l n : is_allowed l n = true <-> (l = [] \/ In n l).
Proof.
  unfold is_allowed. destruct l as [|a t].
  - split; [left; reflexivity|reflexivity].
  - rewrite mem_In. split; [right; assumption|intros [H|H]; [discriminate|assumption]].
Qed.

(* under a policy whose allow-list is not empty, an admin method outside the list never reaches the handler,
   unary or streaming, whatever the request contains *)
Theorem admin_outside_list_denied p c names :
  c_service c = Admin -> p_methods p <> [] -> ~ In (c_name c) (p_methods p) ->
  forwarded (Some p) c names = false.
Proof.
  intros Hs Hne Hnin. unfold forwarded, acl_stream, acl_unary. rewrite Hs.
  assert (Hd : is_allowed (p_methods p) (c_name c) = false).
  { destruct (is_allowed (p_methods p) (c_name c)) eqn:E; [|reflexivity].
    apply is_allowed_spec in E. destruct E; contradiction. }
  rewrite Hd. destruct (c_stream c); reflexivity.
Qed.

(* namespace registration and deprecation are refused under ANY policy, even one with empty lists *)
Theorem registration_always_denied p c names :
  c_service c = Workflow -> c_stream c = false -> In (c_name c) deny_list ->
  forwarded (Some p) c names = false.
Proof.
  intros Hs Hst Hin. unfold forwarded, acl_unary. rewrite Hst, Hs.
  apply mem_In in Hin. rewrite Hin. reflexivity.
Qed.

(* allowed methods are forwarded (when the namespace check passes) *)
Theorem allowed_admin_forwarded p c names :
  c_service c = Admin -> (p_methods p = [] \/ In (c_name c) (p_methods p)) ->
  (forall n, In n names -> p_namespaces p = [] \/ In n (p_namespaces p)) ->
  forwarded (Some p) c names = true.
Proof.
  intros Hs Hal Hns. unfold forwarded, acl_stream, acl_unary. rewrite Hs.
  assert (Ha : is_allowed (p_methods p) (c_name c) = true) by (apply is_allowed_spec; exact Hal).
  rewrite Ha. destruct (c_stream c); [reflexivity|]. cbn [andb].
  apply forallb_forall. intros n Hin. apply is_allowed_spec. apply Hns. exact Hin.
Qed.

Theorem allowed_workflow_forwarded p c names :
  c_service c = Workflow -> ~ In (c_name c) deny_list ->
  (forall n, In n names -> p_namespaces p = [] \/ In n (p_namespaces p)) ->
  forwarded (Some p) c names = true.
Proof.
  intros Hs Hnd Hns. unfold forwarded, acl_stream, acl_unary. rewrite Hs.
  destruct (c_stream c); [reflexivity|].
  assert (Hm : mem (c_name c) deny_list = false).
  { destruct (mem (c_name c) deny_list) eqn:E; [|reflexivity]. apply mem_In in E. contradiction. }
  rewrite Hm. cbn [negb andb].
  apply forallb_forall. intros n Hin. apply is_allowed_spec. apply Hns. exact Hin.
Qed.

Theorem no_policy_forwards_everything c names : forwarded None c names = true.
Proof. reflexivity. Qed.

(* a request naming a namespace outside a non-empty allow-list is refused (unary calls of both services) *)
Theorem foreign_namespace_denied p c names n :
  c_service c <> Other -> c_stream c = false -> p_namespaces p <> [] -> In n names -> ~ In n (p_namespaces p) ->
  forwarded (Some p) c names = false.
Proof.
  intros Hs Hst Hne Hin Hnin. unfold forwarded, acl_unary. rewrite Hst.
  assert (Hf : forallb (is_allowed (p_namespaces p)) names = false).
  { destruct (forallb (is_allowed (p_namespaces p)) names) eqn:E; [|reflexivity].
    rewrite forallb_forall in E. specialize (E n Hin). apply is_allowed_spec in E. destruct E; contradiction. }
  rewrite Hf. destruct (c_service c); [| |contradiction]; apply andb_false_r.
Qed.

Example policy_example :
  let p := {| p_methods := ["DescribeCluster"]; p_namespaces := [] |} in
  forwarded (Some p) {| c_service := Admin; c_name := "DescribeCluster"; c_stream := false |} [] = true
  /\ forwarded (Some p) {| c_service := Admin; c_name := "GetShard"; c_stream := false |} [] = false
  /\ forwarded (Some p) {| c_service := Admin; c_name := "StreamWorkflowReplicationMessages"; c_stream := true |} [] = false
  /\ forwarded (Some {| p_methods := []; p_namespaces := [] |}) {| c_service := Workflow; c_name := "RegisterNamespace"; c_stream := false |} ["x"] = false.
Proof. repeat split. Qed.

(* listing namespaces returns exactly the allowed entries of the upstream response, in order *)
Theorem list_filter_exact p names n :
  In n (list_filter p names) <-> In n names /\ (p_namespaces p = [] \/ In n (p_namespaces p)).
Proof. unfold list_filter. rewrite filter_In, is_allowed_spec. reflexivity. Qed.

Fixpoint sublist {A} (l1 l2 : list A) : Prop :=
  match l1, l2 with
  | [], _ => True
  | _ :: _, [] => False
  | a :: t1, b :: t2 => (a = b /\ sublist t1 t2) \/ sublist l1 t2
  end.

Theorem list_filter_keeps_order p names : sublist (list_filter p names) names.
Proof.
  unfold list_filter. induction names as [|a t IH]; cbn; [exact I|].
  destruct (is_allowed (p_namespaces p) a); cbn.
  - left. split; [reflexivity|exact IH].
  - destruct (filter (is_allowed (p_namespaces p)) t) eqn:E; [exact I|]. right. exact IH.
Qed.
