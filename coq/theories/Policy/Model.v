(* Model of the access-control stage of the remote-facing server: interceptor/access_control.go,
   auth/access_control.go, auth/policy.go and the assembly in proxy/cluster_connection.go
   (makeServerOptions: the ACL interceptors are installed iff an aclPolicy object is configured). *)
From Coq Require Import List String Bool.
Import ListNotations.
Open Scope string_scope.

(* which prefix test a full method name passes *)
Inductive service := Admin | Workflow | Other.

Record call := { c_service : service; c_name : string; c_stream : bool }.

(* auth.workflowServiceDisallowedAPIs *)
Definition deny_list : list string := ["DeprecateNamespace"; "RegisterNamespace"].

Definition mem (n : string) (l : list string) : bool := existsb (String.eqb n) l.

(* auth.AccessControl.IsAllowed: an empty list means unrestricted *)
Definition is_allowed (l : list string) (n : string) : bool :=
  match l with [] => true | _ => mem n l end.

Record policy := { p_methods : list string; p_namespaces : list string }.

(* AccessControlInterceptor.Intercept; [names] are the namespace names the request carries (after translation) *)
Definition acl_unary (p : policy) (c : call) (names : list string) : bool :=
  match c_service c with
  | Workflow => negb (mem (c_name c) deny_list) && forallb (is_allowed (p_namespaces p)) names
  | Admin => is_allowed (p_methods p) (c_name c) && forallb (is_allowed (p_namespaces p)) names
  | Other => true
  end.

(* AccessControlInterceptor.StreamIntercept *)
Definition acl_stream (p : policy) (c : call) : bool :=
  match c_service c with
  | Admin => is_allowed (p_methods p) (c_name c)
  | _ => true
  end.

(* the assembled server: true = the call is handed to the service handler (and so forwarded to the local cluster) *)
Definition forwarded (pol : option policy) (c : call) (names : list string) : bool :=
  match pol with
  | None => true
  | Some p => if c_stream c then acl_stream p c else acl_unary p c names
  end.

(* workflowServiceProxyServer.ListNamespaces: the upstream list is filtered by the namespace allow-list, in order *)
Definition list_filter (p : policy) (names : list string) : list string := filter (is_allowed (p_namespaces p)) names.
