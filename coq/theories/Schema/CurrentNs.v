(* Certificate for the schema regenerated from the current build: evaluated by the kernel's vm. *)
From Coq Require Import List PArith Bool.
From S2S Require Import Schema.Check.
From S2SGen Require Import Schema_gen.
Lemma current_ns_ok : ns_coverage_ok gen_schema = true.
Proof. vm_compute. reflexivity. Qed.
