(* Lifting the boolean schema checks to statements about fields, for ANY schema. *)
From Coq Require Import List PArith Bool.
From S2S Require Import Schema.Check.
Import ListNotations.

Lemma tag_eqb_eq a b : tag_eqb a b = true <-> a = b.
Proof. destruct a, b; cbn; split; intros H; try discriminate; try reflexivity. Qed.

Theorem ns_coverage_fields (s : schema) :
  ns_coverage_ok s = true ->
  forall ty t f,
    In ty (all_reachable s) -> lookup (types s) ty = Some t -> In f (t_fields t) ->
    (f_tag f = GNamespace <-> walker_translates_ns s ty f = true)
    /\ (f_tag f = GEventBlob <-> walker_decodes_blob s f = true)
    /\ f_tag f <> GUnclassifiedBlob.
Proof.
  intros H ty t f Hin Hl Hf. unfold ns_coverage_ok in H.
  apply andb_prop in H. destruct H as [H _]. apply andb_prop in H. destruct H as [H _]. apply andb_prop in H. destruct H as [H _].
  rewrite forallb_forall in H. specialize (H ty Hin). unfold type_ok in H. rewrite Hl in H.
  rewrite forallb_forall in H. specialize (H f Hf).
  apply andb_prop in H. destruct H as [H _]. apply andb_prop in H. destruct H as [Hns Hb].
  unfold field_ok_ns in Hns. unfold field_ok_blob in Hb. apply andb_prop in Hb. destruct Hb as [Hb Hu].
  apply Bool.eqb_prop in Hns. apply Bool.eqb_prop in Hb.
  split; [|split].
  - rewrite Hns. symmetry. apply tag_eqb_eq.
  - rewrite Hb. symmetry. apply tag_eqb_eq.
  - intros E. rewrite E in Hu. discriminate.
Qed.

Theorem skipped_types_are_clean (s : schema) :
  ns_coverage_ok s = true ->
  forall ty t f,
    In ty (reach s (skippable s) ++ reach s (whole_skipped s)) -> lookup (types s) ty = Some t -> In f (t_fields t) ->
    f_tag f <> GNamespace /\ f_tag f <> GEventBlob.
Proof.
  intros H ty t f Hin Hl Hf. unfold ns_coverage_ok in H.
  apply andb_prop in H. destruct H as [H Hw]. apply andb_prop in H. destruct H as [H _]. apply andb_prop in H. destruct H as [_ Hs].
  assert (Hc : type_clean s ty = true).
  { apply in_app_or in Hin. destruct Hin as [Hin|Hin].
    - unfold all_clean in Hs. rewrite forallb_forall in Hs. apply Hs. exact Hin.
    - unfold all_clean in Hw. rewrite forallb_forall in Hw. apply Hw. exact Hin. }
  unfold type_clean in Hc. rewrite Hl in Hc. rewrite forallb_forall in Hc. specialize (Hc f Hf).
  apply andb_prop in Hc. destruct Hc as [Hc _]. apply andb_prop in Hc. destruct Hc as [H1 H2].
  split; intros E; rewrite E in *; discriminate.
Qed.

Theorem sa_coverage_fields (s : schema) :
  sa_coverage_ok s = true ->
  forall ty t f,
    In ty (all_reachable s) -> lookup (types s) ty = Some t -> In f (t_fields t) ->
    (f_tag f = GSAContainer <-> walker_handles_sa s f = true)
    /\ (f_tag f = GEventBlob <-> walker_decodes_blob s f = true).
Proof.
  intros H ty t f Hin Hl Hf. unfold sa_coverage_ok in H.
  rewrite forallb_forall in H. specialize (H ty Hin). unfold type_ok in H. rewrite Hl in H.
  rewrite forallb_forall in H. specialize (H f Hf).
  apply andb_prop in H. destruct H as [Hsa Hb].
  unfold field_ok_sa in Hsa. unfold field_ok_blob in Hb. apply andb_prop in Hb. destruct Hb as [Hb _].
  apply Bool.eqb_prop in Hsa. apply Bool.eqb_prop in Hb.
  split.
  - rewrite Hsa. symmetry. apply tag_eqb_eq.
  - rewrite Hb. symmetry. apply tag_eqb_eq.
Qed.

(* the walker changes a string only at a position the descriptors tag as a namespace name *)
Theorem ns_only_tagged (s : schema) :
  ns_coverage_ok s = true ->
  forall ty t f,
    In ty (all_reachable s) -> lookup (types s) ty = Some t -> In f (t_fields t) ->
    walker_translates_ns s ty f = true -> f_tag f = GNamespace.
Proof. intros H ty t f Hin Hl Hf Hw. apply (ns_coverage_fields s H ty t f Hin Hl Hf). exact Hw. Qed.
