(* Schema-level model of the reflective walkers (interceptor/reflection.go) and the checks that decide,
   for a generated schema (Go struct graph joined with the protobuf descriptors, regenerated from the build
   on every run), that the walker reaches exactly the fields the descriptors say carry namespace names,
   history-event blobs and search-attribute containers.  Strings are interned as [positive]. *)
From Coq Require Import List PArith Bool.
Import ListNotations.

Inductive kind :=
| KStr | KBytes | KScalar
| KMsg (t : positive) | KListMsg (t : positive) | KListStr | KListOther
| KMapMsg (t : positive) | KMapStr | KMapOther
| KOneof (alts : list positive)
| KInternal.                         (* unexported field of the generated struct *)

(* ground truth, from the protobuf descriptors (never from the Go tables) *)
Inductive tag := GNone | GNamespace | GEventBlob | GOtherBlob | GSAContainer | GSAOther | GUnclassifiedBlob.

Record field := { f_go : positive; f_kind : kind; f_tag : tag }.
Record tydef := { t_id : positive; t_fields : list field }.

Record schema := {
  types : list tydef;
  roots : list positive;                (* every request / response type of both services *)
  ns_names : list positive;             (* namespaceFieldNames *)
  blob_names : list positive;           (* dataBlobFieldNames *)
  sa_names : list positive;             (* searchAttributeFieldNames *)
  skippable : list positive;            (* attribute wrappers of the event types on the skip list *)
  whole_skipped : list positive;        (* root types the shortcut skips entirely *)
  ty_namespace_info : positive;         (* namespace.NamespaceInfo *)
  go_name : positive;                   (* the Go field name "Name" *)
  ty_history_event : positive;
  go_attributes : positive;             (* "Attributes" *)
  go_links : positive;                  (* "Links" *)
  ty_data_blob : positive;
  ty_search_attributes : positive;      (* common.SearchAttributes *)
  ty_payload : positive
}.

Definition pmem (x : positive) (l : list positive) : bool := existsb (Pos.eqb x) l.

Fixpoint lookup (ts : list tydef) (id : positive) : option tydef :=
  match ts with
  | [] => None
  | t :: rest => if Pos.eqb (t_id t) id then Some t else lookup rest id
  end.

Definition kind_targets (k : kind) : list positive :=
  match k with
  | KMsg t | KListMsg t | KMapMsg t => [t]
  | KOneof alts => alts
  | _ => []
  end.

Definition ty_targets (t : tydef) : list positive := flat_map (fun f => kind_targets (f_kind f)) (t_fields t).

(* reachability closure by fuel (the number of types bounds the number of rounds) *)
Fixpoint add_new (xs acc : list positive) : list positive :=
  match xs with
  | [] => acc
  | x :: rest => if pmem x acc then add_new rest acc else add_new rest (x :: acc)
  end.

Fixpoint closure (fuel : nat) (ts : list tydef) (frontier seen : list positive) : list positive :=
  match fuel with
  | O => seen
  | S f =>
      match frontier with
      | [] => seen
      | _ =>
          let next := flat_map (fun id => match lookup ts id with Some t => ty_targets t | None => [] end) frontier in
          let fresh := filter (fun x => negb (pmem x seen)) next in
          let fresh := add_new fresh [] in
          closure f ts fresh (fresh ++ seen)
      end
  end.

Definition reach (s : schema) (from : list positive) : list positive :=
  closure (S (length (types s))) (types s) from from.

(* ---------- what the walker does with a field, read off the code ---------- *)
Definition is_blob_kind (s : schema) (k : kind) : bool :=
  match k with KMsg t | KListMsg t => Pos.eqb t (ty_data_blob s) | _ => false end.

(* visitNamespace translates a string field iff its Go name is in the table (exported fields only),
   plus NamespaceInfo.Name *)
Definition walker_translates_ns (s : schema) (ty : positive) (f : field) : bool :=
  match f_kind f with
  | KStr => pmem (f_go f) (ns_names s) || (Pos.eqb ty (ty_namespace_info s) && Pos.eqb (f_go f) (go_name s))
  | _ => false
  end.

(* both visitors decode a field as history-event blobs iff its Go name is in the table and it is a DataBlob (list) *)
Definition walker_decodes_blob (s : schema) (f : field) : bool :=
  is_blob_kind s (f_kind f) && pmem (f_go f) (blob_names s).

(* visitSearchAttributes handles a field iff its Go name is in the table; it accepts *SearchAttributes and map[string]*Payload
   and fails on every other type *)
Definition sa_kind_handled (s : schema) (k : kind) : bool :=
  match k with
  | KMsg t => Pos.eqb t (ty_search_attributes s)
  | KMapMsg t => Pos.eqb t (ty_payload s)
  | _ => false
  end.
Definition walker_handles_sa (s : schema) (f : field) : bool :=
  pmem (f_go f) (sa_names s) && sa_kind_handled s (f_kind f).

Definition tag_eqb (a b : tag) : bool :=
  match a, b with
  | GNone, GNone | GNamespace, GNamespace | GEventBlob, GEventBlob | GOtherBlob, GOtherBlob
  | GSAContainer, GSAContainer | GSAOther, GSAOther | GUnclassifiedBlob, GUnclassifiedBlob => true
  | _, _ => false
  end.

(* ---------- per-field agreement between the walker and the descriptors ---------- *)
Definition field_ok_ns (s : schema) (ty : positive) (f : field) : bool :=
  Bool.eqb (walker_translates_ns s ty f) (tag_eqb (f_tag f) GNamespace).

Definition field_ok_blob (s : schema) (f : field) : bool :=
  Bool.eqb (walker_decodes_blob s f) (tag_eqb (f_tag f) GEventBlob)
  && negb (tag_eqb (f_tag f) GUnclassifiedBlob).

Definition field_ok_sa (s : schema) (f : field) : bool :=
  Bool.eqb (walker_handles_sa s f) (tag_eqb (f_tag f) GSAContainer).

(* unexported fields are protobuf bookkeeping only *)
Definition field_ok_internal (f : field) : bool :=
  match f_kind f with KInternal => tag_eqb (f_tag f) GNone | _ => true end.

Definition type_ok (s : schema) (chk : positive -> field -> bool) (id : positive) : bool :=
  match lookup (types s) id with
  | Some t => forallb (chk id) (t_fields t)
  | None => false            (* dangling reference: the schema is not closed *)
  end.

(* a set of types in which nothing carries a namespace name or an event blob *)
Definition type_clean (s : schema) (id : positive) : bool :=
  match lookup (types s) id with
  | Some t => forallb (fun f => negb (tag_eqb (f_tag f) GNamespace) && negb (tag_eqb (f_tag f) GEventBlob)
                                && negb (tag_eqb (f_tag f) GUnclassifiedBlob)) (t_fields t)
  | None => false
  end.
Definition all_clean (s : schema) (from : list positive) : bool := forallb (type_clean s) (reach s from).

(* HistoryEvent's own fields other than the attributes oneof and the links (which the shortcut inspects) *)
Definition event_shell_targets (s : schema) : list positive :=
  match lookup (types s) (ty_history_event s) with
  | Some t => flat_map (fun f => if Pos.eqb (f_go f) (go_attributes s) || Pos.eqb (f_go f) (go_links s) then [] else kind_targets (f_kind f)) (t_fields t)
  | None => []
  end.
Definition event_shell_clean (s : schema) : bool :=
  match lookup (types s) (ty_history_event s) with
  | Some t => forallb (fun f => negb (tag_eqb (f_tag f) GNamespace) && negb (tag_eqb (f_tag f) GEventBlob)) (t_fields t)
              && all_clean s (event_shell_targets s)
  | None => false
  end.

Definition all_reachable (s : schema) : list positive := reach s (roots s).

(* C12: the namespace walker reaches exactly the namespace-name fields and event blobs; shortcuts are sound *)
Definition ns_coverage_ok (s : schema) : bool :=
  forallb (type_ok s (fun ty f => field_ok_ns s ty f && field_ok_blob s f && field_ok_internal f)) (all_reachable s)
  && all_clean s (skippable s)
  && event_shell_clean s
  && all_clean s (whole_skipped s).

(* C14: the search-attribute walker reaches exactly the search-attribute containers (and the same blobs) *)
Definition sa_coverage_ok (s : schema) : bool :=
  forallb (type_ok s (fun _ f => field_ok_sa s f && field_ok_blob s f)) (all_reachable s).

(* fields that are search-attribute shaped but that the walker cannot handle (logged, forwarded untranslated) *)
Definition sa_unhandled (s : schema) : list (positive * positive) :=
  flat_map (fun id => match lookup (types s) id with
                      | Some t => flat_map (fun f => if tag_eqb (f_tag f) GSAOther then [(id, f_go f)] else []) (t_fields t)
                      | None => [] end) (all_reachable s).

(* positions (type, field) the walker translates: used to state "touches nothing else" *)
Definition ns_positions (s : schema) : list (positive * positive) :=
  flat_map (fun id => match lookup (types s) id with
                      | Some t => flat_map (fun f => if walker_translates_ns s id f then [(id, f_go f)] else []) (t_fields t)
                      | None => [] end) (all_reachable s).
