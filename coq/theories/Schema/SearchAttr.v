(* translateIndexedFields (interceptor/reflection.go) on an association list with distinct keys, and
   the string matchers built from a mapping (createStringMatcher). Keys/names are interned positives. *)
From Coq Require Import List PArith Bool.
Import ListNotations.

Definition mapping := list (positive * positive).

Fixpoint mget (k : positive) (m : mapping) : option positive :=
  match m with [] => None | (a, b) :: t => if Pos.eqb k a then Some b else mget k t end.

Definition apply (m : mapping) (k : positive) : positive := match mget k m with Some k' => k' | None => k end.

(* newIndexed[newKey or key] = value, for every entry *)
Definition rename {V} (m : mapping) (kvs : list (positive * V)) : list (positive * V) :=
  map (fun kv => (apply m (fst kv), snd kv)) kvs.

Theorem rename_values_untouched {V} m (kvs : list (positive * V)) : map snd (rename m kvs) = map snd kvs.
Proof. unfold rename. rewrite map_map. reflexivity. Qed.

Theorem rename_keys {V} m (kvs : list (positive * V)) : map fst (rename m kvs) = map (apply m) (map fst kvs).
Proof. unfold rename. rewrite !map_map. reflexivity. Qed.

Theorem rename_unmapped_key_kept {V} m (kvs : list (positive * V)) k v :
  mget k m = None -> In (k, v) kvs -> In (k, v) (rename m kvs).
Proof.
  intros Hn Hin. unfold rename. apply in_map_iff. exists (k, v). split; [|exact Hin].
  cbn. unfold apply. rewrite Hn. reflexivity.
Qed.

Theorem rename_mapped_key_renamed {V} m (kvs : list (positive * V)) k k' v :
  mget k m = Some k' -> In (k, v) kvs -> In (k', v) (rename m kvs).
Proof.
  intros Hs Hin. unfold rename. apply in_map_iff. exists (k, v). split; [|exact Hin].
  cbn. unfold apply. rewrite Hs. reflexivity.
Qed.

(* when the renamed keys do not collide, the result is again a well-formed map with as many entries: nothing is lost *)
Theorem rename_no_loss {V} m (kvs : list (positive * V)) :
  NoDup (map (apply m) (map fst kvs)) -> NoDup (map fst (rename m kvs)) /\ length (rename m kvs) = length kvs.
Proof. intros H. rewrite rename_keys. split; [exact H|]. unfold rename. apply map_length. Qed.

(* nothing but keys in the domain of the mapping changes *)
Theorem rename_only_mapped {V} m (kvs : list (positive * V)) :
  (forall k, In k (map fst kvs) -> mget k m = None) -> rename m kvs = kvs.
Proof.
  intros H. unfold rename. rewrite <- (map_id kvs) at 2. apply map_ext_in.
  intros [k v] Hin. cbn. unfold apply. rewrite (H k); [reflexivity|]. apply in_map_iff. exists (k, v). auto.
Qed.

(* ---------- inverse mappings ---------- *)
Definition inverse (m : mapping) : mapping := map (fun ab => (snd ab, fst ab)) m.

Definition functional (m : mapping) : Prop := NoDup (map fst m).
Definition injective (m : mapping) : Prop := NoDup (map snd m).

Lemma mget_In k v m : mget k m = Some v -> In (k, v) m.
Proof.
  induction m as [|[a b] t IH]; cbn; [discriminate|].
  destruct (Pos.eqb_spec k a) as [->|]; [intros E; inversion E; left; reflexivity|right; auto].
Qed.

Lemma In_mget k v m : functional m -> In (k, v) m -> mget k m = Some v.
Proof.
  unfold functional. induction m as [|[a b] t IH]; cbn; intros Hnd Hin; [destruct Hin|].
  inversion Hnd as [|? ? Hnin Hnd']; subst.
  destruct Hin as [E|Hin].
  - inversion E; subst. rewrite Pos.eqb_refl. reflexivity.
  - destruct (Pos.eqb_spec k a) as [->|]; [|auto].
    exfalso. apply Hnin. apply in_map_iff. exists (a, v). auto.
Qed.

Lemma inverse_functional m : injective m -> functional (inverse m).
Proof. unfold injective, functional, inverse. rewrite map_map. cbn. intros H; exact H. Qed.

(* a name that is mapped comes back through the inverse *)
Theorem apply_inverse_mapped m k :
  functional m -> injective m -> (exists k', mget k m = Some k') -> apply (inverse m) (apply m k) = k.
Proof.
  intros Hf Hi [k' Hk]. unfold apply at 2. rewrite Hk.
  assert (Hin : In (k', k) (inverse m)).
  { unfold inverse. apply in_map_iff. exists (k, k'). split; [reflexivity|apply mget_In; exact Hk]. }
  unfold apply. rewrite (In_mget k' k (inverse m) (inverse_functional m Hi) Hin). reflexivity.
Qed.

(* a name that is not mapped and is not the target of any mapping is left alone both ways *)
Theorem apply_inverse_unmapped m k :
  mget k m = None -> mget k (inverse m) = None -> apply (inverse m) (apply m k) = k.
Proof. intros H1 H2. unfold apply. rewrite H1, H2. reflexivity. Qed.

(* the side condition is necessary: an unmapped name equal to a mapping target comes back renamed *)
Example round_trip_needs_side_condition :
  let m := [(1, 2)]%positive in apply (inverse m) (apply m 2%positive) = 1%positive.
Proof. reflexivity. Qed.

(* chains a->b, b->c are one-to-one and round-trip on mapped names *)
Example chain_round_trip :
  let m := [(1, 2); (2, 3)]%positive in
  apply (inverse m) (apply m 1%positive) = 1%positive /\ apply (inverse m) (apply m 2%positive) = 2%positive.
Proof. split; reflexivity. Qed.

Theorem round_trip_names m :
  functional m -> injective m ->
  forall k, ((exists k', mget k m = Some k') \/ mget k (inverse m) = None) -> apply (inverse m) (apply m k) = k.
Proof.
  intros Hf Hi k [H|H]; [apply apply_inverse_mapped; assumption|].
  destruct (mget k m) as [k'|] eqn:E; [apply apply_inverse_mapped; eauto|apply apply_inverse_unmapped; assumption].
Qed.
