(* collect.NewStaticBiMap and the direction in which each server of a cluster connection translates. *)
From Coq Require Import List PArith Bool.
From S2S Require Import Schema.SearchAttr.
Import ListNotations.

Definition has_key (k : positive) (m : mapping) : bool := existsb (fun ab => Pos.eqb (fst ab) k) m.
Definition has_val (v : positive) (m : mapping) : bool := existsb (fun ab => Pos.eqb (snd ab) v) m.

(* NewStaticBiMap: insert pair by pair; a repeated key or a repeated value is a ConflictError *)
Fixpoint bimap_from (acc : mapping) (pairs : mapping) : option mapping :=
  match pairs with
  | [] => Some acc
  | (k, v) :: rest => if has_key k acc || has_val v acc then None else bimap_from (acc ++ [(k, v)]) rest
  end.
Definition new_bimap (pairs : mapping) : option mapping := bimap_from [] pairs.

Lemma has_key_In k m : has_key k m = true <-> In k (map fst m).
Proof.
  unfold has_key. rewrite existsb_exists. split.
  - intros ([a b] & Hin & He). apply Pos.eqb_eq in He. cbn in He. subst. apply in_map_iff. exists (k, b). auto.
  - intros Hin. apply in_map_iff in Hin. destruct Hin as ([a b] & E & Hin). cbn in E. subst. exists (k, b). split; [auto|apply Pos.eqb_refl].
Qed.
Lemma has_val_In v m : has_val v m = true <-> In v (map snd m).
Proof.
  unfold has_val. rewrite existsb_exists. split.
  - intros ([a b] & Hin & He). apply Pos.eqb_eq in He. cbn in He. subst. apply in_map_iff. exists (a, v). auto.
  - intros Hin. apply in_map_iff in Hin. destruct Hin as ([a b] & E & Hin). cbn in E. subst. exists (a, v). split; [auto|apply Pos.eqb_refl].
Qed.

Lemma NoDup_app_single {A} (l : list A) x : NoDup l -> ~ In x l -> NoDup (l ++ [x]).
Proof.
  induction l as [|a t IH]; cbn; intros Hnd Hnin; [constructor; [intros []|constructor]|].
  inversion Hnd; subst. constructor.
  - rewrite in_app_iff. cbn. intros [H|[H|[]]]; [contradiction|subst; apply Hnin; left; reflexivity].
  - apply IH; [assumption|]. intros H; apply Hnin; right; exact H.
Qed.

Lemma bimap_from_spec pairs : forall acc,
  functional acc -> injective acc ->
  match bimap_from acc pairs with
  | Some m => m = acc ++ pairs /\ functional m /\ injective m
  | None => ~ (functional (acc ++ pairs) /\ injective (acc ++ pairs))
  end.
Proof.
  induction pairs as [|[k v] rest IH]; intros acc Hf Hi; cbn [bimap_from].
  - rewrite app_nil_r. auto.
  - destruct (has_key k acc) eqn:Ek; cbn [orb].
    + apply has_key_In in Ek. intros [Hf' _]. unfold functional in Hf'. rewrite map_app in Hf'. cbn in Hf'.
      apply NoDup_remove_2 in Hf'. apply Hf'. apply in_or_app. left. exact Ek.
    + destruct (has_val v acc) eqn:Ev.
      * apply has_val_In in Ev. intros [_ Hi']. unfold injective in Hi'. rewrite map_app in Hi'. cbn in Hi'.
        apply NoDup_remove_2 in Hi'. apply Hi'. apply in_or_app. left. exact Ev.
      * assert (Hk : ~ In k (map fst acc)) by (intros H; apply has_key_In in H; congruence).
        assert (Hv : ~ In v (map snd acc)) by (intros H; apply has_val_In in H; congruence).
        assert (Hf2 : functional (acc ++ [(k, v)])) by (unfold functional; rewrite map_app; cbn; apply NoDup_app_single; assumption).
        assert (Hi2 : injective (acc ++ [(k, v)])) by (unfold injective; rewrite map_app; cbn; apply NoDup_app_single; assumption).
        specialize (IH _ Hf2 Hi2). rewrite <- app_assoc in IH. cbn in IH. exact IH.
Qed.

(* accepted iff the mapping list is one-to-one; then it is stored as given *)
Theorem new_bimap_spec pairs :
  match new_bimap pairs with
  | Some m => m = pairs /\ functional m /\ injective m
  | None => ~ (functional pairs /\ injective pairs)
  end.
Proof. apply (bimap_from_spec pairs []); constructor. Qed.

(* the two directions are mutually inverse lookups *)
Theorem bimap_inverse_lookup m k v :
  functional m -> injective m -> (mget k m = Some v <-> mget v (inverse m) = Some k).
Proof.
  intros Hf Hi. split; intros H.
  - apply mget_In in H. apply In_mget; [apply inverse_functional; exact Hi|].
    unfold inverse. apply in_map_iff. exists (k, v). split; [reflexivity|exact H].
  - apply mget_In in H. unfold inverse in H. apply in_map_iff in H. destruct H as ([a b] & E & Hin).
    cbn in E. inversion E; subst. apply In_mget; assumption.
Qed.

(* ---------- direction rules (proxy/cluster_connection.go) ---------- *)
(* the configuration lists pairs (local, remote); a server translates requests with [req] and responses with [resp] *)
Record translator := { tr_req : mapping; tr_resp : mapping }.
Definition inbound_translator (local_to_remote : mapping) : translator :=    (* remote -> proxy -> local cluster *)
  {| tr_req := inverse local_to_remote; tr_resp := local_to_remote |}.
Definition outbound_translator (local_to_remote : mapping) : translator :=   (* local -> proxy -> remote cluster *)
  {| tr_req := local_to_remote; tr_resp := inverse local_to_remote |}.

(* a request entering from the remote side with a remote name reaches the local cluster with the local name, and the
   response's local name goes back as the remote name: the round trip restores the original *)
Theorem direction_round_trip m :
  functional m -> injective m ->
  forall l r, mget l m = Some r ->
    apply (tr_req (inbound_translator m)) r = l /\ apply (tr_resp (inbound_translator m)) l = r
    /\ apply (tr_req (outbound_translator m)) l = r /\ apply (tr_resp (outbound_translator m)) r = l.
Proof.
  intros Hf Hi l r H. cbn.
  assert (Hinv : mget r (inverse m) = Some l) by (apply (proj1 (bimap_inverse_lookup m l r Hf Hi)); exact H).
  unfold apply. rewrite H, Hinv. auto.
Qed.
