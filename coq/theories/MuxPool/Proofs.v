From Coq Require Import List Arith Bool Lia.
From S2S Require Import MuxPool.Model.
Import ListNotations.

Definition held (p : pool) : nat := match ph p with Idle | Exited => 0 | _ => 1 end.
Definition attempt_open (p : pool) : nat := match ph p with HaveConn | HaveSession => 1 | _ => 0 end.

(* permits are never created or lost while the provider runs; every open connection is a registered session or the
   attempt in progress *)
Record Inv (p : pool) : Prop := {
  i_permits : free p + held p + sessions p <= size p;
  i_exact : ph p <> Exited -> free p + held p + sessions p = size p;
  i_open : opened p = sessions p + attempt_open p
}.

Lemma init_inv n : Inv (init_pool n).
Proof. constructor; unfold held, attempt_open; cbn; intros; lia. Qed.

Theorem pstep_inv p a : Inv p -> Inv (pstep p a).
Proof.
  intros [Hperm Hex Hop]. unfold held, attempt_open in *.
  destruct a; cbn [pstep];
    destruct (ph p) eqn:Eph; try (constructor; unfold held, attempt_open; cbn; rewrite ?Eph; auto; fail);
    try (assert (Hx := Hex ltac:(discriminate)));
    repeat match goal with
           | |- context [match free p with _ => _ end] => destruct (free p) eqn:?
           | |- context [match queue p with _ => _ end] => destruct (queue p) eqn:?
           | |- context [match sessions p with _ => _ end] => destruct (sessions p) eqn:?
           | |- context [if a_cancel ?x then _ else _] => destruct (a_cancel x) eqn:?
           | |- context [if cancelled p then _ else _] => destruct (cancelled p) eqn:?
           | |- context [if a_conn_ok ?x then _ else _] => destruct (a_conn_ok x) eqn:?
           | |- context [if a_sess_ok ?x then _ else _] => destruct (a_sess_ok x) eqn:?
           | |- context [if a_ping_ok ?x then _ else _] => destruct (a_ping_ok x) eqn:?
           end;
    constructor; unfold held, attempt_open, mk, cancel_of; cbn; rewrite ?Eph; try (intros; lia); try (intros H; exfalso; apply H; reflexivity).
Qed.

Theorem run_inv l : forall p, Inv p -> Inv (run p l).
Proof. induction l as [|a l IH]; intros p H; cbn; [exact H|]. apply IH. apply pstep_inv. exact H. Qed.

Lemma pump_is_run fuel : forall p, exists l, pump fuel p = run p l.
Proof.
  induction fuel as [|f IH]; intros p; cbn [pump]; [exists []; reflexivity|].
  destruct (next_action p) as [a|]; [|exists []; reflexivity].
  destruct (IH (pstep p a)) as (l & Hl). exists (a :: l). exact Hl.
Qed.

(* C10, bound: in every reachable state the number of live sessions never exceeds the configured count *)
Theorem sessions_bounded n l : sessions (run (init_pool n) l) <= n.
Proof.
  pose proof (run_inv l _ (init_inv n)) as [H _ _].
  assert (Hs : size (run (init_pool n) l) = n).
  { clear H. unfold run. assert (G : forall p, size (fold_left pstep l p) = size p).
    { induction l as [|a l IH]; intros p; cbn [fold_left]; [reflexivity|]. rewrite IH.
      destruct a; cbn [pstep]; unfold mk; try reflexivity;
        repeat match goal with |- context [match ?x with _ => _ end] => destruct x end; reflexivity. }
    apply G. }
  rewrite Hs in H. lia.
Qed.

(* C10, every slot freed by a failed attempt or a dead session becomes usable again: while the provider runs, the
   permits add up exactly *)
Theorem permits_exact n l :
  let p := run (init_pool n) l in ph p <> Exited -> free p + held p + sessions p = size p.
Proof. intros p. apply (run_inv l _ (init_inv n)). Qed.

(* C10, self-healing: a quiescent, non-cancelled pool is either at full strength, or its provider is blocked waiting for
   the peer with a permit in hand (it will use the next successful attempt) *)
Theorem quiescent_full_or_waiting p :
  Inv p -> cancelled p = false -> next_action p = None ->
  (sessions p = size p /\ ph p = Idle) \/ (ph p = Waiting /\ queue p = [] /\ free p + 1 + sessions p = size p) \/ ph p = Exited.
Proof.
  intros [Hperm Hex Hop] Hc Hq. unfold next_action in Hq. rewrite Hc in Hq. unfold held in *.
  destruct (ph p) eqn:Eph; try discriminate.
  - destruct (free p) eqn:Ef; [|discriminate]. left. split; [|reflexivity].
    assert (Hx := Hex ltac:(discriminate)). lia.
  - destruct (queue p) eqn:Eq; [|discriminate]. right; left. assert (Hx := Hex ltac:(discriminate)). repeat split; lia.
  - right; right. reflexivity.
Qed.

(* one successful attempt offered to a waiting provider adds exactly one session *)
Theorem good_attempt_adds_session p :
  ph p = Waiting -> queue p = [] -> cancelled p = false ->
  let good := {| a_conn_ok := true; a_sess_ok := true; a_ping_ok := true; a_cancel := false |} in
  let p' := run p [Offer good; Connect; MakeSession; FirstPing] in
  sessions p' = S (sessions p) /\ ph p' = Idle /\ free p' = free p.
Proof.
  intros Hph Hq Hc. unfold run. cbn [fold_left].
  assert (E1 : pstep p (Offer {| a_conn_ok := true; a_sess_ok := true; a_ping_ok := true; a_cancel := false |})
               = mk p (free p) Waiting (sessions p) (opened p) [{| a_conn_ok := true; a_sess_ok := true; a_ping_ok := true; a_cancel := false |}]).
  { cbn [pstep]. rewrite Hph, Hq. reflexivity. }
  rewrite E1. unfold mk. cbn. rewrite Hc. cbn. auto.
Qed.

(* C10, shutdown: once the lifetime has ended and the pool is quiescent, nothing is registered and nothing is open *)
Theorem shutdown_clean p :
  Inv p -> cancelled p = true -> next_action p = None -> sessions p = 0 /\ opened p = 0 /\ ph p = Exited.
Proof.
  intros [Hperm Hex Hop] Hc Hq. unfold next_action in Hq. rewrite Hc in Hq. unfold attempt_open in Hop.
  destruct (ph p) eqn:Eph; try discriminate.
  - destruct (queue p); discriminate.
  - destruct (sessions p) eqn:Es; [|discriminate]. rewrite Hop. auto.
Qed.


(* ---------- self-healing under the canonical schedule ---------- *)
Definition good : attempt := {| a_conn_ok := true; a_sess_ok := true; a_ping_ok := true; a_cancel := false |}.
Definition offer_good (p : pool) : pool := pevent_step p (EOffer good).

(* a provider waiting for the peer with a permit in hand turns one good attempt into one more session, and is then either
   waiting again (one permit fewer to go) or idle with no permit left, i.e. at full strength *)
Lemma heal_one p :
  cancelled p = false -> ph p = Waiting -> queue p = [] ->
  let p' := offer_good p in
  sessions p' = S (sessions p) /\ cancelled p' = false /\ size p' = size p /\ opened p' = S (opened p) /\
  match free p with
  | O => ph p' = Idle /\ free p' = 0
  | S f => ph p' = Waiting /\ queue p' = [] /\ free p' = f
  end.
Proof.
  intros Hc Hph Hq. unfold offer_good, pevent_step. cbn [pstep].
  set (p1 := mk p (free p) (ph p) (sessions p) (opened p) (queue p ++ [good])).
  assert (Hw : work p1 = 8 + 4 * (length (queue p1) + sessions p1 + size p1)) by (unfold work; apply Nat.add_comm).
  rewrite Hw. cbn [plus]. unfold p1. rewrite Hph, Hq. cbn [app].
  cbn [pump next_action ph mk queue]. cbn [pstep ph mk queue a_cancel a_conn_ok good].
  cbn [cancelled mk]. cbn [pump next_action ph mk]. cbn [pstep ph mk queue a_sess_ok good].
  cbn [pump next_action ph mk]. cbn [pstep ph mk queue a_ping_ok good cancelled]. rewrite Hc.
  cbn [pump next_action ph mk cancelled]. rewrite Hc. cbn [free mk].
  destruct (free p) as [|f] eqn:Ef.
  - cbn. rewrite Hc. repeat split; reflexivity.
  - cbn [pump pstep ph mk free cancelled]. rewrite Hc. cbn [pump next_action ph mk queue cancelled]. rewrite Hc.
    cbn. rewrite Hc. repeat split; reflexivity.
Qed.

(* with as many good attempts as there are missing sessions, the pool is back at full strength *)
Theorem heals k : forall p,
  cancelled p = false -> ph p = Waiting -> queue p = [] -> free p = k -> free p + 1 + sessions p = size p ->
  let p' := Nat.iter (S k) offer_good p in
  sessions p' = size p /\ ph p' = Idle /\ free p' = 0 /\ cancelled p' = false.
Proof.
  induction k as [|k IH]; intros p Hc Hph Hq Hf Hex.
  - cbv zeta. change (Nat.iter 1 offer_good p) with (offer_good p). destruct (heal_one p Hc Hph Hq) as (H1 & H2 & H3 & _ & H5). rewrite Hf in H5. destruct H5 as [H5 H6].
    repeat split; try assumption. rewrite H1. lia.
  - (* one attempt first, then the induction hypothesis on the state it leaves *)
    assert (Hiter : Nat.iter (S (S k)) offer_good p = Nat.iter (S k) offer_good (offer_good p)).
    { clear. generalize (S k) as n. induction n as [|n IHn]; [reflexivity|]. change (Nat.iter (S (S n)) offer_good p) with (offer_good (Nat.iter (S n) offer_good p)). rewrite IHn. reflexivity. }
    cbv zeta. rewrite Hiter.
    destruct (heal_one p Hc Hph Hq) as (H1 & H2 & H3 & _ & H5). rewrite Hf in H5. destruct H5 as (H5 & H6 & H7).
    destruct (IH (offer_good p) H2 H5 H6 H7 ltac:(lia)) as (G1 & G2 & G3 & G4).
    repeat split; try assumption. rewrite G1. exact H3.
Qed.
