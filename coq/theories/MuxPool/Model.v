(* Model of the mux session pool: muxProvider.Start (transport/mux/provider.go), multiMuxManager.AddConnection /
   unregisterMux / onClose (multi_mux_manager.go) and session.waitAndCleanup (managed_mux_session.go).
   Actions are the branches of the provider loop and the session life-cycle; [pump] is the executable canonical schedule
   used for the correspondence with the real pool.  Sessions and connections are counted (the properties are about
   how many there are, never about which). *)
From Coq Require Import List Arith Bool.
Import ListNotations.

(* what will happen to one connection attempt (decided by the environment) *)
(* a_cancel: the lifetime ends while the establisher is completing this attempt (it is still served) *)
Record attempt := { a_conn_ok : bool; a_sess_ok : bool; a_ping_ok : bool; a_cancel : bool }.

Inductive phase :=
| Idle                       (* between attempts, no permit held *)
| Waiting                    (* permit held, blocked in connProvider.NewConnection *)
| HaveConn                   (* connection obtained *)
| HaveSession                (* yamux session created, first Ping outstanding *)
| Exited.                    (* provider goroutine returned (lifetime ended) *)

Record pool := {
  size : nat;                (* configured session count = semaphore weight *)
  free : nat;                (* permits available *)
  ph : phase;
  sessions : nat;            (* registered, live sessions *)
  opened : nat;              (* ghost: connections (with their sessions) currently open, i.e. not yet closed by the proxy *)
  queue : list attempt;      (* attempts the environment has made available *)
  cancelled : bool
}.

Definition init_pool (n : nat) : pool :=
  {| size := n; free := n; ph := Idle; sessions := 0; opened := 0; queue := []; cancelled := false |}.

Definition cancel_of (p : pool) : pool :=
  {| size := size p; free := free p; ph := ph p; sessions := sessions p; opened := opened p; queue := queue p; cancelled := true |}.

Definition mk (p : pool) (f : nat) (x : phase) (s o : nat) (q : list attempt) : pool :=
  {| size := size p; free := f; ph := x; sessions := s; opened := o; queue := q; cancelled := cancelled p |}.

Inductive action :=
| Offer (a : attempt)        (* environment: one more attempt can be served *)
| Acquire                    (* muxPermits.Acquire succeeds *)
| Connect                    (* NewConnection returns (ok or error, per the head of the queue) *)
| MakeSession                (* sessionFn *)
| FirstPing                  (* session.Ping, then AddConnection *)
| SessionEnds                (* a registered session dies (remote / local close) -> waitAndCleanup: unregister, close, AllowMoreConns *)
| Cancel                     (* the lifetime ends *)
| ProviderExit.              (* the provider notices the cancelled lifetime *)

Definition pstep (p : pool) (a : action) : pool :=
  match a with
  | Offer att => mk p (free p) (ph p) (sessions p) (opened p) (queue p ++ [att])
  | Acquire =>
      match ph p, free p with
      | Idle, S f => if cancelled p then p else mk p f Waiting (sessions p) (opened p) (queue p)
      | _, _ => p
      end
  | Connect =>
      match ph p, queue p with
      | Waiting, att :: q =>
          let p := if a_cancel att then cancel_of p else p in
          if a_conn_ok att then mk p (free p) HaveConn (sessions p) (S (opened p)) (att :: q)
          else if cancelled p then mk p (free p) Exited (sessions p) (opened p) q
          else mk p (S (free p)) Idle (sessions p) (opened p) q
      | _, _ => p
      end
  | MakeSession =>
      match ph p, queue p with
      | HaveConn, att :: q =>
          if a_sess_ok att then mk p (free p) HaveSession (sessions p) (opened p) (att :: q)
          else
            (* the connection is closed on this path ("fix:" commit for F7); the permit is returned unless shutting down *)
            if cancelled p then mk p (free p) Exited (sessions p) (pred (opened p)) q
            else mk p (S (free p)) Idle (sessions p) (pred (opened p)) q
      | _, _ => p
      end
  | FirstPing =>
      match ph p, queue p with
      | HaveSession, att :: q =>
          if a_ping_ok att then
            if cancelled p
            then mk p (free p) Exited (sessions p) (pred (opened p)) q    (* AddConnection refuses and closes (F7 fix); Acquire then fails *)
            else mk p (free p) Idle (S (sessions p)) (opened p) q          (* registered: the session keeps the permit *)
          else if cancelled p then mk p (free p) Exited (sessions p) (pred (opened p)) q
          else mk p (S (free p)) Idle (sessions p) (pred (opened p)) q
      | _, _ => p
      end
  | SessionEnds =>
      match sessions p with
      | S s => mk p (S (free p)) (ph p) s (pred (opened p)) (queue p)
      | O => p
      end
  | Cancel => cancel_of p
  | ProviderExit =>
      match ph p with
      | Idle | Waiting => if cancelled p then mk p (free p) Exited (sessions p) (opened p) (queue p) else p
      | _ => p
      end
  end.

Definition run (p : pool) (l : list action) : pool := fold_left pstep l p.

(* canonical schedule: keep the provider going while it can make progress; after cancellation close every session *)
Definition next_action (p : pool) : option action :=
  match ph p with
  | Exited => match sessions p with S _ => if cancelled p then Some SessionEnds else None | O => None end
  | Idle => if cancelled p then Some ProviderExit
            else match free p with S _ => Some Acquire | O => None end
  | Waiting => match queue p with _ :: _ => Some Connect | [] => if cancelled p then Some ProviderExit else None end
  | HaveConn => Some MakeSession
  | HaveSession => Some FirstPing
  end.

Fixpoint pump (fuel : nat) (p : pool) : pool :=
  match fuel with
  | O => p
  | S f => match next_action p with Some a => pump f (pstep p a) | None => p end
  end.

Definition work (p : pool) : nat := 4 * (length (queue p) + sessions p + size p) + 8.

(* external events of the correspondence harness *)
Inductive pevent := EOffer (a : attempt) | EKill | ECancel.

Definition pevent_step (p : pool) (e : pevent) : pool :=
  let p1 := match e with EOffer a => pstep p (Offer a) | EKill => pstep p SessionEnds | ECancel => pstep p Cancel end in
  pump (work p1) p1.

(* the provider is started at once: it takes a permit and waits for a connection *)
Definition start (n : nat) : pool := pump (work (init_pool n)) (init_pool n).

(* HasConnectionsAvailable *)
Definition can_accept (p : pool) : bool := match free p with O => false | S _ => true end.
