From Coq Require Import List Arith Bool Lia.
From S2S Require Import Mcc.Model.
Import ListNotations.

Lemma remove_In c x l : In x (remove c l) <-> In x l /\ x <> c.
Proof.
  unfold remove. rewrite filter_In. split; intros [H1 H2]; split; auto.
  - apply negb_true_iff in H2. apply Nat.eqb_neq in H2. exact H2.
  - apply negb_true_iff. apply Nat.eqb_neq. exact H2.
Qed.

Definition MInv (m : mcc) : Prop :=
  dialable m = table m /\ NoDup (table m) /\ forall x, In x (table m) -> x < next_id m.

Lemma mstep_inv m o : MInv m -> MInv (mstep m o).
Proof.
  intros (Hd & Hnd & Hlt). destruct o as [|id]; cbn [mstep].
  - split; [reflexivity|]. split.
    + cbn. clear Hd. induction (table m) as [|a t IH]; cbn.
      * constructor; [intros []|constructor].
      * inversion Hnd; subst. constructor.
        -- rewrite in_app_iff. cbn. intros [H|[H|[]]]; [contradiction|]. subst. specialize (Hlt (next_id m) (or_introl eq_refl)). lia.
        -- apply IH; [assumption|]. intros x Hx. apply Hlt. right. exact Hx.
    + cbn. intros x Hx. apply in_app_or in Hx. destruct Hx as [Hx|[<-|[]]]; [specialize (Hlt x Hx); lia|lia].
  - split; [reflexivity|]. split.
    + cbn. unfold remove. apply NoDup_filter. exact Hnd.
    + cbn. intros x Hx. apply remove_In in Hx. apply Hlt. apply Hx.
Qed.

(* C11: after any sequence of additions and removals (rapid add/remove of the same slot, the empty set included) the
   set of endpoints the client connection may dial equals the set of registered sessions *)
Theorem endpoints_eq_sessions l : MInv (mrun l).
Proof.
  unfold mrun. assert (G : forall m, MInv m -> MInv (fold_left mstep l m)).
  { induction l as [|o l IH]; intros m H; cbn; [exact H|]. apply IH. apply mstep_inv. exact H. }
  apply G. split; [reflexivity|]. split; [constructor|intros x []].
Qed.

Theorem can_call_iff_session l : can_make_calls (mrun l) = true <-> table (mrun l) <> [].
Proof.
  destruct (endpoints_eq_sessions l) as (Hd & _). unfold can_make_calls. rewrite Hd.
  destruct (table (mrun l)); split; intros H; try discriminate; try reflexivity; congruence.
Qed.

(* a removed session is no longer dialable, every other registered session still is *)
Theorem removed_not_dialable l id :
  let m := mrun (l ++ [Remove id]) in ~ In id (dialable m) /\ forall x, x <> id -> In x (table (mrun l)) -> In x (dialable m).
Proof.
  intros m. unfold m, mrun. rewrite fold_left_app. cbn [fold_left mstep dialable].
  split.
  - intros H. apply remove_In in H. destruct H as [_ H]. apply H. reflexivity.
  - intros x Hne Hin. apply remove_In. split; assumption.
Qed.

(* a new session becomes dialable with the very update that registers it *)
Theorem added_is_dialable l : let m := mrun (l ++ [Add]) in In (next_id (mrun l)) (dialable m).
Proof. intros m. unfold m, mrun. rewrite fold_left_app. cbn. apply in_or_app. right. left. reflexivity. Qed.
