(* Model of the session table of multiMuxManager and of MultiClientConn's dialable map
   (transport/mux/multi_mux_manager.go: AddConnection / unregisterMux / notifyChange under muxesLock;
    transport/grpcutil/multi_client_conn.go: OnConnectionListUpdate / UpdateState / getMapDialer / CanMakeCalls). *)
From Coq Require Import List Arith Bool.
Import ListNotations.

Record mcc := {
  table : list nat;       (* registered sessions, by id (muxIdSequencer: ids are never reused) *)
  next_id : nat;
  dialable : list nat;    (* keys of MultiClientConn.connMap = resolver endpoints *)
}.

Definition init_mcc : mcc := {| table := []; next_id := 0; dialable := [] |}.

Inductive mop := Add | Remove (id : nat).

Definition remove (c : nat) (l : list nat) : list nat := filter (fun x => negb (Nat.eqb x c)) l.

(* both operations mutate the table and call the listeners inside the same critical section: the listener copies the keys *)
Definition mstep (m : mcc) (o : mop) : mcc :=
  match o with
  | Add => let t := table m ++ [next_id m] in {| table := t; next_id := S (next_id m); dialable := t |}
  | Remove id => let t := remove id (table m) in {| table := t; next_id := next_id m; dialable := t |}
  end.

Definition mrun (l : list mop) : mcc := fold_left mstep l init_mcc.

Definition can_make_calls (m : mcc) : bool := match dialable m with [] => false | _ => true end.

(* an RPC may be served by any key of the current map; with no key it is reported unavailable *)
Definition rpc_possible (m : mcc) : bool := can_make_calls m.
