From Coq Require Import Bool List.
From S2S Require Import Tls.Model.
Import ListNotations.

Theorem server_admits_only_authenticated s c p :
  server_build s = Built c -> sh_skip s = false -> server_admits c p = true -> good_client_peer p = true.
Proof.
  destruct s as [cert ca name skip], p as [pr ch ho ti us nm]; unfold server_build, enabled; cbn.
  intros Hb Hs. subst skip.
  destruct cert, name, ca; cbn in Hb; try discriminate; inversion Hb; subst c; cbn;
    destruct pr, ch, ti, us; cbn; intros H; try discriminate; reflexivity.
Qed.

Theorem client_admits_only_authenticated_for s c p :
  client_build s = Built c -> sh_skip s = false -> client_admits c p = true -> good_server_peer_for s p = true.
Proof.
  destruct s as [cert ca name skip], p as [pr ch ho ti us nm]; unfold client_build, enabled, good_server_peer_for; cbn.
  intros Hb Hs. subst skip.
  destruct cert, name, ca; cbn in Hb; try discriminate; inversion Hb; subst c; cbn;
    destruct pr, ch, ho, ti, us, nm; cbn; intros H; try discriminate; reflexivity.
Qed.

(* with a CA file configured the anchor is that CA alone: what the host's trust store says about the server is irrelevant *)
Theorem client_admits_only_authenticated s c p :
  client_build s = Built c -> sh_skip s = false -> sh_ca s = true -> client_admits c p = true -> good_server_peer p = true.
Proof.
  intros Hb Hs Hca Ha. pose proof (client_admits_only_authenticated_for s c p Hb Hs Ha) as H.
  unfold good_server_peer_for in H. rewrite Hca in H. exact H.
Qed.

Theorem configured_ca_excludes_host_store s c p :
  client_build s = Built c -> sh_skip s = false -> sh_ca s = true -> p_chain p = false -> client_admits c p = false.
Proof.
  intros Hb Hs Hca Hch. destruct (client_admits c p) eqn:Ha; [|reflexivity].
  pose proof (client_admits_only_authenticated s c p Hb Hs Hca Ha) as H. unfold good_server_peer in H.
  rewrite Hch in H. destruct (p_presents p); discriminate.
Qed.

(* without a CA file the client falls back to the host's trust store: a server chaining to it (and only such a server) is admitted *)
Example no_ca_file_means_host_store :
  let s := {| sh_cert := false; sh_ca := false; sh_name := true; sh_skip := false |} in
  exists c, client_build s = Built c
    /\ client_admits c {| p_presents := true; p_chain := false; p_host := true; p_time := true; p_usage := true; p_name := true |} = true
    /\ client_admits c {| p_presents := true; p_chain := true; p_host := false; p_time := true; p_usage := true; p_name := true |} = false.
Proof. eexists. repeat split. Qed.

(* Explicitly disabling verification is the only way a peer that is not properly authenticated gets in. *)
Theorem only_skip_relaxes_server s c p :
  server_build s = Built c -> server_admits c p = true -> good_client_peer p = false -> sh_skip s = true.
Proof.
  intros Hb Ha Hg. destruct (sh_skip s) eqn:E; [reflexivity|].
  rewrite (server_admits_only_authenticated s c p Hb E Ha) in Hg. discriminate.
Qed.

Theorem only_skip_relaxes_client s c p :
  client_build s = Built c -> client_admits c p = true -> good_server_peer_for s p = false -> sh_skip s = true.
Proof.
  intros Hb Ha Hg. destruct (sh_skip s) eqn:E; [reflexivity|].
  rewrite (client_admits_only_authenticated_for s c p Hb E Ha) in Hg. discriminate.
Qed.

(* a verifying server cannot be built without a CA; a verifying client needs the name *)
Theorem verification_needs_ca s c : server_build s = Built c -> sh_skip s = false -> sh_ca s = true /\ sc_auth c = RequireAndVerifyClientCert /\ sc_cas c = true.
Proof.
  destruct s as [cert ca name skip]; unfold server_build, enabled; cbn. intros Hb Hs; subst skip.
  destruct cert, name, ca; cbn in Hb; try discriminate; inversion Hb; subst c; cbn; repeat split.
Qed.

(* non-vacuity: a configuration with verification on that admits the good peer and refuses the others *)
Example verifying_shape_works :
  let s := {| sh_cert := true; sh_ca := true; sh_name := true; sh_skip := false |} in
  exists c, server_build s = Built c
    /\ server_admits c {| p_presents := true; p_chain := true; p_host := false; p_time := true; p_usage := true; p_name := true |} = true
    /\ server_admits c {| p_presents := true; p_chain := false; p_host := false; p_time := true; p_usage := true; p_name := true |} = false
    /\ server_admits c {| p_presents := true; p_chain := true; p_host := false; p_time := false; p_usage := true; p_name := true |} = false
    /\ server_admits c {| p_presents := false; p_chain := false; p_host := false; p_time := false; p_usage := false; p_name := false |} = false.
Proof. eexists. repeat split. Qed.

(* the code before the "fix:" commit for F9 used RequireAnyClientCert: a self-signed client got in *)
Example require_any_admits_self_signed :
  server_admits {| sc_auth := RequireAnyClientCert; sc_cas := true; sc_has_cert := true; sc_custom_time := false; sc_hooks_reject := false |}
                {| p_presents := true; p_chain := false; p_host := false; p_time := true; p_usage := true; p_name := false |} = true.
Proof. reflexivity. Qed.
