(* Model of the TLS configuration builders (encryption/tls.go) and of the part of crypto/tls that decides
   whether a peer is admitted.  The crypto/tls table is validated on every run by real handshakes. *)
From Coq Require Import Bool List.
Import ListNotations.

(* the shape of an encryption.TLSConfig *)
Record shape := {
  sh_cert : bool;   (* CertificatePath + KeyPath set *)
  sh_ca : bool;     (* RemoteCAPath set (and readable, holding a CA certificate) *)
  sh_name : bool;   (* CAServerName set *)
  sh_skip : bool    (* SkipCAVerification *)
}.

Definition enabled (s : shape) : bool := sh_cert s || sh_name s.

Inductive client_auth := NoClientCert | RequestClientCert | RequireAnyClientCert | VerifyClientCertIfGiven | RequireAndVerifyClientCert.

Record server_cfg := {
  sc_auth : client_auth;
  sc_cas : bool;          (* ClientCAs = the configured CA *)
  sc_has_cert : bool;     (* Certificates non-empty *)
  sc_custom_time : bool;  (* Config.Time overridden *)
  sc_hooks_reject : bool  (* VerifyPeerCertificate / VerifyConnection can reject: false = they only log *)
}.

Record client_cfg := {
  cc_insecure : bool;     (* InsecureSkipVerify *)
  cc_server_name : bool;  (* ServerName = the configured name *)
  cc_roots : bool;        (* RootCAs = the configured CA (false = system roots) *)
  cc_has_cert : bool;
  cc_custom_time : bool
}.

Inductive build (A : Type) := Disabled | BuildError | Built (a : A).
Arguments Disabled {A}. Arguments BuildError {A}. Arguments Built {A} a.

(* GetServerTLSConfig *)
Definition server_build (s : shape) : build server_cfg :=
  if negb (enabled s) then Disabled
  else if negb (sh_skip s) then
    (if sh_ca s
     then Built {| sc_auth := RequireAndVerifyClientCert; sc_cas := true; sc_has_cert := sh_cert s; sc_custom_time := false; sc_hooks_reject := false |}
     else BuildError)                     (* fetchCACert fails on an empty / unreadable path *)
  else Built {| sc_auth := NoClientCert; sc_cas := false; sc_has_cert := sh_cert s; sc_custom_time := false; sc_hooks_reject := false |}.

(* GetClientTLSConfig *)
Definition client_build (s : shape) : build client_cfg :=
  if negb (enabled s) then Disabled
  else if negb (sh_skip s) && negb (sh_name s) then BuildError
  else Built {| cc_insecure := sh_skip s; cc_server_name := negb (sh_skip s); cc_roots := sh_ca s; cc_has_cert := sh_cert s; cc_custom_time := false |}.

(* what a peer offers, relative to the configuration it meets *)
Record peer := {
  p_presents : bool;   (* sends a certificate *)
  p_chain : bool;      (* it chains to the CONFIGURED CA *)
  p_host : bool;       (* it chains to a CA of the host's trust store (what crypto/x509 uses when no pool is given) *)
  p_time : bool;       (* now is inside its validity window *)
  p_usage : bool;      (* extended key usage fits the role *)
  p_name : bool        (* (servers) it is valid for the configured name *)
}.

(* the trust anchor in force: the configured CA when the pool is set from the CA file, else the host's trust store *)
Definition trusted_by (pool_is_configured_ca : bool) (p : peer) : bool :=
  if pool_is_configured_ca then p_chain p else p_host p.

Definition verified (pool_is_configured_ca : bool) (p : peer) : bool :=
  trusted_by pool_is_configured_ca p && p_time p && p_usage p.

(* crypto/tls server side *)
Definition server_admits (c : server_cfg) (p : peer) : bool :=
  sc_has_cert c &&
  match sc_auth c with
  | NoClientCert | RequestClientCert => true
  | RequireAnyClientCert => p_presents p
  | VerifyClientCertIfGiven => negb (p_presents p) || verified (sc_cas c) p
  | RequireAndVerifyClientCert => p_presents p && verified (sc_cas c) p
  end.

(* crypto/tls client side (a server always presents a certificate) *)
Definition client_admits (c : client_cfg) (p : peer) : bool :=
  p_presents p && (cc_insecure c || (verified (cc_roots c) p && cc_server_name c && p_name p)).

Definition good_client_peer (p : peer) : bool := p_presents p && p_chain p && p_time p && p_usage p.
Definition good_server_peer (p : peer) : bool := p_presents p && p_chain p && p_time p && p_usage p && p_name p.
(* the same relative to the trust anchor a client shape puts in force (no CA file: the host's trust store) *)
Definition good_server_peer_for (s : shape) (p : peer) : bool :=
  p_presents p && trusted_by (sh_ca s) p && p_time p && p_usage p && p_name p.

Definition all_shapes : list shape :=
  flat_map (fun a => flat_map (fun b => flat_map (fun c => map (fun d =>
    {| sh_cert := a; sh_ca := b; sh_name := c; sh_skip := d |}) [false; true]) [false; true]) [false; true]) [false; true].
