From Coq Require Import List ZArith Bool Lia.
From S2S Require Import Forwarder.Model.
Import ListNotations.

Fixpoint is_prefix (p l : list Z) : Prop :=
  match p, l with
  | [], _ => True
  | _ :: _, [] => False
  | a :: p', b :: l' => a = b /\ is_prefix p' l'
  end.

Lemma is_prefix_refl l : is_prefix l l.
Proof. induction l; cbn; auto. Qed.

Lemma is_prefix_app p l x : is_prefix p l -> is_prefix p (l ++ x).
Proof. revert l; induction p as [|a p IH]; intros [|b l] H; cbn in *; auto; try contradiction. destruct H; split; auto. Qed.

Lemma is_prefix_nil_inv p : is_prefix p [] -> p = [].
Proof. destruct p; cbn; [auto|contradiction]. Qed.

(* once down, always down and nothing more is relayed *)
Lemma fstep_down s e : up s = false -> fstep s e = s.
Proof. intros H. unfold fstep. rewrite H. reflexivity. Qed.

Lemma fold_down es : forall s, up s = false -> fold_left fstep es s = s.
Proof. induction es as [|e es IH]; intros s H; cbn; [reflexivity|]. rewrite fstep_down by exact H. apply IH. exact H. Qed.

(* general invariant: starting from s, what is relayed is what was there plus a prefix of what the peers send afterwards, in order *)
Lemma relay_prefix_gen es : forall s,
  exists a b, to_ini (fold_left fstep es s) = to_ini s ++ a /\ is_prefix a (all_of is_src_msg es)
           /\ to_src (fold_left fstep es s) = to_src s ++ b /\ is_prefix b (all_of is_ini_msg es).
Proof.
  induction es as [|e es IH]; intros s; cbn [fold_left all_of].
  - exists [], []. rewrite !app_nil_r. cbn. auto.
  - destruct (up s) eqn:Hup.
    2:{ rewrite fstep_down by exact Hup. rewrite fold_down by exact Hup.
        exists [], []. rewrite !app_nil_r. cbn. auto. }
    (* one step: either nothing is relayed, or exactly the message of this event is appended *)
    assert (Hstep :
      (to_ini (fstep s e) = to_ini s /\ to_src (fstep s e) = to_src s /\ (up (fstep s e) = false \/ (is_src_msg e = None /\ is_ini_msg e = None)))
      \/ (exists id, e = SrcMsg id /\ to_ini (fstep s e) = to_ini s ++ [id] /\ to_src (fstep s e) = to_src s)
      \/ (exists id, e = IniMsg id /\ to_src (fstep s e) = to_src s ++ [id] /\ to_ini (fstep s e) = to_ini s)).
    { unfold fstep. rewrite Hup. cbn [negb].
      destruct e; cbn; try (left; repeat split; auto; fail).
      - destruct (ini_send_ok s); [right; left; eexists; repeat split|left; cbn; auto].
      - destruct (src_send_ok s); [right; right; eexists; repeat split|left; cbn; auto]. }
    destruct (IH (fstep s e)) as (a & b & Ha & Hpa & Hb & Hpb).
    destruct Hstep as [(H1 & H2 & Hd)|[(id & -> & H1 & H2)|(id & -> & H1 & H2)]].
    + destruct Hd as [Hd|[Hn1 Hn2]].
      * rewrite fold_down by exact Hd. rewrite H1, H2.
        exists [], []. rewrite !app_nil_r. cbn. auto.
      * rewrite Hn1, Hn2. exists a, b. rewrite Ha, Hb, H1, H2. auto.
    + cbn [is_src_msg is_ini_msg]. exists (id :: a), b. rewrite Ha, Hb, H1, H2, <- app_assoc. cbn. auto.
    + cbn [is_src_msg is_ini_msg]. exists a, (id :: b). rewrite Ha, Hb, H1, H2, <- app_assoc. cbn. auto.
Qed.

(* C06, relay clause: for every sequence of events, what reached the initiator is a prefix - same order, same content -
   of what the source sent, and what reached the source is a prefix of what the initiator sent *)
Theorem relay_prefix es :
  is_prefix (to_ini (frun es)) (all_of is_src_msg es) /\ is_prefix (to_src (frun es)) (all_of is_ini_msg es).
Proof.
  unfold frun. destruct (relay_prefix_gen es init_fwd) as (a & b & Ha & Hpa & Hb & Hpb).
  cbn in Ha, Hb. rewrite Ha, Hb. auto.
Qed.

(* while nothing has ended or failed, everything is relayed *)
Lemma fstep_src s id : up s = true -> ini_send_ok s = true ->
  fstep s (SrcMsg id) = {| up := true; to_ini := to_ini s ++ [id]; to_src := to_src s; ini_send_ok := true; src_send_ok := src_send_ok s |}.
Proof. intros H1 H2. unfold fstep. rewrite H1, H2. reflexivity. Qed.
Lemma fstep_ini s id : up s = true -> src_send_ok s = true ->
  fstep s (IniMsg id) = {| up := true; to_ini := to_ini s; to_src := to_src s ++ [id]; ini_send_ok := ini_send_ok s; src_send_ok := true |}.
Proof. intros H1 H2. unfold fstep. rewrite H1, H2. reflexivity. Qed.

Theorem relay_complete_while_up es :
  (forall e, In e es -> exists id, e = SrcMsg id \/ e = IniMsg id) ->
  to_ini (frun es) = all_of is_src_msg es /\ to_src (frun es) = all_of is_ini_msg es /\ up (frun es) = true.
Proof.
  unfold frun. assert (G : forall s, up s = true -> ini_send_ok s = true -> src_send_ok s = true ->
    (forall e, In e es -> exists id, e = SrcMsg id \/ e = IniMsg id) ->
    to_ini (fold_left fstep es s) = to_ini s ++ all_of is_src_msg es
    /\ to_src (fold_left fstep es s) = to_src s ++ all_of is_ini_msg es /\ up (fold_left fstep es s) = true).
  { induction es as [|e es IH]; intros s Hup Hi Hs Hall; cbn [fold_left all_of].
    - rewrite !app_nil_r. auto.
    - assert (Hrest : forall e', In e' es -> exists id, e' = SrcMsg id \/ e' = IniMsg id) by (intros e' He'; apply Hall; right; exact He').
      destruct (Hall e (or_introl eq_refl)) as (id & [->| ->]).
      + rewrite fstep_src by assumption. cbn [is_src_msg is_ini_msg].
        destruct (IH {| up := true; to_ini := to_ini s ++ [id]; to_src := to_src s; ini_send_ok := true; src_send_ok := src_send_ok s |} eq_refl eq_refl Hs Hrest) as (A & B & C).
        cbn [to_ini to_src] in A, B. rewrite A, B, <- app_assoc. auto.
      + rewrite fstep_ini by assumption. cbn [is_src_msg is_ini_msg].
        destruct (IH {| up := true; to_ini := to_ini s; to_src := to_src s ++ [id]; ini_send_ok := ini_send_ok s; src_send_ok := true |} eq_refl Hi eq_refl Hrest) as (A & B & C).
        cbn [to_ini to_src] in A, B. rewrite A, B, <- app_assoc. auto. }
  intros Hall. destruct (G init_fwd eq_refl eq_refl eq_refl Hall) as (A & B & C). cbn in A, B. auto.
Qed.

(* C06, joint end: whichever side ends or fails, at whatever position, the pair is down afterwards - and stays down *)
Theorem joint_end es1 e es2 : ends e = true -> ended (frun (es1 ++ e :: es2)) = true.
Proof.
  intros He. unfold frun, ended. rewrite fold_left_app. cbn [fold_left].
  set (s := fold_left fstep es1 init_fwd).
  assert (Hd : up (fstep s e) = false).
  { unfold fstep. destruct (up s) eqn:Hup; cbn [negb]; [|exact Hup]. destruct e; try discriminate He; reflexivity. }
  rewrite fold_down by exact Hd. rewrite Hd. reflexivity.
Qed.

(* a failed Send ends the pair at the next message in that direction *)
Theorem send_failure_ends es1 id es2 :
  up (frun es1) = true -> ini_send_ok (frun es1) = false -> ended (frun (es1 ++ SrcMsg id :: es2)) = true.
Proof.
  intros Hup Hs. unfold frun, ended in *. rewrite fold_left_app. cbn [fold_left].
  set (s := fold_left fstep es1 init_fwd) in *.
  assert (Hd : up (fstep s (SrcMsg id)) = false) by (unfold fstep; rewrite Hup, Hs; reflexivity).
  rewrite fold_down by exact Hd. rewrite Hd. reflexivity.
Qed.
