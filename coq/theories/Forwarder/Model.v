(* Event-level model of StreamForwarder.Run (proxy/admin_stream_transfer.go): two relay directions that share one
   shutdown latch.  An event is something one of the two peers does; the model says what the proxy has relayed and
   whether the stream pair is still up. *)
From Coq Require Import List ZArith Bool.
Import ListNotations.

Inductive event :=
| SrcMsg (id : Z)            (* replication messages from the source (serving cluster) *)
| SrcUnknown                 (* a response of an unknown kind *)
| SrcEOF | SrcErr            (* the source ends its stream / fails *)
| IniMsg (id : Z)            (* sync-state message from the stream initiator *)
| IniUnknown
| IniEOF | IniErr | IniCancel
| IniSendFails               (* from now on Send to the initiator fails *)
| SrcSendFails               (* from now on Send to the source fails *)
| ProxyShutdown.             (* the client connection to the source is closed: the source side errors *)

Record fwd := {
  up : bool;                 (* both relay loops alive *)
  to_ini : list Z;           (* relayed to the initiator, oldest first *)
  to_src : list Z;           (* relayed to the source *)
  ini_send_ok : bool;
  src_send_ok : bool
}.

Definition init_fwd : fwd := {| up := true; to_ini := []; to_src := []; ini_send_ok := true; src_send_ok := true |}.

Definition down (s : fwd) : fwd := {| up := false; to_ini := to_ini s; to_src := to_src s; ini_send_ok := ini_send_ok s; src_send_ok := src_send_ok s |}.

Definition fstep (s : fwd) (e : event) : fwd :=
  if negb (up s) then s
  else match e with
       | SrcMsg id => if ini_send_ok s
                      then {| up := true; to_ini := to_ini s ++ [id]; to_src := to_src s; ini_send_ok := true; src_send_ok := src_send_ok s |}
                      else down s
       | IniMsg id => if src_send_ok s
                      then {| up := true; to_ini := to_ini s; to_src := to_src s ++ [id]; ini_send_ok := ini_send_ok s; src_send_ok := true |}
                      else down s
       | IniSendFails => {| up := true; to_ini := to_ini s; to_src := to_src s; ini_send_ok := false; src_send_ok := src_send_ok s |}
       | SrcSendFails => {| up := true; to_ini := to_ini s; to_src := to_src s; ini_send_ok := ini_send_ok s; src_send_ok := false |}
       | SrcUnknown | SrcEOF | SrcErr | IniUnknown | IniEOF | IniErr | IniCancel | ProxyShutdown => down s
       end.

Definition frun (es : list event) : fwd := fold_left fstep es init_fwd.

(* what the peers sent, up to (not including) the first event that ends the pair *)
Fixpoint src_sent (s : fwd) (es : list event) : list Z :=
  match es with
  | [] => []
  | e :: rest => if negb (up s) then []
                 else match e with
                      | SrcMsg id => if ini_send_ok s then id :: src_sent (fstep s e) rest else []
                      | _ => src_sent (fstep s e) rest
                      end
  end.

Definition is_src_msg (e : event) : option Z := match e with SrcMsg id => Some id | _ => None end.
Definition is_ini_msg (e : event) : option Z := match e with IniMsg id => Some id | _ => None end.

Fixpoint all_of (f : event -> option Z) (es : list event) : list Z :=
  match es with [] => [] | e :: rest => match f e with Some id => id :: all_of f rest | None => all_of f rest end end.

(* observable end state of the handler: it has returned, the source context is cancelled, CloseSend was issued, no relay
   loop is alive - all of this is exactly "not up" in the code (wg.Wait, deferred cancel, forwardAcks' deferred CloseSend) *)
Definition ended (s : fwd) : bool := negb (up s).

Definition ends (e : event) : bool :=
  match e with SrcMsg _ | IniMsg _ | IniSendFails | SrcSendFails => false | _ => true end.
