(* Refinement of the circular buffer to a plain list, and exactness of aggregation. *)
From Coq Require Import List Arith ZArith Bool Lia.
From S2S Require Import Base.ListExtra Ring.Model.
Import ListNotations.
Open Scope Z_scope.

Definition wf (r : ring) : Prop := (0 < cap r /\ head r < cap r /\ size r <= cap r)%nat.

Lemma view_length r : length (view r) = size r.
Proof. unfold view. rewrite map_length, seq_length. reflexivity. Qed.

Lemma new_ring_wf c : wf (new_ring c).
Proof.
  unfold wf, new_ring, cap; cbn [slots head size]. rewrite repeat_length.
  destruct (c <? 1) eqn:E; [lia|]. apply Z.ltb_ge in E. lia.
Qed.

Lemma new_ring_view c : view (new_ring c) = [].
Proof. reflexivity. Qed.

(* ---------- ensure ---------- *)
Lemma ensure_props r :
  wf r ->
  wf (ensure r) /\ view (ensure r) = view r /\ (size (ensure r) < cap (ensure r))%nat
  /\ size (ensure r) = size r /\ start (ensure r) = start r.
Proof.
  intros (Hc & Hh & Hs). unfold ensure.
  destruct (Nat.ltb_spec (size r) (cap r)) as [Hlt|Hge].
  - repeat split; auto.
  - assert (Hsz : size r = cap r) by lia.
    destruct (Nat.eqb_spec (cap r) 0) as [H0|_]; [lia|].
    set (nr := {| slots := view r ++ repeat hole (2 * cap r - size r); head := 0;
                  size := size r; start := start r |}).
    assert (Hcap : cap nr = (2 * cap r)%nat).
    { unfold cap at 1, nr. cbn [slots]. rewrite app_length, view_length, repeat_length. lia. }
    assert (Hhd : head nr = 0%nat) by reflexivity.
    assert (Hsn : size nr = size r) by reflexivity.
    unfold wf. rewrite Hcap, Hhd, Hsn.
    repeat split; try lia.
    unfold view at 1. rewrite Hsn.
    rewrite <- (map_nth_seq (view r) hole) at 1. rewrite view_length.
    apply map_ext_seq. intros i Hi. unfold slot_at. rewrite Hcap, Hhd. cbn [Nat.add].
    rewrite Nat.mod_small by lia. unfold nr; cbn [slots].
    apply app_nth1. rewrite view_length. lia.
Qed.

(* ---------- write ---------- *)
Lemma write_props r e :
  wf r -> (size r < cap r)%nat ->
  wf (write r e) /\ view (write r e) = view r ++ [e] /\ start (write r e) = start r
  /\ size (write r e) = S (size r).
Proof.
  intros (Hc & Hh & Hs) Hlt.
  assert (Hcap : cap (write r e) = cap r).
  { unfold cap, write; cbn [slots]. apply set_nth_length. }
  split; [|split; [|split]]; try reflexivity.
  - unfold wf. rewrite Hcap. cbn [write head size]. lia.
  - unfold view. cbn [write size]. rewrite seq_S, map_app. cbn [map Nat.add].
    f_equal.
    + apply map_ext_seq. intros i Hi. unfold slot_at. rewrite Hcap. cbn [write slots head].
      apply nth_set_nth_other.
      rewrite !mod_small_or_sub by lia.
      destruct (Nat.ltb_spec (head r + size r) (cap r)), (Nat.ltb_spec (head r + i) (cap r)); lia.
    + unfold slot_at. rewrite Hcap. cbn [write slots head]. f_equal.
      apply nth_set_nth_same. apply Nat.mod_upper_bound. unfold cap in Hc. lia.
Qed.

Lemma push_props r e :
  wf r ->
  wf (write (ensure r) e) /\ view (write (ensure r) e) = view r ++ [e]
  /\ start (write (ensure r) e) = start r /\ size (write (ensure r) e) = S (size r).
Proof.
  intros H. destruct (ensure_props r H) as (Hw & Hv & Hlt & Hs & Hst).
  destruct (write_props (ensure r) e Hw Hlt) as (Hw' & Hv' & Hst' & Hs').
  rewrite Hv', Hst', Hs', Hv, Hst, Hs. auto.
Qed.

(* ---------- pad ---------- *)
Lemma pad_props n : forall r,
  wf r ->
  wf (pad n r) /\ view (pad n r) = view r ++ repeat hole n /\ start (pad n r) = start r
  /\ size (pad n r) = (size r + n)%nat.
Proof.
  induction n as [|n IH]; intros r H; cbn [pad repeat].
  - rewrite app_nil_r, Nat.add_0_r. split; [exact H|]. auto.
  - destruct (push_props r hole H) as (Hw & Hv & Hst & Hs).
    destruct (IH _ Hw) as (Hw' & Hv' & Hst' & Hs').
    rewrite Hv', Hst', Hs', Hv, Hst, Hs, <- app_assoc. cbn [app].
    split; [exact Hw'|]. split; [reflexivity|]. split; [reflexivity|lia].
Qed.

(* ---------- append ---------- *)
Lemma view_nil_size r : view r = [] <-> size r = 0%nat.
Proof.
  rewrite <- view_length. destruct (view r); cbn [length]; split; intros; try discriminate; auto.
Qed.

Theorem append_refines r pid src task :
  wf r ->
  wf (append true r pid src task)
  /\ abs (append true r pid src task) = a_append (abs r) pid src task.
Proof.
  intros H. unfold append, a_append, abs. cbn [a_items a_start].
  destruct (ensure_props r H) as (Hw1 & Hv1 & Hlt1 & Hs1 & Hst1).
  rewrite Hs1, Hst1.
  destruct (Nat.eqb_spec (size r) 0) as [Hz|Hnz].
  - (* empty: start := pid *)
    set (r2 := {| slots := slots (ensure r); head := head (ensure r); size := 0; start := pid |}).
    assert (Hw2 : wf r2).
    { destruct Hw1 as (a & b & c). unfold wf, cap, r2 in *. cbn [slots head size]. lia. }
    destruct (push_props r2 {| e_src := src; e_task := task |} Hw2) as (Hw & Hv & Hst & Hs).
    split; [exact Hw|]. rewrite Hv, Hst.
    assert (Hvr : view r = []) by (apply view_nil_size; exact Hz).
    rewrite Hvr. reflexivity.
  - set (g := Z.to_nat (pid - (start r + Z.of_nat (size r)))).
    destruct (pad_props g (ensure r) Hw1) as (Hw2 & Hv2 & Hst2 & Hs2).
    destruct (push_props _ {| e_src := src; e_task := task |} Hw2) as (Hw & Hv & Hst & Hs).
    split; [exact Hw|]. rewrite Hv, Hst, Hv2, Hst2, Hv1, Hst1, view_length.
    destruct (view r) eqn:Hvr.
    + exfalso. apply Hnz. apply view_nil_size. exact Hvr.
    + rewrite <- app_assoc. reflexivity.
Qed.

(* ---------- aggregate ---------- *)
Theorem aggregate_refines r w : aggregate r w = a_aggregate (abs r) w.
Proof. unfold aggregate, a_aggregate, abs. cbn [a_items a_start]. rewrite view_length. reflexivity. Qed.

(* ---------- discard ---------- *)
Theorem discard_refines r c :
  wf r -> wf (discard r c) /\ abs (discard r c) = a_discard (abs r) c.
Proof.
  intros (Hc & Hh & Hs). unfold discard, a_discard, abs. cbn [a_items a_start].
  rewrite view_length.
  destruct (c <=? 0) eqn:Ec; [split; [repeat split; auto|reflexivity]|].
  set (k := if Z.of_nat (size r) <? c then size r else Z.to_nat c).
  assert (Hk : (k <= size r)%nat).
  { unfold k. destruct (Z.ltb_spec (Z.of_nat (size r)) c); lia. }
  split.
  - unfold wf, cap. cbn [slots head size]. fold (cap r).
    repeat split; try lia. apply Nat.mod_upper_bound. lia.
  - cbn [start]. f_equal.
    unfold view. cbn [size]. rewrite skipn_map, skipn_seq.
    rewrite (map_seq_shift _ k 0).
    apply map_ext_seq. intros i Hi.
    unfold slot_at, cap. cbn [slots head]. fold (cap r). f_equal.
    rewrite Nat.add_mod_idemp_l by lia. f_equal. lia.
Qed.

(* ---------- histories ---------- *)
Theorem run_refines ops : forall r,
  wf r ->
  let '(r', obs) := run (step true) r ops in
  let '(a', obs') := run a_step (abs r) ops in
  wf r' /\ abs r' = a' /\ obs = obs'.
Proof.
  induction ops as [|o ops IH]; intros r H; cbn [run].
  - auto.
  - destruct o as [pid src task|w|c]; cbn [step a_step].
    + destruct (append_refines r pid src task H) as (Hw & Ha). rewrite <- Ha.
      specialize (IH _ Hw).
      destruct (run (step true) (append true r pid src task) ops) as [r' obs].
      destruct (run a_step (abs (append true r pid src task)) ops) as [a' obs'].
      destruct IH as (? & ? & ?). subst. auto.
    + rewrite aggregate_refines. destruct (a_aggregate (abs r) w) as [m c].
      specialize (IH _ H).
      destruct (run (step true) r ops) as [r' obs].
      destruct (run a_step (abs r) ops) as [a' obs'].
      destruct IH as (? & ? & ?). subst. auto.
    + destruct (discard_refines r c H) as (Hw & Ha). rewrite <- Ha.
      specialize (IH _ Hw).
      destruct (run (step true) (discard r c) ops) as [r' obs].
      destruct (run a_step (abs (discard r c)) ops) as [a' obs'].
      destruct IH as (? & ? & ?). subst. auto.
Qed.

(* ---------- exactness of aggregation ---------- *)
Lemma shard_eqb_eq a b : shard_eqb a b = true <-> a = b.
Proof.
  destruct a as [a1 a2], b as [b1 b2]. unfold shard_eqb; cbn [fst snd].
  rewrite andb_true_iff, !Z.eqb_eq. split; [intros [-> ->]; auto|intros H; inversion H; auto].
Qed.

Lemma shard_eqb_refl a : shard_eqb a a = true.
Proof. apply shard_eqb_eq; auto. Qed.

Lemma shard_eqb_sym a b : shard_eqb a b = shard_eqb b a.
Proof.
  destruct (shard_eqb a b) eqn:E1, (shard_eqb b a) eqn:E2; auto.
  - apply shard_eqb_eq in E1. subst. rewrite shard_eqb_refl in E2. discriminate.
  - apply shard_eqb_eq in E2. subst. rewrite shard_eqb_refl in E1. discriminate.
Qed.

Lemma aget_aset_same k v m : aget k (aset k v m) = Some v.
Proof.
  induction m as [|[k' v'] t IH]; cbn [aset aget].
  - rewrite shard_eqb_refl. auto.
  - destruct (shard_eqb k k') eqn:E; cbn [aget]; rewrite ?shard_eqb_refl, ?E; auto.
Qed.

Lemma aget_aset_other k k' v m : shard_eqb k k' = false -> aget k (aset k' v m) = aget k m.
Proof.
  intros Hne. induction m as [|[k2 v2] t IH]; cbn [aset aget].
  - rewrite Hne. auto.
  - destruct (shard_eqb k' k2) eqn:E; cbn [aget].
    + apply shard_eqb_eq in E. subst. rewrite Hne. auto.
    + rewrite IH. auto.
Qed.

(* what one shard sees while scanning the covered prefix *)
Fixpoint best (s : shard) (es : list entry) (cur : option Z) : option Z :=
  match es with
  | [] => cur
  | e :: rest =>
      best s rest
        (if is_hole e then cur
         else if shard_eqb s (e_src e)
              then match cur with
                   | Some c => if e_task e >? c then Some (e_task e) else cur
                   | None => Some (e_task e)
                   end
              else cur)
  end.

Lemma agg_max_best s es : forall acc, aget s (agg_max es acc) = best s es (aget s acc).
Proof.
  induction es as [|e rest IH]; intros acc; cbn [agg_max best]; auto.
  rewrite IH. f_equal.
  destruct (is_hole e); auto.
  destruct (shard_eqb s (e_src e)) eqn:E.
  - apply shard_eqb_eq in E. subst s.
    destruct (aget (e_src e) acc) as [c|] eqn:Eg; [destruct (e_task e >? c)|];
      rewrite ?aget_aset_same; auto.
  - destruct (aget (e_src e) acc) as [c|] eqn:Eg; [destruct (e_task e >? c)|];
      rewrite ?aget_aset_other by exact E; auto.
Qed.

(* an entry of shard s that is not a padding hole *)
Definition real_of (s : shard) (e : entry) : Prop := e_src e = s /\ is_hole e = false.

Lemma best_spec s es : forall cur,
  match best s es cur with
  | Some v => (cur = Some v \/ exists e, In e es /\ real_of s e /\ e_task e = v)
              /\ (forall c, cur = Some c -> c <= v)
              /\ (forall e, In e es -> real_of s e -> e_task e <= v)
  | None => cur = None /\ forall e, In e es -> ~ real_of s e
  end.
Proof.
  induction es as [|e rest IH]; intros cur; cbn [best].
  - destruct cur as [c|].
    + split; [auto|]. split; [intros c' H; inversion H; lia|intros ? []].
    + split; [auto|intros ? []].
  - set (cur' := if is_hole e then cur else if shard_eqb s (e_src e)
                 then match cur with Some c => if e_task e >? c then Some (e_task e) else cur
                                  | None => Some (e_task e) end else cur).
    specialize (IH cur').
    assert (Hcur' :
      (cur' = cur /\ (~ real_of s e \/ exists c, cur = Some c /\ e_task e <= c))
      \/ (real_of s e /\ cur' = Some (e_task e) /\ forall c, cur = Some c -> c <= e_task e)).
    { unfold cur', real_of. destruct (is_hole e) eqn:Eh.
      - left. split; auto. left. intros [_ H]. discriminate.
      - destruct (shard_eqb s (e_src e)) eqn:Es.
        + apply shard_eqb_eq in Es. destruct cur as [c|].
          * destruct (Z.gtb_spec (e_task e) c).
            -- right. repeat split; auto. intros c' H'; inversion H'; lia.
            -- left. split; auto. right. exists c. split; auto.
          * right. repeat split; auto. intros c' H'; discriminate.
        + left. split; auto. left. intros [H _]. subst s. rewrite shard_eqb_refl in Es. discriminate. }
    destruct (best s rest cur') as [v|].
    + destruct IH as (Hex & Hub & Hall).
      destruct Hcur' as [[Heq Hcase]|(Hreal & Heq & Hle)].
      * rewrite Heq in *. split; [|split].
        -- destruct Hex as [H|(e' & Hin & Hr & Ht)]; [left; auto|right; exists e'; cbn [In]; auto].
        -- exact Hub.
        -- intros e' [<-|Hin] Hr; [|auto].
           destruct Hcase as [Hn|(c & Hc & Hlec)]; [contradiction|].
           specialize (Hub c Hc). lia.
      * split; [|split].
        -- destruct Hex as [H|(e' & Hin & Hr & Ht)].
           ++ right. exists e. rewrite Heq in H. inversion H. cbn [In]. auto.
           ++ right. exists e'. cbn [In]. auto.
        -- intros c Hc. specialize (Hle c Hc). specialize (Hub _ Heq). lia.
        -- intros e' [<-|Hin] Hr; [apply Hub; auto|auto].
    + destruct IH as (Hnone & Hall).
      destruct Hcur' as [[Heq Hcase]|(Hreal & Heq & Hle)].
      * rewrite Heq in Hnone. split; auto.
        intros e' [<-|Hin]; [|auto].
        destruct Hcase as [Hn|(c & Hc & _)]; [auto|]. rewrite Hnone in Hc. discriminate.
      * rewrite Heq in Hnone. discriminate.
Qed.

Definition is_max_of (s : shard) (es : list entry) (v : Z) : Prop :=
  (exists e, In e es /\ real_of s e /\ e_task e = v)
  /\ (forall e, In e es -> real_of s e -> e_task e <= v).

Theorem agg_max_exact s es :
  match aget s (agg_max es []) with
  | Some v => is_max_of s es v
  | None => forall e, In e es -> ~ real_of s e
  end.
Proof.
  rewrite agg_max_best. cbn [aget].
  pose proof (best_spec s es None) as H.
  destruct (best s es None) as [v|].
  - destruct H as ([H|H] & _ & Hall); [discriminate|]. split; auto.
  - destruct H; auto.
Qed.

(* [covered] selects exactly the stored entries whose proxy id is <= w *)
Lemma covered_spec st n w :
  (covered st n w <= n)%nat
  /\ forall i, (i < n)%nat -> ((i < covered st n w)%nat <-> st + Z.of_nat i <= w).
Proof.
  unfold covered. destruct (Nat.eqb_spec n 0); [split; [lia|intros; lia]|].
  destruct (Z.ltb_spec w st); [split; [lia|intros; lia]|].
  destruct (Z.ltb_spec (Z.of_nat n) (w - st + 1)); split; try lia; intros; lia.
Qed.

Lemma in_firstn_iff {A} (l : list A) c x :
  In x (firstn c l) <-> exists i, (i < c)%nat /\ nth_error l i = Some x.
Proof.
  revert c; induction l as [|h t IH]; intros c.
  - rewrite firstn_nil. split; [intros []|intros (i & _ & H); destruct i; discriminate].
  - destruct c as [|c]; cbn [firstn In].
    + split; [intros []|intros (i & H & _); lia].
    + rewrite IH. split.
      * intros [->|(i & Hi & Hn)]; [exists 0%nat; split; [lia|auto]|exists (S i); split; [lia|auto]].
      * intros ([|i] & Hi & Hn); cbn [nth_error] in Hn.
        -- left. inversion Hn; auto.
        -- right. exists i. split; [lia|auto].
Qed.

(* The statement of C05's aggregation clause on the abstract list of outstanding entries:
   entry i of [a_items] has proxy id [a_start + i]. *)
Definition outstanding_upto (a : aring) (w : Z) (e : entry) : Prop :=
  exists i, nth_error (a_items a) i = Some e /\ a_start a + Z.of_nat i <= w.

Theorem a_aggregate_exact a w s :
  let '(m, c) := a_aggregate a w in
  (c <= length (a_items a))%nat
  /\ (forall i, (i < length (a_items a))%nat -> ((i < c)%nat <-> a_start a + Z.of_nat i <= w))
  /\ match aget s m with
     | Some v => (exists e, outstanding_upto a w e /\ real_of s e /\ e_task e = v)
                 /\ (forall e, outstanding_upto a w e -> real_of s e -> e_task e <= v)
     | None => forall e, outstanding_upto a w e -> ~ real_of s e
     end.
Proof.
  unfold a_aggregate.
  destruct (covered_spec (a_start a) (length (a_items a)) w) as (Hle & Hcov).
  set (c := covered (a_start a) (length (a_items a)) w) in *.
  split; [exact Hle|]. split; [exact Hcov|].
  assert (Hiff : forall e, In e (firstn c (a_items a)) <-> outstanding_upto a w e).
  { intros e. rewrite in_firstn_iff. unfold outstanding_upto. split.
    - intros (i & Hi & Hn). exists i. split; auto. apply Hcov; auto. lia.
    - intros (i & Hn & Hw). exists i. split; auto. apply Hcov; auto.
      apply nth_error_Some. rewrite Hn. discriminate. }
  pose proof (agg_max_exact s (firstn c (a_items a))) as H.
  destruct (aget s (agg_max (firstn c (a_items a)) [])) as [v|].
  - destruct H as ((e & Hin & Hr & Ht) & Hall). split.
    + exists e. rewrite <- Hiff. auto.
    + intros e' He'. apply Hall. apply Hiff. exact He'.
  - intros e He. apply H. apply Hiff. exact He.
Qed.

(* ---------- nothing lost, duplicated or reordered ---------- *)
(* ghost history: everything ever written (padding included) and how many were discarded *)
Record ghost := { g_hist : list entry; g_disc : nat }.

Definition g_step (a : aring) (g : ghost) (o : op) : ghost :=
  match o with
  | OAppend pid src task =>
      let e := {| e_src := src; e_task := task |} in
      match a_items a with
      | [] => {| g_hist := g_hist g ++ [e]; g_disc := g_disc g |}
      | _ => {| g_hist := g_hist g
                           ++ repeat hole (Z.to_nat (pid - (a_start a + Z.of_nat (length (a_items a)))))
                           ++ [e];
                g_disc := g_disc g |}
      end
  | OAggregate _ => g
  | ODiscard count =>
      if count <=? 0 then g
      else let n := length (a_items a) in
           {| g_hist := g_hist g;
              g_disc := Nat.add (g_disc g) (if Z.of_nat n <? count then n else Z.to_nat count) |}
  end.

Fixpoint g_run (a : aring) (g : ghost) (ops : list op) : aring * ghost :=
  match ops with
  | [] => (a, g)
  | o :: rest => g_run (fst (a_step a o)) (g_step a g o) rest
  end.

Definition g_inv (a : aring) (g : ghost) : Prop :=
  a_items a = skipn (g_disc g) (g_hist g) /\ (g_disc g <= length (g_hist g))%nat.

Lemma skipn_skipn' {A} (l : list A) : forall a b, skipn a (skipn b l) = skipn (b + a) l.
Proof.
  induction l as [|h t IH]; intros a b.
  - rewrite !skipn_nil. auto.
  - destruct b as [|b]; cbn [skipn Nat.add]; auto.
Qed.

Lemma g_step_inv a g o : g_inv a g -> g_inv (fst (a_step a o)) (g_step a g o).
Proof.
  intros (Hi & Hd). destruct o as [pid src task|w|c]; cbn [a_step g_step fst].
  - unfold a_append. destruct (a_items a) eqn:E; unfold g_inv; cbn [a_items g_hist g_disc].
    + rewrite skipn_app, <- Hi. rewrite app_length. cbn [length].
      replace (g_disc g - length (g_hist g))%nat with 0%nat by lia. cbn [skipn app]. split; [auto|lia].
    + rewrite skipn_app, <- Hi.
      replace (g_disc g - length (g_hist g))%nat with 0%nat by lia. cbn [skipn].
      split; [auto|]. rewrite app_length. lia.
  - destruct (a_aggregate a w). cbn [fst]. split; auto.
  - unfold a_discard. destruct (c <=? 0); [split; auto|].
    unfold g_inv; cbn [a_items g_hist g_disc].
    rewrite Hi, skipn_skipn'. split; [auto|].
    rewrite skipn_length.
    destruct (Z.ltb_spec (Z.of_nat (length (g_hist g) - g_disc g)) c); lia.
Qed.

Theorem g_run_inv ops : forall a g, g_inv a g ->
  let '(a', g') := g_run a g ops in
  g_inv a' g' /\ a' = fst (run a_step a ops) /\ exists added, g_hist g' = g_hist g ++ added.
Proof.
  induction ops as [|o ops IH]; intros a g H; cbn [g_run run].
  - split; [auto|]. split; [auto|]. exists []. rewrite app_nil_r. auto.
  - specialize (IH _ _ (g_step_inv a g o H)).
    destruct (a_step a o) as [a1 ob] eqn:E1. cbn [fst] in *.
    destruct (g_run a1 (g_step a g o) ops) as [a' g'].
    destruct (run a_step a1 ops) as [a2 obs]. cbn [fst] in *.
    destruct IH as (Hinv & Heq & (added & Hadd)). split; [auto|]. split; [auto|].
    destruct o as [pid src task|w|c]; cbn [g_step] in Hadd.
    + destruct (a_items a); cbn [g_hist] in Hadd; rewrite <- app_assoc in Hadd; eauto.
    + eauto.
    + destruct (c <=? 0); cbn [g_hist] in Hadd; eauto.
Qed.

(* ---------- the code before the F12 fix does NOT refine the list ---------- *)
Definition f12_ops : list op := [OAppend 3 (1, 1) 10; OAppend 5 (1, 1) 20].

Lemma f12_witness :
  a_items (abs (fst (run (step false) (new_ring 1) f12_ops)))
  <> a_items (fst (run a_step (abs (new_ring 1)) f12_ops)).
Proof. vm_compute. discriminate. Qed.

Lemma f12_fixed :
  a_items (abs (fst (run (step true) (new_ring 1) f12_ops)))
  = a_items (fst (run a_step (abs (new_ring 1)) f12_ops)).
Proof. vm_compute. reflexivity. Qed.
