(* Executable model of proxyIDRingBuffer (proxy/proxy_streams.go).
   Definitions only: this file is extracted and run against the real type. *)
From Coq Require Import List Arith ZArith Bool.
From S2S Require Import Base.ListExtra.
Import ListNotations.
Open Scope Z_scope.

(* history.ClusterShardID{ClusterID, ShardID} *)
Definition shard := (Z * Z)%type.
Definition shard_eqb (a b : shard) : bool := Z.eqb (fst a) (fst b) && Z.eqb (snd a) (snd b).

(* proxyIDMapping *)
Record entry := { e_src : shard; e_task : Z }.
Definition hole : entry := {| e_src := (0, 0); e_task := 0 |}.
Definition is_hole (e : entry) : bool := shard_eqb (e_src e) (0, 0).

Record ring := { slots : list entry; head : nat; size : nat; start : Z }.

Definition cap (r : ring) : nat := length (slots r).
Definition slot_at (r : ring) (i : nat) : entry := nth ((head r + i) mod cap r) (slots r) hole.
(* outstanding entries in proxy-id order: entry i has proxy id start + i *)
Definition view (r : ring) : list entry := map (slot_at r) (seq 0 (size r)).

Definition new_ring (capacity : Z) : ring :=
  let c := if capacity <? 1 then 1%nat else Z.to_nat capacity in
  {| slots := repeat hole c; head := 0; size := 0; start := 0 |}.

(* ensureCapacity *)
Definition ensure (r : ring) : ring :=
  if (size r <? cap r)%nat then r
  else
    let nc := if (cap r =? 0)%nat then 1%nat else (2 * cap r)%nat in
    {| slots := view r ++ repeat hole (nc - size r); head := 0; size := size r; start := start r |}.

Definition write (r : ring) (e : entry) : ring :=
  {| slots := set_nth ((head r + size r) mod cap r) e (slots r);
     head := head r; size := S (size r); start := start r |}.

(* the padding loop: `for expected < proxyID { ensureCapacity(); write hole; expected++ }` *)
Fixpoint pad (n : nat) (r : ring) : ring :=
  match n with O => r | S n' => pad n' (write (ensure r) hole) end.

(* Append.  [fix12 = true] is the current code (ensureCapacity before the final write);
   [fix12 = false] is the code before the "fix:" commit for finding F12. *)
Definition append (fix12 : bool) (r : ring) (pid : Z) (src : shard) (task : Z) : ring :=
  let r1 := ensure r in
  let r2 := if (size r1 =? 0)%nat
            then {| slots := slots r1; head := head r1; size := 0%nat; start := pid |}
            else pad (Z.to_nat (pid - (start r1 + Z.of_nat (size r1)))) r1 in
  let r3 := if fix12 then ensure r2 else r2 in
  write r3 {| e_src := src; e_task := task |}.

(* association list keyed by shard, insertion ordered *)
Fixpoint aget (k : shard) (m : list (shard * Z)) : option Z :=
  match m with [] => None | (k', v) :: t => if shard_eqb k k' then Some v else aget k t end.
Fixpoint aset (k : shard) (v : Z) (m : list (shard * Z)) : list (shard * Z) :=
  match m with
  | [] => [(k, v)]
  | (k', v') :: t => if shard_eqb k k' then (k, v) :: t else (k', v') :: aset k v t
  end.

Fixpoint agg_max (es : list entry) (acc : list (shard * Z)) : list (shard * Z) :=
  match es with
  | [] => acc
  | e :: rest =>
      let acc' :=
        if is_hole e then acc
        else match aget (e_src e) acc with
             | Some cur => if e_task e >? cur then aset (e_src e) (e_task e) acc else acc
             | None => aset (e_src e) (e_task e) acc
             end in
      agg_max rest acc'
  end.

(* number of entries covered by watermark w, given the first proxy id and the count stored *)
Definition covered (st : Z) (n : nat) (w : Z) : nat :=
  if (n =? 0)%nat then 0%nat
  else if w <? st then 0%nat
  else let c64 := w - st + 1 in
       if Z.of_nat n <? c64 then n else Z.to_nat c64.

(* AggregateUpTo *)
Definition aggregate (r : ring) (w : Z) : list (shard * Z) * nat :=
  let c := covered (start r) (size r) w in
  (agg_max (firstn c (view r)) [], c).

(* Discard *)
Definition discard (r : ring) (count : Z) : ring :=
  if count <=? 0 then r
  else
    let c := if Z.of_nat (size r) <? count then size r else Z.to_nat count in
    {| slots := slots r; head := (head r + c) mod cap r; size := (size r - c)%nat;
       start := start r + Z.of_nat c |}.

(* ---------- abstract specification: a list of outstanding entries ---------- *)
Record aring := { a_start : Z; a_items : list entry }.

Definition abs (r : ring) : aring := {| a_start := start r; a_items := view r |}.

Definition a_append (a : aring) (pid : Z) (src : shard) (task : Z) : aring :=
  let e := {| e_src := src; e_task := task |} in
  match a_items a with
  | [] => {| a_start := pid; a_items := [e] |}
  | _ => {| a_start := a_start a;
            a_items := a_items a
                       ++ repeat hole (Z.to_nat (pid - (a_start a + Z.of_nat (length (a_items a)))))
                       ++ [e] |}
  end.

Definition a_aggregate (a : aring) (w : Z) : list (shard * Z) * nat :=
  let c := covered (a_start a) (length (a_items a)) w in
  (agg_max (firstn c (a_items a)) [], c).

Definition a_discard (a : aring) (count : Z) : aring :=
  if count <=? 0 then a
  else
    let n := length (a_items a) in
    let c := if Z.of_nat n <? count then n else Z.to_nat count in
    {| a_start := a_start a + Z.of_nat c; a_items := skipn c (a_items a) |}.

(* ---------- operation histories (what the correspondence check replays) ---------- *)
Inductive op :=
| OAppend (pid : Z) (src : shard) (task : Z)
| OAggregate (w : Z)
| ODiscard (count : Z).

Inductive obs :=
| ObsNone
| ObsAgg (m : list (shard * Z)) (count : nat).

Definition step (fix12 : bool) (r : ring) (o : op) : ring * obs :=
  match o with
  | OAppend pid src task => (append fix12 r pid src task, ObsNone)
  | OAggregate w => let '(m, c) := aggregate r w in (r, ObsAgg m c)
  | ODiscard c => (discard r c, ObsNone)
  end.

Definition a_step (a : aring) (o : op) : aring * obs :=
  match o with
  | OAppend pid src task => (a_append a pid src task, ObsNone)
  | OAggregate w => let '(m, c) := a_aggregate a w in (a, ObsAgg m c)
  | ODiscard c => (a_discard a c, ObsNone)
  end.

Fixpoint run {S} (stp : S -> op -> S * obs) (s : S) (ops : list op) : S * list obs :=
  match ops with
  | [] => (s, [])
  | o :: rest => let '(s1, ob) := stp s o in
                 let '(s2, obs) := run stp s1 rest in (s2, ob :: obs)
  end.
