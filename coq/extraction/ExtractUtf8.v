From Coq Require Extraction.
From Coq Require Import ExtrOcamlBasic.
From S2S Require Import Repair.Utf8.
Extraction Language OCaml.
Extraction "utf8_model.ml" to_valid_utf8 valid_utf8 repair_chain.
