From Coq Require Extraction.
From Coq Require Import ExtrOcamlBasic.
From S2S Require Import Tls.Model.
Extraction Language OCaml.
Extraction "tls_model.ml" server_build client_build server_admits client_admits.
