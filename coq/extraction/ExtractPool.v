From Coq Require Extraction.
From Coq Require Import ExtrOcamlBasic.
From S2S Require Import MuxPool.Model.
Extraction Language OCaml.
Extraction "pool_model.ml" start pevent_step can_accept.
