From Coq Require Extraction.
From Coq Require Import ExtrOcamlBasic.
From S2S Require Import Handover.Model.
Extraction Language OCaml.
Extraction "handover_model.ml" h0 hexec handed.
