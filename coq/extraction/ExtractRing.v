(* Extraction of the ring model (ExtrOcamlBasic only; Z/N/positive/nat stay Coq datatypes). *)
From Coq Require Extraction.
From Coq Require Import ExtrOcamlBasic.
From S2S Require Import Ring.Model.
Extraction Language OCaml.
Extraction "ring_model.ml" new_ring step a_step abs view.
