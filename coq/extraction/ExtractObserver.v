From Coq Require Extraction.
From Coq Require Import ExtrOcamlBasic.
From S2S Require Import Observer.Model.
Extraction Language OCaml.
Extraction "observer_model.ml" init_obs report report_old report_blocking handle counter.
