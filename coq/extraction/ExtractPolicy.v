From Coq Require Extraction.
From Coq Require Import ExtrOcamlBasic.
From S2S Require Import Policy.Model.
Extraction Language OCaml.
Extraction "policy_model.ml" forwarded list_filter.
