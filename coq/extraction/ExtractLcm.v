From Coq Require Extraction.
From Coq Require Import ExtrOcamlBasic.
From S2S Require Import Lcm.Model.
Extraction Language OCaml.
Extraction "lcm_model.ml" gcd32 lcm32 map_unique params rewrite described_count.
