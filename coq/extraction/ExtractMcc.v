From Coq Require Extraction.
From Coq Require Import ExtrOcamlBasic.
From S2S Require Import Mcc.Model.
Extraction Language OCaml.
Extraction "mcc_model.ml" init_mcc mstep can_make_calls.
