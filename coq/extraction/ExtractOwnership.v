From Coq Require Extraction.
From Coq Require Import ExtrOcamlBasic.
From S2S Require Import Ownership.Model Ownership.Deliver.
Extraction Language OCaml.
Extraction "ownership_model.ml" world0 step owner_candidate deliver_msg deliver_ack.
