From Coq Require Extraction.
From Coq Require Import ExtrOcamlBasic.
From S2S Require Import Registry.Model.
Extraction Language OCaml.
Extraction "registry_model.ml" outcomes deadlocks succs picks prog ops_of_call sender_register_calls sender_cleanup_calls receiver_register_calls receiver_cleanup_calls replay empty_reg run.
