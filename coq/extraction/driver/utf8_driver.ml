(* U <hex>  ->  U <hex of to_valid_utf8> <valid 0|1>      R <hex,hex,...>  -> R <hex,...> changed=0|1 err=0|1  ("-" = empty string) *)
open Utf8_model
let rec nat_of_int n = if n <= 0 then O else S (nat_of_int (n - 1))
let rec int_of_nat = function O -> 0 | S m -> 1 + int_of_nat m
let bytes_of_hex h =
  if h = "-" then [] else
  let n = String.length h / 2 in
  List.init n (fun i -> nat_of_int (int_of_string ("0x" ^ String.sub h (2 * i) 2)))
let hex_of_bytes bs = if bs = [] then "-" else String.concat "" (List.map (fun b -> Printf.sprintf "%02x" (int_of_nat b)) bs)
let () =
  try
    while true do
      let line = input_line stdin in
      match Zutil.split_ws line with
      | ["U"; h] -> let s = bytes_of_hex h in
          Printf.printf "U %s %d\n" (hex_of_bytes (to_valid_utf8 s)) (if valid_utf8 s then 1 else 0)
      | ["R"; hs] ->
          let chain = List.map bytes_of_hex (String.split_on_char ',' hs) in
          let ((out, changed), err) = repair_chain chain in
          Printf.printf "R %s changed=%d err=%d\n" (String.concat "," (List.map hex_of_bytes out)) (if changed then 1 else 0) (if err then 1 else 0)
      | _ -> print_endline ("? " ^ line)
    done
  with End_of_file -> ()
