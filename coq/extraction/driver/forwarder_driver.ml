(* same line protocol as the Go harness; prints per event the newly relayed messages and "= up|down" *)
open Forwarder_model
let z_of_int64 (n : int64) : z =
  if Int64.equal n 0L then Z0
  else if Int64.compare n 0L > 0 then Zpos (Zutil.pos_of_int64 (fun p -> XI p) (fun p -> XO p) XH n)
  else Zneg (Zutil.pos_of_int64 (fun p -> XI p) (fun p -> XO p) XH (Int64.neg n))
let rec int64_of_pos = function XH -> 1L | XO q -> Int64.shift_left (int64_of_pos q) 1
  | XI q -> Int64.logor (Int64.shift_left (int64_of_pos q) 1) 1L
let int64_of_z = function Z0 -> 0L | Zpos p -> int64_of_pos p | Zneg p -> Int64.neg (int64_of_pos p)
let () =
  let st = ref init_fwd in
  let seen_i = ref 0 and seen_s = ref 0 in
  let report letter =
    print_endline letter;
    let li = !st.to_ini and ls = !st.to_src in
    List.iteri (fun i x -> if i >= !seen_i then Printf.printf ">i %Ld\n" (int64_of_z x)) li;
    List.iteri (fun i x -> if i >= !seen_s then Printf.printf ">s %Ld\n" (int64_of_z x)) ls;
    seen_i := List.length li; seen_s := List.length ls;
    print_endline (if ended !st then "= down" else "= up") in
  try
    while true do
      let line = input_line stdin in
      match Zutil.split_ws line with
      | [] -> ()
      | "N" :: _ -> st := init_fwd; seen_i := 0; seen_s := 0; report "N"
      | [k; v] when k = "s" || k = "i" ->
          let id = z_of_int64 (Int64.of_string v) in
          st := fstep !st (if k = "s" then SrcMsg id else IniMsg id); report k
      | [k] ->
          let e = match k with
            | "su" -> Some SrcUnknown | "se" -> Some SrcEOF | "sx" -> Some SrcErr | "iu" -> Some IniUnknown | "ie" -> Some IniEOF
            | "ix" -> Some IniErr | "ic" -> Some IniCancel | "fi" -> Some IniSendFails | "fs" -> Some SrcSendFails | "P" -> Some ProxyShutdown
            | _ -> None in
          (match e with Some e -> st := fstep !st e | None -> ()); report k
      | _ -> print_endline ("? " ^ line)
    done
  with End_of_file -> ()
