open Ownership_model
let rec nat_of_int n = if n <= 0 then O else S (nat_of_int (n - 1))
let z_of_int64 (n : int64) : z =
  if Int64.equal n 0L then Z0
  else if Int64.compare n 0L > 0 then Zpos (Zutil.pos_of_int64 (fun p -> XI p) (fun p -> XO p) XH n)
  else Zneg (Zutil.pos_of_int64 (fun p -> XI p) (fun p -> XO p) XH (Int64.neg n))
let rec int64_of_pos = function XH -> 1L | XO p -> Int64.mul 2L (int64_of_pos p) | XI p -> Int64.add 1L (Int64.mul 2L (int64_of_pos p))
let int64_of_z = function Z0 -> 0L | Zpos p -> int64_of_pos p | Zneg p -> Int64.neg (int64_of_pos p)
let z n = z_of_int64 (Int64.of_int n)
let zi x = Int64.to_int (int64_of_z x)
let () =
  let n = ref 0 and ns = ref 0 in
  let worlds = ref [||] in
  let snaps : (string, int * (int option) array) Hashtbl.t = Hashtbl.create 8 in
  let i = int_of_string in
  let stamp = function None -> "-" | Some t -> string_of_int (zi t) in
  try
    while true do
      let line = input_line stdin in
      match Zutil.split_ws line with
      | ["CL"; a; b] -> n := i a; ns := i b; worlds := Array.make !ns world0; Hashtbl.reset snaps; print_endline "CL"
      | ["R"; x; s] -> !worlds.(i s) <- step !worlds.(i s) (Reg (nat_of_int (i x)))
      | ["U"; x; s; k] -> !worlds.(i s) <- step !worlds.(i s) (Unreg (nat_of_int (i x), z (i k)))
      | ["D"; y; x; s; k] -> !worlds.(i s) <- step !worlds.(i s) (DelReg (nat_of_int (i y), nat_of_int (i x), z (i k)))
      | ["DU"; _] -> ()
      | ["S"; id; x] ->
          Hashtbl.replace snaps id (i x, Array.init !ns (fun s -> match !worlds.(s).local (nat_of_int (i x)) with None -> None | Some t -> Some (zi t)))
      | ["M"; y; id] ->
          (match Hashtbl.find_opt snaps id with
           | Some (x, st) -> Array.iteri (fun s v -> !worlds.(s) <- step !worlds.(s) (Merge (nat_of_int (i y), nat_of_int x, (match v with None -> None | Some t -> Some (z t))))) st
           | None -> ())
      | ["L"; y; x] -> Array.iteri (fun s _ -> !worlds.(s) <- step !worlds.(s) (Leave (nat_of_int (i y), nat_of_int (i x)))) !worlds
      | ["Q"] ->
          for s = 0 to !ns - 1 do
            Printf.printf "OWN %d:%s\n" s (String.concat "" (List.init !n (fun x -> " " ^ stamp (!worlds.(s).local (nat_of_int x)))))
          done;
          for y = 0 to !n - 1 do
            let parts = List.init !n (fun x ->
              if x = y then "" else
              (* an entry exists iff it exists in shard world 0 (merges and leaves touch all shards alike) *)
              match (if !ns > 0 then !worlds.(0).remote (nat_of_int y) (nat_of_int x) else None) with
              | None -> Printf.sprintf " %d=none" x
              | Some _ ->
                let l = List.init !ns (fun s -> match !worlds.(s).remote (nat_of_int y) (nat_of_int x) with Some (Some t) -> Printf.sprintf "%d:%d" s (zi t) | _ -> "") in
                Printf.sprintf " %d=[%s]" x (String.concat "," (List.filter (fun p -> p <> "") l))) in
            Printf.printf "REM %d:%s\n" y (String.concat "" parts)
          done
      | "DV" :: kind :: l :: m :: o :: a :: g :: p :: f :: _ ->
          let lo = (match l with "none" -> LNone | "accepted" -> LAccepted | "shutdown" -> LShutdown | "closed" -> LClosed | _ -> LClosedShutdown) in
          let peer = (match p with "ok" -> PAccepted | "err" -> PError | _ -> PAbsent) in
          let e = { lo = lo; ml_configured = (m = "1"); owner_known = (o = "1"); addr_known = (a = "1"); mgr_present = (g = "1"); peer = peer; allow_forward = (f = "1") } in
          let (ok, who) = if kind = "msg" then deliver_msg e else deliver_ack e in
          Printf.printf "DV %d %s\n" (if ok then 1 else 0) (match who with RNobody -> "nobody" | RLocal -> "local" | RRemote -> "remote")
      | _ -> ()
    done
  with End_of_file -> ()
