(* usage: routing_driver (fixed|unfixed) < events
   I ns nt | S src high n (id owner pay)* | A tgt w | C tgt | X tgt | U tgt | B tgt | R src | E
   per event: the event letter, then T tgt high n (pid:pay)* / K src ack lines, then "." *)
open Routing_model
let z_of_int64 (n : int64) : z =
  if Int64.equal n 0L then Z0
  else if Int64.compare n 0L > 0 then Zpos (Zutil.pos_of_int64 (fun p -> XI p) (fun p -> XO p) XH n)
  else Zneg (Zutil.pos_of_int64 (fun p -> XI p) (fun p -> XO p) XH (Int64.neg n))
let rec int64_of_pos = function XH -> 1L | XO q -> Int64.shift_left (int64_of_pos q) 1
  | XI q -> Int64.logor (Int64.shift_left (int64_of_pos q) 1) 1L
let int64_of_z = function Z0 -> 0L | Zpos p -> int64_of_pos p | Zneg p -> Int64.neg (int64_of_pos p)
let zs s = z_of_int64 (Int64.of_string s)
let sz x = Int64.to_string (int64_of_z x)
let rec nat_of_int n = if n <= 0 then O else S (nat_of_int (n - 1))
let rec int_of_nat = function O -> 0 | S m -> 1 + int_of_nat m

(* payload strings are interned as numbers *)
let pays : (string, int) Hashtbl.t = Hashtbl.create 64
let pay_names : (int, string) Hashtbl.t = Hashtbl.create 64
let intern s = match Hashtbl.find_opt pays s with Some i -> i | None ->
  let i = Hashtbl.length pays + 1 in Hashtbl.add pays s i; Hashtbl.add pay_names i s; i

let print_out (o : out) =
  match o with
  | OTgt (t, ws, high) ->
      Printf.printf "T %d %s %d%s\n" (int_of_nat t) (sz high) (List.length ws)
        (String.concat "" (List.map (fun w -> Printf.sprintf " %s:%s" (sz w.w_pid)
           (try Hashtbl.find pay_names (Int64.to_int (int64_of_z w.w_pay)) with Not_found -> "?")) ws))
  | OSrc (s, a) -> Printf.printf "K %d %s\n" (int_of_nat s) (sz a)

let () =
  let fix1 = Sys.argv.(1) <> "unfixed" in
  let st = ref (init O O) in
  let run letter (e : ev) =
    let (st', outs) = step fix1 !st e in
    st := st'; print_endline letter; List.iter print_out outs; print_endline "." in
  try
    while true do
      let line = input_line stdin in
      match Zutil.split_ws line with
      | [] -> ()
      | ["I"; ns; nt] -> st := init (nat_of_int (int_of_string ns)) (nat_of_int (int_of_string nt)); print_endline "I"; print_endline "."
      | "S" :: src :: high :: n :: rest ->
          let rec tasks k l = if k = 0 then [] else match l with
            | id :: owner :: pay :: tl ->
                let o = int_of_string owner in
                if o < 0 then tasks (k - 1) tl   (* not routable: the receiver skips it *)
                else { t_id = zs id; t_owner = nat_of_int o; t_pay = z_of_int64 (Int64.of_int (intern pay)) } :: tasks (k - 1) tl
            | _ -> [] in
          let n = int_of_string n in
          let ts = tasks n rest in
          (* a batch whose tasks are all unroutable still carries tasks for the code: handled by the harness generator (never generated alone) *)
          run "S" (ESrc (nat_of_int (int_of_string src), ts, zs high))
      | ["A"; t; w] -> run "A" (EAck (nat_of_int (int_of_string t), zs w))
      | ["C"; t] -> run "C" (EConnect (nat_of_int (int_of_string t)))
      | ["X"; t] -> run "X" (EStall (nat_of_int (int_of_string t)))
      | ["U"; t] -> run "U" (EUnstall (nat_of_int (int_of_string t)))
      | ["B"; t] -> run "B" (EBreakT (nat_of_int (int_of_string t)))
      | ["R"; s] -> run "R" (ERestartS (nat_of_int (int_of_string s)))
      | ["E"] -> print_endline "E"; print_endline "."
      | _ -> print_endline ("? " ^ line)
    done
  with End_of_file -> ()
