open Bimap_model
let rec pos_of_int n = if n <= 1 then XH else if n land 1 = 1 then XI (pos_of_int (n lsr 1)) else XO (pos_of_int (n lsr 1))
let rec int_of_pos = function XH -> 1 | XO p -> 2 * int_of_pos p | XI p -> 2 * int_of_pos p + 1
let dump m =
  let l = List.sort compare (List.map (fun (a, b) -> (int_of_pos a, int_of_pos b)) m) in
  String.concat "," (List.map (fun (a, b) -> Printf.sprintf "%d:%d" a b) l)
let () =
  try
    while true do
      let line = input_line stdin in
      match Zutil.split_ws line with
      | "B" :: rest ->
          let pairs = match rest with
            | [] | ["-"] -> []
            | s :: _ -> List.map (fun p -> match String.split_on_char ':' p with
                                           | [a; b] -> (pos_of_int (int_of_string a), pos_of_int (int_of_string b))
                                           | _ -> failwith "bad pair") (String.split_on_char ',' s) in
          (match new_bimap pairs with
           | None -> print_endline "B err"
           | Some m -> Printf.printf "B ok fwd=%s inv=%s len=%d\n" (dump m) (dump (inverse m)) (List.length m))
      | _ -> print_endline ("? " ^ line)
    done
  with End_of_file -> ()
