(* usage: observer_driver (new|old) < ops
   N | R idx v | H mode ok cc cs sc ss   (metadata values: decimal int64 text, anything else / "-" = None) *)
open Observer_model

let z_of_int64 (n : int64) : z =
  if Int64.equal n 0L then Z0
  else if Int64.compare n 0L > 0 then Zpos (Zutil.pos_of_int64 (fun p -> XI p) (fun p -> XO p) XH n)
  else Zneg (Zutil.pos_of_int64 (fun p -> XI p) (fun p -> XO p) XH (Int64.neg n))
let rec int64_of_pos = function XH -> 1L | XO q -> Int64.shift_left (int64_of_pos q) 1
  | XI q -> Int64.logor (Int64.shift_left (int64_of_pos q) 1) 1L
let int64_of_z = function Z0 -> 0L | Zpos p -> int64_of_pos p | Zneg p -> Int64.neg (int64_of_pos p)

let md_of (s : string) : z option =
  if s = "-" then None else
  match Int64.of_string_opt s with
  | Some n when Int64.compare n Int64.min_int > 0 && String.length s > 0
                && (let c = s.[0] in (c >= '0' && c <= '9') || c = '-' || c = '+')
                && not (String.contains s '_') && not (String.contains s 'x') && not (String.contains s 'o') && not (String.contains s 'b') && not (String.contains s 'u') -> Some (z_of_int64 n)
  | _ -> None

let () =
  let old = Sys.argv.(1) = "old" in
  let st = ref init_obs in
  let lock () = if !st.locked then "locked=1" else "locked=0" in
  let active () =
    let buf = Buffer.create 64 in
    Buffer.add_string buf "[";
    let first = ref true in
    List.iteri (fun i c -> match c with Z0 -> () | _ ->
      if not !first then Buffer.add_string buf ","; first := false; Buffer.add_string buf (string_of_int i)) !st.counters;
    Buffer.add_string buf "]"; Buffer.contents buf in
  try
    while true do
      let line = input_line stdin in
      match Zutil.split_ws line with
      | [] -> ()
      | ["N"] -> st := init_obs; print_endline "N"
      | ["R"; i; v] ->
          let idx = Int64.of_string i in
          let rep = if old then report_old else report in
          (match report_blocking rep (z_of_int64 idx) (z_of_int64 (Int64.of_string v)) !st with
           | None -> Printf.printf "R BLOCKED %s c=- len=%d\n" (lock ()) (List.length !st.counters)
           | Some (st', o) ->
               st := st';
               let len = List.length st'.counters in
               let c = if st'.locked || Int64.compare idx 0L < 0 || Int64.compare idx (Int64.of_int len) >= 0 then "-"
                       else Int64.to_string (int64_of_z (counter st' (z_of_int64 idx))) in
               Printf.printf "R %s %s c=%s len=%d\n" (match o with ROk -> "ok" | RWarn -> "warn" | RPanic -> "panic") (lock ()) c len)
      | ["H"; _mode; ok; cc; cs; sc; ss] ->
          let m = { md_client_cluster = md_of cc; md_client_shard = md_of cs; md_server_cluster = md_of sc; md_server_shard = md_of ss } in
          let (st', r) = handle (ok = "1") m !st in
          st := st';
          Printf.printf "H %s active=%s %s\n" (match r with Served -> "served" | Rejected -> "rejected" | Crashed -> "crashed") (active ()) (lock ())
      | _ -> print_endline ("? " ^ line)
    done
  with End_of_file -> ()
