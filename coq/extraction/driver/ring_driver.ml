(* Line protocol driver for the extracted ring model.
   usage: ring_driver (model-fixed|model-unfixed|spec) < ops > outputs
   input lines:  N cap | A pid cluster shard task | G w | D count
   output: one line per input line. *)
open Ring_model

let z_of_int64 (n : int64) : z =
  if Int64.equal n 0L then Z0
  else if Int64.compare n 0L > 0 then
    Zpos (Zutil.pos_of_int64 (fun p -> XI p) (fun p -> XO p) XH n)
  else if Int64.equal n Int64.min_int then failwith "min_int unsupported"
  else Zneg (Zutil.pos_of_int64 (fun p -> XI p) (fun p -> XO p) XH (Int64.neg n))

let rec int64_of_pos (p : positive) : int64 =
  match p with
  | XH -> 1L
  | XO q -> Int64.shift_left (int64_of_pos q) 1
  | XI q -> Int64.logor (Int64.shift_left (int64_of_pos q) 1) 1L

let int64_of_z (x : z) : int64 =
  match x with Z0 -> 0L | Zpos p -> int64_of_pos p | Zneg p -> Int64.neg (int64_of_pos p)

let rec int_of_nat (n : nat) : int = match n with O -> 0 | S m -> 1 + int_of_nat m

let zs s = z_of_int64 (Int64.of_string s)
let sz x = Int64.to_string (int64_of_z x)

let fmt_entries (es : entry list) : string =
  String.concat " "
    (List.map (fun e -> let (c, s) = e.e_src in Printf.sprintf "%s:%s:%s" (sz c) (sz s) (sz e.e_task)) es)

let fmt_agg (m : (shard * z) list) (c : nat) : string =
  let items = List.map (fun ((cl, sh), v) -> (int64_of_z cl, int64_of_z sh, int64_of_z v)) m in
  let items = List.sort compare items in
  String.trim (Printf.sprintf "G %d %s" (int_of_nat c)
    (String.concat " " (List.map (fun (c, s, v) -> Printf.sprintf "%Ld:%Ld:%Ld" c s v) items)))

type state = Conc of ring | Abs of aring

let () =
  let mode = Sys.argv.(1) in
  let fix12 = (mode <> "model-unfixed") in
  let spec = (mode = "spec") in
  let st = ref (if spec then Abs (abs (new_ring (zs "1"))) else Conc (new_ring (zs "1"))) in
  let snapshot () =
    String.trim (match !st with
    | Conc r -> Printf.sprintf "S %s %d %s" (if int_of_nat r.size = 0 then "-" else sz r.start) (int_of_nat r.size) (fmt_entries (view r))
    | Abs a -> Printf.sprintf "S %s %d %s" (if a.a_items = [] then "-" else sz a.a_start) (List.length a.a_items) (fmt_entries a.a_items))
  in
  let apply (o : op) : obs =
    match !st with
    | Conc r -> let (r', ob) = step fix12 r o in st := Conc r'; ob
    | Abs a -> let (a', ob) = a_step a o in st := Abs a'; ob
  in
  try
    while true do
      let line = input_line stdin in
      match Zutil.split_ws line with
      | [] -> ()
      | ["N"; c] ->
          let r = new_ring (zs c) in
          st := (if spec then Abs (abs r) else Conc r);
          print_endline ("N " ^ snapshot ())
      | ["A"; pid; cl; sh; task] ->
          ignore (apply (OAppend (zs pid, (zs cl, zs sh), zs task)));
          print_endline ("A " ^ snapshot ())
      | ["G"; w] ->
          (match apply (OAggregate (zs w)) with
           | ObsAgg (m, c) -> print_endline (fmt_agg m c)
           | ObsNone -> print_endline "G ?")
      | ["D"; c] ->
          ignore (apply (ODiscard (zs c)));
          print_endline ("D " ^ snapshot ())
      | _ -> print_endline ("? " ^ line)
    done
  with End_of_file -> ()
