(* P none | P present <methods|-> <namespaces|->     Q <admin|workflow|other> <name> <stream 0|1> <names|->   ->  Q 0|1 *)
module M = Policy_model
let coq_ascii (c : char) : M.ascii =
  let n = Char.code c in
  let b i = (n lsr i) land 1 = 1 in
  M.Ascii (b 0, b 1, b 2, b 3, b 4, b 5, b 6, b 7)
let coq_string (s : Stdlib.String.t) : M.string =
  let rec go i = if i >= Stdlib.String.length s then M.EmptyString else M.String (coq_ascii s.[i], go (i + 1)) in go 0
let lst s = if s = "-" then [] else List.map (fun x -> coq_string (if x = "<empty>" then "" else x)) (Stdlib.String.split_on_char ',' s)
let () =
  let pol = ref None in
  try
    while true do
      let line = input_line stdin in
      match Zutil.split_ws line with
      | ["P"; "none"] -> pol := None; print_endline "P"
      | ["P"; "present"; ms; ns] -> pol := Some { M.p_methods = lst ms; M.p_namespaces = lst ns }; print_endline "P"
      | ["Q"; svc; name; st; names] ->
          let c = { M.c_service = (match svc with "admin" -> M.Admin | "workflow" -> M.Workflow | _ -> M.Other); M.c_name = coq_string name; M.c_stream = (st = "1") } in
          print_endline (if M.forwarded !pol c (lst names) then "Q 1" else "Q 0")
      | ["F"; names] ->
          (match !pol with
           | None -> print_endline ("F " ^ names)
           | Some p ->
               let rec ocaml_of (s : M.string) : Stdlib.String.t = match s with
                 | M.EmptyString -> ""
                 | M.String (M.Ascii (b0, b1, b2, b3, b4, b5, b6, b7), rest) ->
                     let bit b i = if b then 1 lsl i else 0 in
                     Stdlib.String.make 1 (Char.chr (bit b0 0 + bit b1 1 + bit b2 2 + bit b3 3 + bit b4 4 + bit b5 5 + bit b6 6 + bit b7 7)) ^ ocaml_of rest in
               let res = M.list_filter p (lst names) in
               print_endline ("F " ^ (if res = [] then "-" else Stdlib.String.concat "," (List.map (fun x -> let o = ocaml_of x in if o = "" then "<empty>" else o) res))))
      | _ -> print_endline ("? " ^ line)
    done
  with End_of_file -> ()
