(* CFG role cert ca name skip | HS role cert ca name skip presents chain hostchain time usage name *)
open Tls_model
let b s = s = "1"
let bit v = if v then 1 else 0
let auth_num = function NoClientCert -> 0 | RequestClientCert -> 1 | RequireAnyClientCert -> 2 | VerifyClientCertIfGiven -> 3 | RequireAndVerifyClientCert -> 4
let () =
  try
    while true do
      let line = input_line stdin in
      match Zutil.split_ws line with
      | "CFG" :: role :: c :: ca :: n :: sk :: _ ->
          let s = { sh_cert = b c; sh_ca = b ca; sh_name = b n; sh_skip = b sk } in
          if role = "server" then
            (match server_build s with
             | Disabled -> print_endline "CFG disabled" | BuildError -> print_endline "CFG error"
             | Built c -> Printf.printf "CFG auth=%d cas=%d cert=%d time=%d insecure=0 minver=1\n" (auth_num c.sc_auth) (bit c.sc_cas) (bit c.sc_has_cert) (bit c.sc_custom_time))
          else
            (match client_build s with
             | Disabled -> print_endline "CFG disabled" | BuildError -> print_endline "CFG error"
             | Built c -> Printf.printf "CFG insecure=%d name=%d roots=%d cert=%d time=%d hooks=0\n" (bit c.cc_insecure) (bit c.cc_server_name) (bit c.cc_roots) (bit c.cc_has_cert) (bit c.cc_custom_time))
      | ["HS"; role; c; ca; n; sk; pr; ch; ho; ti; us; nm] ->
          let s = { sh_cert = b c; sh_ca = b ca; sh_name = b n; sh_skip = b sk } in
          let p = { p_presents = b pr; p_chain = b ch; p_host = b ho; p_time = b ti; p_usage = b us; p_name = b nm } in
          if role = "server" then
            (match server_build s with
             | Built c -> print_endline (if server_admits c p then "HS admit" else "HS refuse")
             | _ -> print_endline "HS n/a")
          else
            (match client_build s with
             | Built c -> print_endline (if client_admits c p then "HS admit" else "HS refuse")
             | _ -> print_endline "HS n/a")
      | _ -> print_endline ("? " ^ line)
    done
  with End_of_file -> ()
