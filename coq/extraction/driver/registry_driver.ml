open Registry_model
let rec nat_of_int n = if n <= 0 then O else S (nat_of_int (n - 1))
let rec int_of_nat = function O -> 0 | S m -> 1 + int_of_nat m
let call_name = function
  | CSetRemoteSendChan -> "SetRemoteSendChan" | CRegisterShard -> "RegisterShard" | CClose -> "close"
  | CUnregisterShard -> "UnregisterShard" | CRemoveRemoteSendChan -> "RemoveRemoteSendChan"
  | CTerminatePreviousLocalReceiver -> "TerminatePreviousLocalReceiver" | CSetLocalAckChan -> "SetLocalAckChan"
  | CRegisterLocalReceiver -> "RegisterLocalReceiver" | CRemoveLocalAckChan -> "RemoveLocalAckChan"
  | CUnregisterLocalReceiver -> "UnregisterLocalReceiver"
let call_of_name = function
  | "SetRemoteSendChan" -> Some CSetRemoteSendChan | "RegisterShard" -> Some CRegisterShard | "close" -> Some CClose
  | "UnregisterShard" -> Some CUnregisterShard | "RemoveRemoteSendChan" -> Some CRemoveRemoteSendChan
  | "TerminatePreviousLocalReceiver" -> Some CTerminatePreviousLocalReceiver | "SetLocalAckChan" -> Some CSetLocalAckChan
  | "RegisterLocalReceiver" -> Some CRegisterLocalReceiver | "RemoveLocalAckChan" -> Some CRemoveLocalAckChan
  | "UnregisterLocalReceiver" -> Some CUnregisterLocalReceiver | _ -> None
let progs : (string, call list) Hashtbl.t = Hashtbl.create 8
let bad = ref false
let item_ops (it : string) : op list =
  (* sr<i> sc<i> rr<i> rc<i> rp<k> w:<item> ; every completed item leaves a mark so that w:<item> can await it *)
  let mark_of s = let n = int_of_string (String.sub s 2 (String.length s - 2)) in
    let base = match String.sub s 0 2 with "sr" -> 0 | "sc" -> 1 | "rr" -> 2 | "rc" -> 3 | _ -> 4 in nat_of_int (n * 5 + base) in
  if String.length it > 2 && String.sub it 0 2 = "w:" then [Await (mark_of (String.sub it 2 (String.length it - 2)))]
  else begin
    let kind = String.sub it 0 2 and n = int_of_string (String.sub it 2 (String.length it - 2)) in
    let body = if kind = "rp" then replay (nat_of_int n) true
      else match Hashtbl.find_opt progs kind with Some cs -> prog cs (nat_of_int n) | None -> bad := true; [] in
    body @ [Mark (mark_of it)]
  end
let opt = function None -> "-" | Some n -> string_of_int (int_of_nat n)
let uniq_sorted l = List.sort_uniq compare (List.map int_of_nat l)
let state (r : reg) =
  Printf.sprintf "sh=%s se=%s ack=%s can=%s act=%s crash=%d cancelled=%s dl=%s held=%d"
    (opt r.r_shard) (opt r.r_send) (opt r.r_ack) (opt r.r_cancel) (opt r.r_active) (if r.crashed then 1 else 0)
    (String.concat "," (List.map string_of_int (uniq_sorted r.cancelled)))
    (String.concat "," (List.map string_of_int (uniq_sorted (List.map snd r.delivered))))
    (match r.amu with None -> 0 | Some _ -> 1)
(* breadth-first search over configurations with a hash table, using the extracted successor function; for small
   scenarios the result is cross-checked against the extracted (proved complete) [outcomes] *)
let search (ths : op list list) (r0 : reg) : reg list * int =
  let seen = Hashtbl.create 4096 in
  let finals = Hashtbl.create 64 in
  let dead = ref 0 in
  let q = Queue.create () in
  (* the ghost lists are used as sets (membership / lookup by a unique key): configurations that differ only in their
     order are explored once *)
  let canon (r : reg) : reg = { r with closed = List.sort_uniq compare r.closed; cancelled = List.sort_uniq compare r.cancelled;
                                       seen_prev = List.sort_uniq compare r.seen_prev; got = List.sort_uniq compare r.got;
                                       delivered = List.sort_uniq compare r.delivered; marks = List.sort_uniq compare r.marks } in
  let key (c : op list list * reg) = Marshal.to_string (fst c, canon (snd c)) [Marshal.No_sharing] in
  Queue.add (ths, r0) q; Hashtbl.replace seen (key (ths, r0)) ();
  while not (Queue.is_empty q) do
    let c = Queue.pop q in
    (match picks [] (fst c) with
     | [] -> Hashtbl.replace finals (Marshal.to_string (canon (snd c)) [Marshal.No_sharing]) (snd c)
     | _ ->
       let ss = succs c in
       if ss = [] then incr dead;
       List.iter (fun (t', r') -> let c' = (t', canon r') in let k = key c' in if not (Hashtbl.mem seen k) then (Hashtbl.replace seen k (); Queue.add c' q)) ss)
  done;
  (Hashtbl.fold (fun _ v acc -> v :: acc) finals [], !dead)
let total ths = List.fold_left (fun n t -> n + List.length t) 0 ths
let () =
  let name = ref "" and init = ref [] and threads = ref [] in
  Printf.printf "MODELPROG sr %s\n" (String.concat " " (List.map call_name sender_register_calls));
  Printf.printf "MODELPROG sc %s\n" (String.concat " " (List.map call_name sender_cleanup_calls));
  Printf.printf "MODELPROG rr %s\n" (String.concat " " (List.map call_name receiver_register_calls));
  Printf.printf "MODELPROG rc %s\n" (String.concat " " (List.map call_name receiver_cleanup_calls));
  try
    while true do
      let line = input_line stdin in
      match Zutil.split_ws line with
      | "PROG" :: k :: calls ->
          let cs = List.map call_of_name calls in
          if List.mem None cs then (Printf.printf "UNKNOWN-CALL %s\n" line; Hashtbl.remove progs k)
          else Hashtbl.replace progs k (List.filter_map (fun x -> x) cs)
      | ["SCEN"; n] -> name := n; init := []; threads := []; bad := false
      | "INIT" :: items -> init := items
      | "THREAD" :: items -> threads := !threads @ [items]
      | "END" :: _ | "ONE" :: _ ->
          Printf.printf "# scenario %s\n" !name;
          let r0 = run (List.concat_map item_ops !init) empty_reg in
          let ths = List.map (fun items -> List.concat_map item_ops items) !threads in
          if !bad then print_endline "NOMODEL"
          else begin
            let (fs, dead) = search ths r0 in
            let outs = List.sort_uniq compare (List.map state fs) in
            List.iter (fun s -> Printf.printf "OUT %s\n" s) outs;
            Printf.printf "DEADLOCKS %d\n" dead;
            if total ths <= 12 then begin
              let outs2 = List.sort_uniq compare (List.map state (outcomes ths r0)) in
              if outs2 <> outs || List.length (deadlocks (nat_of_int 200) [(ths, r0)]) <> dead then print_endline "UNKNOWN search and outcomes disagree"
            end
          end;
          print_endline "#end"
      | _ -> ()
    done
  with End_of_file -> ()
