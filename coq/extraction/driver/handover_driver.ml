(* IR name | REG k cap | MSG id | TAKE k n | CLOSE k | REM k | W | END   (settled scenarios: the receiver runs to quiescence after every operation) *)
open Handover_model
let rec nat_of_int n = if n <= 0 then O else S (nat_of_int (n - 1))
let rec int_of_nat = function O -> 0 | S n -> 1 + int_of_nat n
let rec len = function [] -> 0 | _ :: t -> 1 + len t
let () =
  let s = ref h0 in
  let taken : (int, int) Hashtbl.t = Hashtbl.create 8 in
  let newest = ref (-1) in
  let i = int_of_string in
  let settle () =
    let continue = ref true in
    while !continue do
      let s' = hexec !s HTry in
      if len s'.h_log = len !s.h_log then continue := false;
      s := s'
    done in
  let untaken k = 
    let all = List.map int_of_nat (handed !s (nat_of_int k)) in
    let t = (try Hashtbl.find taken k with Not_found -> 0) in
    let rec drop n l = if n <= 0 then l else match l with [] -> [] | _ :: r -> drop (n - 1) r in
    drop t all in
  let take k n tag =
    let u = untaken k in
    let rec go n l = if n <= 0 then () else match l with [] -> () | x :: r ->
      Printf.printf "%s %d %d\n" tag k x;
      Hashtbl.replace taken k ((try Hashtbl.find taken k with Not_found -> 0) + 1); go (n - 1) r in
    go n u in
  try
    while true do
      let line = input_line stdin in
      (match Zutil.split_ws line with
       | ["IR"; name] -> s := h0; Hashtbl.reset taken; newest := -1; Printf.printf "# scenario %s\n" name
       | ["REG"; k; _] -> s := hexec !s (HReg (nat_of_int (i k))); newest := i k; settle ()
       | ["MSG"; m] -> s := hexec !s (HPeer (nat_of_int (i m))); settle ()
       | ["TAKE"; k; n] -> take (i k) (i n) "GOT"
       | ["CLOSE"; k] -> take (i k) 1000000 "LOST"; s := hexec !s (HClose (nat_of_int (i k))); settle ()
       | ["REM"; k] -> s := hexec !s (HRem (nat_of_int (i k))); settle ()
       | ["W"] -> settle ()
       | ["END"] -> settle (); if !newest >= 0 then take !newest 1000000 "GOT"; print_endline "END returned=1"; print_endline "#end"
       | _ -> ())
    done
  with End_of_file -> ()
