open Pool_model
let rec nat_of_int n = if n <= 0 then O else S (nat_of_int (n - 1))
let rec int_of_nat = function O -> 0 | S m -> 1 + int_of_nat m
let () =
  let st = ref (start O) in
  let report tag =
    print_endline tag;
    Printf.printf "= live=%d open=%d accept=%d\n" (int_of_nat !st.sessions) (int_of_nat !st.opened) (if can_accept !st then 1 else 0) in
  try
    while true do
      let line = input_line stdin in
      match Zutil.split_ws line with
      | [] -> ()
      | "N" :: n :: _ -> st := start (nat_of_int (int_of_string n)); report "N"
      | ["A"; "1"; "1"; "3"] ->
          (* the session is registered and dies at once: a good attempt followed by the end of that session *)
          st := pevent_step !st (EOffer { a_conn_ok = true; a_sess_ok = true; a_ping_ok = true; a_cancel = false });
          st := pevent_step !st EKill; report "A"
      | ["A"; "2"; s; p] ->
          st := pevent_step !st (EOffer { a_conn_ok = true; a_sess_ok = (s = "1"); a_ping_ok = (p = "1"); a_cancel = true }); report "A"
      | ["A"; c; s; p] -> st := pevent_step !st (EOffer { a_conn_ok = (c = "1"); a_sess_ok = (s = "1"); a_ping_ok = (p = "1"); a_cancel = false }); report "A"
      | "KS" :: _ -> st := pevent_step !st EKill; report "KS"
      | "K" :: _ -> st := pevent_step !st EKill; report "K"
      | ["X"] -> st := pevent_step !st ECancel; report "X"
      | ["E"] -> report "E"
      | _ -> print_endline ("? " ^ line)
    done
  with End_of_file -> ()
