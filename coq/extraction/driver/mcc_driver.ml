(* N | a | r <id>   ->  "= dialable=<ids> can=<0|1> next=<id>" *)
open Mcc_model
let rec nat_of_int n = if n <= 0 then O else S (nat_of_int (n - 1))
let rec int_of_nat = function O -> 0 | S m -> 1 + int_of_nat m
let () =
  let st = ref init_mcc in
  let report () =
    Printf.printf "= dialable=%s can=%d next=%d\n" (String.concat "," (List.map (fun x -> string_of_int (int_of_nat x)) !st.dialable))
      (if can_make_calls !st then 1 else 0) (int_of_nat !st.next_id) in
  try
    while true do
      let line = input_line stdin in
      match Zutil.split_ws line with
      | [] -> ()
      | ["N"] -> st := init_mcc; report ()
      | ["a"] -> st := mstep !st Add; report ()
      | ["r"; id] -> st := mstep !st (Remove (nat_of_int (int_of_string id))); report ()
      | _ -> print_endline ("? " ^ line)
    done
  with End_of_file -> ()
