(* G a b | M L c s | S local remote inbound(0/1) s ci | D local remote inbound real *)
open Lcm_model
let z_of_int64 (n : int64) : z =
  if Int64.equal n 0L then Z0
  else if Int64.compare n 0L > 0 then Zpos (Zutil.pos_of_int64 (fun p -> XI p) (fun p -> XO p) XH n)
  else Zneg (Zutil.pos_of_int64 (fun p -> XI p) (fun p -> XO p) XH (Int64.neg n))
let rec int64_of_pos = function XH -> 1L | XO q -> Int64.shift_left (int64_of_pos q) 1
  | XI q -> Int64.logor (Int64.shift_left (int64_of_pos q) 1) 1L
let int64_of_z = function Z0 -> 0L | Zpos p -> int64_of_pos p | Zneg p -> Int64.neg (int64_of_pos p)
let zs s = z_of_int64 (Int64.of_string s)
let sz x = Int64.to_string (int64_of_z x)
let () =
  try
    while true do
      let line = input_line stdin in
      match Zutil.split_ws line with
      | [] -> ()
      | ["G"; a; b] -> Printf.printf "G %s %s\n" (sz (gcd32 (zs a) (zs b))) (sz (lcm32 (zs a) (zs b)))
      | ["M"; l; c; s] -> (match map_unique (zs l) (zs c) (zs s) with Some r -> Printf.printf "M %s\n" (sz r) | None -> print_endline "M panic")
      | ["S"; lo; re; inb; s; ci] ->
          let p = params (zs lo) (zs re) (inb = "1") in
          (match rewrite p ((zs "1", zs ci), (zs "2", zs s)) with
           | Some ((cc, cs), (sc, ss)) -> Printf.printf "S %s %s %s %s\n" (sz cc) (sz cs) (sz sc) (sz ss)
           | None -> print_endline "S panic")
      | ["D"; lo; re; inb; real] ->
          let p = params (zs lo) (zs re) (inb = "1") in
          Printf.printf "D %s\n" (sz (described_count p (zs real)))
      | _ -> print_endline ("? " ^ line)
    done
  with End_of_file -> ()
