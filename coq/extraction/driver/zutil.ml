(* Helpers shared by the line-protocol drivers of the extracted models. *)
let rec pos_of_int64 (xi : 'p -> 'p) (xo : 'p -> 'p) (xh : 'p) (n : int64) : 'p =
  if Int64.equal n 1L then xh
  else
    let rest = pos_of_int64 xi xo xh (Int64.shift_right_logical n 1) in
    if Int64.equal (Int64.logand n 1L) 1L then xi rest else xo rest

let split_ws (s : string) : string list =
  List.filter (fun x -> x <> "") (String.split_on_char ' ' (String.trim s))
