From Coq Require Extraction.
From Coq Require Import ExtrOcamlBasic.
From S2S Require Import Forwarder.Model.
Extraction Language OCaml.
Extraction "forwarder_model.ml" init_fwd fstep ended.
