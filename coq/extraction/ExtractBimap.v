From Coq Require Extraction.
From Coq Require Import ExtrOcamlBasic.
From S2S Require Import Schema.SearchAttr Schema.BiMap.
Extraction Language OCaml.
Extraction "bimap_model.ml" new_bimap inverse.
