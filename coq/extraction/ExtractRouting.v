From Coq Require Extraction.
From Coq Require Import ExtrOcamlBasic.
From S2S Require Import Routing.Model.
Extraction Language OCaml.
Extraction "routing_model.ml" init step.
