(* C08 - reconnecting streams never orphan, steal or crash a shard's registration.
   Model: theories/Registry/Model.v - the five per-shard registries of shardManagerImpl, one operation per critical section
   of the code, executions = all interleavings of the incarnations' programs that respect activeReceiversMu.  The programs
   are the call sequences of proxyStreamSender.Run / proxyStreamReceiver.Run (read off the source on every run); the
   atomicity of each call is checked against the real shardManagerImpl by a lock-boundary schedule explorer that
   enumerates every interleaving of the same scenarios and compares the sets of final states. *)
From Coq Require Import List Arith Bool.
From S2S Require Import Registry.Model Registry.Explore Registry.Proofs Registry.Unbounded Handover.Model Handover.Proofs.
Import ListNotations.

(* two incarnations: 0 registered and shutting down, 1 registering, a watermark replay at any point.  In EVERY execution
   the registries end up holding exactly incarnation 1's entries, nothing crashed, no lock is left held *)
Theorem C08_two_senders : forall l r,
  Execution [sender_cleanup 0; sender_register 1; replay 0 true] registered0 l r ->
  r_shard r = Some 1 /\ r_send r = Some 1 /\ crashed r = false.
Proof. exact two_senders_newest_wins. Qed.
Print Assumptions C08_two_senders.

Theorem C08_two_receivers : forall l r,
  Execution [receiver_cleanup 0; receiver_register 1] registered0 l r ->
  r_ack r = Some 1 /\ r_cancel r = Some 1 /\ r_active r = Some 1 /\ amu r = None.
Proof. exact two_receivers_newest_wins. Qed.
Print Assumptions C08_two_receivers.

(* three successive incarnations (2 connects once 1 has registered), cleanups arbitrarily late *)
Theorem C08_three_senders : forall l r,
  Execution [sender_cleanup 0; sender_register 1 ++ [Mark 1] ++ sender_cleanup 1; [Await 1] ++ sender_register 2; replay 0 true]
            (run (sender_register 0) empty_reg) l r ->
  r_shard r = Some 2 /\ r_send r = Some 2 /\ crashed r = false.
Proof. exact three_senders_newest_wins. Qed.
Print Assumptions C08_three_senders.

Theorem C08_three_receivers : forall l r,
  Execution [receiver_cleanup 0; receiver_register 1 ++ [Mark 1] ++ receiver_cleanup 1; [Await 1] ++ receiver_register 2]
            (run (receiver_register 0) empty_reg) l r ->
  r_ack r = Some 2 /\ r_cancel r = Some 2 /\ r_active r = Some 2 /\ amu r = None.
Proof. exact three_receivers_newest_wins. Qed.
Print Assumptions C08_three_receivers.

(* once all streams have ended nothing remains registered *)
Theorem C08_all_ended_senders : forall l r,
  Execution [sender_cleanup 0; sender_register 1 ++ sender_cleanup 1; replay 0 true] registered0 l r ->
  r_shard r = None /\ r_send r = None /\ crashed r = false.
Proof. exact all_ended_senders_empty. Qed.
Print Assumptions C08_all_ended_senders.

Theorem C08_all_ended_receivers : forall l r,
  Execution [receiver_cleanup 0; receiver_register 1 ++ receiver_cleanup 1] registered0 l r ->
  r_ack r = None /\ r_cancel r = None /\ r_active r = None /\ amu r = None.
Proof. exact all_ended_receivers_empty. Qed.
Print Assumptions C08_all_ended_receivers.

Theorem C08_three_ended : forall l r,
  (Execution three_ended_sender_threads (run (sender_register 0) empty_reg) l r -> r_shard r = None /\ r_send r = None /\ crashed r = false)
  /\ (Execution three_ended_receiver_threads (run (receiver_register 0) empty_reg) l r -> r_ack r = None /\ r_cancel r = None /\ r_active r = None /\ amu r = None).
Proof. exact three_ended_empty. Qed.
Print Assumptions C08_three_ended.

(* a cleanup removes only its own entries: in ANY state, for ANY incarnation *)
Theorem C08_sender_cleanup_own_entries : forall r i,
  let r' := run (sender_cleanup i) r in
  (r_shard r' = if is (r_shard r) i then None else r_shard r)
  /\ (r_send r' = if is (r_send r) i then None else r_send r)
  /\ r_ack r' = r_ack r /\ r_cancel r' = r_cancel r /\ r_active r' = r_active r.
Proof. exact sender_cleanup_own_entries. Qed.
Print Assumptions C08_sender_cleanup_own_entries.

Theorem C08_receiver_cleanup_own_entries : forall r j,
  amu r = None ->
  let r' := run (receiver_cleanup j) r in
  (r_ack r' = if is (r_ack r) j then None else r_ack r)
  /\ (r_active r' = if is (r_active r) j then None else r_active r)
  /\ (r_cancel r' = if is (r_active r) j then None else r_cancel r)
  /\ r_shard r' = r_shard r /\ r_send r' = r_send r /\ amu r' = None.
Proof. exact receiver_cleanup_own_entries. Qed.
Print Assumptions C08_receiver_cleanup_own_entries.

(* unbounded: a registry updated only by "set i" and "delete iff still i", any number of incarnations, any interleaving
   in which the sets happen in incarnation order: it never holds anything but the latest set, and the last set survives
   every delete by another incarnation *)
Theorem C08_conditional_registry_newest : forall l,
  sets_increasing l 0 -> forall x, fst (fold_left cexec l (None, 0)) = Some x -> S x = snd (fold_left cexec l (None, 0)).
Proof. exact cond_registry_newest. Qed.
Print Assumptions C08_conditional_registry_newest.

Theorem C08_last_set_survives : forall pre i post n0 v0,
  no_set post -> no_del i post -> fst (fold_left cexec (pre ++ CSet i :: post) (v0, n0)) = Some i.
Proof. exact cond_registry_last_set_survives. Qed.
Print Assumptions C08_last_set_survives.

(* the exploration is exhaustive: every execution's final state is among the computed outcomes (the sets the harness
   compares with the real code's) *)
Theorem C08_outcomes_complete : forall ths r l r', Execution ths r l r' -> In r' (outcomes ths r).
Proof. exact outcomes_complete. Qed.
Print Assumptions C08_outcomes_complete.

(* Sender side, UNBOUNDED: any operation sequence whatsoever - any number of sender and receiver incarnations, watermark
   replays, any interleaving.  If the last registration of the delivery channel (ownership entry) is incarnation i's
   and i's own cleanup does not follow it, the entry at the end is i's: no cleanup of any other incarnation, however
   late, removes it. *)
Theorem C08_delivery_channel_newest_survives : forall pre i post r,
  no_set (flat_map proj_send post) -> no_del i (flat_map proj_send post) ->
  r_send (run (pre ++ SetSend i :: post) r) = Some i.
Proof. exact sender_newest_survives_unbounded. Qed.
Print Assumptions C08_delivery_channel_newest_survives.

Theorem C08_ownership_newest_survives : forall pre i post r,
  no_set (flat_map proj_shard post) -> no_del i (flat_map proj_shard post) ->
  r_shard (run (pre ++ RegShard i :: post) r) = Some i.
Proof. exact shard_newest_survives_unbounded. Qed.
Print Assumptions C08_ownership_newest_survives.

(* with the recover guard (fix F5) no sequence of operations, of any length, crashes *)
Theorem C08_guarded_replays_never_crash : forall l r, all_guarded l -> crashed r = false -> crashed (run l r) = false.
Proof. exact guarded_never_crashes. Qed.
Print Assumptions C08_guarded_replays_never_crash.

(* Receiver side, UNBOUNDED: any operation sequence that respects activeReceiversMu - any number of sender and receiver
   incarnations, any interleaving of their critical sections.  If incarnation j publishes its acknowledgement channel and
   registers, and from the publication on every other incarnation only cleans up (incarnations start one after the other:
   the property's premise), then at the end the acknowledgement channel, the cancel function and the active receiver are
   j's and the lock is free: no cleanup of any other incarnation, however late or however interleaved with j's own
   registration, removes or replaces any of them. *)
Theorem C08_receiver_newest_survives : forall pre mid1 mid2 post j r,
  valid (pre ++ SetAck j :: mid1 ++ RegRecv1 j :: mid2 ++ RegRecv2 j :: post) r ->
  Forall (quiet j) mid1 -> Forall (quiet j) mid2 -> Forall (quiet j) post ->
  let r' := run (pre ++ SetAck j :: mid1 ++ RegRecv1 j :: mid2 ++ RegRecv2 j :: post) r in
  r_ack r' = Some j /\ r_cancel r' = Some j /\ r_active r' = Some j /\ amu r' = None.
Proof. exact receiver_newest_survives_unbounded. Qed.
Print Assumptions C08_receiver_newest_survives.

(* ... for every execution (interleaving) of every set of threads whose linearisation has that shape *)
Theorem C08_receiver_newest_survives_every_execution : forall ths r l r' pre mid1 mid2 post j,
  Execution ths r l r' ->
  l = pre ++ SetAck j :: mid1 ++ RegRecv1 j :: mid2 ++ RegRecv2 j :: post ->
  Forall (quiet j) mid1 -> Forall (quiet j) mid2 -> Forall (quiet j) post ->
  r_ack r' = Some j /\ r_cancel r' = Some j /\ r_active r' = Some j /\ amu r' = None.
Proof. exact receiver_newest_survives_every_execution. Qed.
Print Assumptions C08_receiver_newest_survives_every_execution.

(* ... and once that newest incarnation ends as well, whatever cleanups of the others are still interleaved with its own,
   nothing remains registered on the receiver side *)
Theorem C08_receiver_all_ended_empty : forall j r c1 c2 c3 c4,
  phC j r ->
  valid (c1 ++ RemAck j :: c2 ++ UnregRecv1 j :: c3 ++ UnregRecv2 j :: c4) r ->
  Forall (quiet j) c1 -> Forall (quiet j) c2 -> Forall (quiet j) c3 -> Forall quiet_all c4 ->
  let r' := run (c1 ++ RemAck j :: c2 ++ UnregRecv1 j :: c3 ++ UnregRecv2 j :: c4) r in
  r_ack r' = None /\ r_cancel r' = None /\ r_active r' = None /\ amu r' = None.
Proof. exact receiver_all_ended_empty_unbounded. Qed.
Print Assumptions C08_receiver_all_ended_empty.

(* The intra-proxy receiver's hand-over (batches from a peer instance put into the delivery channel of the shard's sender,
   looked up again on every attempt): for ANY sequence of registrations, closes and removals by successive incarnations of
   the sender, batches from the peer and attempts - nothing is lost, duplicated or reordered: what has been handed over,
   followed by what is still pending, is exactly what the peer sent. *)
Theorem C08_handover_exactly_once_in_order : forall l,
  map snd (h_log (hrun l h0)) ++ h_pending (hrun l h0) = peer_msgs l.
Proof. exact handover_exactly_once_in_order. Qed.
Print Assumptions C08_handover_exactly_once_in_order.

(* a batch is only ever handed to the incarnation registered at that moment, whose channel is open at that moment: nothing is
   sent to a dead incarnation *)
Theorem C08_handover_to_live_incarnation : forall s o k m,
  h_log (hexec s o) = h_log s ++ [(k, m)] -> h_reg s = Some k /\ memb k (h_closed s) = false /\ exists rest, h_pending s = m :: rest.
Proof. exact handover_to_live_incarnation. Qed.
Print Assumptions C08_handover_to_live_incarnation.

(* whenever an open channel is registered, one attempt hands the pending batch over, whatever happened before *)
Theorem C08_handover_progress : forall s k m rest,
  h_reg s = Some k -> memb k (h_closed s) = false -> h_pending s = m :: rest ->
  h_log (hexec s HTry) = h_log s ++ [(k, m)] /\ h_pending (hexec s HTry) = rest.
Proof. exact handover_progress. Qed.
Print Assumptions C08_handover_progress.

(* a receiver that resolved the channel once per batch would keep sending to a dead incarnation for ever *)
Theorem C08_handover_cached_variant_refuted : forall n,
  let s := hrun_cached (cached_witness_prefix ++ repeat HTry n) h0 in
  h_reg s = Some 2 /\ memb 2 (h_closed s) = false /\ h_pending s = [7] /\ h_log s = [].
Proof. exact cached_variant_refuted. Qed.
Print Assumptions C08_handover_cached_variant_refuted.
