(* C05 - the proxy-id table maps acknowledgements back to original ids exactly.
   Model: theories/Ring/Model.v (executable, extracted and run against proxyIDRingBuffer).
   This file only states the property theorems and closes them with lemmas of Ring/Proofs.v. *)
From Coq Require Import List ZArith.
From S2S Require Import Ring.Model Ring.Proofs.
Import ListNotations.
Open Scope Z_scope.

(* The circular buffer with doubling growth, padding and wrap-around behaves, on every
   operation history, exactly like a plain list of outstanding entries: same observable
   outputs, and the ordered outstanding entries coincide after every history. *)
Theorem C05_refines : forall ops r,
  wf r ->
  let '(r', obs) := run (step true) r ops in
  let '(a', obs') := run a_step (abs r) ops in
  wf r' /\ abs r' = a' /\ obs = obs'.
Proof. exact run_refines. Qed.
Print Assumptions C05_refines.

(* An acknowledgement at proxy watermark w covers exactly the stored entries with proxy id
   <= w and yields, per source shard, the largest original id among them and nothing for
   shards without such an entry. *)
Theorem C05_aggregate_exact : forall a w s,
  let '(m, c) := a_aggregate a w in
  (c <= length (a_items a))%nat
  /\ (forall i, (i < length (a_items a))%nat -> ((i < c)%nat <-> a_start a + Z.of_nat i <= w))
  /\ match aget s m with
     | Some v => (exists e, outstanding_upto a w e /\ real_of s e /\ e_task e = v)
                 /\ (forall e, outstanding_upto a w e -> real_of s e -> e_task e <= v)
     | None => forall e, outstanding_upto a w e -> ~ real_of s e
     end.
Proof. exact a_aggregate_exact. Qed.
Print Assumptions C05_aggregate_exact.

(* Entries are neither lost, duplicated nor reordered: after any history the outstanding
   entries are the sequence of everything appended (padding included) minus the discarded
   prefix, and history only grows at the tail. *)
Theorem C05_order : forall ops a g,
  g_inv a g ->
  let '(a', g') := g_run a g ops in
  g_inv a' g' /\ a' = fst (run a_step a ops) /\ exists added, g_hist g' = g_hist g ++ added.
Proof. exact g_run_inv. Qed.
Print Assumptions C05_order.

(* Non-vacuity: every constructor-built buffer satisfies the hypotheses. *)
Theorem C05_new_ring_ok : forall c,
  wf (new_ring c) /\ g_inv (abs (new_ring c)) {| g_hist := []; g_disc := 0 |}.
Proof. intros c. split; [apply new_ring_wf|]. split; [reflexivity|apply le_n]. Qed.
Print Assumptions C05_new_ring_ok.

(* The code before the "fix:" commit for finding F12 (no ensureCapacity before the final
   write of a gapped Append) does not refine the list: capacity 1, Append(3), Append(5). *)
Theorem C05_refuted_gap_overwrite_before_fix :
  exists ops, a_items (abs (fst (run (step false) (new_ring 1) ops)))
              <> a_items (fst (run a_step (abs (new_ring 1)) ops)).
Proof. exists f12_ops. exact f12_witness. Qed.
Print Assumptions C05_refuted_gap_overwrite_before_fix.

(* Composition with C01-C04: the sender's id table of the routing model IS this abstract ring - aggregation, discarding
   and appending of the routing model are a_aggregate, a_discard and a_append on the corresponding abstract ring (source
   shard n <-> the pair (1, n+1), never the hole).  With C05_refines, the routing theorems therefore speak about the
   circular buffer of the code. *)
From S2S Require Routing.Model Routing.Inv Routing.RingLink.
Theorem C05_routing_aggregate_is_ring_aggregate : forall s w,
  a_aggregate (Routing.RingLink.view_of s) w
  = (map Routing.RingLink.conv_kv (fst (Routing.Model.aggregate s w)), snd (Routing.Model.aggregate s w)).
Proof. exact Routing.RingLink.aggregate_is_ring_aggregate. Qed.
Print Assumptions C05_routing_aggregate_is_ring_aggregate.

Theorem C05_routing_discard_is_ring_discard : forall s c,
  (c <= length (Routing.Model.s_ring s))%nat ->
  Routing.RingLink.view_of (Routing.Model.s_discard c s) = a_discard (Routing.RingLink.view_of s) (Z.of_nat c).
Proof. exact Routing.RingLink.discard_is_ring_discard. Qed.
Print Assumptions C05_routing_discard_is_ring_discard.

Theorem C05_routing_append_is_ring_append : forall s e,
  Routing.Inv.ring_ok s ->
  Routing.RingLink.view_of (Routing.Model.s_append [e] (Routing.Model.s_next s + 1) s)
  = a_append (Routing.RingLink.view_of s) (Routing.Model.s_next s + 1) (Routing.RingLink.conv_src (Routing.Model.e_src e)) (Routing.Model.e_val e).
Proof. exact Routing.RingLink.append_is_ring_append. Qed.
Print Assumptions C05_routing_append_is_ring_append.
