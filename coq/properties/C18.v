(* C18 - UTF-8 repair reaches every failure message in every supported RPC type.
   coq/generated/Repair_gen.v is regenerated on every run: the legacy (1.22) struct graph reachable from every type the
   admin / frontend conversion tables produce (reflection), and the generated visitor RepairInvalidUTF8 read back from
   its source with go/ast as access paths per root type. *)
From Coq Require Import List PArith Bool.
From S2S Require Import Schema.Check Repair.Cover Repair.Current.
From S2SGen Require Import Repair_gen.
Import ListNotations.

(* For every root type of the conversion tables and every structural path from it to a failure message - through
   message fields, repeated fields, map values and oneof branches (history events, commands, update outcomes ...), no
   type revisited on a path - the visitor contains exactly that access path ending in a call of
   repairInvalidUTF8InFailure (which itself walks the chain of causes up to the supported depth). *)
Theorem C18_current_build : all_covered gen_repair = true.
Proof. exact current_all_covered. Qed.
Print Assumptions C18_current_build.

Theorem C18_every_failure_path_is_visited : forall root p,
  In root (rm_roots gen_repair) -> In p (required gen_repair root) -> In p (ir_of (rm_ir gen_repair) root).
Proof. exact (all_covered_spec gen_repair current_all_covered). Qed.
Print Assumptions C18_every_failure_path_is_visited.

(* the generic statement for any regenerated model that passes the check *)
Theorem C18_generic : forall m, all_covered m = true ->
  forall root p, In root (rm_roots m) -> In p (required m root) -> In p (ir_of (rm_ir m) root).
Proof. exact all_covered_spec. Qed.
Print Assumptions C18_generic.
