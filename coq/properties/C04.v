(* C04 - stream failures never turn unconfirmed tasks into acknowledged ones.
   The full statement is FALSE of the faithful model of the current code (known findings F2a, F2b):
   the witnesses below are replayed on the implementation by the check on every run. *)
From Coq Require Import List ZArith Bool.
From S2S Require Import Routing.Model Routing.Basic Routing.Monitor Routing.Witness.
Import ListNotations.

(* F2a: a target stream that dies holding an unacknowledged task; acknowledgements of its next incarnation
   let the aggregated minimum pass that task. *)
Theorem C04_refuted_target_break : exists h, any_unsafe true (init 1 2) h = true /\ In (EBreakT 1) h.
Proof. exists f2a_history. split; [exact f2a_unsafe|]. cbn. tauto. Qed.
Print Assumptions C04_refuted_target_break.

(* F2b: after a source-stream restart an acknowledgement computed from a ring entry of the previous
   incarnation is forwarded by the new receiver, whose map does not contain the slow target. *)
Theorem C04_refuted_source_restart : exists h, any_unsafe true (init 1 2) h = true /\ In (ERestartS 0) h.
Proof. exists f2b_history. split; [exact f2b_unsafe|]. cbn. tauto. Qed.
Print Assumptions C04_refuted_source_restart.

(* What does hold at every crash point: the executable semantics (including break / restart events) is an
   instance of the action system, and every value sent upstream is below the value of every target the
   CURRENT receiver incarnation knows (the defect is exactly that this map forgets targets). *)
Theorem C04_partial_step_refines_actions : forall fix1 x e, step fix1 x e = run_acts fix1 x (step_acts fix1 x e).
Proof. exact step_is_run_acts. Qed.
Print Assumptions C04_partial_step_refines_actions.
