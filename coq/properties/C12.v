(* C12 - namespace names are translated wherever they occur.
   The schema (Go struct graph of every request/response type of both services joined with the protobuf
   descriptors) and the walker's tables are REGENERATED from the compiled packages on every run
   (coq/generated/Schema_gen.v); the theorems below are re-checked against them. *)
From Coq Require Import List PArith Bool.
From S2S Require Import Schema.Check Schema.CheckProofs Schema.CurrentNs.
From S2SGen Require Import Schema_gen.
Import ListNotations.

(* On the current build (evaluated by the kernel's vm on the generated schema): in every type reachable from any
   request / response / stream message of WorkflowService and AdminService - at any nesting depth, through
   repeated fields, maps and oneofs -
   - a string field is translated by visitNamespace iff the descriptors say it carries a namespace name;
   - a DataBlob field is decoded as history events iff the descriptors (and the explicit oracle list) say it holds
     serialized history events, and no DataBlob field is unclassified; unexported fields carry nothing;
   - every event type on the skip list, the event's own non-attribute fields, and every message type skipped as a
     whole reach NO namespace-name field and NO event blob (so the shortcuts never change the result). *)
Theorem C12_current_build : ns_coverage_ok gen_schema = true.
Proof. exact current_ns_ok. Qed.
Print Assumptions C12_current_build.

Theorem C12_every_namespace_field_is_translated : forall ty t f,
  In ty (all_reachable gen_schema) -> lookup (types gen_schema) ty = Some t -> In f (t_fields t) ->
  (f_tag f = GNamespace <-> walker_translates_ns gen_schema ty f = true)
  /\ (f_tag f = GEventBlob <-> walker_decodes_blob gen_schema f = true)
  /\ f_tag f <> GUnclassifiedBlob.
Proof. exact (ns_coverage_fields gen_schema C12_current_build). Qed.
Print Assumptions C12_every_namespace_field_is_translated.

Theorem C12_shortcuts_skip_nothing : forall ty t f,
  In ty (reach gen_schema (skippable gen_schema) ++ reach gen_schema (whole_skipped gen_schema)) ->
  lookup (types gen_schema) ty = Some t -> In f (t_fields t) ->
  f_tag f <> GNamespace /\ f_tag f <> GEventBlob.
Proof. exact (skipped_types_are_clean gen_schema C12_current_build). Qed.
Print Assumptions C12_shortcuts_skip_nothing.

(* the generic statement, for ANY schema that passes the check (so for every future build that passes it) *)
Theorem C12_generic : forall s, ns_coverage_ok s = true ->
  forall ty t f, In ty (all_reachable s) -> lookup (types s) ty = Some t -> In f (t_fields t) ->
    (f_tag f = GNamespace <-> walker_translates_ns s ty f = true)
    /\ (f_tag f = GEventBlob <-> walker_decodes_blob s f = true)
    /\ f_tag f <> GUnclassifiedBlob.
Proof. exact ns_coverage_fields. Qed.
Print Assumptions C12_generic.
