(* C15 - inbound admin calls outside the allow-list never reach the local cluster.
   Model: theories/Policy/Model.v.  The assembly clause (the interceptors are installed iff a policy object is
   configured, on TCP and mux alike, after translation) is tied to the code by the end-to-end matrix that calls
   every method of both services through a running ClusterConnection. *)
From Coq Require Import List String Bool.
From S2S Require Import Policy.Model Policy.Proofs.
Import ListNotations.

Theorem C15_admin_outside_list_denied : forall p c names,
  c_service c = Admin -> p_methods p <> [] -> ~ In (c_name c) (p_methods p) ->
  forwarded (Some p) c names = false.
Proof. exact admin_outside_list_denied. Qed.
Print Assumptions C15_admin_outside_list_denied.

Theorem C15_registration_always_denied : forall p c names,
  c_service c = Workflow -> c_stream c = false -> In (c_name c) deny_list ->
  forwarded (Some p) c names = false.
Proof. exact registration_always_denied. Qed.
Print Assumptions C15_registration_always_denied.

Theorem C15_allowed_admin_forwarded : forall p c names,
  c_service c = Admin -> (p_methods p = [] \/ In (c_name c) (p_methods p)) ->
  (forall n, In n names -> p_namespaces p = [] \/ In n (p_namespaces p)) ->
  forwarded (Some p) c names = true.
Proof. exact allowed_admin_forwarded. Qed.
Print Assumptions C15_allowed_admin_forwarded.

Theorem C15_allowed_workflow_forwarded : forall p c names,
  c_service c = Workflow -> ~ In (c_name c) deny_list ->
  (forall n, In n names -> p_namespaces p = [] \/ In n (p_namespaces p)) ->
  forwarded (Some p) c names = true.
Proof. exact allowed_workflow_forwarded. Qed.
Print Assumptions C15_allowed_workflow_forwarded.

Theorem C15_no_policy_forwards_everything : forall c names, forwarded None c names = true.
Proof. exact no_policy_forwards_everything. Qed.
Print Assumptions C15_no_policy_forwards_everything.
