(* C10 - the mux session pool stays within its limit, heals itself and shuts down clean.
   Model: theories/MuxPool/Model.v (branches of muxProvider.Start, AddConnection, waitAndCleanup / unregisterMux /
   AllowMoreConns, onClose), compared with the real provider + manager + sessions over net.Pipe with injected faults. *)
From Coq Require Import List Arith Bool.
From S2S Require Import MuxPool.Model MuxPool.Proofs.
Import ListNotations.

(* for every pool size and EVERY sequence of actions (any interleaving of connection attempts failing at any stage,
   sessions dying, cancellation at any point): the number of live sessions never exceeds the configured count *)
Theorem C10_bound : forall n l, sessions (run (init_pool n) l) <= n.
Proof. exact sessions_bounded. Qed.
Print Assumptions C10_bound.

(* every slot freed by a failed attempt or a dead session is usable again: while the provider runs, free permits + the
   provider's own permit + live sessions add up to the configured count exactly *)
Theorem C10_permits_exact : forall n l,
  let p := run (init_pool n) l in ph p <> Exited -> free p + held p + sessions p = size p.
Proof. exact permits_exact. Qed.
Print Assumptions C10_permits_exact.

(* a quiescent pool that has not been shut down is at full strength or has its provider waiting for the peer with a
   permit in hand; and a waiting provider turns the next successful attempt into a session *)
Theorem C10_quiescent_full_or_waiting : forall p,
  Inv p -> cancelled p = false -> next_action p = None ->
  (sessions p = size p /\ ph p = Idle) \/ (ph p = Waiting /\ queue p = [] /\ free p + 1 + sessions p = size p) \/ ph p = Exited.
Proof. exact quiescent_full_or_waiting. Qed.
Print Assumptions C10_quiescent_full_or_waiting.

Theorem C10_good_attempt_adds_session : forall p,
  ph p = Waiting -> queue p = [] -> cancelled p = false ->
  let good := {| a_conn_ok := true; a_sess_ok := true; a_ping_ok := true; a_cancel := false |} in
  let p' := run p [Offer good; Connect; MakeSession; FirstPing] in
  sessions p' = S (sessions p) /\ ph p' = Idle /\ free p' = free p.
Proof. exact good_attempt_adds_session. Qed.
Print Assumptions C10_good_attempt_adds_session.

(* after shutdown, once nothing is enabled any more, no session is registered and no connection is left open *)
Theorem C10_shutdown_clean : forall p,
  Inv p -> cancelled p = true -> next_action p = None -> sessions p = 0 /\ opened p = 0 /\ ph p = Exited.
Proof. exact shutdown_clean. Qed.
Print Assumptions C10_shutdown_clean.

Theorem C10_invariant_reachable : forall n l, Inv (run (init_pool n) l).
Proof. intros n l. apply run_inv. apply init_inv. Qed.
Print Assumptions C10_invariant_reachable.

(* self-healing, as progress of the canonical schedule (the one that is run against the real pool): a provider waiting for
   the peer with k free permits besides its own reaches full strength after k + 1 successful attempts - for every pool
   size and every k *)
Theorem C10_heals : forall k p,
  cancelled p = false -> ph p = Waiting -> queue p = [] -> free p = k -> free p + 1 + sessions p = size p ->
  let p' := Nat.iter (S k) offer_good p in
  sessions p' = size p /\ ph p' = Idle /\ free p' = 0 /\ cancelled p' = false.
Proof. exact heals. Qed.
Print Assumptions C10_heals.
