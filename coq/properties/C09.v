(* C09 - proxy instances converge on one owner per shard and route to it.
   Model: theories/Ownership/Model.v (RegisterShard, UnregisterShard, NotifyMsg, MergeRemoteState, NotifyLeave as one
   step each) and theories/Ownership/Deliver.v (the decision function of the two Deliver*ToShardOwner methods), compared
   with real shardManagerImpl instances on memberlist's in-memory network whose delegates are intercepted so that the
   harness chooses order, duplication and delay of every announcement. *)
From Coq Require Import List ZArith Bool.
From S2S Require Import Ownership.Model Ownership.Proofs Ownership.Deliver.
Import ListNotations.
Open Scope Z_scope.

(* ANY number of instances, ANY history of registrations, stream ends, deliveries (any order, duplicated, delayed),
   merges and leaves; (x, t) is the newest claim.  Every other instance that is handed that announcement at least once
   ends without the shard; x keeps it unless its own stream ended. *)
Theorem C09_convergence : forall h1 x h2,
  let t := clock (run h1 world0) in
  let w := run (h1 ++ Reg x :: h2) world0 in
  wf (h1 ++ Reg x :: h2) world0 ->
  forallb (fun e => negb (is_reg e)) h2 = true ->
  (forall y, y <> x -> In (DelReg y x t) h2 -> local w y = None)
  /\ (~ In (Unreg x t) h2 -> local w x = Some t).
Proof. exact convergence. Qed.
Print Assumptions C09_convergence.

Theorem C09_single_owner : forall h1 x h2 (n : nat),
  let t := clock (run h1 world0) in
  let w := run (h1 ++ Reg x :: h2) world0 in
  wf (h1 ++ Reg x :: h2) world0 ->
  forallb (fun e => negb (is_reg e)) h2 = true ->
  (forall y, (y < n)%nat -> y <> x -> In (DelReg y x t) h2) ->
  forall y, (y < n)%nat -> local w y <> None -> y = x.
Proof. exact single_owner. Qed.
Print Assumptions C09_single_owner.

(* an instance that left is forgotten, and is never chosen as the owner to forward to, as long as none of its states is
   merged afterwards *)
Theorem C09_leave_forgets : forall h1 y x h2 w,
  no_merge_from y x h2 ->
  let w' := run (h1 ++ Leave y x :: h2) w in
  remote w' y x = None /\ owner_candidate w' y x = false.
Proof. exact leave_forgets. Qed.
Print Assumptions C09_leave_forgets.

(* routing: local stream first, otherwise the known remote owner, otherwise reported undelivered; the result is true
   exactly when exactly one recipient took the item *)
Theorem C09_deliver_msg : forall e,
  let '(ok, who) := deliver_msg e in
  (ok = true <-> who <> RNobody)
  /\ (who = RLocal <-> local_got e = true)
  /\ (who = RRemote -> local_got e = false /\ ml_configured e = true /\ owner_known e = true /\ addr_known e = true /\ peer e = PAccepted)
  /\ (local_got e = false -> ml_configured e = true -> owner_known e = true -> addr_known e = true -> mgr_present e = true ->
      peer e = PAccepted -> lo e <> LShutdown -> lo e <> LClosedShutdown -> who = RRemote).
Proof. exact deliver_msg_spec. Qed.
Print Assumptions C09_deliver_msg.

Theorem C09_deliver_ack : forall e,
  mgr_present e = true ->
  let '(ok, who) := deliver_ack e in
  (ok = true <-> who <> RNobody)
  /\ (who = RLocal <-> local_got e = true)
  /\ (who = RRemote -> local_got e = false /\ allow_forward e = true /\ ml_configured e = true /\ owner_known e = true /\ addr_known e = true /\ peer e = PAccepted)
  /\ (local_got e = false -> allow_forward e = true -> ml_configured e = true -> owner_known e = true -> addr_known e = true ->
      peer e = PAccepted -> lo e <> LShutdown -> lo e <> LClosedShutdown -> who = RRemote).
Proof. exact deliver_ack_spec. Qed.
Print Assumptions C09_deliver_ack.

Theorem C09_exactly_one : forall e,
  fst (deliver_msg e) = true <-> (snd (deliver_msg e) = RLocal \/ snd (deliver_msg e) = RRemote).
Proof. exact deliver_msg_exactly_one. Qed.
Print Assumptions C09_exactly_one.
