(* C16 - requests naming a namespace outside the allow-list are refused.
   The decision function is the one of C15 (theories/Policy/Model.v); which names a request "carries" is decided by
   the namespace walker, whose coverage on the regenerated schema is certified below (every namespace field of every
   request type at every path, including inside history blobs). *)
From Coq Require Import List String Bool PArith.
From S2S Require Import Policy.Model Policy.Proofs Schema.Check Schema.CheckProofs Schema.CurrentNs.
From S2SGen Require Import Schema_gen.
Import ListNotations.

(* a unary request of either service that names (at any of the positions the walker reports) a namespace outside a
   non-empty allow-list is never handed to the handler; the decision does not read the translation-bypass header
   (it is not an input of [forwarded]) *)
Theorem C16_foreign_namespace_denied : forall p c names n,
  c_service c <> Other -> c_stream c = false -> p_namespaces p <> [] -> In n names -> ~ In n (p_namespaces p) ->
  forwarded (Some p) c names = false.
Proof. exact foreign_namespace_denied. Qed.
Print Assumptions C16_foreign_namespace_denied.

(* the positions the walker reports are exactly the namespace-name fields and event blobs of the descriptors, in every
   type reachable from any request type (current build) *)
Theorem C16_walker_sees_every_namespace_field : forall ty t f,
  In ty (all_reachable gen_schema) -> lookup (types gen_schema) ty = Some t -> In f (t_fields t) ->
  (f_tag f = GNamespace <-> walker_translates_ns gen_schema ty f = true)
  /\ (f_tag f = GEventBlob <-> walker_decodes_blob gen_schema f = true)
  /\ f_tag f <> GUnclassifiedBlob.
Proof. exact (ns_coverage_fields gen_schema current_ns_ok). Qed.
Print Assumptions C16_walker_sees_every_namespace_field.

(* listing namespaces returns exactly the allowed entries of the upstream response, in their order *)
Theorem C16_list_filter_exact : forall p names n,
  In n (list_filter p names) <-> In n names /\ (p_namespaces p = [] \/ In n (p_namespaces p)).
Proof. exact list_filter_exact. Qed.
Print Assumptions C16_list_filter_exact.

Theorem C16_list_filter_keeps_order : forall p names, sublist (list_filter p names) names.
Proof. exact list_filter_keeps_order. Qed.
Print Assumptions C16_list_filter_keeps_order.
