(* C20 - no stream-open metadata can wedge or crash replication-stream service.
   Model: theories/Observer/Model.v (ReportStreamValue, metadata decode, handler bookkeeping). *)
From Coq Require Import List ZArith.
From S2S Require Import Base.MachineInt Observer.Model Observer.Proofs.
Import ListNotations.
Open Scope Z_scope.

(* Every call, for every index and value (no range restriction at all), either counts or
   warns; it never panics, never changes the lock state, touches only its own counter. *)
Theorem C20_report_total : forall idx v st,
  let '(st', o) := report idx v st in
  o <> RPanic
  /\ locked st' = locked st
  /\ (o = RWarn -> st' = st /\ (idx < 0 \/ idx > max_observed))
  /\ (o = ROk -> 0 <= idx <= max_observed
               /\ counter st' idx = wrap32 (counter st idx + v)
               /\ (forall j, j <> idx -> counter st' j = counter st j)
               /\ (length (counters st) <= length (counters st'))%nat).
Proof. exact report_spec. Qed.
Print Assumptions C20_report_total.

(* Bookkeeping for one stream never blocks or corrupts bookkeeping for others: after any
   sequence of reports each counter holds exactly the (int32) sum of what was reported for it. *)
Theorem C20_independent : forall ops st,
  let '(st', os) := run_reports ops st in
  Forall (fun o => o <> RPanic) os
  /\ locked st' = locked st
  /\ forall j, counter st' j = expected ops j (counter st j).
Proof. exact run_reports_spec. Qed.
Print Assumptions C20_independent.

(* Any history of stream opens with arbitrary metadata (missing, non-numeric, negative, zero,
   huge - truncated to int32 as the decoder does), whatever each stream body does: every stream
   is served or rejected, the lock is free afterwards and all counters are back where they were,
   so streams opened afterwards are served normally. *)
Theorem C20_streams_never_wedge : forall hs st,
  obs_wf st -> locked st = false ->
  let '(st', rs) := handle_all hs st in
  Forall (fun r => r <> Crashed) rs /\ locked st' = false /\ (forall j, counter st' j = counter st j).
Proof. exact handle_all_spec. Qed.
Print Assumptions C20_streams_never_wedge.

Theorem C20_initial_state_ok : obs_wf init_obs /\ locked init_obs = false.
Proof. split; [exact init_obs_wf|reflexivity]. Qed.
Print Assumptions C20_initial_state_ok.

(* The code before the "fix:" commit for F11: one stream with shard id 238609294 panics with the
   lock held and the next report blocks forever. *)
Theorem C20_refuted_before_fix :
  let '(st1, o1) := report_old 238609294 1 init_obs in
  o1 = RPanic /\ locked st1 = true /\ report_blocking report_old 7 1 st1 = None.
Proof. exact old_code_wedges. Qed.
Print Assumptions C20_refuted_before_fix.
