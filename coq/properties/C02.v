(* C02 - routing delivers each task once, to the owning shard, in a well-formed stream.
   Same model as C01 (theories/Routing/Model.v).  The local theorems below cover the two places where
   delivery could go wrong inside one step; the trace-level clauses (exactly once along the whole
   pipeline, order across batches, watermarks accepted by a Temporal receiver) are an executable monitor
   applied to every implementation trace and tied to the model by the correspondence. *)
From Coq Require Import List ZArith Bool.
From S2S Require Import Routing.Model Routing.Basic Routing.Delivery Routing.Inv Routing.Place Routing.Wire Routing.Watermark.
Import ListNotations.
Open Scope Z_scope.

(* Grouping a batch by owner is a partition that keeps source order: each target's group is exactly the
   batch's tasks owned by it, in order, and no target has two groups. *)
Theorem C02_group_is_partition_in_order : forall ts,
  keys_nodup (group ts) /\ forall T, gget T (group ts) = owned_by T ts.
Proof. exact group_spec. Qed.
Print Assumptions C02_group_is_partition_in_order.

(* Mapping a channel message to proxy ids: payloads unchanged and in order, ids are the next contiguous
   block (so strictly increasing and above everything sent before), ring entries remember source and
   original id, and the message's exclusive high watermark [n' + 1] exceeds its last id. *)
Theorem C02_assign_fresh_increasing_ids : forall src ts next,
  let '(ws, es, n') := assign src ts next in
  map w_pay ws = map t_pay ts
  /\ map w_pid ws = pids_from next (length ts)
  /\ es = map (fun t => {| e_src := src; e_val := t_id t; e_task := true |}) ts
  /\ n' = next + Z.of_nat (length ts).
Proof. exact assign_spec. Qed.
Print Assumptions C02_assign_fresh_increasing_ids.

Theorem C02_pids_strictly_increase : forall next n i j,
  (i < j)%nat -> (j < n)%nat -> nth i (pids_from next n) 0 < nth j (pids_from next n) 0.
Proof. exact pids_increasing. Qed.
Print Assumptions C02_pids_strictly_increase.

Theorem C02_step_refines_actions : forall fix1 x e, step fix1 x e = run_acts fix1 x (step_acts fix1 x e).
Proof. exact step_is_run_acts. Qed.
Print Assumptions C02_step_refines_actions.

(* Nothing is lost or misrouted on the way to the owner's stream, in EVERY reachable state of every fault-free execution
   (any interleaving of the critical sections): every task a receiver has read is either already in the sequence handed
   to its OWNER's sender (the sender's id table followed by its channel) or still waiting in the receiver's pending group
   for that owner - never anywhere else, never dropped. *)
Theorem C02_received_tasks_reach_their_owner : forall ns nt l,
  wf_run (init ns nt) l ->
  let x := fst (run_acts true (init ns nt) l) in
  forall sr r t, recv_at x sr r -> In t (r_rcv r) ->
    (exists s, send_at x (t_owner t) s /\ In (te sr t) (L s)) \/ In t (pend r (t_owner t)).
Proof.
  intros ns nt l Hwf x sr r t Hr Ht. pose proof (inv_run l _ (inv_init ns nt) Hwf) as HI. apply (i_p _ HI sr r Hr t Ht).
Qed.
Print Assumptions C02_received_tasks_reach_their_owner.

(* ... and in source order: in what has been handed to a target's sender, every entry of a source (a task or a
   watermark) is preceded by all tasks of that source for this target with smaller ids - a watermark never overtakes a
   task it covers, a task never overtakes an earlier one. *)
Theorem C02_owner_stream_in_source_order : forall ns nt l,
  wf_run (init ns nt) l ->
  let x := fst (run_acts true (init ns nt) l) in
  forall sr r T s, recv_at x sr r -> send_at x T s ->
  forall l1 e l2, L s = l1 ++ e :: l2 -> e_src e = sr ->
  forall t, In t (r_rcv r) -> t_owner t = T -> t_id t < e_val e -> In (te sr t) l1.
Proof.
  intros ns nt l Hwf x sr r T s Hr Hs. pose proof (inv_run l _ (inv_init ns nt) Hwf) as HI. apply (i_before _ HI sr r T s Hr Hs).
Qed.
Print Assumptions C02_owner_stream_in_source_order.

(* EXACT placement (exactly once, to the owner only, in order): in every reachable state of every fault-free execution,
   for every source sr and target T, the ids of sr's tasks in what has been handed to T's sender (its id table followed
   by its channel), followed by the ids still pending for T in the receiver, are exactly - as a list, so with
   multiplicity and order - the ids of the tasks received from sr that T owns. *)
Theorem C02_exact_placement : forall ns nt l,
  wf_run (init ns nt) l ->
  let x := fst (run_acts true (init ns nt) l) in
  forall sr r T s, recv_at x sr r -> send_at x T s ->
    tasks_of sr (L s) ++ map t_id (pend r T) = map t_id (owned_by T (r_rcv r)).
Proof. intros ns nt l Hwf. apply (place_run l _ (inv_init ns nt) (place_init ns nt) Hwf). Qed.
Print Assumptions C02_exact_placement.

(* The last hop.  What has been written on target T's stream (all OTgt T outputs of the run, in order), followed by the
   message in flight, carries exactly the proxy ids of the task entries of T's id table, in order, each once; the ids on
   the wire are strictly increasing.  With C02_exact_placement (the table's task entries are exactly the received tasks T
   owns) every received task is written to its owner's stream at most once, under a fresh id, and to no other stream. *)
Theorem C02_wire_ids : forall ns nt l,
  wf_run (init ns nt) l ->
  let '(x, outs) := run_acts true (init ns nt) l in
  forall T s, send_at x T s ->
    map w_pid (wire T outs ++ inflight_ws s) = tpids 1 (s_hist s) /\ increasing (map w_pid (wire T outs)).
Proof. exact wire_ids. Qed.
Print Assumptions C02_wire_ids.

(* The watermarks on the wire: for every number of sources and targets and every fault-free sequence of actions, on every
   target's stream each task-bearing message carries an exclusive high watermark greater than each of its task ids and than
   the watermark of EVERY earlier message on that stream (task-bearing, watermark-only or keep-alive) - what a Temporal
   receiver needs in order to accept every task. *)
Theorem C02_wire_watermarks : forall ns nt l,
  wf_run (init ns nt) l ->
  let '(x, outs) := run_acts true (init ns nt) l in
  forall T s, send_at x T s ->
    forall l1 ws h l2, msgs T outs = l1 ++ (ws, h) :: l2 -> ws <> [] ->
      (forall w, In w ws -> w_pid w < h) /\ (forall ws' h', In (ws', h') l1 -> h' < h).
Proof. exact wire_watermarks. Qed.
Print Assumptions C02_wire_watermarks.
