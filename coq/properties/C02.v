(* C02 - routing delivers each task once, to the owning shard, in a well-formed stream.
   Same model as C01 (theories/Routing/Model.v).  The local theorems below cover the two places where
   delivery could go wrong inside one step; the trace-level clauses (exactly once along the whole
   pipeline, order across batches, watermarks accepted by a Temporal receiver) are an executable monitor
   applied to every implementation trace and tied to the model by the correspondence. *)
From Coq Require Import List ZArith Bool.
From S2S Require Import Routing.Model Routing.Basic Routing.Delivery.
Import ListNotations.
Open Scope Z_scope.

(* Grouping a batch by owner is a partition that keeps source order: each target's group is exactly the
   batch's tasks owned by it, in order, and no target has two groups. *)
Theorem C02_group_is_partition_in_order : forall ts,
  keys_nodup (group ts) /\ forall T, gget T (group ts) = owned_by T ts.
Proof. exact group_spec. Qed.
Print Assumptions C02_group_is_partition_in_order.

(* Mapping a channel message to proxy ids: payloads unchanged and in order, ids are the next contiguous
   block (so strictly increasing and above everything sent before), ring entries remember source and
   original id, and the message's exclusive high watermark [n' + 1] exceeds its last id. *)
Theorem C02_assign_fresh_increasing_ids : forall src ts next,
  let '(ws, es, n') := assign src ts next in
  map w_pay ws = map t_pay ts
  /\ map w_pid ws = pids_from next (length ts)
  /\ es = map (fun t => {| e_src := src; e_val := t_id t; e_task := true |}) ts
  /\ n' = next + Z.of_nat (length ts).
Proof. exact assign_spec. Qed.
Print Assumptions C02_assign_fresh_increasing_ids.

Theorem C02_pids_strictly_increase : forall next n i j,
  (i < j)%nat -> (j < n)%nat -> nth i (pids_from next n) 0 < nth j (pids_from next n) 0.
Proof. exact pids_increasing. Qed.
Print Assumptions C02_pids_strictly_increase.

Theorem C02_step_refines_actions : forall fix1 x e, step fix1 x e = run_acts fix1 x (step_acts fix1 x e).
Proof. exact step_is_run_acts. Qed.
Print Assumptions C02_step_refines_actions.
