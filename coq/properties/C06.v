(* C06 - pass-through streams relay both directions faithfully and end together.
   Model: theories/Forwarder/Model.v (event-level model of StreamForwarder.Run: two relay directions sharing one
   shutdown latch), extracted and compared with the real forwarder (default mode and the LCM branch of handleStream)
   driven through in-memory streams in a synctest bubble. *)
From Coq Require Import List ZArith Bool.
From S2S Require Import Forwarder.Model Forwarder.Proofs.
Import ListNotations.

(* for EVERY sequence of events of both peers: what reached the initiator is a prefix - same order, same content - of the
   replication messages the source sent, and what reached the source is a prefix of the initiator's sync-state messages *)
Theorem C06_relay_prefix : forall es,
  is_prefix (to_ini (frun es)) (all_of is_src_msg es) /\ is_prefix (to_src (frun es)) (all_of is_ini_msg es).
Proof. exact relay_prefix. Qed.
Print Assumptions C06_relay_prefix.

(* as long as nobody ends or fails, every message of both directions is relayed *)
Theorem C06_relay_complete_while_up : forall es,
  (forall e, In e es -> exists id, e = SrcMsg id \/ e = IniMsg id) ->
  to_ini (frun es) = all_of is_src_msg es /\ to_src (frun es) = all_of is_ini_msg es /\ up (frun es) = true.
Proof. exact relay_complete_while_up. Qed.
Print Assumptions C06_relay_complete_while_up.

(* whichever side ends or fails (clean EOF, error, cancelled context, unknown message kind, proxy shutdown), at whatever
   position and whatever happens afterwards, the pair is down: handler returned, source context cancelled, send side
   closed, no relay loop alive *)
Theorem C06_joint_end : forall es1 e es2, ends e = true -> ended (frun (es1 ++ e :: es2)) = true.
Proof. exact joint_end. Qed.
Print Assumptions C06_joint_end.

Theorem C06_send_failure_ends : forall es1 id es2,
  up (frun es1) = true -> ini_send_ok (frun es1) = false -> ended (frun (es1 ++ SrcMsg id :: es2)) = true.
Proof. exact send_failure_ends. Qed.
Print Assumptions C06_send_failure_ends.
