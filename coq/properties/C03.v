(* C03 - acknowledgements to a source are monotone, bounded and eventually complete.
   Same model as C01.  Safety clauses: theorems below.  "Eventually complete" is decided as progress
   under the canonical fair schedule (completion rounds in virtual time, on the code and on the model). *)
From Coq Require Import List ZArith Bool.
From S2S Require Import Routing.Model Routing.Basic Routing.Inv Routing.Mono Routing.Complete.
Import ListNotations.
Open Scope Z_scope.

(* Every acknowledgement the receiver sends upstream becomes its new last-sent value, is not below the
   previous one (given the receiver invariant lastsent <= last source watermark) and never exceeds the last
   exclusive high watermark received from the source; nothing else in the receiver changes. *)
Theorem C03_ack_monotone_bounded : forall sr T v r,
  let '(r', os) := process_ack sr T v r in
  (os = [] /\ r_lastsent r' = r_lastsent r
   \/ exists a, os = [OSrc sr a]
               /\ r_lastsent r' = a
               /\ (lastsent_ok r -> r_lastsent r <= a)
               /\ (0 < r_high r -> a <= r_high r)
               /\ (forall T' v', aget T' (r_map r') = Some v' -> a <= v'))
  /\ r_map r' = aset T v (r_map r)
  /\ r_high r' = r_high r /\ r_rcv r' = r_rcv r /\ r_pending r' = r_pending r
  /\ r_inq r' = r_inq r /\ r_ackq r' = r_ackq r /\ r_lastwm r' = r_lastwm r.
Proof. exact process_ack_spec. Qed.
Print Assumptions C03_ack_monotone_bounded.

Theorem C03_step_refines_actions : forall fix1 x e, step fix1 x e = run_acts fix1 x (step_acts fix1 x e).
Proof. exact step_is_run_acts. Qed.
Print Assumptions C03_step_refines_actions.

(* Monotone and bounded, end to end: for every number of sources and targets and EVERY fault-free sequence of actions with
   well-behaved sources, every acknowledgement a receiver sends to its source is at least the one it sent before and at
   most the source's last high watermark (and it is what the receiver records as last sent). *)
Theorem C03_acks_monotone_bounded_all_runs : forall ns nt l, wf_run (init ns nt) l -> all_acks_ok (init ns nt) l.
Proof. intros ns nt l. apply acks_monotone_bounded; [apply inv_init|apply ls_init]. Qed.
Print Assumptions C03_acks_monotone_bounded_all_runs.

(* Completeness, the deciding step: once every target shard the receiver tracks has acknowledged up to the source's last high
   watermark, the acknowledgement sent upstream is exactly that watermark (and it is what the receiver records as sent). *)
Theorem C03_ack_complete_when_all_targets_caught_up : forall sr T v r,
  0 < r_high r -> r_lastsent r <= r_high r -> all_caught_up T v r ->
  let '(r', os) := process_ack sr T v r in
  os = [OSrc sr (r_high r)] /\ r_lastsent r' = r_high r.
Proof. exact process_ack_complete. Qed.
Print Assumptions C03_ack_complete_when_all_targets_caught_up.

(* ... as a statement about the receiver's action in any state of the system *)
Theorem C03_procack_action_complete : forall fix1 x sr r T v q,
  nth_error (recvs x) sr = Some r -> r_ackq r = (T, v) :: q ->
  0 < r_high r -> r_lastsent r <= r_high r -> all_caught_up T v r ->
  snd (apply_act fix1 x (AProcAck sr)) = [OSrc sr (r_high r)].
Proof. exact procack_action_complete. Qed.
Print Assumptions C03_procack_action_complete.

(* ... and never earlier: an acknowledgement sent upstream is at most the level of every tracked target *)
Theorem C03_ack_not_early : forall sr T v r T' v' a,
  In (T', v') (aset T v (r_map r)) -> snd (process_ack sr T v r) = [OSrc sr a] -> a <= v'.
Proof. exact process_ack_not_early. Qed.
Print Assumptions C03_ack_not_early.
