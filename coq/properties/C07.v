(* C07 - LCM mode presents one consistent shard space to both clusters.
   Model: theories/Lcm/Model.v (common.GCD/LCM in int32, MapShardID, handleStream's rewrite,
   the parameters given to the inbound and outbound servers). *)
From Coq Require Import List ZArith.
From S2S Require Import Base.MachineInt Lcm.Model Lcm.Proofs.
Import ListNotations.
Open Scope Z_scope.

(* For every pair of shard counts in the supported range (1..46340, where the int32 product
   cannot wrap; 16384 is inside) and both directions: the shard count shown to the peer is the
   least common multiple; a stream opened for LCM shard s (any s in 1..LCM, any initiator ids) is
   forwarded with s as the initiator's shard id and exactly one real shard r of the serving
   cluster, 1 <= r <= count, and r owns - under the serving cluster's own count - every workflow
   whose hash falls on s.  No panic (the rewrite returns Some). *)
Theorem C07_lcm_mode_consistent : forall local remote inbound s,
  supported local -> supported remote ->
  let p := params local remote inbound in
  let c := p_target p in
  p_lcm p = Z.lcm local remote
  /\ (1 <= s <= p_lcm p ->
      forall cc ci sc,
        exists r, rewrite p ((cc, ci), (sc, s)) = Some ((cc, s), (sc, r))
                  /\ 1 <= r <= c
                  /\ forall h, 0 <= h -> owner_n h (p_lcm p) = s -> owner_n h c = r).
Proof. exact lcm_mode_consistent. Qed.
Print Assumptions C07_lcm_mode_consistent.

Theorem C07_lcm32_is_lcm : forall a b, 0 < a -> 0 < b -> a * b <= max_int32 -> lcm32 a b = Z.lcm a b.
Proof. exact lcm32_correct. Qed.
Print Assumptions C07_lcm32_is_lcm.

Theorem C07_gcd32_is_gcd : forall a b, 0 < a -> 0 < b -> gcd32 a b = Z.gcd a b.
Proof. exact gcd32_correct. Qed.
Print Assumptions C07_gcd32_is_gcd.

(* non-vacuity and the documented limit of the range *)
Theorem C07_example : lcm32 12 18 = 36 /\ map_unique 36 12 29 = Some 5 /\ map_unique 36 18 29 = Some 11.
Proof. exact lcm_example. Qed.
Print Assumptions C07_example.

Theorem C07_outside_range_wraps : lcm32 65536 65537 <> Z.lcm 65536 65537.
Proof. exact lcm32_overflow_example. Qed.
Print Assumptions C07_outside_range_wraps.
