(* C19 - TLS endpoints admit only peers authenticated by the configured CA.
   Model: theories/Tls/Model.v: the configuration builders of encryption/tls.go as functions of the
   configuration shape, and crypto/tls's admission rule as a table.  Both are compared with the real code on
   every run: the fields of the tls.Config returned by GetServerTLSConfig / GetClientTLSConfig for all 16
   shapes, and real handshakes for the credential x shape x role matrix. *)
From Coq Require Import Bool List.
From S2S Require Import Tls.Model Tls.Proofs.

(* A listener built with verification on completes a connection only with a peer that presents a certificate
   chaining to the configured CA, inside its validity window, usable for client authentication. *)
Theorem C19_server_admits_only_authenticated : forall s c p,
  server_build s = Built c -> sh_skip s = false -> server_admits c p = true -> good_client_peer p = true.
Proof. exact server_admits_only_authenticated. Qed.
Print Assumptions C19_server_admits_only_authenticated.

(* As a client with a CA file configured: additionally the server certificate must match the configured name, and the trust
   anchor is the configured CA alone. *)
Theorem C19_client_admits_only_authenticated : forall s c p,
  client_build s = Built c -> sh_skip s = false -> sh_ca s = true -> client_admits c p = true -> good_server_peer p = true.
Proof. exact client_admits_only_authenticated. Qed.
Print Assumptions C19_client_admits_only_authenticated.

(* ... so a server that does not chain to the configured CA is refused whatever the host's trust store says about it *)
Theorem C19_configured_ca_excludes_host_store : forall s c p,
  client_build s = Built c -> sh_skip s = false -> sh_ca s = true -> p_chain p = false -> client_admits c p = false.
Proof. exact configured_ca_excludes_host_store. Qed.
Print Assumptions C19_configured_ca_excludes_host_store.

(* For every client shape (with or without a CA file) an admitted server is authenticated by the trust anchor in force: the
   configured CA, or - no CA file given - the host's trust store. *)
Theorem C19_client_admits_only_anchor_authenticated : forall s c p,
  client_build s = Built c -> sh_skip s = false -> client_admits c p = true -> good_server_peer_for s p = true.
Proof. exact client_admits_only_authenticated_for. Qed.
Print Assumptions C19_client_admits_only_anchor_authenticated.

(* Disabling verification explicitly is the only way to relax this. *)
Theorem C19_only_skip_relaxes_server : forall s c p,
  server_build s = Built c -> server_admits c p = true -> good_client_peer p = false -> sh_skip s = true.
Proof. exact only_skip_relaxes_server. Qed.
Print Assumptions C19_only_skip_relaxes_server.

Theorem C19_only_skip_relaxes_client : forall s c p,
  client_build s = Built c -> client_admits c p = true -> good_server_peer_for s p = false -> sh_skip s = true.
Proof. exact only_skip_relaxes_client. Qed.
Print Assumptions C19_only_skip_relaxes_client.

Theorem C19_verifying_server_has_the_ca : forall s c,
  server_build s = Built c -> sh_skip s = false -> sh_ca s = true /\ sc_auth c = RequireAndVerifyClientCert /\ sc_cas c = true.
Proof. exact verification_needs_ca. Qed.
Print Assumptions C19_verifying_server_has_the_ca.

(* the configuration before the "fix:" commit for F9 (RequireAnyClientCert) admitted a self-signed client *)
Theorem C19_refuted_before_fix :
  server_admits {| sc_auth := RequireAnyClientCert; sc_cas := true; sc_has_cert := true; sc_custom_time := false; sc_hooks_reject := false |}
                {| p_presents := true; p_chain := false; p_host := false; p_time := true; p_usage := true; p_name := false |} = true.
Proof. exact require_any_admits_self_signed. Qed.
Print Assumptions C19_refuted_before_fix.
