(* C13 - translation touches nothing else, is invertible and points the right way. *)
From Coq Require Import List PArith Bool.
From S2S Require Import Schema.Check Schema.CheckProofs Schema.CurrentNs Schema.SearchAttr Schema.BiMap.
From S2SGen Require Import Schema_gen.
Import ListNotations.

(* the namespace walker changes a string only at a position the descriptors tag as a namespace name (current build) *)
Theorem C13_only_namespace_positions : forall ty t f,
  In ty (all_reachable gen_schema) -> lookup (types gen_schema) ty = Some t -> In f (t_fields t) ->
  walker_translates_ns gen_schema ty f = true -> f_tag f = GNamespace.
Proof. exact (ns_only_tagged gen_schema current_ns_ok). Qed.
Print Assumptions C13_only_namespace_positions.

(* names and keys outside the mapping's domain are left exactly as they are *)
Theorem C13_only_mapped_keys : forall V m (kvs : list (positive * V)),
  (forall k, In k (map fst kvs) -> mget k m = None) -> rename m kvs = kvs.
Proof. intros; apply rename_only_mapped; assumption. Qed.
Print Assumptions C13_only_mapped_keys.

(* a round trip through the inverse mapping restores every name that is mapped, and every unmapped name that is not
   itself the target of a mapping (the side condition is necessary: see SearchAttr.round_trip_needs_side_condition) *)
Theorem C13_round_trip : forall m, functional m -> injective m ->
  forall k, ((exists k', mget k m = Some k') \/ mget k (inverse m) = None) -> apply (inverse m) (apply m k) = k.
Proof. exact round_trip_names. Qed.
Print Assumptions C13_round_trip.

(* configurations whose mappings are not one-to-one are rejected; accepted ones are stored as given and their two
   directions are mutually inverse *)
Theorem C13_bimap_accepts_exactly_one_to_one : forall pairs,
  match new_bimap pairs with
  | Some m => m = pairs /\ functional m /\ injective m
  | None => ~ (functional pairs /\ injective pairs)
  end.
Proof. exact new_bimap_spec. Qed.
Print Assumptions C13_bimap_accepts_exactly_one_to_one.

Theorem C13_directions_are_inverse : forall m k v,
  functional m -> injective m -> (mget k m = Some v <-> mget v (inverse m) = Some k).
Proof. exact bimap_inverse_lookup. Qed.
Print Assumptions C13_directions_are_inverse.

(* requests from the remote side are mapped remote-to-local and their responses local-to-remote; the opposite on the
   local side; so a round trip restores the original names *)
Theorem C13_direction_round_trip : forall m, functional m -> injective m ->
  forall l r, mget l m = Some r ->
    apply (tr_req (inbound_translator m)) r = l /\ apply (tr_resp (inbound_translator m)) l = r
    /\ apply (tr_req (outbound_translator m)) l = r /\ apply (tr_resp (outbound_translator m)) r = l.
Proof. exact direction_round_trip. Qed.
Print Assumptions C13_direction_round_trip.
