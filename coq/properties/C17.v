(* C17 - UTF-8 repair is invisible on valid data and faithful on invalid data.
   Byte-level model: theories/Repair/Utf8.v (Go's UTF-8 validity, strings.ToValidUTF8 with U+FFFD, and the walk of
   repairInvalidUTF8InFailure over a chain of causes).  The wire codecs (protobuf-go, gogo) are not modelled: the
   codec-level clauses are tied to the code by the differential run against the standard codec on sanitised bytes. *)
From Coq Require Import List Arith Bool.
From S2S Require Import Repair.Utf8 Repair.Utf8Proofs.
Import ListNotations.

(* whatever the input bytes, the repaired string is valid UTF-8 *)
Theorem C17_repaired_is_valid : forall s, Valid (to_valid_utf8 s).
Proof. exact to_valid_utf8_valid. Qed.
Print Assumptions C17_repaired_is_valid.

(* valid data is returned byte for byte *)
Theorem C17_invisible_on_valid : forall s, Valid s -> to_valid_utf8 s = s.
Proof. exact to_valid_utf8_id_on_valid. Qed.
Print Assumptions C17_invisible_on_valid.

Theorem C17_unchanged_iff_valid : forall s, to_valid_utf8 s = s <-> Valid s.
Proof. exact to_valid_utf8_fixpoint_iff. Qed.
Print Assumptions C17_unchanged_iff_valid.

Theorem C17_validity_test_correct : forall s, valid_utf8 s = true <-> Valid s.
Proof. exact valid_utf8_spec. Qed.
Print Assumptions C17_validity_test_correct.

(* a failure chain within the supported depth: no error, every message valid afterwards, "changed" is reported iff some
   message was invalid, and a chain that was already valid is left exactly as it was *)
Theorem C17_chain_within_depth : forall chain,
  length chain <= max_depth ->
  let '(out, changed, err) := repair_chain chain in
  err = false
  /\ out = map to_valid_utf8 chain
  /\ Forall Valid out
  /\ (changed = false <-> Forall Valid chain)
  /\ (Forall Valid chain -> out = chain).
Proof. exact repair_chain_within_depth. Qed.
Print Assumptions C17_chain_within_depth.

(* beyond the supported depth the repair reports an error instead of passing the message on *)
Theorem C17_chain_too_deep_is_error : forall chain,
  max_depth < length chain -> let '(_, _, err) := repair_chain chain in err = true.
Proof. exact repair_chain_too_deep. Qed.
Print Assumptions C17_chain_too_deep_is_error.

Theorem C17_examples :
  to_valid_utf8 [97; 255; 254; 98] = [97; 239; 191; 189; 98] /\ to_valid_utf8 [240; 159; 152] = [239; 191; 189].
Proof. split; [exact run_collapses|exact truncated_emoji]. Qed.
Print Assumptions C17_examples.
