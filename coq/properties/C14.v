(* C14 - search-attribute keys are renamed consistently and values are untouched. *)
From Coq Require Import List PArith Bool.
From S2S Require Import Schema.Check Schema.CheckProofs Schema.CurrentSa Schema.SearchAttr.
From S2SGen Require Import Schema_gen.
Import ListNotations.

(* translateIndexedFields: every value is kept, exactly the mapped keys are renamed, unmapped keys are preserved,
   and nothing is lost when the renamed keys do not collide *)
Theorem C14_values_untouched : forall V m (kvs : list (positive * V)), map snd (rename m kvs) = map snd kvs.
Proof. intros; apply rename_values_untouched. Qed.
Print Assumptions C14_values_untouched.

Theorem C14_mapped_keys_renamed : forall V m (kvs : list (positive * V)) k k' v,
  mget k m = Some k' -> In (k, v) kvs -> In (k', v) (rename m kvs).
Proof. intros; eapply rename_mapped_key_renamed; eauto. Qed.
Print Assumptions C14_mapped_keys_renamed.

Theorem C14_unmapped_keys_preserved : forall V m (kvs : list (positive * V)) k v,
  mget k m = None -> In (k, v) kvs -> In (k, v) (rename m kvs).
Proof. intros; eapply rename_unmapped_key_kept; eauto. Qed.
Print Assumptions C14_unmapped_keys_preserved.

Theorem C14_no_loss_without_collision : forall V m (kvs : list (positive * V)),
  NoDup (map (apply m) (map fst kvs)) -> NoDup (map fst (rename m kvs)) /\ length (rename m kvs) = length kvs.
Proof. intros; apply rename_no_loss; assumption. Qed.
Print Assumptions C14_no_loss_without_collision.

(* on the current build the search-attribute walker handles exactly the containers the descriptors name (typed
   container and bare map forms) and decodes exactly the event blobs, in every reachable type *)
Theorem C14_current_build : sa_coverage_ok gen_schema = true.
Proof. exact current_sa_ok. Qed.
Print Assumptions C14_current_build.

Theorem C14_every_container_is_handled : forall ty t f,
  In ty (all_reachable gen_schema) -> lookup (types gen_schema) ty = Some t -> In f (t_fields t) ->
  (f_tag f = GSAContainer <-> walker_handles_sa gen_schema f = true)
  /\ (f_tag f = GEventBlob <-> walker_decodes_blob gen_schema f = true).
Proof. exact (sa_coverage_fields gen_schema C14_current_build). Qed.
Print Assumptions C14_every_container_is_handled.
