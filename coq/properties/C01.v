(* C01 - routing mode never acknowledges a task the target has not confirmed.
   Model: theories/Routing/Model.v (action system + executable scheduler [step], extracted and
   compared with the real streamRouting pairs on every run). *)
From Coq Require Import List ZArith Bool.
From S2S Require Import Routing.Model Routing.Basic Routing.Monitor Routing.Witness Routing.Inv.
Import ListNotations.
Open Scope Z_scope.

(* The executable event-level semantics that is run against the code only ever performs actions
   of the transition system: whatever is proved for all action sequences holds for it. *)
Theorem C01_step_refines_actions : forall fix1 x e, step fix1 x e = run_acts fix1 x (step_acts fix1 x e).
Proof. exact step_is_run_acts. Qed.
Print Assumptions C01_step_refines_actions.

(* The value sent upstream is at most the value of EVERY target in the per-target map (including the
   targets that were only registered and have not acknowledged anything yet). *)
Theorem C01_ack_below_every_registered_target : forall sr T v r,
  let '(r', os) := process_ack sr T v r in
  (os = [] /\ r_lastsent r' = r_lastsent r
   \/ exists a, os = [OSrc sr a]
               /\ r_lastsent r' = a
               /\ (lastsent_ok r -> r_lastsent r <= a)
               /\ (0 < r_high r -> a <= r_high r)
               /\ (forall T' v', aget T' (r_map r') = Some v' -> a <= v'))
  /\ r_map r' = aset T v (r_map r)
  /\ r_high r' = r_high r /\ r_rcv r' = r_rcv r /\ r_pending r' = r_pending r
  /\ r_inq r' = r_inq r /\ r_ackq r' = r_ackq r /\ r_lastwm r' = r_lastwm r.
Proof. exact process_ack_spec. Qed.
Print Assumptions C01_ack_below_every_registered_target.

(* Reading a batch registers every target that is handed a task, at the first id routed to it, and never
   changes a value a target has already reported. *)
Theorem C01_registration_covers : forall gs m T ts, In (T, ts) gs -> exists v, aget T (register gs m) = Some v.
Proof. exact register_covers. Qed.
Print Assumptions C01_registration_covers.

Theorem C01_registration_value : forall gs m T v,
  aget T m = None -> aget T (register gs m) = Some v -> exists ts, In (T, ts) gs /\ v = first_id ts.
Proof. exact register_new. Qed.
Print Assumptions C01_registration_value.

(* The code before the "fix:" commit for F1 violates the property (two targets, T0 acknowledges first);
   the same history is safe on the current model. *)
Theorem C01_refuted_without_registration : any_unsafe false (init 1 2) f1_history = true.
Proof. exact f1_unsafe_before_fix. Qed.
Print Assumptions C01_refuted_without_registration.

Theorem C01_same_history_safe_now : any_unsafe true (init 1 2) f1_history = false.
Proof. exact f1_safe_after_fix. Qed.
Print Assumptions C01_same_history_safe_now.

(* THE PROPERTY, end to end.  For every number of sources and targets and EVERY sequence of actions of the transition
   system - every interleaving of the critical sections of all receivers, senders and acknowledgement goroutines, every
   batch shape, every timing of acknowledgements, stalls and first connections - in which the sources follow the sender
   contract (wf_act: ids increase, watermarks above ids and monotone) and no stream fails (failures are property C04):
   every acknowledgement sent to a source is safe in the state in which it is sent, i.e. every task of that source below
   it has an entry in its owning target's id table with a proxy id that this target has acknowledged.
   [all_safe] is stated with the executable monitor [unsafe_ack] of Routing/Monitor.v, the same predicate that is applied
   to the implementation's traces. *)
Theorem C01_safe_acks : forall ns nt l, wf_run (init ns nt) l -> all_safe (init ns nt) l.
Proof. exact safe_acks_from_start. Qed.
Print Assumptions C01_safe_acks.

(* the same for the executable event-level semantics that is extracted and compared with the real code *)
Theorem C01_safe_acks_executable : forall ns nt evs, wf_events (init ns nt) evs -> events_safe (init ns nt) evs.
Proof. intros ns nt evs. apply events_safe_all. apply inv_init. Qed.
Print Assumptions C01_safe_acks_executable.

(* the invariant behind it holds in every reachable state *)
Theorem C01_invariant_reachable : forall ns nt l, wf_run (init ns nt) l -> Inv (fst (run_acts true (init ns nt) l)).
Proof. intros ns nt l. apply inv_run. apply inv_init. Qed.
Print Assumptions C01_invariant_reachable.

(* the hypotheses are satisfiable: the actions of the F1 history form a well-formed run *)
Theorem C01_premises_satisfiable :
  wf_run (init 1 2) [AConnect 0; AConnect 1; APush 0 [tk 5 1] 6; ARead 0; AHandoff 0 1; APush 0 [tk 6 0] 7; ARead 0; AHandoff 0 0;
                     ADequeue 0; ASend 0; AAckIn 0 2; AAggregate 0; ADeliver 0; ADiscard 0; AProcAck 0].
Proof. exact wf_nonvacuous. Qed.
Print Assumptions C01_premises_satisfiable.
