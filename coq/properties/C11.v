(* C11 - RPCs travel only over live mux sessions and fail over between them.
   Model: theories/Mcc/Model.v.  Fail-over between endpoints and resumption are behaviours of gRPC's balancer: they are
   exercised by the harness with real RPCs over real yamux sessions and modelled as "an RPC may use any key of the
   current map"; the theorems are about the map. *)
From Coq Require Import List Arith Bool.
From S2S Require Import Mcc.Model Mcc.Proofs.
Import ListNotations.

Theorem C11_endpoints_eq_sessions : forall l, MInv (mrun l).
Proof. exact endpoints_eq_sessions. Qed.
Print Assumptions C11_endpoints_eq_sessions.

Theorem C11_can_call_iff_some_session : forall l, can_make_calls (mrun l) = true <-> table (mrun l) <> [].
Proof. exact can_call_iff_session. Qed.
Print Assumptions C11_can_call_iff_some_session.

Theorem C11_removed_session_not_dialable : forall l id,
  let m := mrun (l ++ [Remove id]) in ~ In id (dialable m) /\ forall x, x <> id -> In x (table (mrun l)) -> In x (dialable m).
Proof. exact removed_not_dialable. Qed.
Print Assumptions C11_removed_session_not_dialable.

Theorem C11_new_session_dialable_at_once : forall l, let m := mrun (l ++ [Add]) in In (next_id (mrun l)) (dialable m).
Proof. exact added_is_dialable. Qed.
Print Assumptions C11_new_session_dialable_at_once.
