
type nat =
| O
| S of nat

val fst : ('a1 * 'a2) -> 'a1

val snd : ('a1 * 'a2) -> 'a2

val length : 'a1 list -> nat

val app : 'a1 list -> 'a1 list -> 'a1 list

type comparison =
| Eq
| Lt
| Gt

val compOpp : comparison -> comparison

val add : nat -> nat -> nat

val mul : nat -> nat -> nat

val sub : nat -> nat -> nat

module Nat :
 sig
  val sub : nat -> nat -> nat

  val eqb : nat -> nat -> bool

  val leb : nat -> nat -> bool

  val ltb : nat -> nat -> bool

  val divmod : nat -> nat -> nat -> nat -> nat * nat

  val modulo : nat -> nat -> nat
 end

val nth : nat -> 'a1 list -> 'a1 -> 'a1

val map : ('a1 -> 'a2) -> 'a1 list -> 'a2 list

val firstn : nat -> 'a1 list -> 'a1 list

val skipn : nat -> 'a1 list -> 'a1 list

val seq : nat -> nat -> nat list

val repeat : 'a1 -> nat -> 'a1 list

type positive =
| XI of positive
| XO of positive
| XH

type z =
| Z0
| Zpos of positive
| Zneg of positive

module Pos :
 sig
  val succ : positive -> positive

  val add : positive -> positive -> positive

  val add_carry : positive -> positive -> positive

  val pred_double : positive -> positive

  val compare_cont : comparison -> positive -> positive -> comparison

  val compare : positive -> positive -> comparison

  val eqb : positive -> positive -> bool

  val iter_op : ('a1 -> 'a1 -> 'a1) -> positive -> 'a1 -> 'a1

  val to_nat : positive -> nat

  val of_succ_nat : nat -> positive
 end

module Z :
 sig
  val double : z -> z

  val succ_double : z -> z

  val pred_double : z -> z

  val pos_sub : positive -> positive -> z

  val add : z -> z -> z

  val opp : z -> z

  val sub : z -> z -> z

  val compare : z -> z -> comparison

  val leb : z -> z -> bool

  val ltb : z -> z -> bool

  val gtb : z -> z -> bool

  val eqb : z -> z -> bool

  val to_nat : z -> nat

  val of_nat : nat -> z
 end

val set_nth : nat -> 'a1 -> 'a1 list -> 'a1 list

type shard = z * z

val shard_eqb : shard -> shard -> bool

type entry = { e_src : shard; e_task : z }

val hole : entry

val is_hole : entry -> bool

type ring = { slots : entry list; head : nat; size : nat; start : z }

val cap : ring -> nat

val slot_at : ring -> nat -> entry

val view : ring -> entry list

val new_ring : z -> ring

val ensure : ring -> ring

val write : ring -> entry -> ring

val pad : nat -> ring -> ring

val append : bool -> ring -> z -> shard -> z -> ring

val aget : shard -> (shard * z) list -> z option

val aset : shard -> z -> (shard * z) list -> (shard * z) list

val agg_max : entry list -> (shard * z) list -> (shard * z) list

val covered : z -> nat -> z -> nat

val aggregate : ring -> z -> (shard * z) list * nat

val discard : ring -> z -> ring

type aring = { a_start : z; a_items : entry list }

val abs : ring -> aring

val a_append : aring -> z -> shard -> z -> aring

val a_aggregate : aring -> z -> (shard * z) list * nat

val a_discard : aring -> z -> aring

type op =
| OAppend of z * shard * z
| OAggregate of z
| ODiscard of z

type obs =
| ObsNone
| ObsAgg of (shard * z) list * nat

val step : bool -> ring -> op -> ring * obs

val a_step : aring -> op -> aring * obs
