
type nat =
| O
| S of nat

(** val fst : ('a1 * 'a2) -> 'a1 **)

let fst = function
| (x, _) -> x

(** val snd : ('a1 * 'a2) -> 'a2 **)

let snd = function
| (_, y) -> y

(** val length : 'a1 list -> nat **)

let rec length = function
| [] -> O
| _ :: l' -> S (length l')

(** val app : 'a1 list -> 'a1 list -> 'a1 list **)

let rec app l m =
  match l with
  | [] -> m
  | a :: l1 -> a :: (app l1 m)

type comparison =
| Eq
| Lt
| Gt

(** val compOpp : comparison -> comparison **)

let compOpp = function
| Eq -> Eq
| Lt -> Gt
| Gt -> Lt

module Coq__1 = struct
 (** val add : nat -> nat -> nat **)
 let rec add n m =
   match n with
   | O -> m
   | S p -> S (add p m)
end
include Coq__1

(** val mul : nat -> nat -> nat **)

let rec mul n m =
  match n with
  | O -> O
  | S p -> add m (mul p m)

(** val sub : nat -> nat -> nat **)

let rec sub n m =
  match n with
  | O -> n
  | S k -> (match m with
            | O -> n
            | S l -> sub k l)

module Nat =
 struct
  (** val sub : nat -> nat -> nat **)

  let rec sub n m =
    match n with
    | O -> n
    | S k -> (match m with
              | O -> n
              | S l -> sub k l)

  (** val eqb : nat -> nat -> bool **)

  let rec eqb n m =
    match n with
    | O -> (match m with
            | O -> true
            | S _ -> false)
    | S n' -> (match m with
               | O -> false
               | S m' -> eqb n' m')

  (** val leb : nat -> nat -> bool **)

  let rec leb n m =
    match n with
    | O -> true
    | S n' -> (match m with
               | O -> false
               | S m' -> leb n' m')

  (** val ltb : nat -> nat -> bool **)

  let ltb n m =
    leb (S n) m

  (** val divmod : nat -> nat -> nat -> nat -> nat * nat **)

  let rec divmod x y q u =
    match x with
    | O -> (q, u)
    | S x' ->
      (match u with
       | O -> divmod x' y (S q) y
       | S u' -> divmod x' y q u')

  (** val modulo : nat -> nat -> nat **)

  let modulo x = function
  | O -> x
  | S y' -> sub y' (snd (divmod x y' O y'))
 end

(** val nth : nat -> 'a1 list -> 'a1 -> 'a1 **)

let rec nth n l default =
  match n with
  | O -> (match l with
          | [] -> default
          | x :: _ -> x)
  | S m -> (match l with
            | [] -> default
            | _ :: t -> nth m t default)

(** val map : ('a1 -> 'a2) -> 'a1 list -> 'a2 list **)

let rec map f = function
| [] -> []
| a :: t -> (f a) :: (map f t)

(** val firstn : nat -> 'a1 list -> 'a1 list **)

let rec firstn n l =
  match n with
  | O -> []
  | S n0 -> (match l with
             | [] -> []
             | a :: l0 -> a :: (firstn n0 l0))

(** val skipn : nat -> 'a1 list -> 'a1 list **)

let rec skipn n l =
  match n with
  | O -> l
  | S n0 -> (match l with
             | [] -> []
             | _ :: l0 -> skipn n0 l0)

(** val seq : nat -> nat -> nat list **)

let rec seq start0 = function
| O -> []
| S len0 -> start0 :: (seq (S start0) len0)

(** val repeat : 'a1 -> nat -> 'a1 list **)

let rec repeat x = function
| O -> []
| S k -> x :: (repeat x k)

type positive =
| XI of positive
| XO of positive
| XH

type z =
| Z0
| Zpos of positive
| Zneg of positive

module Pos =
 struct
  (** val succ : positive -> positive **)

  let rec succ = function
  | XI p -> XO (succ p)
  | XO p -> XI p
  | XH -> XO XH

  (** val add : positive -> positive -> positive **)

  let rec add x y =
    match x with
    | XI p ->
      (match y with
       | XI q -> XO (add_carry p q)
       | XO q -> XI (add p q)
       | XH -> XO (succ p))
    | XO p ->
      (match y with
       | XI q -> XI (add p q)
       | XO q -> XO (add p q)
       | XH -> XI p)
    | XH -> (match y with
             | XI q -> XO (succ q)
             | XO q -> XI q
             | XH -> XO XH)

  (** val add_carry : positive -> positive -> positive **)

  and add_carry x y =
    match x with
    | XI p ->
      (match y with
       | XI q -> XI (add_carry p q)
       | XO q -> XO (add_carry p q)
       | XH -> XI (succ p))
    | XO p ->
      (match y with
       | XI q -> XO (add_carry p q)
       | XO q -> XI (add p q)
       | XH -> XO (succ p))
    | XH ->
      (match y with
       | XI q -> XI (succ q)
       | XO q -> XO (succ q)
       | XH -> XI XH)

  (** val pred_double : positive -> positive **)

  let rec pred_double = function
  | XI p -> XI (XO p)
  | XO p -> XI (pred_double p)
  | XH -> XH

  (** val compare_cont : comparison -> positive -> positive -> comparison **)

  let rec compare_cont r x y =
    match x with
    | XI p ->
      (match y with
       | XI q -> compare_cont r p q
       | XO q -> compare_cont Gt p q
       | XH -> Gt)
    | XO p ->
      (match y with
       | XI q -> compare_cont Lt p q
       | XO q -> compare_cont r p q
       | XH -> Gt)
    | XH -> (match y with
             | XH -> r
             | _ -> Lt)

  (** val compare : positive -> positive -> comparison **)

  let compare =
    compare_cont Eq

  (** val eqb : positive -> positive -> bool **)

  let rec eqb p q =
    match p with
    | XI p0 -> (match q with
                | XI q0 -> eqb p0 q0
                | _ -> false)
    | XO p0 -> (match q with
                | XO q0 -> eqb p0 q0
                | _ -> false)
    | XH -> (match q with
             | XH -> true
             | _ -> false)

  (** val iter_op : ('a1 -> 'a1 -> 'a1) -> positive -> 'a1 -> 'a1 **)

  let rec iter_op op0 p a =
    match p with
    | XI p0 -> op0 a (iter_op op0 p0 (op0 a a))
    | XO p0 -> iter_op op0 p0 (op0 a a)
    | XH -> a

  (** val to_nat : positive -> nat **)

  let to_nat x =
    iter_op Coq__1.add x (S O)

  (** val of_succ_nat : nat -> positive **)

  let rec of_succ_nat = function
  | O -> XH
  | S x -> succ (of_succ_nat x)
 end

module Z =
 struct
  (** val double : z -> z **)

  let double = function
  | Z0 -> Z0
  | Zpos p -> Zpos (XO p)
  | Zneg p -> Zneg (XO p)

  (** val succ_double : z -> z **)

  let succ_double = function
  | Z0 -> Zpos XH
  | Zpos p -> Zpos (XI p)
  | Zneg p -> Zneg (Pos.pred_double p)

  (** val pred_double : z -> z **)

  let pred_double = function
  | Z0 -> Zneg XH
  | Zpos p -> Zpos (Pos.pred_double p)
  | Zneg p -> Zneg (XI p)

  (** val pos_sub : positive -> positive -> z **)

  let rec pos_sub x y =
    match x with
    | XI p ->
      (match y with
       | XI q -> double (pos_sub p q)
       | XO q -> succ_double (pos_sub p q)
       | XH -> Zpos (XO p))
    | XO p ->
      (match y with
       | XI q -> pred_double (pos_sub p q)
       | XO q -> double (pos_sub p q)
       | XH -> Zpos (Pos.pred_double p))
    | XH ->
      (match y with
       | XI q -> Zneg (XO q)
       | XO q -> Zneg (Pos.pred_double q)
       | XH -> Z0)

  (** val add : z -> z -> z **)

  let add x y =
    match x with
    | Z0 -> y
    | Zpos x' ->
      (match y with
       | Z0 -> x
       | Zpos y' -> Zpos (Pos.add x' y')
       | Zneg y' -> pos_sub x' y')
    | Zneg x' ->
      (match y with
       | Z0 -> x
       | Zpos y' -> pos_sub y' x'
       | Zneg y' -> Zneg (Pos.add x' y'))

  (** val opp : z -> z **)

  let opp = function
  | Z0 -> Z0
  | Zpos x0 -> Zneg x0
  | Zneg x0 -> Zpos x0

  (** val sub : z -> z -> z **)

  let sub m n =
    add m (opp n)

  (** val compare : z -> z -> comparison **)

  let compare x y =
    match x with
    | Z0 -> (match y with
             | Z0 -> Eq
             | Zpos _ -> Lt
             | Zneg _ -> Gt)
    | Zpos x' -> (match y with
                  | Zpos y' -> Pos.compare x' y'
                  | _ -> Gt)
    | Zneg x' ->
      (match y with
       | Zneg y' -> compOpp (Pos.compare x' y')
       | _ -> Lt)

  (** val leb : z -> z -> bool **)

  let leb x y =
    match compare x y with
    | Gt -> false
    | _ -> true

  (** val ltb : z -> z -> bool **)

  let ltb x y =
    match compare x y with
    | Lt -> true
    | _ -> false

  (** val gtb : z -> z -> bool **)

  let gtb x y =
    match compare x y with
    | Gt -> true
    | _ -> false

  (** val eqb : z -> z -> bool **)

  let eqb x y =
    match x with
    | Z0 -> (match y with
             | Z0 -> true
             | _ -> false)
    | Zpos p -> (match y with
                 | Zpos q -> Pos.eqb p q
                 | _ -> false)
    | Zneg p -> (match y with
                 | Zneg q -> Pos.eqb p q
                 | _ -> false)

  (** val to_nat : z -> nat **)

  let to_nat = function
  | Zpos p -> Pos.to_nat p
  | _ -> O

  (** val of_nat : nat -> z **)

  let of_nat = function
  | O -> Z0
  | S n0 -> Zpos (Pos.of_succ_nat n0)
 end

(** val set_nth : nat -> 'a1 -> 'a1 list -> 'a1 list **)

let rec set_nth n x = function
| [] -> []
| h :: t -> (match n with
             | O -> x :: t
             | S n' -> h :: (set_nth n' x t))

type shard = z * z

(** val shard_eqb : shard -> shard -> bool **)

let shard_eqb a b =
  (&&) (Z.eqb (fst a) (fst b)) (Z.eqb (snd a) (snd b))

type entry = { e_src : shard; e_task : z }

(** val hole : entry **)

let hole =
  { e_src = (Z0, Z0); e_task = Z0 }

(** val is_hole : entry -> bool **)

let is_hole e =
  shard_eqb e.e_src (Z0, Z0)

type ring = { slots : entry list; head : nat; size : nat; start : z }

(** val cap : ring -> nat **)

let cap r =
  length r.slots

(** val slot_at : ring -> nat -> entry **)

let slot_at r i =
  nth (Nat.modulo (add r.head i) (cap r)) r.slots hole

(** val view : ring -> entry list **)

let view r =
  map (slot_at r) (seq O r.size)

(** val new_ring : z -> ring **)

let new_ring capacity =
  let c = if Z.ltb capacity (Zpos XH) then S O else Z.to_nat capacity in
  { slots = (repeat hole c); head = O; size = O; start = Z0 }

(** val ensure : ring -> ring **)

let ensure r =
  if Nat.ltb r.size (cap r)
  then r
  else let nc = if Nat.eqb (cap r) O then S O else mul (S (S O)) (cap r) in
       { slots = (app (view r) (repeat hole (sub nc r.size))); head = O;
       size = r.size; start = r.start }

(** val write : ring -> entry -> ring **)

let write r e =
  { slots = (set_nth (Nat.modulo (add r.head r.size) (cap r)) e r.slots);
    head = r.head; size = (S r.size); start = r.start }

(** val pad : nat -> ring -> ring **)

let rec pad n r =
  match n with
  | O -> r
  | S n' -> pad n' (write (ensure r) hole)

(** val append : bool -> ring -> z -> shard -> z -> ring **)

let append fix12 r pid src task =
  let r1 = ensure r in
  let r2 =
    if Nat.eqb r1.size O
    then { slots = r1.slots; head = r1.head; size = O; start = pid }
    else pad (Z.to_nat (Z.sub pid (Z.add r1.start (Z.of_nat r1.size)))) r1
  in
  let r3 = if fix12 then ensure r2 else r2 in
  write r3 { e_src = src; e_task = task }

(** val aget : shard -> (shard * z) list -> z option **)

let rec aget k = function
| [] -> None
| p :: t -> let (k', v) = p in if shard_eqb k k' then Some v else aget k t

(** val aset : shard -> z -> (shard * z) list -> (shard * z) list **)

let rec aset k v = function
| [] -> (k, v) :: []
| p :: t ->
  let (k', v') = p in
  if shard_eqb k k' then (k, v) :: t else (k', v') :: (aset k v t)

(** val agg_max : entry list -> (shard * z) list -> (shard * z) list **)

let rec agg_max es acc =
  match es with
  | [] -> acc
  | e :: rest ->
    let acc' =
      if is_hole e
      then acc
      else (match aget e.e_src acc with
            | Some cur ->
              if Z.gtb e.e_task cur then aset e.e_src e.e_task acc else acc
            | None -> aset e.e_src e.e_task acc)
    in
    agg_max rest acc'

(** val covered : z -> nat -> z -> nat **)

let covered st n w =
  if Nat.eqb n O
  then O
  else if Z.ltb w st
       then O
       else let c64 = Z.add (Z.sub w st) (Zpos XH) in
            if Z.ltb (Z.of_nat n) c64 then n else Z.to_nat c64

(** val aggregate : ring -> z -> (shard * z) list * nat **)

let aggregate r w =
  let c = covered r.start r.size w in ((agg_max (firstn c (view r)) []), c)

(** val discard : ring -> z -> ring **)

let discard r count =
  if Z.leb count Z0
  then r
  else let c =
         if Z.ltb (Z.of_nat r.size) count then r.size else Z.to_nat count
       in
       { slots = r.slots; head = (Nat.modulo (add r.head c) (cap r)); size =
       (sub r.size c); start = (Z.add r.start (Z.of_nat c)) }

type aring = { a_start : z; a_items : entry list }

(** val abs : ring -> aring **)

let abs r =
  { a_start = r.start; a_items = (view r) }

(** val a_append : aring -> z -> shard -> z -> aring **)

let a_append a pid src task =
  let e = { e_src = src; e_task = task } in
  (match a.a_items with
   | [] -> { a_start = pid; a_items = (e :: []) }
   | _ :: _ ->
     { a_start = a.a_start; a_items =
       (app a.a_items
         (app
           (repeat hole
             (Z.to_nat
               (Z.sub pid (Z.add a.a_start (Z.of_nat (length a.a_items))))))
           (e :: []))) })

(** val a_aggregate : aring -> z -> (shard * z) list * nat **)

let a_aggregate a w =
  let c = covered a.a_start (length a.a_items) w in
  ((agg_max (firstn c a.a_items) []), c)

(** val a_discard : aring -> z -> aring **)

let a_discard a count =
  if Z.leb count Z0
  then a
  else let n = length a.a_items in
       let c = if Z.ltb (Z.of_nat n) count then n else Z.to_nat count in
       { a_start = (Z.add a.a_start (Z.of_nat c)); a_items =
       (skipn c a.a_items) }

type op =
| OAppend of z * shard * z
| OAggregate of z
| ODiscard of z

type obs =
| ObsNone
| ObsAgg of (shard * z) list * nat

(** val step : bool -> ring -> op -> ring * obs **)

let step fix12 r = function
| OAppend (pid, src, task) -> ((append fix12 r pid src task), ObsNone)
| OAggregate w -> let (m, c) = aggregate r w in (r, (ObsAgg (m, c)))
| ODiscard c -> ((discard r c), ObsNone)

(** val a_step : aring -> op -> aring * obs **)

let a_step a = function
| OAppend (pid, src, task) -> ((a_append a pid src task), ObsNone)
| OAggregate w -> let (m, c) = a_aggregate a w in (a, (ObsAgg (m, c)))
| ODiscard c -> ((a_discard a c), ObsNone)
