//go:build verif

package proxy

import (
	"context"
	"fmt"
	"io"
	"strconv"
	"strings"
	"sync/atomic"
	"testing"
	"time"

	"go.temporal.io/server/api/adminservice/v1"
	replicationv1 "go.temporal.io/server/api/replication/v1"
	"go.temporal.io/server/client/history"
	"go.temporal.io/server/common/log"
	"go.temporal.io/server/common/log/tag"
	"google.golang.org/grpc/codes"
	"google.golang.org/grpc/metadata"
	"google.golang.org/grpc/status"

	"github.com/temporalio/s2s-proxy/common"
	"github.com/temporalio/s2s-proxy/config"
	"github.com/temporalio/s2s-proxy/encryption"
	"github.com/temporalio/s2s-proxy/logging"
)

type vfCountingLogger struct{ warns atomic.Int64 }

func (l *vfCountingLogger) Warn(msg string, tags ...tag.Tag) { l.warns.Add(1) }
func (l *vfCountingLogger) Info(msg string, tags ...tag.Tag) {}

// TestVerifObserver drives the real ReplicationStreamObserver and the real stream handler
// (all three stream modes) with extreme / malformed stream-open metadata.
//
//	N                         new observer + new servers
//	R idx v                   ReportStreamValue(idx, v)
//	WC                        the witness stream pair (well-formed, routing mode, up since N) must still carry a watermark and its acknowledgement
//	H mode ok cc cs sc ss     StreamWorkflowReplicationMessages with metadata (values: text, "-" = absent); mode intra = routing mode,
//	                          opened by a peer instance (intra-proxy marker) towards a shard that is local here
func TestVerifObserver(t *testing.T) {
	sc, w, done := verifIO(t)
	defer done()
	var obs *ReplicationStreamObserver
	var lg *vfCountingLogger
	var client *vfAdminClient
	sms := map[string]ShardManager{}
	var witness *vrScenario
	var witnessWM int64
	vwSrc, vwTgt := history.ClusterShardID{ClusterID: 1234567, ShardID: 5003}, history.ClusterShardID{ClusterID: 1234570, ShardID: 5004}
	servers := map[string]adminservice.AdminServiceServer{}
	loggers := logging.NewLoggerProvider(log.NewNoopLogger(), config.NewMockConfigProvider(config.S2SProxyConfig{}))
	lockState := func() string {
		if obs.streamGrowLock.TryLock() {
			obs.streamGrowLock.Unlock()
			return "locked=0"
		}
		return "locked=1"
	}
	active := func() string {
		ch := make(chan string, 1)
		go func() { ch <- obs.PrintActiveStreams() }()
		select {
		case s := <-ch:
			return strings.TrimSuffix(strings.ReplaceAll(s, ",]", "]"), "")
		case <-time.After(3 * time.Second):
			return "BLOCKED"
		}
	}
	wedged := false
	for sc.Scan() {
		f := verifFields(sc.Text())
		if len(f) == 0 {
			continue
		}
		if wedged && f[0] != "N" {
			// the observer is wedged: every later operation of this history would block as well
			fmt.Fprintf(w, "%s DEAD\n", f[0])
			continue
		}
		switch f[0] {
		case "N":
			wedged = false
			for k, sm := range sms {
				if k != "intra0" {
					sm.Stop()
				}
				delete(sms, k)
			}
			lg = &vfCountingLogger{}
			obs = NewReplicationStreamObserver(lg)
			client = &vfAdminClient{autoClose: true}
			ctx := context.Background()
			mkWith := func(mode config.ShardCountMode, ml *config.MemberlistConfig, key string) adminservice.AdminServiceServer {
				scc := config.ShardCountConfig{Mode: mode}
				sm := NewShardManager(ml, scc, encryption.TLSConfig{}, loggers)
				if err := sm.Start(ctx); err != nil {
					t.Fatalf("shard manager start: %v", err)
				}
				sms[key] = sm
				return NewAdminServiceProxyServer("verif", client, client, AdminServiceOverrides{}, []string{"inbound"}, obs.ReportStreamValue,
					scc, LCMParameters{LCM: 12, TargetShardCount: 4}, RoutingParameters{RoutingLocalShardCount: 4, DirectionLabel: "verif"},
					loggers, sm, ctx)
			}
			mk := func(mode config.ShardCountMode) adminservice.AdminServiceServer {
				return mkWith(mode, nil, string(mode))
			}
			servers = map[string]adminservice.AdminServiceServer{
				"default": mk(config.ShardCountDefault), "lcm": mk(config.ShardCountLCM), "routing": mk(config.ShardCountRouting)}
			// routing mode of a multi-instance deployment (memberlist configured, so the intra-proxy manager exists; this
			// instance is the only member of its cluster)
			servers["intra"] = mkWith(config.ShardCountRouting, &config.MemberlistConfig{NodeName: "verif-n0", BindAddr: "127.0.0.1", BindPort: 0, ProxyAddresses: map[string]string{}}, "intra")
			servers["intra0"] = servers["routing"]
			sms["intra0"] = sms[string(config.ShardCountRouting)]
			// a well-formed routing-mode stream pair that stays up on the same shard manager while the other streams come
			// and go (op WC checks that it still carries a watermark one way and its acknowledgement the other way)
			if witness != nil {
				witness.cancel()
				for _, h := range []*vrHandler{witness.srcH[0], witness.tgtH[0]} {
					h.stream.cancel()
					<-h.done
				}
			}
			wctx, wcancel := context.WithCancel(ctx)
			witness = &vrScenario{t: t, ns: 1, nt: 1, sm: sms["routing"], lifetime: wctx, cancel: wcancel,
				reverse: &vrReverseClient{streams: map[history.ClusterShardID][]*vfClientStream{}},
				srcH:    make([]*vrHandler, 1), tgtH: make([]*vrHandler, 1)}
			witness.srcH[0] = witness.open(vwSrc, vwTgt, 1)
			witness.tgtH[0] = witness.open(vwTgt, vwSrc, 1)
			witnessWM = 1000
			time.Sleep(20 * time.Millisecond)
			fmt.Fprintln(w, "N")
		case "WC":
			witnessWM += 10
			res := "ok"
			cs := witness.reverse.current(vwSrc)
			if cs == nil {
				fmt.Fprintln(w, "WC no-upstream")
				continue
			}
			_ = witness.tgtH[0].stream.takeSent()
			_ = cs.takeSent()
			cs.recv <- vfItem[vfResp]{val: &vfResp{Attributes: &adminservice.StreamWorkflowReplicationMessagesResponse_Messages{
				Messages: &replicationv1.WorkflowReplicationMessages{ExclusiveHighWatermark: witnessWM}}}}
			var got int64
			deadline := time.Now().Add(3 * time.Second)
			for got == 0 && time.Now().Before(deadline) {
				for _, m := range witness.tgtH[0].stream.takeSent() {
					if m.GetMessages() != nil {
						got = m.GetMessages().ExclusiveHighWatermark
					}
				}
				if got == 0 {
					time.Sleep(2 * time.Millisecond)
				}
			}
			if got == 0 {
				res = "stalled-watermark"
			} else {
				witness.tgtH[0].stream.recv <- vfItem[vfReq]{val: &vfReq{Attributes: &adminservice.StreamWorkflowReplicationMessagesRequest_SyncReplicationState{
					SyncReplicationState: &replicationv1.SyncReplicationState{InclusiveLowWatermark: got}}}}
				acked := false
				deadline = time.Now().Add(3 * time.Second)
				for !acked && time.Now().Before(deadline) {
					for _, r := range cs.takeSent() {
						if st := r.GetSyncReplicationState(); st != nil && st.InclusiveLowWatermark == witnessWM {
							acked = true
						}
					}
					if !acked {
						time.Sleep(2 * time.Millisecond)
					}
				}
				if !acked {
					res = "stalled-ack"
				}
			}
			fmt.Fprintf(w, "WC %s\n", res)
		case "R":
			idx, _ := strconv.ParseInt(f[1], 10, 64)
			v, _ := strconv.ParseInt(f[2], 10, 64)
			before := lg.warns.Load()
			res := make(chan string, 1)
			go func() {
				defer func() {
					if r := recover(); r != nil {
						res <- "panic"
					}
				}()
				obs.ReportStreamValue(int32(idx), int32(v))
				if lg.warns.Load() > before {
					res <- "warn"
				} else {
					res <- "ok"
				}
			}()
			var out string
			select {
			case out = <-res:
			case <-time.After(3 * time.Second):
				out = "BLOCKED"
			}
			c := "-"
			if out != "BLOCKED" && lockState() == "locked=0" && idx >= 0 && idx < int64(len(obs.streamActive)) {
				c = strconv.Itoa(int(obs.streamActive[idx].Load()))
			}
			if out == "BLOCKED" || lockState() == "locked=1" {
				wedged = true
			}
			fmt.Fprintf(w, "R %s %s c=%s len=%d\n", out, lockState(), c, len(obs.streamActive))
		case "H":
			mode, clientOK := f[1], f[2] == "1"
			md := metadata.MD{}
			keys := []string{history.MetadataKeyClientClusterID, history.MetadataKeyClientShardID, history.MetadataKeyServerClusterID, history.MetadataKeyServerShardID}
			for i, k := range keys {
				if f[3+i] != "-" {
					md.Set(k, strings.ReplaceAll(f[3+i], "\\s", " "))
				}
			}
			intra := mode == "intra" || mode == "intra0"
			cleanup := func() {}
			if intra {
				routingSM := sms[mode]
				// a stream opened by a peer proxy instance towards a shard this instance serves (routing mode): marker and
				// origin headers as the peer sets them; the serving shard is local here, as when its own stream is up
				md.Set(common.IntraProxyHeaderKey, common.IntraProxyHeaderValue)
				md.Set(common.IntraProxyOriginProxyIDHeader, "verif-peer")
				scl, e1 := strconv.Atoi(strings.ReplaceAll(f[5], "\\s", " "))
				ssh, e2 := strconv.Atoi(strings.ReplaceAll(f[6], "\\s", " "))
				if e1 == nil && e2 == nil {
					local := history.ClusterShardID{ClusterID: int32(scl), ShardID: int32(ssh)}
					at := routingSM.RegisterShard(local)
					cleanup = func() { routingSM.UnregisterShard(local, at) }
				}
			}
			client.mu.Lock()
			client.preload = nil
			if mode == "routing" {
				// the serving cluster announces a watermark on the stream the pair's receiver opens, then ends it
				client.preload = &vfResp{Attributes: &adminservice.StreamWorkflowReplicationMessagesResponse_Messages{
					Messages: &replicationv1.WorkflowReplicationMessages{ExclusiveHighWatermark: 777}}}
			}
			if clientOK {
				client.openErr = nil
			} else {
				client.openErr = status.Error(codes.Unavailable, "verif: cluster unreachable")
			}
			client.mu.Unlock()
			ss := newVfServerStream(md)
			opensBefore := client.numStreams()
			res := make(chan string, 1)
			go func() {
				defer func() {
					if r := recover(); r != nil {
						res <- "crashed"
					}
				}()
				err := servers[mode].StreamWorkflowReplicationMessages(ss)
				if err != nil {
					res <- "rejected"
				} else {
					res <- "served"
				}
			}()
			var out string
			if intra {
				// the peer keeps the stream open for a moment, then hangs up; the handler has to return
				select {
				case out = <-res:
				case <-time.After(25 * time.Millisecond):
					ss.recv <- vfItem[vfReq]{err: io.EOF}
				}
			}
			if out == "" {
				select {
				case out = <-res:
				case <-time.After(5 * time.Second):
					out = "BLOCKED"
				}
			}
			ss.cancel()
			cleanup()
			if out == "served" && clientOK && (mode == "default" || mode == "lcm" || mode == "routing") && client.numStreams() == opensBefore {
				// the handler ended the stream with OK although it never opened the stream towards the serving cluster:
				// neither served nor rejected
				out = "dropped"
			}
			if out == "BLOCKED" || lockState() == "locked=1" {
				wedged = true
				fmt.Fprintf(w, "H %s active=? %s\n", out, lockState())
				continue
			}
			fmt.Fprintf(w, "H %s active=%s %s\n", out, active(), lockState())
		}
	}
}
