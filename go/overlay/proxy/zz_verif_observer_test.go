//go:build verif

package proxy

import (
	"context"
	"fmt"
	"strconv"
	"strings"
	"sync/atomic"
	"testing"
	"time"

	"go.temporal.io/server/api/adminservice/v1"
	"go.temporal.io/server/client/history"
	"go.temporal.io/server/common/log"
	"go.temporal.io/server/common/log/tag"
	"google.golang.org/grpc/codes"
	"google.golang.org/grpc/metadata"
	"google.golang.org/grpc/status"

	"github.com/temporalio/s2s-proxy/config"
	"github.com/temporalio/s2s-proxy/encryption"
	"github.com/temporalio/s2s-proxy/logging"
)

type vfCountingLogger struct{ warns atomic.Int64 }

func (l *vfCountingLogger) Warn(msg string, tags ...tag.Tag) { l.warns.Add(1) }
func (l *vfCountingLogger) Info(msg string, tags ...tag.Tag) {}

// TestVerifObserver drives the real ReplicationStreamObserver and the real stream handler
// (all three stream modes) with extreme / malformed stream-open metadata.
//
//	N                         new observer + new servers
//	R idx v                   ReportStreamValue(idx, v)
//	H mode ok cc cs sc ss     StreamWorkflowReplicationMessages with metadata (values: text, "-" = absent)
func TestVerifObserver(t *testing.T) {
	sc, w, done := verifIO(t)
	defer done()
	var obs *ReplicationStreamObserver
	var lg *vfCountingLogger
	var client *vfAdminClient
	servers := map[string]adminservice.AdminServiceServer{}
	loggers := logging.NewLoggerProvider(log.NewNoopLogger(), config.NewMockConfigProvider(config.S2SProxyConfig{}))
	lockState := func() string {
		if obs.streamGrowLock.TryLock() {
			obs.streamGrowLock.Unlock()
			return "locked=0"
		}
		return "locked=1"
	}
	active := func() string {
		ch := make(chan string, 1)
		go func() { ch <- obs.PrintActiveStreams() }()
		select {
		case s := <-ch:
			return strings.TrimSuffix(strings.ReplaceAll(s, ",]", "]"), "")
		case <-time.After(3 * time.Second):
			return "BLOCKED"
		}
	}
	wedged := false
	for sc.Scan() {
		f := verifFields(sc.Text())
		if len(f) == 0 {
			continue
		}
		if wedged && f[0] != "N" {
			// the observer is wedged: every later operation of this history would block as well
			fmt.Fprintf(w, "%s DEAD\n", f[0])
			continue
		}
		switch f[0] {
		case "N":
			wedged = false
			lg = &vfCountingLogger{}
			obs = NewReplicationStreamObserver(lg)
			client = &vfAdminClient{autoClose: true}
			ctx := context.Background()
			mk := func(mode config.ShardCountMode) adminservice.AdminServiceServer {
				scc := config.ShardCountConfig{Mode: mode}
				sm := NewShardManager(nil, scc, encryption.TLSConfig{}, loggers)
				_ = sm.Start(ctx)
				return NewAdminServiceProxyServer("verif", client, client, AdminServiceOverrides{}, []string{"inbound"}, obs.ReportStreamValue,
					scc, LCMParameters{LCM: 12, TargetShardCount: 4}, RoutingParameters{RoutingLocalShardCount: 4, DirectionLabel: "verif"},
					loggers, sm, ctx)
			}
			servers = map[string]adminservice.AdminServiceServer{
				"default": mk(config.ShardCountDefault), "lcm": mk(config.ShardCountLCM), "routing": mk(config.ShardCountRouting)}
			fmt.Fprintln(w, "N")
		case "R":
			idx, _ := strconv.ParseInt(f[1], 10, 64)
			v, _ := strconv.ParseInt(f[2], 10, 64)
			before := lg.warns.Load()
			res := make(chan string, 1)
			go func() {
				defer func() {
					if r := recover(); r != nil {
						res <- "panic"
					}
				}()
				obs.ReportStreamValue(int32(idx), int32(v))
				if lg.warns.Load() > before {
					res <- "warn"
				} else {
					res <- "ok"
				}
			}()
			var out string
			select {
			case out = <-res:
			case <-time.After(3 * time.Second):
				out = "BLOCKED"
			}
			c := "-"
			if out != "BLOCKED" && lockState() == "locked=0" && idx >= 0 && idx < int64(len(obs.streamActive)) {
				c = strconv.Itoa(int(obs.streamActive[idx].Load()))
			}
			if out == "BLOCKED" || lockState() == "locked=1" {
				wedged = true
			}
			fmt.Fprintf(w, "R %s %s c=%s len=%d\n", out, lockState(), c, len(obs.streamActive))
		case "H":
			mode, clientOK := f[1], f[2] == "1"
			md := metadata.MD{}
			keys := []string{history.MetadataKeyClientClusterID, history.MetadataKeyClientShardID, history.MetadataKeyServerClusterID, history.MetadataKeyServerShardID}
			for i, k := range keys {
				if f[3+i] != "-" {
					md.Set(k, strings.ReplaceAll(f[3+i], "\\s", " "))
				}
			}
			client.mu.Lock()
			if clientOK {
				client.openErr = nil
			} else {
				client.openErr = status.Error(codes.Unavailable, "verif: cluster unreachable")
			}
			client.mu.Unlock()
			ss := newVfServerStream(md)
			res := make(chan string, 1)
			go func() {
				defer func() {
					if r := recover(); r != nil {
						res <- "crashed"
					}
				}()
				err := servers[mode].StreamWorkflowReplicationMessages(ss)
				if err != nil {
					res <- "rejected"
				} else {
					res <- "served"
				}
			}()
			var out string
			select {
			case out = <-res:
			case <-time.After(5 * time.Second):
				out = "BLOCKED"
			}
			ss.cancel()
			if out == "BLOCKED" || lockState() == "locked=1" {
				wedged = true
				fmt.Fprintf(w, "H %s active=? %s\n", out, lockState())
				continue
			}
			fmt.Fprintf(w, "H %s active=%s %s\n", out, active(), lockState())
		}
	}
}
