//go:build verif

package proxy

import (
	"encoding/json"
	"errors"
	"fmt"
	"io"
	"log"
	"net"
	"sort"
	"strconv"
	"strings"
	"sync"
	"testing"
	"testing/synctest"
	"time"

	"github.com/hashicorp/memberlist"
	"go.temporal.io/server/api/adminservice/v1"
	replicationv1 "go.temporal.io/server/api/replication/v1"
	"go.temporal.io/server/client/history"
	"go.temporal.io/server/common/channel"
	tlog "go.temporal.io/server/common/log"

	"github.com/temporalio/s2s-proxy/config"
	"github.com/temporalio/s2s-proxy/encryption"
	"github.com/temporalio/s2s-proxy/logging"
)

// C09 harness, part 1: real shardManagerImpl instances, each with a real memberlist on memberlist's in-memory network.
// The memberlist delegate of every instance is wrapped: user messages (the ownership announcements) are queued instead
// of being applied, and the harness hands them to the real NotifyMsg in the order, multiplicity and at the time the
// scenario says.  Runs in real time (memberlist's UpdateNode waits for gossip while holding a mutex).
//
//	CL n s | R x s | U x s k | D y x s k | DU y | S id x | M y id | L y x | LR x | Q

type vcAnn struct {
	to, from, shard int
	typ             string
	stamp           time.Time
	data            []byte
	reg             int // registration index (register announcements), 0 = not labelled yet
}

type vcDelegate struct {
	inner *shardDelegate
	node  int
	h     *vcHarness
}

func (d *vcDelegate) NodeMeta(limit int) []byte                  { return d.inner.NodeMeta(limit) }
func (d *vcDelegate) GetBroadcasts(overhead, limit int) [][]byte { return d.inner.GetBroadcasts(overhead, limit) }
func (d *vcDelegate) LocalState(join bool) []byte                { return d.inner.LocalState(join) }
func (d *vcDelegate) MergeRemoteState(buf []byte, join bool)     { d.inner.MergeRemoteState(buf, join) }
func (d *vcDelegate) NotifyMsg(b []byte) {
	var msg ShardMessage
	cp := append([]byte{}, b...)
	if err := json.Unmarshal(cp, &msg); err != nil {
		return
	}
	from, _ := strconv.Atoi(strings.TrimPrefix(msg.NodeName, "n"))
	d.h.mu.Lock()
	d.h.anns = append(d.h.anns, &vcAnn{to: d.node, from: from, shard: int(msg.ClientShard.ShardID) - 1, typ: msg.Type, stamp: msg.Timestamp, data: cp})
	d.h.mu.Unlock()
}

type vcNode struct {
	sm     *shardManagerImpl
	ml     *memberlist.Memberlist
	icpt   *vcDelegate
	events *shardEventDelegate
}

type vcHarness struct {
	mu     sync.Mutex
	nodes  []*vcNode
	anns   []*vcAnn
	regs   []map[int]time.Time // per shard: registration index -> stamp
	regCnt []int
	snaps  map[string][]byte
	out    func(string)
}

func vcShard(s int) history.ClusterShardID { return history.ClusterShardID{ClusterID: 2, ShardID: int32(s + 1)} }

func vcNewCluster(n, ns int, loggers logging.LoggerProvider, out func(string)) (*vcHarness, error) {
	h := &vcHarness{snaps: map[string][]byte{}, out: out, regs: make([]map[int]time.Time, ns), regCnt: make([]int, ns)}
	for s := range h.regs {
		h.regs[s] = map[int]time.Time{}
	}
	network := &memberlist.MockNetwork{}
	addrs := map[string]string{}
	for i := 0; i < n; i++ {
		addrs["n"+strconv.Itoa(i)] = "127.0.0.1:" + strconv.Itoa(7000+i)
	}
	for i := 0; i < n; i++ {
		name := "n" + strconv.Itoa(i)
		cfg := &config.MemberlistConfig{NodeName: name, ProxyAddresses: addrs}
		sm := NewShardManager(cfg, config.ShardCountConfig{Mode: config.ShardCountRouting}, encryption.TLSConfig{}, loggers).(*shardManagerImpl)
		node := &vcNode{sm: sm}
		node.icpt = &vcDelegate{inner: sm.delegate, node: i, h: h}
		node.events = &shardEventDelegate{manager: sm, logger: sm.logger}
		mlc := memberlist.DefaultLocalConfig()
		mlc.Name = name
		mlc.Transport = network.NewTransport(name)
		mlc.Delegate = node.icpt
		mlc.Events = node.events
		mlc.GossipInterval = 2 * time.Millisecond
		mlc.PushPullInterval = 0
		mlc.ProbeInterval = time.Hour
		mlc.LogOutput = io.Discard
		mlc.Logger = log.New(io.Discard, "", 0)
		mlc.LogOutput = nil
		ml, err := memberlist.Create(mlc)
		if err != nil {
			return nil, err
		}
		node.ml = ml
		sm.mutex.Lock()
		sm.ml = ml
		sm.started = true
		sm.mutex.Unlock()
		sm.SetupCallbacks()
		h.nodes = append(h.nodes, node)
		if i > 0 {
			// a push/pull round with every instance already there: membership is complete without relying on gossip
			var existing []string
			for j := 0; j < i; j++ {
				existing = append(existing, fmt.Sprintf("n%d/127.0.0.1:%d", j, j+1))
			}
			if _, err := ml.Join(existing); err != nil {
				return nil, err
			}
		}
	}
	// what a completed push/pull round between every pair leaves behind: everybody knows everybody's (empty) state
	for y := range h.nodes {
		for x := range h.nodes {
			if x != y {
				h.nodes[y].icpt.inner.MergeRemoteState(h.nodes[x].icpt.inner.LocalState(false), false)
			}
		}
	}
	deadline := time.Now().Add(3 * time.Second)
	for time.Now().Before(deadline) {
		ok := true
		for _, nd := range h.nodes {
			if nd.ml.NumMembers() != n {
				ok = false
			}
		}
		if ok {
			break
		}
		time.Sleep(2 * time.Millisecond)
	}
	for _, nd := range h.nodes {
		if nd.ml.NumMembers() != n {
			h.stop()
			return nil, fmt.Errorf("membership incomplete")
		}
	}
	return h, nil
}

func (h *vcHarness) stop() {
	for _, nd := range h.nodes {
		if nd.ml != nil {
			_ = nd.ml.Shutdown()
		}
	}
}

// knownPeers: the instances x would announce to (keys of its remoteNodeStates)
func (h *vcHarness) knownPeers(x int) []int {
	nd := h.nodes[x]
	nd.sm.remoteNodeStatesMu.RLock()
	defer nd.sm.remoteNodeStatesMu.RUnlock()
	var res []int
	for name := range nd.sm.remoteNodeStates {
		i, _ := strconv.Atoi(strings.TrimPrefix(name, "n"))
		if i != x {
			res = append(res, i)
		}
	}
	sort.Ints(res)
	return res
}

// await waits until `want` unlabelled announcements of the given type/sender/shard have arrived and returns them.
func (h *vcHarness) await(typ string, from, shard, want int, mark func(*vcAnn)) int {
	deadline := time.Now().Add(2 * time.Second)
	for {
		h.mu.Lock()
		var got []*vcAnn
		for _, a := range h.anns {
			if a.typ == typ && a.from == from && a.shard == shard && a.reg == 0 {
				got = append(got, a)
			}
		}
		if len(got) >= want || time.Now().After(deadline) {
			for _, a := range got {
				mark(a)
			}
			h.mu.Unlock()
			return len(got)
		}
		h.mu.Unlock()
		time.Sleep(time.Millisecond)
	}
}

func (h *vcHarness) localStamp(x, s int) (time.Time, bool) {
	sm := h.nodes[x].sm
	sm.mutex.RLock()
	defer sm.mutex.RUnlock()
	info, ok := sm.localShards[ClusterShardIDtoShortString(vcShard(s))]
	return info.Created, ok
}

func (h *vcHarness) regIndex(s int, t time.Time) string {
	for k, st := range h.regs[s] {
		if st.Equal(t) {
			return strconv.Itoa(k)
		}
	}
	return "?"
}

func (h *vcHarness) afterPossibleEviction(y int, before map[int]bool) {
	for s := range h.regs {
		_, ok := h.localStamp(y, s)
		if before[s] && !ok {
			peers := h.knownPeers(y)
			h.await("unregister", y, s, len(peers), func(a *vcAnn) { a.reg = -1 })
		}
	}
}

func (h *vcHarness) owned(y int) map[int]bool {
	res := map[int]bool{}
	for s := range h.regs {
		_, ok := h.localStamp(y, s)
		res[s] = ok
	}
	return res
}

func (h *vcHarness) exec(f []string) {
	atoi := func(i int) int { n, _ := strconv.Atoi(f[i]); return n }
	switch f[0] {
	case "R":
		x, s := atoi(1), atoi(2)
		peers := h.knownPeers(x)
		stamp := h.nodes[x].sm.RegisterShard(vcShard(s))
		h.regCnt[s]++
		k := h.regCnt[s]
		h.regs[s][k] = stamp
		eq := 1
		got := h.await("register", x, s, len(peers), func(a *vcAnn) {
			a.reg = k
			if !a.stamp.Equal(stamp) {
				eq = 0
			}
		})
		h.out(fmt.Sprintf("ANN reg x=%d s=%d k=%d peers=%d got=%d stampeq=%d", x, s, k, len(peers), got, eq))
	case "U":
		x, s, k := atoi(1), atoi(2), atoi(3)
		before := h.owned(x)
		h.nodes[x].sm.UnregisterShard(vcShard(s), h.regs[s][k])
		h.afterPossibleEviction(x, before)
	case "D":
		y, x, s, k := atoi(1), atoi(2), atoi(3), atoi(4)
		var ann *vcAnn
		h.mu.Lock()
		for _, a := range h.anns {
			if a.typ == "register" && a.to == y && a.from == x && a.shard == s && a.reg == k {
				ann = a
			}
		}
		h.mu.Unlock()
		if ann == nil {
			h.out(fmt.Sprintf("MISSING announcement x=%d s=%d k=%d to=%d", x, s, k, y))
			return
		}
		before := h.owned(y)
		h.nodes[y].icpt.inner.NotifyMsg(ann.data)
		h.afterPossibleEviction(y, before)
	case "DU":
		y := atoi(1)
		h.mu.Lock()
		var l []*vcAnn
		for _, a := range h.anns {
			if a.typ == "unregister" && a.to == y && a.reg == -1 {
				a.reg = -2
				l = append(l, a)
			}
		}
		h.mu.Unlock()
		for _, a := range l {
			h.nodes[y].icpt.inner.NotifyMsg(a.data)
		}
	case "S":
		h.snaps[f[1]] = h.nodes[atoi(2)].icpt.inner.LocalState(false)
	case "M":
		if b, ok := h.snaps[f[2]]; ok {
			h.nodes[atoi(1)].icpt.inner.MergeRemoteState(b, false)
		}
	case "L":
		y, x := atoi(1), atoi(2)
		h.nodes[y].events.NotifyLeave(&memberlist.Node{Name: "n" + strconv.Itoa(x), Addr: net.IPv4(127, 0, 0, 1)})
	case "LR":
		// a real departure: x leaves and shuts down; the others learn it through memberlist
		x := atoi(1)
		_ = h.nodes[x].ml.Leave(500 * time.Millisecond)
		_ = h.nodes[x].ml.Shutdown()
		deadline := time.Now().Add(3 * time.Second)
		for time.Now().Before(deadline) {
			all := true
			for y, nd := range h.nodes {
				if y == x {
					continue
				}
				nd.sm.remoteNodeStatesMu.RLock()
				_, ok := nd.sm.remoteNodeStates["n"+strconv.Itoa(x)]
				nd.sm.remoteNodeStatesMu.RUnlock()
				if ok {
					all = false
				}
			}
			if all {
				break
			}
			time.Sleep(2 * time.Millisecond)
		}
	case "Q":
		for s := range h.regs {
			parts := ""
			for x := range h.nodes {
				if t, ok := h.localStamp(x, s); ok {
					parts += " " + h.regIndex(s, t)
				} else {
					parts += " -"
				}
			}
			h.out(fmt.Sprintf("OWN %d:%s", s, parts))
		}
		for y, nd := range h.nodes {
			parts := ""
			nd.sm.remoteNodeStatesMu.RLock()
			for x := range h.nodes {
				if x == y {
					continue
				}
				st, ok := nd.sm.remoteNodeStates["n"+strconv.Itoa(x)]
				if !ok {
					parts += fmt.Sprintf(" %d=none", x)
					continue
				}
				var l []string
				for s := range h.regs {
					if info, ok := st.Shards[ClusterShardIDtoShortString(vcShard(s))]; ok {
						l = append(l, fmt.Sprintf("%d:%s", s, h.regIndex(s, info.Created)))
					}
				}
				parts += fmt.Sprintf(" %d=[%s]", x, strings.Join(l, ","))
			}
			nd.sm.remoteNodeStatesMu.RUnlock()
			h.out(fmt.Sprintf("REM %d:%s", y, parts))
			// the owner each instance would forward to, per shard
			for s := range h.regs {
				if o, ok := nd.sm.getShardOwner(vcShard(s)); ok {
					h.out(fmt.Sprintf("FWD %d %d %s", y, s, strings.TrimPrefix(o, "n")))
				}
			}
		}
	}
}

func TestVerifOwnership(t *testing.T) {
	sc, w, done := verifIO(t)
	defer done()
	loggers := logging.NewLoggerProvider(tlog.NewNoopLogger(), config.NewMockConfigProvider(config.S2SProxyConfig{}))
	var h *vcHarness
	for sc.Scan() {
		f := verifFields(sc.Text())
		if len(f) == 0 {
			continue
		}
		if f[0] == "CL" {
			if h != nil {
				h.stop()
				fmt.Fprintln(w, "#end")
			}
			n, _ := strconv.Atoi(f[1])
			ns, _ := strconv.Atoi(f[2])
			var err error
			fmt.Fprintln(w, "# scenario")
			for attempt := 0; attempt < 3; attempt++ {
				h, err = vcNewCluster(n, ns, loggers, func(s string) { fmt.Fprintln(w, s) })
				if err == nil {
					break
				}
			}
			if err != nil {
				fmt.Fprintf(w, "ERR cluster %v\n", err)
				h = nil
			}
			continue
		}
		if h != nil {
			// a handler that never returns (e.g. a callback blocking on a lock its caller holds) must not wedge the run
			fin := make(chan string, 1)
			hh := h
			go func() {
				defer func() {
					if r := recover(); r != nil {
						fin <- fmt.Sprintf("PANIC %v", r)
						return
					}
					fin <- ""
				}()
				hh.exec(f)
			}()
			select {
			case msg := <-fin:
				if msg != "" {
					fmt.Fprintln(w, msg)
				}
			case <-time.After(8 * time.Second):
				fmt.Fprintf(w, "HANG %s\n", strings.Join(f, " "))
				fmt.Fprintln(w, "#end")
				h = nil
			}
		}
	}
	if h != nil {
		h.stop()
		fmt.Fprintln(w, "#end")
	}
}

// ---------------------------------------------------------------------------------------------------------------------
// part 2: the decision function of DeliverMessagesToShardOwner / DeliverAckToShardOwner on every combination of
// local channel state, memberlist configuration, known owner, known address, intra-proxy manager, peer stream state.
//
//	DV msg|ack <none|accepted|shutdown|closed|closedshutdown> ml owner addr mgr <ok|err|absent|nostream> fwd  ->  DV <result> <local|remote|nobody>

type vdServerStream struct {
	adminservice.AdminService_StreamWorkflowReplicationMessagesServer
	fail bool
	sent int
}

func (s *vdServerStream) Send(*adminservice.StreamWorkflowReplicationMessagesResponse) error {
	if s.fail {
		return errors.New("send failed")
	}
	s.sent++
	return nil
}

type vdClientStream struct {
	adminservice.AdminService_StreamWorkflowReplicationMessagesClient
	fail bool
	sent int
}

func (s *vdClientStream) Send(*adminservice.StreamWorkflowReplicationMessagesRequest) error {
	if s.fail {
		return errors.New("send failed")
	}
	s.sent++
	return nil
}

func vdRun(f []string, loggers logging.LoggerProvider) string {
	kind, lo := f[1], f[2]
	b := func(i int) bool { return f[i] == "1" }
	ml, owner, addr, mgr, peer, fwd := b(3), b(4), b(5), b(6), f[7], b(8)
	var cfg *config.MemberlistConfig
	if ml {
		cfg = &config.MemberlistConfig{NodeName: "n0", ProxyAddresses: map[string]string{}}
		if addr {
			cfg.ProxyAddresses["n1"] = "127.0.0.1:7001"
		}
	}
	mode := config.ShardCountRouting
	if !mgr {
		mode = config.ShardCountLCM
	}
	sm := NewShardManager(cfg, config.ShardCountConfig{Mode: mode}, encryption.TLSConfig{}, loggers).(*shardManagerImpl)
	target := history.ClusterShardID{ClusterID: 2, ShardID: 1}
	source := history.ClusterShardID{ClusterID: 1, ShardID: 1}
	shard := target
	if kind == "ack" {
		shard = source
	}
	// remote knowledge: our own name listed too (must be skipped), a peer that does not list the shard, and (if owner) n1
	self := NodeShardState{NodeName: "n0", Shards: map[string]ShardInfo{ClusterShardIDtoShortString(shard): {ID: shard, Created: time.Now()}}}
	other := NodeShardState{NodeName: "n2", Shards: map[string]ShardInfo{}}
	for _, st := range []NodeShardState{self, other} {
		buf, _ := json.Marshal(st)
		sm.delegate.MergeRemoteState(buf, false)
	}
	if owner {
		buf, _ := json.Marshal(NodeShardState{NodeName: "n1", Shards: map[string]ShardInfo{ClusterShardIDtoShortString(shard): {ID: shard, Created: time.Now()}}})
		sm.delegate.MergeRemoteState(buf, false)
	}
	srv := &vdServerStream{fail: peer == "err"}
	cli := &vdClientStream{fail: peer == "err"}
	if sm.intraMgr != nil && peer != "absent" {
		key := peerStreamKey{targetShard: target, sourceShard: source}
		if peer == "nostream" {
			// the peer is known and has streams, but none for this shard pair
			key = peerStreamKey{targetShard: history.ClusterShardID{ClusterID: 2, ShardID: 9}, sourceShard: history.ClusterShardID{ClusterID: 1, ShardID: 9}}
		}
		if peer == "sibling" {
			// the peer has a live stream for the same source shard and ANOTHER target shard: not this pair's stream
			key = peerStreamKey{targetShard: history.ClusterShardID{ClusterID: 2, ShardID: 9}, sourceShard: source}
		}
		sm.intraMgr.peers["n1"] = &peerState{
			senders:   map[peerStreamKey]*intraProxyStreamSender{key: {logger: tlog.NewNoopLogger(), shardManager: sm, peerNodeName: "n1", targetShardID: target, sourceShardID: source, sourceStreamServer: srv}},
			receivers: map[peerStreamKey]*intraProxyStreamReceiver{key: {logger: tlog.NewNoopLogger(), shardManager: sm, peerNodeName: "n1", targetShardID: target, sourceShardID: source, streamClient: cli}},
		}
	}
	shutdown := channel.NewShutdownOnce()
	msgCh := make(chan RoutedMessage, 1)
	ackCh := make(chan RoutedAck, 1)
	if lo != "none" {
		sm.SetRemoteSendChan(target, msgCh)
		sm.SetLocalAckChan(source, ackCh)
	}
	switch lo {
	case "shutdown":
		msgCh <- RoutedMessage{}
		ackCh <- RoutedAck{}
		shutdown.Shutdown()
	case "closed":
		close(msgCh)
		close(ackCh)
	case "closedshutdown":
		close(msgCh)
		close(ackCh)
		shutdown.Shutdown()
	}
	var ok bool
	panicked := ""
	func() {
		defer func() {
			if r := recover(); r != nil {
				panicked = fmt.Sprint(r)
			}
		}()
		if kind == "msg" {
			ok = sm.DeliverMessagesToShardOwner(target, &RoutedMessage{SourceShard: source, Resp: &adminservice.StreamWorkflowReplicationMessagesResponse{
				Attributes: &adminservice.StreamWorkflowReplicationMessagesResponse_Messages{Messages: &replicationv1.WorkflowReplicationMessages{ExclusiveHighWatermark: 7}}}}, shutdown, tlog.NewNoopLogger())
		} else {
			ok = sm.DeliverAckToShardOwner(source, &RoutedAck{TargetShard: target, Req: &adminservice.StreamWorkflowReplicationMessagesRequest{}}, shutdown, tlog.NewNoopLogger(), 7, fwd)
		}
	}()
	if panicked != "" {
		return "DV panic " + panicked
	}
	who := []string{}
	if lo == "accepted" && ((kind == "msg" && len(msgCh) == 1) || (kind == "ack" && len(ackCh) == 1)) {
		who = append(who, "local")
	}
	if (kind == "msg" && srv.sent > 0) || (kind == "ack" && cli.sent > 0) {
		who = append(who, "remote")
	}
	if srv.sent+cli.sent > 1 {
		who = append(who, "twice")
	}
	if len(who) == 0 {
		who = append(who, "nobody")
	}
	r := 0
	if ok {
		r = 1
	}
	return fmt.Sprintf("DV %d %s", r, strings.Join(who, "+"))
}

func TestVerifDeliver(t *testing.T) {
	sc, w, done := verifIO(t)
	defer done()
	loggers := logging.NewLoggerProvider(tlog.NewNoopLogger(), config.NewMockConfigProvider(config.S2SProxyConfig{}))
	var lines [][]string
	for sc.Scan() {
		if f := verifFields(sc.Text()); len(f) >= 9 && f[0] == "DV" {
			lines = append(lines, f)
		}
	}
	res := make([]string, len(lines))
	// virtual time: a missing peer stream is retried for two seconds
	synctest.Test(t, func(t *testing.T) {
		for i, f := range lines {
			res[i] = vdRun(f, loggers)
		}
	})
	for _, r := range res {
		fmt.Fprintln(w, r)
	}
}
