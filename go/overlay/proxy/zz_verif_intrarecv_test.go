//go:build verif

package proxy

// C08, the intra-proxy receiver's hand-over across sender reconnects: batches received from a peer instance for a target
// shard served here are put into the delivery channel of the shard's sender.  When that sender's stream is re-established
// (its incarnation closes its channel, cleans up, a successor registers a new one) every batch has to end up with an
// incarnation that was live when it took it: none lost, none twice, in order - whatever the receiver was doing at the
// time (blocked on a full buffer, between two batches, retrying).
//
//	IR <name>
//	REG k cap     incarnation k registers a delivery channel of that capacity (SetRemoteSendChan)
//	MSG id        the peer sends a batch with watermark id
//	TAKE k n      incarnation k takes up to n batches from its channel (its sender forwards them)
//	CLOSE k       incarnation k ends: what is still buffered goes down with it (reported), the channel is closed
//	REM k         ... and removed (RemoveRemoteSendChan, conditional)
//	W             let the receiver run
//	END           the newest incarnation takes everything; the receiver is shut down
//
// output: "GOT k id" per batch an incarnation took, "LOST k id" per batch buffered in a closed incarnation, "END returned=0|1"

import (
	"context"
	"fmt"
	"strconv"
	"strings"
	"testing"
	"time"

	"go.temporal.io/server/api/adminservice/v1"
	replicationv1 "go.temporal.io/server/api/replication/v1"
	"go.temporal.io/server/client/history"
	"go.temporal.io/server/common/channel"
	"go.temporal.io/server/common/log"

	"github.com/temporalio/s2s-proxy/config"
	"github.com/temporalio/s2s-proxy/encryption"
	"github.com/temporalio/s2s-proxy/logging"
)

func viRun(lines []string, out func(string)) {
	loggers := logging.NewLoggerProvider(log.NewNoopLogger(), config.NewMockConfigProvider(config.S2SProxyConfig{}))
	ctx, cancel := context.WithCancel(context.Background())
	defer cancel()
	sm := NewShardManager(nil, config.ShardCountConfig{Mode: config.ShardCountRouting}, encryption.TLSConfig{}, loggers)
	_ = sm.Start(ctx)
	target := history.ClusterShardID{ClusterID: 2, ShardID: 3}
	source := history.ClusterShardID{ClusterID: 1, ShardID: 7}
	cs := newVfClientStream(ctx)
	r := &intraProxyStreamReceiver{logger: log.NewNoopLogger(), shardManager: sm, peerNodeName: "verif-peer", targetShardID: target, sourceShardID: source,
		streamClient: cs, streamID: "verif-intra-recv", shutdown: channel.NewShutdownOnce()}
	returned := make(chan struct{})
	go func() {
		defer close(returned)
		defer func() { _ = recover() }()
		_ = r.recvReplicationMessages()
	}()
	chans := map[int]chan RoutedMessage{}
	settle := func() { time.Sleep(40 * time.Millisecond) }
	take := func(k, n int) {
		ch := chans[k]
		for i := 0; ch != nil && i < n; i++ {
			select {
			case m, ok := <-ch:
				if !ok {
					return
				}
				out(fmt.Sprintf("GOT %d %d", k, m.Resp.GetMessages().GetExclusiveHighWatermark()))
			case <-time.After(60 * time.Millisecond):
				return
			}
		}
	}
	newest := -1
	for _, line := range lines[1:] {
		f := strings.Fields(line)
		if len(f) == 0 {
			continue
		}
		n := func(i int) int { v, _ := strconv.Atoi(f[i]); return v }
		switch f[0] {
		case "REG":
			ch := make(chan RoutedMessage, n(2))
			chans[n(1)] = ch
			newest = n(1)
			sm.SetRemoteSendChan(target, ch)
		case "MSG":
			cs.recv <- vfItem[vfResp]{val: &vfResp{Attributes: &adminservice.StreamWorkflowReplicationMessagesResponse_Messages{
				Messages: &replicationv1.WorkflowReplicationMessages{ExclusiveHighWatermark: int64(n(1))}}}}
		case "TAKE":
			take(n(1), n(2))
		case "CLOSE":
			ch := chans[n(1)]
			if ch != nil {
				// a blocked hand-over may slip one more batch in between draining and closing: drain, close, drain again
				drain := func() {
					for {
						select {
						case m, ok := <-ch:
							if !ok {
								return
							}
							out(fmt.Sprintf("LOST %d %d", n(1), m.Resp.GetMessages().GetExclusiveHighWatermark()))
						default:
							return
						}
					}
				}
				drain()
				close(ch)
				drain()
			}
		case "REM":
			if ch := chans[n(1)]; ch != nil {
				sm.RemoveRemoteSendChan(target, ch)
			}
		case "W":
			settle()
		}
	}
	settle()
	settle()
	if newest >= 0 {
		take(newest, 1000)
	}
	r.shutdown.Shutdown()
	cancel()
	ret := 0
	select {
	case <-returned:
		ret = 1
	case <-time.After(3 * time.Second):
	}
	out(fmt.Sprintf("END returned=%d", ret))
	sm.Stop()
}

func TestVerifIntraRecv(t *testing.T) {
	scn, w, done := verifIO(t)
	defer done()
	var scenarios [][]string
	for scn.Scan() {
		line := strings.TrimSpace(scn.Text())
		if line == "" {
			continue
		}
		if strings.HasPrefix(line, "IR ") {
			scenarios = append(scenarios, nil)
		}
		if len(scenarios) > 0 {
			scenarios[len(scenarios)-1] = append(scenarios[len(scenarios)-1], line)
		}
	}
	res := make([][]string, len(scenarios))
	donech := make(chan int, len(scenarios))
	for i, lines := range scenarios {
		go func(i int, lines []string) {
			defer func() {
				if r := recover(); r != nil {
					res[i] = append(res[i], fmt.Sprintf("PANIC %v", r))
				}
				donech <- i
			}()
			viRun(lines, func(s string) { res[i] = append(res[i], s) })
		}(i, lines)
	}
	for range scenarios {
		<-donech
	}
	for i, lines := range scenarios {
		fmt.Fprintf(w, "# scenario %s\n", strings.Fields(lines[0])[1])
		for _, l := range res[i] {
			fmt.Fprintln(w, l)
		}
		fmt.Fprintln(w, "#end")
	}
}
