//go:build verif

package proxy

import (
	"context"
	"fmt"
	"sort"
	"strconv"
	"strings"
	"sync"
	"testing"
	"testing/synctest"
	"time"

	"go.temporal.io/server/api/adminservice/v1"
	enumsspb "go.temporal.io/server/api/enums/v1"
	persistencespb "go.temporal.io/server/api/persistence/v1"
	replicationv1 "go.temporal.io/server/api/replication/v1"
	"go.temporal.io/server/client/history"
	servercommon "go.temporal.io/server/common"
	"go.temporal.io/server/common/log"
	"google.golang.org/grpc"
	"google.golang.org/grpc/metadata"

	"github.com/temporalio/s2s-proxy/config"
	"github.com/temporalio/s2s-proxy/encryption"
	"github.com/temporalio/s2s-proxy/logging"
)

// ---------------------------------------------------------------------------------------------
// Routing-mode harness (C01-C04): the real streamRouting pairs (proxyStreamSender/Receiver) and the
// real shardManagerImpl (memberlist off) run inside a synctest bubble against in-memory streams.
// Source shards are cluster 1 / shard s+1, target shards cluster 2 / shard t+1 (model indices s, t).
//
//   I ns nt                          new scenario; all source streams are opened
//   S src high n (id owner pay)*     the source sends a batch (owner = model index of the owning target)
//   A tgt w                          the target acknowledges inclusive low watermark w
//   C tgt                            the target opens its stream
//   X tgt / U tgt                    the target stops / resumes reading (Send blocks)
//   B tgt                            the target's stream breaks (context cancelled)
//   R src                            the source's stream breaks and is re-established
//   E                                end of scenario
// After every event: 3 virtual seconds + synctest.Wait, then per event the new messages
//   T tgt high n (pid:pay)*   and   K src ack   and a closing "." line.
// ---------------------------------------------------------------------------------------------

const (
	vrSrcCluster = int32(1)
	vrTgtCluster = int32(2)
)

// reverse-direction client: streams opened by the proxy's receivers, keyed by server shard
type vrReverseClient struct {
	adminservice.AdminServiceClient
	mu      sync.Mutex
	streams map[history.ClusterShardID][]*vfClientStream
	fail    map[history.ClusterShardID]int // number of coming stream opens towards this shard that fail
}

func (c *vrReverseClient) StreamWorkflowReplicationMessages(ctx context.Context, opts ...grpc.CallOption) (adminservice.AdminService_StreamWorkflowReplicationMessagesClient, error) {
	md, _ := metadata.FromOutgoingContext(ctx)
	get := func(k string) int32 {
		v := md.Get(k)
		if len(v) == 0 {
			return -1
		}
		n, _ := strconv.Atoi(v[0])
		return int32(n)
	}
	key := history.ClusterShardID{ClusterID: get(history.MetadataKeyServerClusterID), ShardID: get(history.MetadataKeyServerShardID)}
	c.mu.Lock()
	if c.fail[key] > 0 {
		c.fail[key]--
		c.mu.Unlock()
		return nil, fmt.Errorf("verif: local server refuses the stream")
	}
	c.mu.Unlock()
	cs := newVfClientStream(ctx)
	c.mu.Lock()
	c.streams[key] = append(c.streams[key], cs)
	c.mu.Unlock()
	return cs, nil
}

func (c *vrReverseClient) current(key history.ClusterShardID) *vfClientStream {
	c.mu.Lock()
	defer c.mu.Unlock()
	l := c.streams[key]
	if len(l) == 0 {
		return nil
	}
	return l[len(l)-1]
}

type vrHandler struct {
	stream *vfServerStream
	done   chan struct{}
}

type vrScenario struct {
	t        *testing.T
	ns, nt   int
	sm       ShardManager
	reverse  *vrReverseClient
	lifetime context.Context
	cancel   context.CancelFunc
	srcH     []*vrHandler // handler streams opened by source shards (their senders are idle)
	tgtH     []*vrHandler // handler streams opened by target shards
	wfFor    []string     // workflow id owned by target index t under nt shards
	altNs    []string     // namespace id under which the workflow id of target (t+1)%nt is owned by target t
	ackSeen  []int        // per source: number of acks already reported, per client stream incarnation
}

// vrAltNamespaces: for every target t a second namespace id such that the SAME workflow id that target (t+1)%nt owns under
// "verif-ns" is owned by t under that namespace (ownership is a function of namespace id and workflow id together)
func vrAltNamespaces(nt int, wfFor []string) []string {
	res := make([]string, nt)
	for t := 0; t < nt; t++ {
		wf := wfFor[(t+1)%nt]
		for k := 0; k < 100000; k++ {
			ns := fmt.Sprintf("verif-alt-%d", k)
			if int(servercommon.WorkflowIDToHistoryShard(ns, wf, int32(nt)))-1 == t {
				res[t] = ns
				break
			}
		}
	}
	return res
}

func vrWorkflowFor(nt int) []string {
	res := make([]string, nt)
	found := 0
	for k := 0; found < nt && k < 100000; k++ {
		wf := fmt.Sprintf("wf-%d", k)
		sh := int(servercommon.WorkflowIDToHistoryShard("verif-ns", wf, int32(nt))) - 1
		if res[sh] == "" {
			res[sh] = wf
			found++
		}
	}
	return res
}

func (sc *vrScenario) open(client, server history.ClusterShardID, localShardCount int32) *vrHandler {
	md := metadata.MD{}
	md.Set(history.MetadataKeyClientClusterID, strconv.Itoa(int(client.ClusterID)))
	md.Set(history.MetadataKeyClientShardID, strconv.Itoa(int(client.ShardID)))
	md.Set(history.MetadataKeyServerClusterID, strconv.Itoa(int(server.ClusterID)))
	md.Set(history.MetadataKeyServerShardID, strconv.Itoa(int(server.ShardID)))
	h := &vrHandler{stream: newVfServerStream(md), done: make(chan struct{})}
	go func() {
		defer close(h.done)
		defer h.stream.cancel() // gRPC cancels the stream context when the handler returns
		_ = streamRouting(log.NewNoopLogger(), h.stream, server, client, sc.sm, sc.reverse,
			RoutingParameters{RoutingLocalShardCount: localShardCount, DirectionLabel: "verif"}, sc.lifetime)
	}()
	return h
}

func (sc *vrScenario) openSource(s int) {
	// a source shard's own stream: client = source shard, server = some shard of the target cluster.
	// Its receiver pulls the source's tasks and routes them over the target cluster's nt shards.
	sc.srcH[s] = sc.open(history.ClusterShardID{ClusterID: vrSrcCluster, ShardID: int32(s + 1)},
		history.ClusterShardID{ClusterID: vrTgtCluster, ShardID: int32(s%sc.nt + 1)}, int32(sc.nt))
}

func (sc *vrScenario) openTarget(t int) {
	sc.tgtH[t] = sc.open(history.ClusterShardID{ClusterID: vrTgtCluster, ShardID: int32(t + 1)},
		history.ClusterShardID{ClusterID: vrSrcCluster, ShardID: int32(t%sc.ns + 1)}, int32(sc.ns))
}

func (sc *vrScenario) settle() {
	time.Sleep(3 * time.Second)
	synctest.Wait()
}

func (sc *vrScenario) report(w func(string)) {
	for t := 0; t < sc.nt; t++ {
		h := sc.tgtH[t]
		if h == nil {
			continue
		}
		for _, m := range h.stream.takeSent() {
			msgs := m.GetMessages()
			if msgs == nil {
				w(fmt.Sprintf("T %d ?", t))
				continue
			}
			parts := []string{"T", strconv.Itoa(t), strconv.FormatInt(msgs.ExclusiveHighWatermark, 10), strconv.Itoa(len(msgs.ReplicationTasks))}
			for _, task := range msgs.ReplicationTasks {
				p := fmt.Sprintf("%d:%s", task.SourceTaskId, task.GetRawTaskInfo().GetRunId())
				if task.GetRawTaskInfo().GetTaskId() != task.SourceTaskId {
					p += "!raw"
				}
				parts = append(parts, p)
			}
			w(strings.Join(parts, " "))
		}
	}
	for s := 0; s < sc.ns; s++ {
		cs := sc.reverse.current(history.ClusterShardID{ClusterID: vrSrcCluster, ShardID: int32(s + 1)})
		if cs == nil {
			continue
		}
		for _, r := range cs.takeSent() {
			if st := r.GetSyncReplicationState(); st != nil {
				w(fmt.Sprintf("K %d %d", s, st.InclusiveLowWatermark))
			}
		}
	}
	// acknowledgements sent towards target shards' own reverse streams would be a routing error
	for t := 0; t < sc.nt; t++ {
		cs := sc.reverse.current(history.ClusterShardID{ClusterID: vrTgtCluster, ShardID: int32(t + 1)})
		if cs != nil {
			for range cs.takeSent() {
				w(fmt.Sprintf("K! tgt%d", t))
			}
		}
	}
}

func vrRunScenario(t *testing.T, lines []string, out func(string)) {
	f0 := strings.Fields(lines[0])
	ns, _ := strconv.Atoi(f0[1])
	nt, _ := strconv.Atoi(f0[2])
	loggers := logging.NewLoggerProvider(log.NewNoopLogger(), config.NewMockConfigProvider(config.S2SProxyConfig{}))
	lifetime, cancel := context.WithCancel(context.Background())
	sm := NewShardManager(nil, config.ShardCountConfig{Mode: config.ShardCountRouting}, encryption.TLSConfig{}, loggers)
	_ = sm.Start(lifetime)
	sc := &vrScenario{t: t, ns: ns, nt: nt, sm: sm, lifetime: lifetime, cancel: cancel,
		reverse: &vrReverseClient{streams: map[history.ClusterShardID][]*vfClientStream{}},
		srcH:    make([]*vrHandler, ns), tgtH: make([]*vrHandler, nt), wfFor: vrWorkflowFor(nt)}
	sc.altNs = vrAltNamespaces(nt, sc.wfFor)
	for s := 0; s < ns; s++ {
		sc.openSource(s)
	}
	sc.settle()
	sc.report(func(string) {})
	out("I")
	out(".")
	stalls := map[int]chan struct{}{}
	queuedAck := map[int]int64{}
	aqNote := ""
	for _, line := range lines[1:] {
		f := strings.Fields(line)
		if len(f) == 0 {
			continue
		}
		atoi := func(i int) int { n, _ := strconv.Atoi(f[i]); return n }
		atoi64 := func(i int) int64 { n, _ := strconv.ParseInt(f[i], 10, 64); return n }
		switch f[0] {
		case "S", "SL":
			// SL: the same on the source's low-priority lane (a source multiplexes two lanes on one stream, each with its own
			// id and watermark sequence)
			s := atoi(1)
			msg := &replicationv1.WorkflowReplicationMessages{ExclusiveHighWatermark: atoi64(2)}
			if f[0] == "SL" {
				msg.Priority = enumsspb.TASK_PRIORITY_LOW
			}
			n := atoi(3)
			for k := 0; k < n; k++ {
				id, owner, pay := atoi64(4+3*k), atoi(5+3*k), f[6+3*k]
				task := &replicationv1.ReplicationTask{SourceTaskId: id}
				if owner >= 0 && strings.HasSuffix(pay, "~") && nt > 1 {
					// same workflow id as the neighbouring target's tasks, in another namespace: owned by this target
					task.RawTaskInfo = &persistencespb.ReplicationTaskInfo{NamespaceId: sc.altNs[owner], WorkflowId: sc.wfFor[(owner+1)%nt], RunId: pay, TaskId: id}
				} else if owner >= 0 {
					task.RawTaskInfo = &persistencespb.ReplicationTaskInfo{NamespaceId: "verif-ns", WorkflowId: sc.wfFor[owner], RunId: pay, TaskId: id}
				} else if owner == -1 {
					// not routable: no raw task info
				} else {
					task.RawTaskInfo = &persistencespb.ReplicationTaskInfo{NamespaceId: "", WorkflowId: "", RunId: pay, TaskId: id}
				}
				msg.ReplicationTasks = append(msg.ReplicationTasks, task)
			}
			cs := sc.reverse.current(history.ClusterShardID{ClusterID: vrSrcCluster, ShardID: int32(s + 1)})
			if cs != nil {
				cs.recv <- vfItem[vfResp]{val: &vfResp{Attributes: &adminservice.StreamWorkflowReplicationMessagesResponse_Messages{Messages: msg}}}
			}
		case "A":
			tg := atoi(1)
			if h := sc.tgtH[tg]; h != nil {
				// a target running tiered replication: the top-level watermark is the minimum over its lanes; its
				// high-priority lane is ahead (it has drained everything it was sent), its low-priority lane is the laggard
				h.stream.mu.Lock()
				ahead := h.stream.maxHigh
				h.stream.mu.Unlock()
				if ahead < atoi64(2) {
					ahead = atoi64(2)
				}
				h.stream.recv <- vfItem[vfReq]{val: &vfReq{Attributes: &adminservice.StreamWorkflowReplicationMessagesRequest_SyncReplicationState{
					SyncReplicationState: &replicationv1.SyncReplicationState{InclusiveLowWatermark: atoi64(2),
						HighPriorityState: &replicationv1.ReplicationState{InclusiveLowWatermark: ahead},
						LowPriorityState:  &replicationv1.ReplicationState{InclusiveLowWatermark: atoi64(2)}}}}}
			}
		case "C":
			sc.openTarget(atoi(1))
		case "X":
			tg := atoi(1)
			if h := sc.tgtH[tg]; h != nil && stalls[tg] == nil {
				ch := make(chan struct{})
				stalls[tg] = ch
				h.stream.mu.Lock()
				h.stream.block = ch
				h.stream.mu.Unlock()
			}
		case "U":
			tg := atoi(1)
			if ch := stalls[tg]; ch != nil {
				h := sc.tgtH[tg]
				h.stream.mu.Lock()
				h.stream.block = nil
				h.stream.mu.Unlock()
				close(ch)
				delete(stalls, tg)
			}
		case "B":
			tg := atoi(1)
			if h := sc.tgtH[tg]; h != nil {
				if ch := stalls[tg]; ch != nil {
					delete(stalls, tg)
					_ = ch
				}
				h.stream.cancel()
				<-h.done
				// whatever the dying incarnation still sent is reported under the break event
			}
		case "R":
			s := atoi(1)
			if h := sc.srcH[s]; h != nil {
				h.stream.cancel()
				<-h.done
			}
			sc.settle()
			sc.openSource(s)
		case "SA":
			// every source announces the watermark <h> (an empty batch), one after the other
			for k := 0; k < sc.ns; k++ {
				if cs := sc.reverse.current(history.ClusterShardID{ClusterID: vrSrcCluster, ShardID: int32(k + 1)}); cs != nil {
					cs.recv <- vfItem[vfResp]{val: &vfResp{Attributes: &adminservice.StreamWorkflowReplicationMessagesResponse_Messages{
						Messages: &replicationv1.WorkflowReplicationMessages{ExclusiveHighWatermark: atoi64(1)}}}}
					time.Sleep(5 * time.Millisecond) // the sources' periodic announcements are not synchronised
				}
			}
		case "AQ":
			// an honest, lagging target: it has processed everything it received and computes its acknowledgement now (the
			// greatest watermark it has been sent) - the acknowledgement travels and arrives at AF
			if h := sc.tgtH[atoi(1)]; h != nil {
				h.stream.mu.Lock()
				queuedAck[atoi(1)] = h.stream.maxHigh
				h.stream.mu.Unlock()
				aqNote = fmt.Sprintf("AQ %d %d", atoi(1), queuedAck[atoi(1)])
			}
		case "AF":
			if h := sc.tgtH[atoi(1)]; h != nil {
				if wq, ok := queuedAck[atoi(1)]; ok {
					delete(queuedAck, atoi(1))
					h.stream.recv <- vfItem[vfReq]{val: &vfReq{Attributes: &adminservice.StreamWorkflowReplicationMessagesRequest_SyncReplicationState{
						SyncReplicationState: &replicationv1.SyncReplicationState{InclusiveLowWatermark: wq}}}}
				}
			}
		case "RO":
			// the source re-opens its stream while the previous incarnation is still up (an ordinary reconnect): the new
			// receiver evicts the old one
			s := atoi(1)
			old := sc.srcH[s]
			sc.openSource(s)
			sc.settle()
			if old != nil {
				old.stream.cancel()
				<-old.done
			}
		case "XD":
			// the target becomes a slow reader: every message takes <ms> to send
			if h := sc.tgtH[atoi(1)]; h != nil {
				h.stream.mu.Lock()
				h.stream.delay = time.Duration(atoi(2)) * time.Millisecond
				h.stream.mu.Unlock()
			}
		case "AA":
			// the target acknowledges by itself everything it is sent
			if h := sc.tgtH[atoi(1)]; h != nil {
				h.stream.mu.Lock()
				h.stream.autoAck = true
				h.stream.mu.Unlock()
			}
		case "SB":
			// a burst: <count> single-task batches of source s for target owner, back to back (ids from <first>)
			s, count, first, owner := atoi(1), atoi(2), atoi64(3), atoi(4)
			cs := sc.reverse.current(history.ClusterShardID{ClusterID: vrSrcCluster, ShardID: int32(s + 1)})
			for k := 0; cs != nil && k < count; k++ {
				id := first + int64(k)
				task := &replicationv1.ReplicationTask{SourceTaskId: id,
					RawTaskInfo: &persistencespb.ReplicationTaskInfo{NamespaceId: "verif-ns", WorkflowId: sc.wfFor[owner], RunId: fmt.Sprintf("b%d", id), TaskId: id}}
				cs.recv <- vfItem[vfResp]{val: &vfResp{Attributes: &adminservice.StreamWorkflowReplicationMessagesResponse_Messages{
					Messages: &replicationv1.WorkflowReplicationMessages{ExclusiveHighWatermark: id + 1, ReplicationTasks: []*replicationv1.ReplicationTask{task}}}}}
			}
		case "E":
		}
		sc.settle()
		out(f[0])
		if aqNote != "" {
			out(aqNote)
			aqNote = ""
		}
		sc.report(out)
		out(".")
		if f[0] == "B" {
			sc.tgtH[atoi(1)] = nil
		}
	}
	// orderly end of the bubble: unblock everything and wait for every handler to return
	for tg, ch := range stalls {
		if h := sc.tgtH[tg]; h != nil {
			h.stream.mu.Lock()
			h.stream.block = nil
			h.stream.mu.Unlock()
		}
		close(ch)
	}
	cancel()
	for _, h := range append(append([]*vrHandler{}, sc.srcH...), sc.tgtH...) {
		if h != nil {
			h.stream.cancel()
		}
	}
	for _, h := range append(append([]*vrHandler{}, sc.srcH...), sc.tgtH...) {
		if h != nil {
			<-h.done
		}
	}
	sm.Stop()
	time.Sleep(5 * time.Second)
	synctest.Wait()
}

func TestVerifRouting(t *testing.T) {
	scn, w, done := verifIO(t)
	defer done()
	var scenarios [][]string
	for scn.Scan() {
		line := strings.TrimSpace(scn.Text())
		if line == "" {
			continue
		}
		if strings.HasPrefix(line, "I ") {
			scenarios = append(scenarios, nil)
		}
		if len(scenarios) > 0 {
			scenarios[len(scenarios)-1] = append(scenarios[len(scenarios)-1], line)
		}
	}
	for i, lines := range scenarios {
		var buf []string
		ok := true
		func() {
			defer func() {
				if r := recover(); r != nil {
					ok = false
					buf = append(buf, fmt.Sprintf("PANIC %v", r))
				}
			}()
			synctest.Test(t, func(t *testing.T) {
				vrRunScenario(t, lines, func(s string) { buf = append(buf, s) })
			})
		}()
		_ = ok
		fmt.Fprintf(w, "# scenario %d\n", i)
		for _, l := range buf {
			fmt.Fprintln(w, l)
		}
		fmt.Fprintln(w, "#end")
	}
	_ = sort.Strings
}
