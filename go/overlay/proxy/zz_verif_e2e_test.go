//go:build verif

package proxy

import (
	"context"
	"fmt"
	"net"
	"sort"
	"strings"
	"sync"
	"testing"
	"time"

	_ "go.temporal.io/api/workflowservice/v1"
	_ "go.temporal.io/server/api/adminservice/v1"
	"go.temporal.io/server/common/log"
	"google.golang.org/grpc"
	"google.golang.org/grpc/credentials/insecure"
	"google.golang.org/grpc/metadata"
	"google.golang.org/grpc/status"
	"google.golang.org/protobuf/reflect/protoreflect"
	"google.golang.org/protobuf/reflect/protoregistry"
	"google.golang.org/protobuf/types/dynamicpb"

	"github.com/temporalio/s2s-proxy/config"
	"github.com/temporalio/s2s-proxy/logging"
)

// End-to-end harness: a real ClusterConnection (TCP, or a mux pair of two ClusterConnections) between a fake
// local cluster and a fake remote cluster (gRPC servers answering every method generically and recording what
// they see).  Used by C15 (policy matrix), C13 (direction), C16 (namespace access, end-to-end subset),
// C07 (LCM parameters of the assembled servers).
//
//	SETUP transport=tcp|mux acl=none|present methods=a,b|- namespaces=x,y|- nsmap=l1:r1,l2:r2|- samap=lk:rk,...|- mode=default|lcm local=4 remote=6
//	CALL side=remote|local method=/full/Method [bypass=0|1] [hdrs=name:value;...] [ns=name]
//	METHODS                          list every method of both services (from the descriptors)
//	  -> CALL code=<n> reached=0|1 seen=<side>:<namespace field value or -> resp=<namespace field of response or ->
const (
	veAdminSvc = "temporal.server.api.adminservice.v1.AdminService"
	veWfSvc    = "temporal.api.workflowservice.v1.WorkflowService"
)

type veCall struct {
	method string
	ns     string
	shards string
}

type veFakeCluster struct {
	name  string
	srv   *grpc.Server
	lis   net.Listener
	mu    sync.Mutex
	calls []veCall
	count int32 // history shard count it reports
}

func veMethod(full string) protoreflect.MethodDescriptor {
	parts := strings.Split(strings.TrimPrefix(full, "/"), "/")
	if len(parts) != 2 {
		return nil
	}
	d, err := protoregistry.GlobalFiles.FindDescriptorByName(protoreflect.FullName(parts[0]))
	if err != nil {
		return nil
	}
	sd, ok := d.(protoreflect.ServiceDescriptor)
	if !ok {
		return nil
	}
	return sd.Methods().ByName(protoreflect.Name(parts[1]))
}

func veGetString(m protoreflect.Message, field string) string {
	fd := m.Descriptor().Fields().ByName(protoreflect.Name(field))
	if fd == nil || fd.Kind() != protoreflect.StringKind || fd.IsList() {
		return "-"
	}
	v := m.Get(fd).String()
	if v == "" {
		return "-"
	}
	return v
}

func newVeFakeCluster(name string, count int32) *veFakeCluster {
	fc := &veFakeCluster{name: name, count: count}
	fc.srv = grpc.NewServer(grpc.UnknownServiceHandler(func(_ any, stream grpc.ServerStream) error {
		full, _ := grpc.MethodFromServerStream(stream)
		md := veMethod(full)
		if md == nil {
			return status.Error(12, "unknown method")
		}
		if md.IsStreamingClient() || md.IsStreamingServer() {
			imd, _ := metadata.FromIncomingContext(stream.Context())
			get := func(k string) string {
				if v := imd.Get(k); len(v) > 0 {
					return v[0]
				}
				return "-"
			}
			fc.mu.Lock()
			fc.calls = append(fc.calls, veCall{method: full, ns: "-", shards: get("temporal-client-cluster-id") + "/" + get("temporal-client-shard-id") + ">" + get("temporal-server-cluster-id") + "/" + get("temporal-server-shard-id")})
			fc.mu.Unlock()
			return nil
		}
		in := dynamicpb.NewMessage(md.Input())
		if err := stream.RecvMsg(in); err != nil {
			return err
		}
		fc.mu.Lock()
		fc.calls = append(fc.calls, veCall{method: full, ns: veGetString(in, "namespace")})
		fc.mu.Unlock()
		out := dynamicpb.NewMessage(md.Output())
		// echo the namespace back where the response has such a field, so that response translation is observable
		if fd := md.Output().Fields().ByName("namespace"); fd != nil && fd.Kind() == protoreflect.StringKind && !fd.IsList() {
			out.Set(fd, protoreflect.ValueOfString(strings.TrimPrefix(veGetString(in, "namespace"), "-")))
		}
		if fd := md.Output().Fields().ByName("history_shard_count"); fd != nil {
			out.Set(fd, protoreflect.ValueOfInt32(fc.count))
		}
		// DescribeNamespaceResponse-like: namespace_info.name := the namespace the cluster was asked about
		if fd := md.Output().Fields().ByName("namespace_info"); fd != nil && fd.Message() != nil {
			if nf := fd.Message().Fields().ByName("name"); nf != nil {
				info := out.Mutable(fd).Message()
				info.Set(nf, protoreflect.ValueOfString(strings.TrimPrefix(veGetString(in, "namespace"), "-")))
			}
		}
		// DescribeMutableStateResponse-like: search attributes of the execution, keys chosen by the caller ("sa:<k1>+<k2>" as workflow id)
		if fd := md.Output().Fields().ByName("database_mutable_state"); fd != nil && fd.Message() != nil {
			if ex := md.Input().Fields().ByName("execution"); ex != nil && ex.Message() != nil && in.Has(ex) {
				wid := veGetString(in.Get(ex).Message(), "workflow_id")
				if strings.HasPrefix(wid, "sa:") {
					ms := out.Mutable(fd).Message()
					if ei := fd.Message().Fields().ByName("execution_info"); ei != nil && ei.Message() != nil {
						info := ms.Mutable(ei).Message()
						if sf := ei.Message().Fields().ByName("search_attributes"); sf != nil && sf.IsMap() {
							mp := info.Mutable(sf).Map()
							for _, k := range strings.Split(strings.TrimPrefix(wid, "sa:"), "+") {
								pv := mp.NewValue().Message()
								pv.Set(pv.Descriptor().Fields().ByName("data"), protoreflect.ValueOfBytes([]byte("value-of-"+k)))
								mp.Set(protoreflect.ValueOfString(k).MapKey(), protoreflect.ValueOfMessage(pv))
							}
						}
					}
				}
			}
		}
		// ListNamespacesResponse-like: a fixed upstream list of namespaces
		if fd := md.Output().Fields().ByName("namespaces"); fd != nil && fd.IsList() && fd.Message() != nil {
			if inf := fd.Message().Fields().ByName("namespace_info"); inf != nil && inf.Message() != nil {
				l := out.Mutable(fd).List()
				upstream := []string{"loc", "other", "loc2", "zzz", "loc"}
				// the caller can choose the upstream list: it travels in the page token, which the proxy does not touch
				if tf := md.Input().Fields().ByName("next_page_token"); tf != nil && tf.Kind() == protoreflect.BytesKind && len(in.Get(tf).Bytes()) > 0 {
					upstream = strings.Split(string(in.Get(tf).Bytes()), ",")
					if string(in.Get(tf).Bytes()) == "-" {
						upstream = nil
					}
				}
				for _, n := range upstream {
					el := l.NewElement().Message()
					el.Mutable(inf).Message().Set(inf.Message().Fields().ByName("name"), protoreflect.ValueOfString(n))
					l.Append(protoreflect.ValueOfMessage(el))
				}
			}
		}
		return stream.SendMsg(out)
	}))
	var err error
	fc.lis, err = net.Listen("tcp", "127.0.0.1:0")
	if err != nil {
		panic(err)
	}
	go func() { _ = fc.srv.Serve(fc.lis) }()
	return fc
}

func (fc *veFakeCluster) take() []veCall {
	fc.mu.Lock()
	defer fc.mu.Unlock()
	r := fc.calls
	fc.calls = nil
	return r
}

type veEnv struct {
	cancel      context.CancelFunc
	local       *veFakeCluster
	remote      *veFakeCluster
	fromRemote  *grpc.ClientConn // what the remote side dials (the proxy's remote-facing server, possibly through a peer proxy)
	fromLocal   *grpc.ClientConn // what the local cluster dials (the proxy's local-facing server)
	connections []*ClusterConnection
}

func veFreePort() string {
	l, _ := net.Listen("tcp", "127.0.0.1:0")
	defer l.Close()
	return l.Addr().String()
}

func (e *veEnv) close() {
	if e == nil {
		return
	}
	_ = e.fromRemote.Close()
	_ = e.fromLocal.Close()
	e.cancel()
	e.local.srv.Stop()
	e.remote.srv.Stop()
	time.Sleep(20 * time.Millisecond)
}

func veSetup(kv map[string]string) (*veEnv, error) {
	ctx, cancel := context.WithCancel(context.Background())
	loggers := logging.NewLoggerProvider(log.NewNoopLogger(), config.NewMockConfigProvider(config.S2SProxyConfig{}))
	atoi := func(s string, d int32) int32 {
		var n int32
		if _, err := fmt.Sscanf(s, "%d", &n); err != nil {
			return d
		}
		return n
	}
	lc, rc := atoi(kv["local"], 4), atoi(kv["remote"], 4)
	e := &veEnv{cancel: cancel, local: newVeFakeCluster("local", lc), remote: newVeFakeCluster("remote", rc)}
	list := func(s string) []string {
		if s == "" || s == "-" {
			return nil
		}
		return strings.Split(s, ",")
	}
	var policy *config.ACLPolicy
	if kv["acl"] == "present" {
		policy = &config.ACLPolicy{AllowedMethods: config.AllowedMethods{AdminService: list(kv["methods"])}, AllowedNamespaces: list(kv["namespaces"])}
	}
	var nsmap config.StringTranslator
	for _, p := range list(kv["nsmap"]) {
		lr := strings.SplitN(p, ":", 2)
		nsmap.Mappings = append(nsmap.Mappings, config.StringMapping{Local: lr[0], Remote: lr[1]})
	}
	scc := config.ShardCountConfig{}
	if kv["mode"] == "lcm" {
		scc = config.ShardCountConfig{Mode: config.ShardCountLCM, LocalShardCount: lc, RemoteShardCount: rc}
	}
	outboundAddr, inboundAddr := veFreePort(), veFreePort()
	var samap config.SATranslationConfig
	if l := list(kv["samap"]); len(l) > 0 {
		m := config.SANamespaceMapping{Name: "ns", NamespaceId: "ns-id"}
		for _, p := range l {
			lr := strings.SplitN(p, ":", 2)
			m.Mappings = append(m.Mappings, config.SAMapping{LocalName: lr[0], RemoteName: lr[1]})
		}
		samap.NamespaceMappings = []config.SANamespaceMapping{m}
	}
	cfg := config.ClusterConnConfig{
		Name:                       "verif-under-test",
		ACLPolicy:                  policy,
		NamespaceTranslation:       nsmap,
		SearchAttributeTranslation: samap,
		ShardCountConfig:     scc,
		Local: config.ClusterDefinition{ConnectionType: config.ConnTypeTCP,
			TcpServer: config.TCPTLSInfo{ConnectionString: outboundAddr},
			TcpClient: config.TCPTLSInfo{ConnectionString: e.local.lis.Addr().String()}},
	}
	remoteDial := inboundAddr
	if kv["transport"] == "mux" {
		muxAddr := inboundAddr
		cfg.Remote = config.ClusterDefinition{ConnectionType: config.ConnTypeMuxServer, MuxCount: 1, MuxAddressInfo: config.TCPTLSInfo{ConnectionString: muxAddr}}
		// the peer proxy on the remote side: plain, no policy, establishes the mux
		peerOutbound := veFreePort()
		peerCfg := config.ClusterConnConfig{Name: "verif-peer",
			Local: config.ClusterDefinition{ConnectionType: config.ConnTypeTCP,
				TcpServer: config.TCPTLSInfo{ConnectionString: peerOutbound},
				TcpClient: config.TCPTLSInfo{ConnectionString: e.remote.lis.Addr().String()}},
			Remote: config.ClusterDefinition{ConnectionType: config.ConnTypeMuxClient, MuxCount: 1, MuxAddressInfo: config.TCPTLSInfo{ConnectionString: muxAddr}}}
		cc, err := NewClusterConnection(ctx, cfg, loggers)
		if err != nil {
			cancel()
			return nil, err
		}
		peer, err := NewClusterConnection(ctx, peerCfg, loggers)
		if err != nil {
			cancel()
			return nil, err
		}
		cc.Start()
		peer.Start()
		e.connections = []*ClusterConnection{cc, peer}
		remoteDial = peerOutbound
		deadline := time.Now().Add(10 * time.Second)
		for time.Now().Before(deadline) && !(cc.AcceptingInboundTraffic() && peer.AcceptingOutboundTraffic()) {
			time.Sleep(10 * time.Millisecond)
		}
	} else {
		cfg.Remote = config.ClusterDefinition{ConnectionType: config.ConnTypeTCP,
			TcpServer: config.TCPTLSInfo{ConnectionString: inboundAddr},
			TcpClient: config.TCPTLSInfo{ConnectionString: e.remote.lis.Addr().String()}}
		cc, err := NewClusterConnection(ctx, cfg, loggers)
		if err != nil {
			cancel()
			return nil, err
		}
		cc.Start()
		e.connections = []*ClusterConnection{cc}
	}
	var err error
	e.fromRemote, err = grpc.NewClient(remoteDial, grpc.WithTransportCredentials(insecure.NewCredentials()))
	if err != nil {
		return nil, err
	}
	e.fromLocal, err = grpc.NewClient(outboundAddr, grpc.WithTransportCredentials(insecure.NewCredentials()))
	return e, err
}

func veAllMethods() []string {
	var res []string
	for _, svc := range []string{veAdminSvc, veWfSvc} {
		d, err := protoregistry.GlobalFiles.FindDescriptorByName(protoreflect.FullName(svc))
		if err != nil {
			continue
		}
		ms := d.(protoreflect.ServiceDescriptor).Methods()
		for i := 0; i < ms.Len(); i++ {
			m := ms.Get(i)
			flag := func(md protoreflect.MessageDescriptor) string {
				if fd := md.Fields().ByName("namespace"); fd != nil && fd.Kind() == protoreflect.StringKind && !fd.IsList() {
					return "1"
				}
				return "0"
			}
			st := "0"
			if m.IsStreamingClient() || m.IsStreamingServer() {
				st = "1"
			}
			// full method : request has a top-level namespace : response has one : streaming
			res = append(res, "/"+svc+"/"+string(m.Name())+":"+flag(m.Input())+":"+flag(m.Output())+":"+st)
		}
	}
	sort.Strings(res)
	return res
}

func TestVerifE2E(t *testing.T) {
	sc, w, done := verifIO(t)
	defer done()
	var env *veEnv
	defer func() { env.close() }()
	for sc.Scan() {
		f := verifFields(sc.Text())
		if len(f) == 0 {
			continue
		}
		kv := map[string]string{}
		for _, p := range f[1:] {
			if i := strings.Index(p, "="); i > 0 {
				kv[p[:i]] = p[i+1:]
			}
		}
		switch f[0] {
		case "METHODS":
			fmt.Fprintf(w, "METHODS %s\n", strings.Join(veAllMethods(), " "))
		case "SETUP":
			env.close()
			var err error
			env, err = veSetup(kv)
			if err != nil {
				env = nil
				fmt.Fprintf(w, "SETUP error %s\n", strings.ReplaceAll(err.Error(), "\n", " "))
			} else {
				fmt.Fprintln(w, "SETUP ok")
			}
		case "CALL":
			if env == nil {
				fmt.Fprintln(w, "CALL nosetup")
				continue
			}
			conn, target := env.fromRemote, env.local
			if kv["side"] == "local" {
				conn, target = env.fromLocal, env.remote
			}
			md := veMethod(kv["method"])
			ctx, cancel := context.WithTimeout(context.Background(), 5*time.Second)
			if v, ok := kv["bypass"]; ok && v == "1" {
				ctx = metadata.AppendToOutgoingContext(ctx, "s2s-request-translation", "false")
			}
			if v, ok := kv["hdrs"]; ok && v != "-" {
				// further caller-supplied metadata: name:value;name:value
				for _, h := range strings.Split(v, ";") {
					if nv := strings.SplitN(h, ":", 2); len(nv) == 2 {
						ctx = metadata.AppendToOutgoingContext(ctx, nv[0], nv[1])
					}
				}
			}
			_ = env.local.take()
			_ = env.remote.take()
			code, resp := 0, "-"
			if md == nil {
				// a method the descriptors do not know: raw invoke with an empty message
				err := conn.Invoke(ctx, kv["method"], dynamicpb.NewMessage(veMethod("/"+veAdminSvc+"/DescribeCluster").Input()), dynamicpb.NewMessage(veMethod("/"+veAdminSvc+"/DescribeCluster").Output()))
				code = int(status.Code(err))
			} else if md.IsStreamingClient() || md.IsStreamingServer() {
				sctx := metadata.AppendToOutgoingContext(ctx, "temporal-client-cluster-id", "2", "temporal-client-shard-id", kvOr(kv, "cshard", "1"),
					"temporal-server-cluster-id", "1", "temporal-server-shard-id", kvOr(kv, "sshard", "1"))
				st, err := conn.NewStream(sctx, &grpc.StreamDesc{ServerStreams: true, ClientStreams: true}, kv["method"])
				if err == nil {
					// keep the stream open until the far side has seen it (or the proxy ended it), then hang up
					ended := make(chan error, 1)
					go func() { ended <- st.RecvMsg(dynamicpb.NewMessage(md.Output())) }()
					deadline := time.After(2 * time.Second)
				wait:
					for {
						select {
						case err = <-ended:
							break wait
						case <-deadline:
							break wait
						case <-time.After(2 * time.Millisecond):
							target.mu.Lock()
							n := len(target.calls)
							target.mu.Unlock()
							if n > 0 {
								_ = st.CloseSend()
								select {
								case err = <-ended:
								case <-time.After(2 * time.Second):
								}
								break wait
							}
						}
					}
					if err != nil && err.Error() == "EOF" {
						err = nil
					}
				}
				code = int(status.Code(err))
			} else {
				in := dynamicpb.NewMessage(md.Input())
				if ns, ok := kv["ns"]; ok {
					if fd := md.Input().Fields().ByName("namespace"); fd != nil && fd.Kind() == protoreflect.StringKind && !fd.IsList() {
						in.Set(fd, protoreflect.ValueOfString(ns))
					}
				}
				if keys, ok := kv["sakeys"]; ok {
					if ex := md.Input().Fields().ByName("execution"); ex != nil && ex.Message() != nil {
						in.Mutable(ex).Message().Set(ex.Message().Fields().ByName("workflow_id"), protoreflect.ValueOfString("sa:"+keys))
					}
				}
				if lst, ok := kv["list"]; ok {
					if fd := md.Input().Fields().ByName("next_page_token"); fd != nil && fd.Kind() == protoreflect.BytesKind {
						in.Set(fd, protoreflect.ValueOfBytes([]byte(lst)))
					}
				}
				out := dynamicpb.NewMessage(md.Output())
				err := conn.Invoke(ctx, kv["method"], in, out)
				code = int(status.Code(err))
				if err == nil {
					resp = veGetString(out, "namespace")
					if fd := md.Output().Fields().ByName("history_shard_count"); fd != nil {
						resp = fmt.Sprintf("shards=%d", out.Get(fd).Int())
					}
					if fd := md.Output().Fields().ByName("namespaces"); fd != nil && fd.IsList() && fd.Message() != nil {
						if inf := fd.Message().Fields().ByName("namespace_info"); inf != nil {
							var names []string
							for i := 0; i < out.Get(fd).List().Len(); i++ {
								names = append(names, veGetString(out.Get(fd).List().Get(i).Message().Get(inf).Message(), "name"))
							}
							resp = "list:" + strings.Join(names, ",")
						}
					}
					if fd := md.Output().Fields().ByName("database_mutable_state"); fd != nil && fd.Message() != nil && out.Has(fd) {
						var got []string
						ms := out.Get(fd).Message()
						if ei := fd.Message().Fields().ByName("execution_info"); ei != nil && ms.Has(ei) {
							if sf := ei.Message().Fields().ByName("search_attributes"); sf != nil {
								ms.Get(ei).Message().Get(sf).Map().Range(func(k protoreflect.MapKey, v protoreflect.Value) bool {
									got = append(got, k.String()+"="+string(v.Message().Get(v.Message().Descriptor().Fields().ByName("data")).Bytes()))
									return true
								})
							}
						}
						sort.Strings(got)
						resp = "sa:" + strings.Join(got, ",")
					}
					if fd := md.Output().Fields().ByName("namespace_info"); fd != nil && fd.Message() != nil && out.Has(fd) {
						resp = "info:" + veGetString(out.Get(fd).Message(), "name")
					}
				}
			}
			cancel()
			time.Sleep(time.Millisecond)
			if md != nil && (md.IsStreamingClient() || md.IsStreamingServer()) && code == 0 {
				// a stream is relayed asynchronously: give the forwarded open a moment to arrive
				for i := 0; i < 200; i++ {
					target.mu.Lock()
					n := len(target.calls)
					target.mu.Unlock()
					if n > 0 {
						break
					}
					time.Sleep(5 * time.Millisecond)
				}
			}
			calls := target.take()
			other := env.local
			if target == env.local {
				other = env.remote
			}
			stray := len(other.take())
			seen := "-"
			if len(calls) > 0 {
				seen = calls[0].ns
				if calls[0].shards != "" {
					seen = calls[0].shards
				}
			}
			fmt.Fprintf(w, "CALL code=%d reached=%d seen=%s resp=%s stray=%d\n", code, len(calls), seen, resp, stray)
		}
	}
}

func kvOr(kv map[string]string, k, d string) string {
	if v, ok := kv[k]; ok {
		return v
	}
	return d
}
