//go:build verif

package proxy

import (
	"context"
	"fmt"
	"reflect"
	"runtime"
	"sort"
	"strconv"
	"strings"
	"testing"
	"time"

	"go.temporal.io/server/api/adminservice/v1"
	replicationv1 "go.temporal.io/server/api/replication/v1"
	"go.temporal.io/server/client/history"
	"go.temporal.io/server/common/log"

	"github.com/temporalio/s2s-proxy/config"
	"github.com/temporalio/s2s-proxy/encryption"
	"github.com/temporalio/s2s-proxy/logging"
)

// C08 harness: every interleaving, at lock boundaries, of the register / cleanup call sequences of successive
// incarnations of one shard's routing stream pair, on the real shardManagerImpl (instrumented copy, see lib/instrument.py
// and zz_verif_sched.go).  The call sequences themselves come from proxyStreamSender.Run / proxyStreamReceiver.Run
// (PROG lines written by the translator).
//
//	PROG <sr|sc|rr|rc> <method>...
//	SCEN <name> / INIT <item>... / THREAD <item>... / MODE exhaustive <max> | random <n> <seed> / END
//	items: sr<i> sc<i> rr<i> rc<i> rp<k> w:<item>

var (
	vgT = history.ClusterShardID{ClusterID: 2, ShardID: 1} // target shard: sender side registries
	vgS = history.ClusterShardID{ClusterID: 1, ShardID: 1} // source shard: receiver side registries
)

type vgInc struct {
	ch        chan RoutedMessage
	stamp     time.Time
	ack       chan RoutedAck
	cancelled bool
	cancel    context.CancelFunc
	recv      *proxyStreamReceiver
}

type vgWorld struct {
	sm     *shardManagerImpl
	incs   map[int]*vgInc
	replay map[int]*proxyStreamReceiver
	done   map[string]bool
	errs   []string
	logger log.Logger
	progs  map[string][]string
}

func vgNewWorld(progs map[string][]string, loggers logging.LoggerProvider) *vgWorld {
	sm := NewShardManager(nil, config.ShardCountConfig{Mode: config.ShardCountRouting}, encryption.TLSConfig{}, loggers).(*shardManagerImpl)
	return &vgWorld{sm: sm, incs: map[int]*vgInc{}, replay: map[int]*proxyStreamReceiver{}, done: map[string]bool{}, logger: log.NewNoopLogger(), progs: progs}
}

func (w *vgWorld) inc(i int) *vgInc {
	if x, ok := w.incs[i]; ok {
		return x
	}
	x := &vgInc{ch: make(chan RoutedMessage, 100), ack: make(chan RoutedAck, 100)}
	x.cancel = func() { x.cancelled = true }
	x.recv = &proxyStreamReceiver{logger: w.logger, shardManager: w.sm, sourceShardID: vgS, targetShardID: vgT}
	w.incs[i] = x
	return x
}

func (w *vgWorld) prepare(items []string) {
	for _, it := range items {
		if strings.HasPrefix(it, "w:") {
			it = it[2:]
		}
		n, _ := strconv.Atoi(it[2:])
		if strings.HasPrefix(it, "rp") {
			w.replay[n] = &proxyStreamReceiver{logger: w.logger, shardManager: w.sm, sourceShardID: history.ClusterShardID{ClusterID: 1, ShardID: int32(100 + n)}, targetShardID: vgT,
				lastWatermark: &replicationv1.WorkflowReplicationMessages{ExclusiveHighWatermark: int64(1000 + n)}}
		} else {
			w.inc(n)
		}
	}
}

func (w *vgWorld) call(name string, x *vgInc) {
	if name == "close" {
		verifYield("close")
		close(x.ch)
		return
	}
	m := reflect.ValueOf(w.sm).MethodByName(name)
	if !m.IsValid() {
		w.errs = append(w.errs, "no method "+name)
		return
	}
	var args []any
	switch name {
	case "SetRemoteSendChan", "RemoveRemoteSendChan":
		args = []any{vgT, x.ch}
	case "RegisterShard":
		args = []any{vgT}
	case "UnregisterShard":
		args = []any{vgT, x.stamp}
	case "TerminatePreviousLocalReceiver":
		args = []any{vgS, w.logger}
	case "SetLocalAckChan", "RemoveLocalAckChan":
		args = []any{vgS, x.ack}
	case "RegisterLocalReceiver":
		args = []any{vgS, ActiveReceiver(x.recv), x.cancel}
	case "UnregisterLocalReceiver", "RegisterActiveReceiver":
		args = []any{vgS, ActiveReceiver(x.recv)}
	case "SetLocalReceiverCancelFunc":
		args = []any{vgS, x.cancel}
	case "RemoveLocalReceiverCancelFunc", "UnregisterActiveReceiver":
		args = []any{vgS}
	default:
		w.errs = append(w.errs, "unknown call "+name)
		return
	}
	if m.Type().NumIn() != len(args) {
		w.errs = append(w.errs, "arity of "+name)
		return
	}
	in := make([]reflect.Value, len(args))
	for i, a := range args {
		v := reflect.ValueOf(a)
		if !v.Type().AssignableTo(m.Type().In(i)) {
			if v.Type().ConvertibleTo(m.Type().In(i)) {
				v = v.Convert(m.Type().In(i))
			} else {
				w.errs = append(w.errs, "argument types of "+name)
				return
			}
		}
		in[i] = v
	}
	out := m.Call(in)
	if name == "RegisterShard" && len(out) == 1 {
		if ts, ok := out[0].Interface().(time.Time); ok {
			x.stamp = ts
		}
	}
}

func (w *vgWorld) runItem(it string) {
	if strings.HasPrefix(it, "w:") {
		dep := it[2:]
		verifWait(it, func() bool { return w.done[dep] })
		return
	}
	n, _ := strconv.Atoi(it[2:])
	if strings.HasPrefix(it, "rp") {
		w.replay[n].NotifyNewTargetShard(vgT)
	} else {
		for _, c := range w.progs[it[:2]] {
			w.call(c, w.inc(n))
		}
	}
	w.done[it] = true
}

func (w *vgWorld) state(panics map[int]string) string {
	who := func(pred func(*vgInc) bool) string {
		ids := []int{}
		for i := range w.incs {
			ids = append(ids, i)
		}
		sort.Ints(ids)
		for _, i := range ids {
			if pred(w.incs[i]) {
				return strconv.Itoa(i)
			}
		}
		return "?"
	}
	sm := w.sm
	sh, se, ack, can, act := "-", "-", "-", "-", "-"
	if info, ok := sm.localShards[ClusterShardIDtoShortString(vgT)]; ok {
		sh = who(func(x *vgInc) bool { return !x.stamp.IsZero() && x.stamp.Equal(info.Created) })
	}
	if ch, ok := sm.remoteSendChannels[vgT]; ok {
		se = who(func(x *vgInc) bool { return x.ch == ch })
	}
	if ch, ok := sm.localAckChannels[vgS]; ok {
		ack = who(func(x *vgInc) bool { return x.ack == ch })
	}
	if r, ok := sm.activeReceivers[vgS]; ok {
		act = who(func(x *vgInc) bool { return ActiveReceiver(x.recv) == r })
	}
	// which incarnations were cancelled by a successor (before we probe the registered function)
	cn := []string{}
	ids := []int{}
	for i := range w.incs {
		ids = append(ids, i)
	}
	sort.Ints(ids)
	for _, i := range ids {
		if w.incs[i].cancelled {
			cn = append(cn, strconv.Itoa(i))
		}
	}
	if f, ok := sm.localReceiverCancelFuncs[vgS]; ok {
		before := map[int]bool{}
		for i, x := range w.incs {
			before[i] = x.cancelled
			x.cancelled = false
		}
		f()
		can = who(func(x *vgInc) bool { return x.cancelled })
		for i, x := range w.incs {
			x.cancelled = before[i]
		}
	}
	dl := []string{}
	for _, i := range ids {
		if len(w.incs[i].ch) > 0 {
			dl = append(dl, strconv.Itoa(i))
		}
	}
	locks := 0
	for _, m := range []interface{ TryLock() bool }{&sm.mutex, &sm.activeReceiversMu, &sm.remoteSendChannelsMu, &sm.localAckChannelsMu, &sm.localReceiverCancelFuncsMu} {
		if !m.TryLock() {
			locks++
		}
	}
	crash := 0
	if len(panics) > 0 {
		crash = 1
	}
	return fmt.Sprintf("sh=%s se=%s ack=%s can=%s act=%s crash=%d cancelled=%s dl=%s held=%d", sh, se, ack, can, act, crash, strings.Join(cn, ","), strings.Join(dl, ","), locks)
}

type vgScenario struct {
	name    string
	init    []string
	threads [][]string
	mode    string
	max     int
	seed    uint64
}

func vgRunOnce(progs map[string][]string, loggers logging.LoggerProvider, sc *vgScenario, choices []int) (vsResult, string, []string) {
	w := vgNewWorld(progs, loggers)
	w.prepare(sc.init)
	for _, th := range sc.threads {
		w.prepare(th)
	}
	for _, it := range sc.init {
		w.runItem(it) // uncontrolled: verifMu / verifYield are pass-through
	}
	bodies := make([]func(), len(sc.threads))
	for i, th := range sc.threads {
		items := th
		bodies[i] = func() {
			for _, it := range items {
				w.runItem(it)
			}
		}
	}
	res := vsRun(bodies, choices)
	st := "incomplete"
	if !res.deadlock && !res.hang {
		st = w.state(res.panics)
	}
	return res, st, w.errs
}

func TestVerifRegistry(t *testing.T) {
	sc, w, done := verifIO(t)
	defer done()
	loggers := logging.NewLoggerProvider(log.NewNoopLogger(), config.NewMockConfigProvider(config.S2SProxyConfig{}))
	progs := map[string][]string{}
	var cur *vgScenario
	for sc.Scan() {
		f := verifFields(sc.Text())
		if len(f) == 0 {
			continue
		}
		switch f[0] {
		case "PROG":
			progs[f[1]] = append([]string{}, f[2:]...)
		case "SCEN":
			cur = &vgScenario{name: f[1], mode: "exhaustive", max: 200000}
		case "INIT":
			cur.init = append([]string{}, f[1:]...)
		case "THREAD":
			cur.threads = append(cur.threads, append([]string{}, f[1:]...))
		case "MODE":
			cur.mode = f[1]
			cur.max, _ = strconv.Atoi(f[2])
			if len(f) > 3 {
				cur.seed, _ = strconv.ParseUint(f[3], 10, 64)
			}
		case "ONE":
			// replay of one schedule: ONE c0,c1,...
			var ch []int
			if len(f) > 1 && f[1] != "-" {
				for _, s := range strings.Split(f[1], ",") {
					n, _ := strconv.Atoi(s)
					ch = append(ch, n)
				}
			}
			res, st, errs := vgRunOnce(progs, loggers, cur, ch)
			fmt.Fprintf(w, "# scenario %s\n", cur.name)
			for _, s := range res.steps {
				fmt.Fprintf(w, "STEP thread=%d %s enabled=%d chosen=%d\n", s.thread, s.tag, s.enabled, s.chosen)
			}
			for id, p := range res.panics {
				fmt.Fprintf(w, "PANIC thread=%d %s\n", id, p)
			}
			fmt.Fprintf(w, "OUT %s | count=1 sched=%s\n", st, f[1])
			for _, e := range errs {
				fmt.Fprintf(w, "ERR %s\n", e)
			}
			fmt.Fprintln(w, "#end")
		case "END":
			fmt.Fprintf(w, "# scenario %s\n", cur.name)
			outs := map[string]int{}
			example := map[string]string{}
			errset := map[string]bool{}
			n, deadlocks, hangs, complete := 0, 0, 0, 1
			record := func(res vsResult, st string, errs []string) {
				n++
				if res.deadlock {
					deadlocks++
					st = "deadlock"
				}
				if res.hang {
					hangs++
					st = "hang"
				}
				if _, ok := outs[st]; !ok {
					cs := make([]string, len(res.steps))
					for i, s := range res.steps {
						cs[i] = strconv.Itoa(s.chosen)
					}
					example[st] = strings.Join(cs, ",")
					if example[st] == "" {
						example[st] = "-"
					}
				}
				outs[st]++
				for _, e := range errs {
					errset[e] = true
				}
			}
			if cur.mode == "exhaustive" {
				var choices []int
				for {
					res, st, errs := vgRunOnce(progs, loggers, cur, choices)
					record(res, st, errs)
					if res.hang {
						complete = 0
						break
					}
					choices = vsNext(res.steps)
					if choices == nil {
						break
					}
					if n >= cur.max {
						complete = 0
						break
					}
				}
			} else {
				complete = 0
				x := cur.seed*0x9E3779B97F4A7C15 + 12345
				next := func() uint64 {
					x += 0x9E3779B97F4A7C15
					z := x
					z = (z ^ (z >> 30)) * 0xBF58476D1CE4E5B9
					z = (z ^ (z >> 27)) * 0x94D049BB133111EB
					return z ^ (z >> 31)
				}
				for k := 0; k < cur.max; k++ {
					ch := make([]int, 200)
					for i := range ch {
						ch[i] = int(next() % 4)
					}
					res, st, errs := vgRunOnce(progs, loggers, cur, ch)
					record(res, st, errs)
					if res.hang {
						break
					}
				}
			}
			fmt.Fprintf(w, "SCHEDULES %d complete=%d deadlocks=%d hangs=%d\n", n, complete, deadlocks, hangs)
			keys := []string{}
			for k := range outs {
				keys = append(keys, k)
			}
			sort.Strings(keys)
			for _, k := range keys {
				fmt.Fprintf(w, "OUT %s | count=%d sched=%s\n", k, outs[k], example[k])
			}
			for e := range errset {
				fmt.Fprintf(w, "ERR %s\n", e)
			}
			fmt.Fprintln(w, "#end")
		}
	}
}

// ---------------------------------------------------------------------------------------------------------------------
// Whole-stream overlap: real streamRouting pairs (proxyStreamSender.Run + proxyStreamReceiver.Run with their worker
// goroutines) for one source shard and one target shard, re-established while the previous incarnation is still around.
//
//	RS <name>
//	OT | OS        open a new incarnation of the target / source pair (no settling: overlaps what is still shutting down)
//	BT k | BS k    break incarnation k's stream (no settling)
//	FT | FS        the local server refuses the next stream the target / source pair's receiver opens towards it
//	P              settle; report what the newest target incarnation received since it opened (the pending watermark replay)
//	W              settle; report registries and which handlers are still running
//	M h            the source emits watermark h; settle; report what the newest target incarnation received
//	A h            the newest target incarnation acknowledges h; settle; report what the source received
//	END
func vgSettle() { time.Sleep(120 * time.Millisecond) }

func vgRunStreams(t *testing.T, lines []string, out func(string)) {
	loggers := logging.NewLoggerProvider(log.NewNoopLogger(), config.NewMockConfigProvider(config.S2SProxyConfig{}))
	lifetime, cancel := context.WithCancel(context.Background())
	sm := NewShardManager(nil, config.ShardCountConfig{Mode: config.ShardCountRouting}, encryption.TLSConfig{}, loggers)
	_ = sm.Start(lifetime)
	sc := &vrScenario{t: t, ns: 1, nt: 1, sm: sm, lifetime: lifetime, cancel: cancel,
		reverse: &vrReverseClient{streams: map[history.ClusterShardID][]*vfClientStream{}},
		srcH:    make([]*vrHandler, 1), tgtH: make([]*vrHandler, 1), wfFor: vrWorkflowFor(1)}
	var tInc, sInc []*vrHandler
	var lastWM int64
	impl := sm.(*shardManagerImpl)
	alive := func(hs []*vrHandler) string {
		var l []string
		for i, h := range hs {
			select {
			case <-h.done:
			default:
				l = append(l, strconv.Itoa(i))
			}
		}
		return strings.Join(l, ",")
	}
	for _, line := range lines[1:] {
		f := strings.Fields(line)
		if len(f) == 0 {
			continue
		}
		n := 0
		if len(f) > 1 {
			n, _ = strconv.Atoi(f[1])
		}
		switch f[0] {
		case "OT":
			sc.openTarget(0)
			tInc = append(tInc, sc.tgtH[0])
			continue
		case "OS":
			sc.openSource(0)
			sInc = append(sInc, sc.srcH[0])
			continue
		case "FT", "FS":
			key := history.ClusterShardID{ClusterID: vrTgtCluster, ShardID: 1}
			if f[0] == "FS" {
				key = history.ClusterShardID{ClusterID: vrSrcCluster, ShardID: 1}
			}
			sc.reverse.mu.Lock()
			if sc.reverse.fail == nil {
				sc.reverse.fail = map[history.ClusterShardID]int{}
			}
			sc.reverse.fail[key]++
			sc.reverse.mu.Unlock()
			continue
		case "BT":
			if n < len(tInc) {
				tInc[n].stream.cancel()
			}
			continue
		case "BS":
			if n < len(sInc) {
				sInc[n].stream.cancel()
			}
			continue
		case "Y":
			// a very short overlap
			runtime.Gosched()
			continue
		case "Z":
			// long enough for a freshly opened incarnation to register while its predecessor is still up
			time.Sleep(30 * time.Millisecond)
			continue
		case "W":
			vgSettle()
			sc.report(func(string) {})
			impl.mutex.RLock()
			local := len(impl.localShards)
			impl.mutex.RUnlock()
			impl.remoteSendChannelsMu.RLock()
			send := len(impl.remoteSendChannels)
			impl.remoteSendChannelsMu.RUnlock()
			impl.localAckChannelsMu.RLock()
			ack := len(impl.localAckChannels)
			impl.localAckChannelsMu.RUnlock()
			impl.localReceiverCancelFuncsMu.RLock()
			can := len(impl.localReceiverCancelFuncs)
			impl.localReceiverCancelFuncsMu.RUnlock()
			impl.activeReceiversMu.RLock()
			act := len(impl.activeReceivers)
			impl.activeReceiversMu.RUnlock()
			ci := sm.GetChannelInfo()
			out(fmt.Sprintf("REG local=%d send=%d ack=%d cancel=%d active=%d view=%d/%d/%d aliveT=%s aliveS=%s", local, send, ack, can, act,
				len(sm.GetLocalShards()), ci.TotalSendChannels, ci.TotalAckChannels, alive(tInc), alive(sInc)))
		case "P":
			// what the newest target incarnation has received so far without the source sending anything new: the pending
			// watermark has to be replayed to it
			vgSettle()
			out("P")
			sc.report(out)
		case "M":
			cs := sc.reverse.current(history.ClusterShardID{ClusterID: vrSrcCluster, ShardID: 1})
			if cs != nil {
				cs.recv <- vfItem[vfResp]{val: &vfResp{Attributes: &adminservice.StreamWorkflowReplicationMessagesResponse_Messages{
					Messages: &replicationv1.WorkflowReplicationMessages{ExclusiveHighWatermark: int64(n)}}}}
			}
			vgSettle()
			out("M " + f[1])
			sc.report(func(l string) {
				if g := strings.Fields(l); len(g) >= 3 && g[0] == "T" {
					lastWM, _ = strconv.ParseInt(g[2], 10, 64)
				}
				out(l)
			})
		case "A":
			if h := sc.tgtH[0]; h != nil {
				select {
				case h.stream.recv <- vfItem[vfReq]{val: &vfReq{Attributes: &adminservice.StreamWorkflowReplicationMessagesRequest_SyncReplicationState{
					SyncReplicationState: &replicationv1.SyncReplicationState{InclusiveLowWatermark: lastWM}}}}:
				default:
				}
			}
			vgSettle()
			out("A " + f[1])
			sc.report(out)
		}
	}
	cancel()
	for _, h := range append(append([]*vrHandler{}, tInc...), sInc...) {
		h.stream.cancel()
	}
	vgSettle()
	vgSettle()
	out(fmt.Sprintf("FINAL aliveT=%s aliveS=%s", alive(tInc), alive(sInc)))
	for _, h := range append(append([]*vrHandler{}, tInc...), sInc...) {
		<-h.done
	}
	sm.Stop()
}

func TestVerifRegistryStreams(t *testing.T) {
	scn, w, done := verifIO(t)
	defer done()
	var scenarios [][]string
	for scn.Scan() {
		line := strings.TrimSpace(scn.Text())
		if line == "" {
			continue
		}
		if strings.HasPrefix(line, "RS ") {
			scenarios = append(scenarios, nil)
		}
		if len(scenarios) > 0 {
			scenarios[len(scenarios)-1] = append(scenarios[len(scenarios)-1], line)
		}
	}
	for _, lines := range scenarios {
		var buf []string
		func() {
			defer func() {
				if r := recover(); r != nil {
					buf = append(buf, fmt.Sprintf("PANIC %v", r))
				}
			}()
			// real time: registration stamps are time.Now() values, which do not advance inside a synctest bubble
			vgRunStreams(t, lines, func(s string) { buf = append(buf, s) })
		}()
		fmt.Fprintf(w, "# scenario %s\n", strings.Fields(lines[0])[1])
		for _, l := range buf {
			fmt.Fprintln(w, l)
		}
		fmt.Fprintln(w, "#end")
	}
}
