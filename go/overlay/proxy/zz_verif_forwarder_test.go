//go:build verif

package proxy

import (
	"context"
	"fmt"
	"io"
	"strconv"
	"strings"
	"testing"
	"testing/synctest"
	"time"

	"go.temporal.io/server/api/adminservice/v1"
	replicationv1 "go.temporal.io/server/api/replication/v1"
	"go.temporal.io/server/client/history"
	"go.temporal.io/server/common/log"
	"google.golang.org/grpc/codes"
	"google.golang.org/grpc/metadata"
	"google.golang.org/grpc/status"

	"github.com/temporalio/s2s-proxy/config"
)

// C06 harness: the real StreamForwarder (default mode) / handleStream's LCM branch between an in-memory initiator stream
// and an in-memory source stream, inside a synctest bubble.
//
//	N default|lcm ignoreclose=0|1 [openblock=1|closewedge=1|twin=1]    new scenario (openblock: opening the source stream blocks; closewedge: CloseSend on it never returns by itself)
//	s <id> | su | se | sx             the source sends a message / an unknown kind / EOF / an error
//	i <id> | iu | ie | ix | ic        the initiator sends a sync state / unknown kind / EOF / error / cancels its context
//	fi | fs                           from now on Send to the initiator / to the source fails
//	P                                 proxy shutdown: the connection to the source dies
//	E                                 end of scenario
//
// after every event: ">i id" / ">s id" for what was relayed, then "= up|down returned=.. cancelled=.. closesend=.."
func vfwScenario(t *testing.T, lines []string, out func(string)) {
	f0 := strings.Fields(lines[0])
	mode := f0[1]
	client := &vfAdminClient{ignoreCloseSend: len(f0) > 2 && f0[2] == "ignoreclose=1"}
	for _, opt := range f0[2:] {
		if opt == "closewedge=1" {
			// the source transport is wedged: CloseSend does not return until the stream's context ends
			client.closeSendWedge = true
		}
	}
	if len(f0) > 3 && f0[3] == "openblock=1" {
		// the source connection is still being established: opening the source stream blocks
		client.openBlock = make(chan struct{})
	}
	md := metadata.MD{}
	md.Set(history.MetadataKeyClientClusterID, "1")
	md.Set(history.MetadataKeyClientShardID, "2")
	md.Set(history.MetadataKeyServerClusterID, "2")
	md.Set(history.MetadataKeyServerShardID, "3")
	ss := newVfServerStream(md)
	returned := make(chan struct{})
	go func() {
		defer close(returned)
		defer ss.cancel()
		scc := config.ShardCountConfig{}
		if mode == "lcm" {
			scc.Mode = config.ShardCountLCM
		}
		_ = handleStream(ss, md.Copy(), history.ClusterShardID{ClusterID: 2, ShardID: 3}, history.ClusterShardID{ClusterID: 1, ShardID: 2},
			log.NewNoopLogger(), scc, LCMParameters{LCM: 12, TargetShardCount: 4}, RoutingParameters{}, client, client, nil, []string{"inbound"}, context.Background())
	}()
	synctest.Wait()
	for _, opt := range f0[2:] {
		if opt == "twin=1" {
			// a second pass-through stream for the same pair of shards is up at the same time (the initiator reconnected, or two
			// initiator shards map to one source shard) and ends first: its end must not disturb this one
			client2 := &vfAdminClient{}
			ss2 := newVfServerStream(md)
			ret2 := make(chan struct{})
			go func() {
				defer close(ret2)
				defer ss2.cancel()
				scc := config.ShardCountConfig{}
				if mode == "lcm" {
					scc.Mode = config.ShardCountLCM
				}
				_ = handleStream(ss2, md.Copy(), history.ClusterShardID{ClusterID: 2, ShardID: 3}, history.ClusterShardID{ClusterID: 1, ShardID: 2},
					log.NewNoopLogger(), scc, LCMParameters{LCM: 12, TargetShardCount: 4}, RoutingParameters{}, client2, client2, nil, []string{"inbound"}, context.Background())
			}()
			synctest.Wait()
			if cs2 := client2.lastStream(); cs2 != nil {
				cs2.recv <- vfItem[vfResp]{val: &vfResp{Attributes: &adminservice.StreamWorkflowReplicationMessagesResponse_Messages{
					Messages: &replicationv1.WorkflowReplicationMessages{ExclusiveHighWatermark: 1}}}}
				synctest.Wait()
				cs2.recv <- vfItem[vfResp]{err: io.EOF}
			}
			synctest.Wait()
			select {
			case <-ret2:
			case <-time.After(10 * time.Second):
				out("TWIN stuck")
			}
		}
	}
	cs := client.lastStream()
	status1 := func() string {
		ret, canc, closed := false, false, false
		select {
		case <-returned:
			ret = true
		default:
		}
		if cs != nil {
			canc = cs.ctx.Err() != nil
			closed = cs.isCloseSent()
		}
		st := "up"
		if ret {
			st = "down"
		}
		return fmt.Sprintf("= %s returned=%v cancelled=%v closesend=%v", st, ret, canc, closed)
	}
	report := func() {
		for _, m := range ss.takeSent() {
			out(fmt.Sprintf(">i %d", m.GetMessages().GetExclusiveHighWatermark()))
		}
		if cs != nil {
			for _, r := range cs.takeSent() {
				out(fmt.Sprintf(">s %d", r.GetSyncReplicationState().GetInclusiveLowWatermark()))
			}
		}
		out(status1())
	}
	out("N")
	report()
	for _, line := range lines[1:] {
		f := strings.Fields(line)
		if len(f) == 0 {
			continue
		}
		num := func() int64 { n, _ := strconv.ParseInt(f[1], 10, 64); return n }
		switch f[0] {
		case "s":
			if cs == nil {
				break
			}
			cs.recv <- vfItem[vfResp]{val: &vfResp{Attributes: &adminservice.StreamWorkflowReplicationMessagesResponse_Messages{
				Messages: &replicationv1.WorkflowReplicationMessages{ExclusiveHighWatermark: num()}}}}
		case "su":
			cs.recv <- vfItem[vfResp]{val: &vfResp{}}
		case "se":
			cs.recv <- vfItem[vfResp]{err: io.EOF}
		case "sx", "P":
			cs.recv <- vfItem[vfResp]{err: status.Error(codes.Unavailable, "verif: source failed")}
		case "i":
			ss.recv <- vfItem[vfReq]{val: &vfReq{Attributes: &adminservice.StreamWorkflowReplicationMessagesRequest_SyncReplicationState{
				SyncReplicationState: &replicationv1.SyncReplicationState{InclusiveLowWatermark: num()}}}}
		case "iu":
			ss.recv <- vfItem[vfReq]{val: &vfReq{}}
		case "ie":
			ss.recv <- vfItem[vfReq]{err: io.EOF}
		case "ix":
			ss.recv <- vfItem[vfReq]{err: status.Error(codes.Unavailable, "verif: initiator failed")}
		case "ic":
			ss.cancel()
		case "fi":
			ss.mu.Lock()
			ss.sendErr = io.EOF
			ss.mu.Unlock()
		case "fs":
			cs.mu.Lock()
			cs.sendErr = io.EOF
			cs.mu.Unlock()
		case "E":
		}
		time.Sleep(2 * time.Second)
		synctest.Wait()
		out(f[0])
		report()
	}
	// let the bubble finish: whatever is still running must end when the initiator goes away
	ss.cancel()
	time.Sleep(3 * time.Second)
	synctest.Wait()
	select {
	case <-returned:
		out("FINAL returned")
	default:
		out("FINAL STUCK")
		// free the stuck goroutines so that the bubble can end: kill the source side too
		if cs != nil {
			close(cs.recv)
		}
		if client.openBlock != nil {
			close(client.openBlock)
		}
		time.Sleep(time.Second)
		synctest.Wait()
	}
}

func TestVerifForwarder(t *testing.T) {
	scn, w, done := verifIO(t)
	defer done()
	var scenarios [][]string
	for scn.Scan() {
		line := strings.TrimSpace(scn.Text())
		if line == "" {
			continue
		}
		if strings.HasPrefix(line, "N ") {
			scenarios = append(scenarios, nil)
		}
		if len(scenarios) > 0 {
			scenarios[len(scenarios)-1] = append(scenarios[len(scenarios)-1], line)
		}
	}
	for i, lines := range scenarios {
		var buf []string
		func() {
			defer func() {
				if r := recover(); r != nil {
					buf = append(buf, fmt.Sprintf("PANIC %v", r))
				}
			}()
			synctest.Test(t, func(t *testing.T) { vfwScenario(t, lines, func(s string) { buf = append(buf, s) }) })
		}()
		fmt.Fprintf(w, "# scenario %d\n", i)
		for _, l := range buf {
			fmt.Fprintln(w, l)
		}
		fmt.Fprintln(w, "#end")
	}
}
