//go:build verif

package proxy

import (
	"context"
	"fmt"
	"google.golang.org/grpc/codes"
	"google.golang.org/grpc/status"
	"strconv"
	"testing"

	"go.temporal.io/server/api/adminservice/v1"
	"go.temporal.io/server/client/history"
	servercommon "go.temporal.io/server/common"
	"go.temporal.io/server/common/log"
	"google.golang.org/grpc/metadata"

	"github.com/temporalio/s2s-proxy/common"
	"github.com/temporalio/s2s-proxy/config"
	"github.com/temporalio/s2s-proxy/logging"
)

// TestVerifLcm: G a b | M L c s | S local remote inbound s ci | D local remote inbound real | W ns wf L c
func TestVerifLcm(t *testing.T) {
	sc, w, done := verifIO(t)
	defer done()
	i32 := func(s string) int32 { v, _ := strconv.ParseInt(s, 10, 64); return int32(v) }
	loggers := logging.NewLoggerProvider(log.NewNoopLogger(), config.NewMockConfigProvider(config.S2SProxyConfig{}))
	lcmParams := func(local, remote int32, inbound bool) LCMParameters {
		// same expressions as NewClusterConnection.getLCMParameters (the end-to-end wiring check in the
		// C15 harness reads the assembled servers; this keeps the high-volume sweep cheap)
		p := LCMParameters{LCM: common.LCM(local, remote), TargetShardCount: remote}
		if inbound {
			p.TargetShardCount = local
		}
		return p
	}
	for sc.Scan() {
		f := verifFields(sc.Text())
		if len(f) == 0 {
			continue
		}
		func() {
			defer func() {
				if r := recover(); r != nil {
					fmt.Fprintf(w, "%s panic\n", f[0])
				}
			}()
			switch f[0] {
			case "G":
				fmt.Fprintf(w, "G %d %d\n", common.GCD(i32(f[1]), i32(f[2])), common.LCM(i32(f[1]), i32(f[2])))
			case "M":
				fmt.Fprintf(w, "M %d\n", mapShardIDUnique(i32(f[1]), i32(f[2]), i32(f[3])))
			case "S":
				p := lcmParams(i32(f[1]), i32(f[2]), f[3] == "1")
				md := metadata.MD{}
				md.Set(history.MetadataKeyClientClusterID, "1")
				md.Set(history.MetadataKeyClientShardID, f[5])
				md.Set(history.MetadataKeyServerClusterID, "2")
				md.Set(history.MetadataKeyServerShardID, f[4])
				md.Set("x-verif-extra", "kept")
				ss := newVfServerStream(md)
				client := &vfAdminClient{autoClose: true}
				tgt := history.ClusterShardID{ClusterID: 1, ShardID: i32(f[5])}
				src := history.ClusterShardID{ClusterID: 2, ShardID: i32(f[4])}
				err := handleStream(ss, md.Copy(), src, tgt, log.NewNoopLogger(), config.ShardCountConfig{Mode: config.ShardCountLCM},
					p, RoutingParameters{}, client, client, nil, []string{"inbound"}, context.Background())
				ss.cancel()
				cs := client.lastStream()
				if err != nil || cs == nil {
					fmt.Fprintf(w, "S error %v\n", err)
					return
				}
				get := func(k string) string {
					v := cs.md.Get(k)
					if len(v) != 1 {
						return fmt.Sprintf("?%d", len(v))
					}
					return v[0]
				}
				extra := ""
				if get("x-verif-extra") != "kept" {
					extra = " extra-metadata-lost"
				}
				fmt.Fprintf(w, "S %s %s %s %s%s\n", get(history.MetadataKeyClientClusterID), get(history.MetadataKeyClientShardID),
					get(history.MetadataKeyServerClusterID), get(history.MetadataKeyServerShardID), extra)
			case "D":
				p := lcmParams(i32(f[1]), i32(f[2]), f[3] == "1")
				client := &vfAdminClient{describe: &adminservice.DescribeClusterResponse{HistoryShardCount: i32(f[4]), ClusterName: "c"}}
				if len(f) > 5 {
					// the first upstream calls fail: U unavailable, I internal, D deadline exceeded, A aborted, R resource exhausted
					for _, ch := range f[5] {
						code := map[rune]codes.Code{'U': codes.Unavailable, 'I': codes.Internal, 'D': codes.DeadlineExceeded, 'A': codes.Aborted, 'R': codes.ResourceExhausted}[ch]
						client.describeErrs = append(client.describeErrs, status.Error(code, "verif: upstream fault"))
					}
				}
				srv := NewAdminServiceProxyServer("verif", client, client, AdminServiceOverrides{}, []string{"inbound"}, func(int32, int32) {},
					config.ShardCountConfig{Mode: config.ShardCountLCM}, p, RoutingParameters{}, loggers, nil, context.Background())
				resp, err := srv.DescribeCluster(context.Background(), &adminservice.DescribeClusterRequest{})
				if err != nil {
					fmt.Fprintf(w, "D error\n")
					return
				}
				fmt.Fprintf(w, "D %d\n", resp.HistoryShardCount)
			case "W":
				l, c := i32(f[3]), i32(f[4])
				fmt.Fprintf(w, "W %d %d\n", servercommon.WorkflowIDToHistoryShard(f[1], f[2], l), servercommon.WorkflowIDToHistoryShard(f[1], f[2], c))
			}
		}()
	}
}
