//go:build verif

package proxy

import (
	"fmt"
	"sort"
	"strconv"
	"strings"
	"testing"

	"go.temporal.io/server/client/history"
)

// TestVerifRing replays operation histories on the real proxyIDRingBuffer and prints the
// projected observables (aggregation result, count, start id, size, ordered entries).
func TestVerifRing(t *testing.T) {
	sc, w, done := verifIO(t)
	defer done()
	var b *proxyIDRingBuffer
	dead := false
	snapshot := func() string {
		parts := []string{"S"}
		if b.size == 0 {
			parts = append(parts, "-")
		} else {
			parts = append(parts, strconv.FormatInt(b.startProxyID, 10))
		}
		parts = append(parts, strconv.Itoa(b.size))
		for i := 0; i < b.size; i++ {
			e := b.entries[(b.head+i)%len(b.entries)]
			parts = append(parts, fmt.Sprintf("%d:%d:%d", e.sourceShard.ClusterID, e.sourceShard.ShardID, e.sourceTask))
		}
		return strings.Join(parts, " ")
	}
	i64 := func(s string) int64 { v, _ := strconv.ParseInt(s, 10, 64); return v }
	for sc.Scan() {
		f := verifFields(sc.Text())
		if len(f) == 0 {
			continue
		}
		func() {
			defer func() {
				if r := recover(); r != nil {
					dead = true
					fmt.Fprintf(w, "%s PANIC %v\n", f[0], r)
				}
			}()
			if f[0] == "N" {
				dead = false
				b = newProxyIDRingBuffer(int(i64(f[1])))
				fmt.Fprintf(w, "N %s\n", snapshot())
				return
			}
			if dead {
				fmt.Fprintf(w, "%s DEAD\n", f[0])
				return
			}
			switch f[0] {
			case "A":
				b.Append(i64(f[1]), history.ClusterShardID{ClusterID: int32(i64(f[2])), ShardID: int32(i64(f[3]))}, i64(f[4]))
				fmt.Fprintf(w, "A %s\n", snapshot())
			case "G":
				m, c := b.AggregateUpTo(i64(f[1]))
				type kv struct{ c, s, v int64 }
				var items []kv
				for k, v := range m {
					items = append(items, kv{int64(k.ClusterID), int64(k.ShardID), v})
				}
				sort.Slice(items, func(i, j int) bool {
					if items[i].c != items[j].c {
						return items[i].c < items[j].c
					}
					if items[i].s != items[j].s {
						return items[i].s < items[j].s
					}
					return items[i].v < items[j].v
				})
				parts := []string{"G", strconv.Itoa(c)}
				for _, it := range items {
					parts = append(parts, fmt.Sprintf("%d:%d:%d", it.c, it.s, it.v))
				}
				fmt.Fprintln(w, strings.Join(parts, " "))
			case "D":
				b.Discard(int(i64(f[1])))
				fmt.Fprintf(w, "D %s\n", snapshot())
			default:
				fmt.Fprintf(w, "? %s\n", strings.Join(f, " "))
			}
		}()
	}
}
