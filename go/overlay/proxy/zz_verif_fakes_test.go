//go:build verif

package proxy

import (
	"context"
	"io"
	"sync"
	"time"

	"go.temporal.io/server/api/adminservice/v1"
	replicationv1 "go.temporal.io/server/api/replication/v1"
	"google.golang.org/grpc"
	"google.golang.org/grpc/codes"
	"google.golang.org/grpc/metadata"
	"google.golang.org/grpc/status"
)

// ---- in-memory gRPC stream fakes shared by the /verif harnesses (C01-C04, C06, C07, C20) ----

type vfReq = adminservice.StreamWorkflowReplicationMessagesRequest
type vfResp = adminservice.StreamWorkflowReplicationMessagesResponse

type vfItem[T any] struct {
	val *T
	err error
}

// vfServerStream is the stream the proxy's handler is given (the stream initiator's side).
type vfServerStream struct {
	grpc.ServerStream
	ctx     context.Context
	cancel  context.CancelFunc
	recv    chan vfItem[vfReq]
	mu      sync.Mutex
	sent    []*vfResp
	sendErr error
	onSend  func(*vfResp)
	block   chan struct{} // when non-nil Send blocks until it is closed
	delay   time.Duration // a slow reader: every Send takes this long
	autoAck bool          // a Temporal-like receiver: acknowledges the watermark of everything it is sent
	maxHigh int64         // greatest exclusive high watermark this stream has been sent
}

func newVfServerStream(md metadata.MD) *vfServerStream {
	ctx, cancel := context.WithCancel(context.Background())
	if md != nil {
		ctx = metadata.NewIncomingContext(ctx, md)
	}
	return &vfServerStream{ctx: ctx, cancel: cancel, recv: make(chan vfItem[vfReq], 4096)}
}
func (s *vfServerStream) Context() context.Context { return s.ctx }
func (s *vfServerStream) Recv() (*vfReq, error) {
	select {
	case it := <-s.recv:
		return it.val, it.err
	case <-s.ctx.Done():
		return nil, status.Error(codes.Canceled, "context canceled")
	}
}
func (s *vfServerStream) Send(m *vfResp) error {
	s.mu.Lock()
	err, blk := s.sendErr, s.block
	s.mu.Unlock()
	if blk != nil {
		select {
		case <-blk:
		case <-s.ctx.Done():
			return status.Error(codes.Canceled, "context canceled")
		}
	}
	if err != nil {
		return err
	}
	s.mu.Lock()
	d, aa := s.delay, s.autoAck
	s.mu.Unlock()
	if d > 0 {
		select {
		case <-time.After(d):
		case <-s.ctx.Done():
			return status.Error(codes.Canceled, "context canceled")
		}
	}
	if aa && m.GetMessages() != nil {
		select {
		case s.recv <- vfItem[vfReq]{val: &vfReq{Attributes: &adminservice.StreamWorkflowReplicationMessagesRequest_SyncReplicationState{
			SyncReplicationState: &replicationv1.SyncReplicationState{InclusiveLowWatermark: m.GetMessages().ExclusiveHighWatermark}}}}:
		default:
		}
	}
	s.mu.Lock()
	s.sent = append(s.sent, m)
	if hw := m.GetMessages().GetExclusiveHighWatermark(); hw > s.maxHigh {
		s.maxHigh = hw
	}
	cb := s.onSend
	s.mu.Unlock()
	if cb != nil {
		cb(m)
	}
	return nil
}
func (s *vfServerStream) SetHeader(metadata.MD) error  { return nil }
func (s *vfServerStream) SendHeader(metadata.MD) error { return nil }
func (s *vfServerStream) SetTrailer(metadata.MD)       {}
func (s *vfServerStream) takeSent() []*vfResp {
	s.mu.Lock()
	defer s.mu.Unlock()
	r := s.sent
	s.sent = nil
	return r
}

// vfClientStream is the stream the proxy opens towards the serving cluster.
type vfClientStream struct {
	grpc.ClientStream
	ctx       context.Context
	md        metadata.MD
	recv      chan vfItem[vfResp]
	mu        sync.Mutex
	sent      []*vfReq
	sendErr   error
	closeSent bool
	closed    chan struct{}
	onSend    func(*vfReq)
	// when set, the serving side does not end its stream in response to CloseSend (an idle / stalled peer)
	ignoreCloseSend bool
	closeSendWedge  bool
}

func newVfClientStream(ctx context.Context) *vfClientStream {
	md, _ := metadata.FromOutgoingContext(ctx)
	return &vfClientStream{ctx: ctx, md: md, recv: make(chan vfItem[vfResp], 4096), closed: make(chan struct{})}
}
func (c *vfClientStream) Context() context.Context { return c.ctx }
func (c *vfClientStream) Recv() (*vfResp, error) {
	select {
	case it := <-c.recv:
		return it.val, it.err
	case <-c.ctx.Done():
		return nil, status.Error(codes.Canceled, "context canceled")
	case <-c.closed:
		// the serving side answers CloseSend by ending the stream
		return nil, io.EOF
	}
}
func (c *vfClientStream) Send(m *vfReq) error {
	c.mu.Lock()
	err := c.sendErr
	if err == nil {
		c.sent = append(c.sent, m)
	}
	cb := c.onSend
	c.mu.Unlock()
	if err == nil && cb != nil {
		cb(m)
	}
	return err
}
func (c *vfClientStream) CloseSend() error {
	c.mu.Lock()
	wedge := c.closeSendWedge
	c.mu.Unlock()
	if wedge {
		c.mu.Lock()
		c.closeSent = true
		c.mu.Unlock()
		<-c.ctx.Done()
		return status.Error(codes.Canceled, "context canceled")
	}
	c.mu.Lock()
	defer c.mu.Unlock()
	if !c.closeSent {
		c.closeSent = true
		if !c.ignoreCloseSend {
			close(c.closed)
		}
	}
	return nil
}
func (c *vfClientStream) Header() (metadata.MD, error) { return nil, nil }
func (c *vfClientStream) Trailer() metadata.MD         { return nil }
func (c *vfClientStream) takeSent() []*vfReq {
	c.mu.Lock()
	defer c.mu.Unlock()
	r := c.sent
	c.sent = nil
	return r
}
func (c *vfClientStream) isCloseSent() bool {
	c.mu.Lock()
	defer c.mu.Unlock()
	return c.closeSent
}

// vfAdminClient is the AdminServiceClient the proxy forwards to.
type vfAdminClient struct {
	adminservice.AdminServiceClient
	mu              sync.Mutex
	streams         []*vfClientStream
	openErr         error
	describe        *adminservice.DescribeClusterResponse
	describeErrs    []error // the next DescribeCluster calls fail with these, in order
	onOpen          func(*vfClientStream)
	autoClose       bool    // every new stream immediately ends with EOF
	preload         *vfResp // sent on every new stream before anything else
	ignoreCloseSend bool
	closeSendWedge  bool          // CloseSend does not return until the stream's context ends (wedged transport)
	openBlock       chan struct{} // non-nil: opening a stream blocks (connection still being established) until the context ends or this is closed
}

func (a *vfAdminClient) StreamWorkflowReplicationMessages(ctx context.Context, opts ...grpc.CallOption) (adminservice.AdminService_StreamWorkflowReplicationMessagesClient, error) {
	a.mu.Lock()
	err := a.openErr
	blk := a.openBlock
	a.mu.Unlock()
	if err != nil {
		return nil, err
	}
	if blk != nil {
		select {
		case <-ctx.Done():
			return nil, status.FromContextError(ctx.Err()).Err()
		case <-blk:
			return nil, status.Error(codes.Unavailable, "verif: connection attempt abandoned")
		}
	}
	cs := newVfClientStream(ctx)
	cs.ignoreCloseSend = a.ignoreCloseSend
	cs.closeSendWedge = a.closeSendWedge
	a.mu.Lock()
	a.streams = append(a.streams, cs)
	cb, ac, pre := a.onOpen, a.autoClose, a.preload
	a.mu.Unlock()
	if pre != nil {
		cs.recv <- vfItem[vfResp]{val: pre}
	}
	if ac {
		cs.recv <- vfItem[vfResp]{err: io.EOF}
	}
	if cb != nil {
		cb(cs)
	}
	return cs, nil
}
func (a *vfAdminClient) DescribeCluster(ctx context.Context, in *adminservice.DescribeClusterRequest, opts ...grpc.CallOption) (*adminservice.DescribeClusterResponse, error) {
	a.mu.Lock()
	if len(a.describeErrs) > 0 {
		err := a.describeErrs[0]
		a.describeErrs = a.describeErrs[1:]
		a.mu.Unlock()
		return nil, err
	}
	a.mu.Unlock()
	if a.describe == nil {
		return nil, status.Error(codes.Unavailable, "no describe")
	}
	return a.describe, nil
}
func (a *vfAdminClient) numStreams() int {
	a.mu.Lock()
	defer a.mu.Unlock()
	return len(a.streams)
}
func (a *vfAdminClient) lastStream() *vfClientStream {
	a.mu.Lock()
	defer a.mu.Unlock()
	if len(a.streams) == 0 {
		return nil
	}
	return a.streams[len(a.streams)-1]
}
