//go:build verif

package proxy

// Cooperative scheduler for the lock-boundary schedule explorer (C08).  The instrumented copies of the anchor files call
// verifMu instead of the mutex methods and verifYield in front of channel selects.  For goroutines the explorer does not
// control both are pass-through.  A controlled goroutine parks before every lock acquisition (and at explicit yields);
// exactly one controlled goroutine runs at a time, and the explorer decides which one continues, enumerating every
// choice.  The scheduler tracks which controlled goroutine holds which lock, so it never resumes one that would block.

import (
	"bytes"
	"fmt"
	"runtime"
	"strconv"
	"sync"
	"sync/atomic"
	"time"
)

type vsReq struct {
	kind string // start | acquire | yield | wait | done
	mu   any
	read bool
	cond func() bool
	tag  string
}

type vsThread struct {
	id     int
	resume chan struct{}
	req    vsReq
	panic  any
}

type vsLock struct {
	writer  int // thread id + 1, 0 = none
	readers map[int]int
}

type vsStep struct {
	enabled int
	chosen  int
	thread  int
	tag     string
}

type vsSched struct {
	mu      sync.Mutex
	byGoid  map[int64]*vsThread
	threads []*vsThread
	events  chan *vsThread
	locks   map[any]*vsLock
}

var verifSched atomic.Pointer[vsSched]

func vsGoid() int64 {
	var buf [64]byte
	n := runtime.Stack(buf[:], false)
	// "goroutine 123 ["
	f := bytes.Fields(buf[:n])
	id, _ := strconv.ParseInt(string(f[1]), 10, 64)
	return id
}

func (s *vsSched) me() *vsThread {
	g := vsGoid()
	s.mu.Lock()
	defer s.mu.Unlock()
	return s.byGoid[g]
}

func vsPlain(mu any, op string) {
	switch m := mu.(type) {
	case *sync.RWMutex:
		switch op {
		case "Lock":
			m.Lock()
		case "RLock":
			m.RLock()
		case "Unlock":
			m.Unlock()
		case "RUnlock":
			m.RUnlock()
		}
	case *sync.Mutex:
		switch op {
		case "Lock":
			m.Lock()
		case "Unlock":
			m.Unlock()
		}
	default:
		panic(fmt.Sprintf("verifMu: unsupported mutex type %T", mu))
	}
}

func (t *vsThread) park(s *vsSched, r vsReq) {
	t.req = r
	s.events <- t
	<-t.resume
}

// verifMu replaces X.Lock() etc. in the instrumented files.
func verifMu(mu any, op string) {
	s := verifSched.Load()
	if s == nil {
		vsPlain(mu, op)
		return
	}
	t := s.me()
	if t == nil {
		vsPlain(mu, op)
		return
	}
	switch op {
	case "Lock", "RLock":
		t.park(s, vsReq{kind: "acquire", mu: mu, read: op == "RLock", tag: op})
		vsPlain(mu, op)
	default:
		vsPlain(mu, op)
		s.mu.Lock()
		l := s.locks[mu]
		if l != nil {
			if op == "Unlock" {
				l.writer = 0
			} else if l.readers[t.id] > 0 {
				l.readers[t.id]--
				if l.readers[t.id] == 0 {
					delete(l.readers, t.id)
				}
			}
		}
		s.mu.Unlock()
	}
}

// verifYield is an explicit scheduling point (in front of channel operations).
func verifYield(tag string) {
	s := verifSched.Load()
	if s == nil {
		return
	}
	if t := s.me(); t != nil {
		t.park(s, vsReq{kind: "yield", tag: tag})
	}
}

// verifWait parks the calling controlled goroutine until cond holds (evaluated by the scheduler between steps).
func verifWait(tag string, cond func() bool) {
	s := verifSched.Load()
	if s == nil {
		return
	}
	if t := s.me(); t != nil {
		t.park(s, vsReq{kind: "wait", cond: cond, tag: tag})
	}
}

func (s *vsSched) enabled(t *vsThread) bool {
	switch t.req.kind {
	case "done":
		return false
	case "acquire":
		l := s.locks[t.req.mu]
		if l == nil {
			return true
		}
		if l.writer != 0 {
			return false
		}
		if t.req.read {
			return true
		}
		for id, n := range l.readers {
			if n > 0 && id != t.id {
				return false
			}
		}
		return len(l.readers) == 0
	case "wait":
		return t.req.cond()
	}
	return true
}

type vsResult struct {
	steps    []vsStep
	deadlock bool
	hang     bool
	panics   map[int]string
}

// vsRun executes the thread bodies under the schedule given by `choices` (index among the enabled threads at each step;
// beyond the prefix the first enabled thread runs).
func vsRun(bodies []func(), choices []int) vsResult {
	s := &vsSched{byGoid: map[int64]*vsThread{}, events: make(chan *vsThread), locks: map[any]*vsLock{}}
	res := vsResult{panics: map[int]string{}}
	for i := range bodies {
		s.threads = append(s.threads, &vsThread{id: i, resume: make(chan struct{})})
	}
	verifSched.Store(s)
	defer verifSched.Store(nil)
	for i, b := range bodies {
		t, body := s.threads[i], b
		go func() {
			g := vsGoid()
			s.mu.Lock()
			s.byGoid[g] = t
			s.mu.Unlock()
			defer func() {
				if p := recover(); p != nil {
					t.panic = p
				}
				s.mu.Lock()
				delete(s.byGoid, g)
				s.mu.Unlock()
				t.req = vsReq{kind: "done"}
				s.events <- t
			}()
			t.park(s, vsReq{kind: "start"})
			body()
		}()
	}
	for range bodies {
		<-s.events
	}
	// run every thread up to its first real scheduling point (nothing shared happens before it)
	for _, t := range s.threads {
		t.resume <- struct{}{}
		<-s.events
	}
	for step := 0; ; step++ {
		var en []*vsThread
		alive := 0
		s.mu.Lock()
		for _, t := range s.threads {
			if t.req.kind != "done" {
				alive++
				if s.enabled(t) {
					en = append(en, t)
				}
			}
		}
		s.mu.Unlock()
		if alive == 0 {
			break
		}
		if len(en) == 0 {
			res.deadlock = true
			break
		}
		c := 0
		if step < len(choices) {
			c = choices[step]
		}
		if c >= len(en) {
			c = len(en) - 1
		}
		t := en[c]
		res.steps = append(res.steps, vsStep{enabled: len(en), chosen: c, thread: t.id, tag: t.req.kind + ":" + t.req.tag})
		if t.req.kind == "acquire" {
			s.mu.Lock()
			l := s.locks[t.req.mu]
			if l == nil {
				l = &vsLock{readers: map[int]int{}}
				s.locks[t.req.mu] = l
			}
			if t.req.read {
				l.readers[t.id]++
			} else {
				l.writer = t.id + 1
			}
			s.mu.Unlock()
		}
		t.resume <- struct{}{}
		select {
		case <-s.events:
		case <-time.After(10 * time.Second):
			res.hang = true
			return res
		}
	}
	for _, t := range s.threads {
		if t.panic != nil {
			res.panics[t.id] = fmt.Sprint(t.panic)
		}
	}
	return res
}

// vsNext returns the next schedule prefix in depth-first order, or nil when the enumeration is complete.
func vsNext(steps []vsStep) []int {
	for i := len(steps) - 1; i >= 0; i-- {
		if steps[i].chosen+1 < steps[i].enabled {
			next := make([]int, i+1)
			for k := 0; k < i; k++ {
				next[k] = steps[k].chosen
			}
			next[i] = steps[i].chosen + 1
			return next
		}
	}
	return nil
}
