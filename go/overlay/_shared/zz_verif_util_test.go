//go:build verif

package PKG

import (
	"bufio"
	"fmt"
	"os"
	"strings"
	"testing"
)

// verifIO opens the input/output files named by VERIF_IN / VERIF_OUT.
func verifIO(t *testing.T) (*bufio.Scanner, *bufio.Writer, func()) {
	t.Helper()
	inPath, outPath := os.Getenv("VERIF_IN"), os.Getenv("VERIF_OUT")
	if outPath == "" {
		t.Skip("VERIF_OUT not set")
	}
	var sc *bufio.Scanner
	var in *os.File
	if inPath != "" {
		var err error
		in, err = os.Open(inPath)
		if err != nil {
			t.Fatal(err)
		}
		sc = bufio.NewScanner(in)
		sc.Buffer(make([]byte, 1<<20), 1<<26)
	}
	out, err := os.Create(outPath)
	if err != nil {
		t.Fatal(err)
	}
	// effectively unbuffered: what a scenario has written survives a crash of the process, so the scenario that was running
	// when it died can be told from the output
	w := bufio.NewWriterSize(out, 1)
	return sc, w, func() {
		w.Flush()
		out.Close()
		if in != nil {
			in.Close()
		}
	}
}

func verifFields(line string) []string { return strings.Fields(line) }

func verifSprintf(format string, a ...any) string { return fmt.Sprintf(format, a...) }
