//go:build verif

package interceptor

// C15 / C16, allow-lists of every size: for the admin-method allow-list and the namespace allow-list, lists of 0..N entries
// (N = number of admin methods / 24 namespaces), two different selections per size; every admin method (unary through
// Intercept, streaming through StreamIntercept) and every namespace must be let through exactly when the list is empty
// (unrestricted) or contains it.
//
// output: one line per disagreement  "ACLSIZE kind=<admin|namespace> size=<n> name=<x> reached=<bool> want=<bool>", then STATS

import (
	"context"
	"fmt"
	"testing"

	"go.temporal.io/api/workflowservice/v1"
	"go.temporal.io/server/api/adminservice/v1"
	"go.temporal.io/server/common/log"
	"google.golang.org/grpc"
	"google.golang.org/grpc/metadata"
)

type vaStream struct {
	grpc.ServerStream
	ctx context.Context
}

func (s *vaStream) Context() context.Context { return s.ctx }

func TestVerifAclSizes(t *testing.T) {
	_, w, done := verifIO(t)
	defer done()
	logger := log.NewNoopLogger()
	var unary, streaming []string
	for _, m := range adminservice.AdminService_ServiceDesc.Methods {
		unary = append(unary, m.MethodName)
	}
	for _, s := range adminservice.AdminService_ServiceDesc.Streams {
		streaming = append(streaming, s.StreamName)
	}
	all := append(append([]string{}, unary...), streaming...)
	prefix := "/" + adminservice.AdminService_ServiceDesc.ServiceName + "/"
	cases, bad := 0, 0
	for size := 0; size <= len(all); size++ {
		for variant := 0; variant < 2; variant++ {
			list := make([]string, 0, size)
			for k := 0; k < size; k++ {
				list = append(list, all[(k*(1+variant)+variant*7)%len(all)])
			}
			// (a selection may repeat a name: the list then has fewer distinct entries than its length, which is fine)
			inList := map[string]bool{}
			for _, n := range list {
				inList[n] = true
			}
			ic := NewAccessControlInterceptor(logger, list, nil)
			for _, name := range all {
				want := len(list) == 0 || inList[name]
				reached := false
				isStream := false
				for _, s := range streaming {
					if s == name {
						isStream = true
					}
				}
				if isStream {
					_ = ic.StreamIntercept(nil, &vaStream{ctx: metadata.NewIncomingContext(context.Background(), metadata.MD{})}, &grpc.StreamServerInfo{FullMethod: prefix + name},
						func(srv any, stream grpc.ServerStream) error { reached = true; return nil })
				} else {
					_, _ = ic.Intercept(context.Background(), &adminservice.DescribeClusterRequest{}, &grpc.UnaryServerInfo{FullMethod: prefix + name},
						func(ctx context.Context, req any) (any, error) { reached = true; return nil, nil })
				}
				cases++
				if reached != want {
					bad++
					fmt.Fprintf(w, "ACLSIZE kind=admin size=%d variant=%d name=%s reached=%v want=%v\n", size, variant, name, reached, want)
				}
			}
		}
	}
	var namespaces []string
	for k := 0; k < 24; k++ {
		namespaces = append(namespaces, fmt.Sprintf("ns-%02d", k))
	}
	for size := 0; size <= len(namespaces); size++ {
		for variant := 0; variant < 2; variant++ {
			list := make([]string, 0, size)
			for k := 0; k < size; k++ {
				list = append(list, namespaces[(k+variant*5)%len(namespaces)])
			}
			inList := map[string]bool{}
			for _, n := range list {
				inList[n] = true
			}
			ic := NewAccessControlInterceptor(logger, nil, list)
			for _, ns := range namespaces {
				want := len(list) == 0 || inList[ns]
				reached := false
				_, _ = ic.Intercept(context.Background(), &workflowservice.DescribeNamespaceRequest{Namespace: ns},
					&grpc.UnaryServerInfo{FullMethod: "/temporal.api.workflowservice.v1.WorkflowService/DescribeNamespace"},
					func(ctx context.Context, req any) (any, error) { reached = true; return nil, nil })
				cases++
				if reached != want {
					bad++
					fmt.Fprintf(w, "ACLSIZE kind=namespace size=%d variant=%d name=%s reached=%v want=%v\n", size, variant, ns, reached, want)
				}
			}
		}
	}
	fmt.Fprintf(w, "STATS cases=%d bad=%d\n", cases, bad)
}
