//go:build verif

package interceptor

import (
	"context"
	"fmt"
	"os"
	"reflect"
	"sort"
	"strconv"
	"strings"
	"testing"

	commonpb "go.temporal.io/api/common/v1"
	enumspb "go.temporal.io/api/enums/v1"
	historypb "go.temporal.io/api/history/v1"
	"go.temporal.io/server/common/codec"
	"go.temporal.io/server/common/log"
	"go.temporal.io/server/common/persistence/serialization"
	"google.golang.org/grpc"
	"google.golang.org/grpc/codes"
	"google.golang.org/grpc/status"
	"google.golang.org/protobuf/proto"
	"google.golang.org/protobuf/reflect/protoreflect"
	"google.golang.org/protobuf/reflect/protoregistry"
	"google.golang.org/protobuf/types/known/anypb"

	"github.com/temporalio/s2s-proxy/auth"
)

// ---------------------------------------------------------------------------------------------
// Differential harness for the reflective walkers (C12, C13, C14, C16): the REAL visitNamespace /
// visitSearchAttributes / isNamespaceAccessAllowed / AccessControlInterceptor are run on randomly
// populated messages of every request/response type of both services, and compared with a reference
// translation that is driven by the protobuf DESCRIPTORS only (never by the Go tables).
// ---------------------------------------------------------------------------------------------

type vwRng struct{ s uint64 }

func (r *vwRng) next() uint64 {
	r.s += 0x9E3779B97F4A7C15
	z := r.s
	z = (z ^ (z >> 30)) * 0xBF58476D1CE4E5B9
	z = (z ^ (z >> 27)) * 0x94D049BB133111EB
	return z ^ (z >> 31)
}
func (r *vwRng) below(n int) int          { return int(r.next() % uint64(n)) }
func (r *vwRng) chance(num, den int) bool { return r.below(den) < num }
func (r *vwRng) pick(xs []string) string  { return xs[r.below(len(xs))] }

// name pools: mapped names, targets of mappings, unmapped names, prefixes / substrings of mapped names, empty
var (
	vwNsPool     = []string{"orig", "orig", "orig2", "orig.cloud", "other-ns", "orig-x", "ori", "", "chain-a", "chain-b", "chain-c"}
	vwOtherPool  = []string{"orig", "x", "wf-1", "orig.cloud", "", "some value", "chain-a"}
	vwKeyPool    = []string{"CustomA", "CustomB", "Other", "CustomA2", "Custom", "KeyX", "KeyY", "KeyZ"}
	vwSerializer = serialization.NewSerializer()
)

const vwBlobDataBlob = "temporal.api.common.v1.DataBlob"

// ground truth from descriptors
func vwIsNamespaceField(fd protoreflect.FieldDescriptor) bool {
	if fd.Kind() != protoreflect.StringKind || fd.IsList() || fd.IsMap() {
		return false
	}
	n := string(fd.Name())
	if n == "namespace" || strings.HasSuffix(n, "_namespace") {
		return true
	}
	return fd.ContainingMessage().FullName() == "temporal.api.namespace.v1.NamespaceInfo" && n == "name"
}

var vwEventBlobFields = map[string]bool{}

func vwLoadOracle() {
	// the classification of DataBlob fields lives in /verif/lib/oracle_blobs.json; passed in via env as a list
	for _, k := range strings.Split(os.Getenv("VERIF_EVENT_BLOBS"), ",") {
		if k != "" {
			vwEventBlobFields[k] = true
		}
	}
}

func vwIsEventBlobField(fd protoreflect.FieldDescriptor) bool {
	if fd.Message() == nil || fd.Message().FullName() != vwBlobDataBlob {
		return false
	}
	return vwEventBlobFields[string(fd.ContainingMessage().FullName())+"."+string(fd.Name())]
}

func vwIsSAContainer(fd protoreflect.FieldDescriptor) bool {
	if fd.Message() != nil && !fd.IsMap() && !fd.IsList() && fd.Message().FullName() == "temporal.api.common.v1.SearchAttributes" {
		return true
	}
	if fd.IsMap() && fd.Name() == "search_attributes" && fd.MapKey().Kind() == protoreflect.StringKind &&
		fd.MapValue().Message() != nil && fd.MapValue().Message().FullName() == "temporal.api.common.v1.Payload" {
		return true
	}
	return false
}

func vwJSONEncode(m proto.Message) ([]byte, error) { return codec.NewJSONPBEncoder().Encode(m) }

// ---------------- population ----------------
type vwGen struct {
	rng       *vwRng
	budget    int
	jsonEnc   bool   // allow JSON-encoded event blobs
	nsFixed   string // when set, every namespace field gets this name
	jsonOften bool
}

func (g *vwGen) scalar(fd protoreflect.FieldDescriptor) protoreflect.Value {
	switch fd.Kind() {
	case protoreflect.BoolKind:
		return protoreflect.ValueOfBool(g.rng.chance(1, 2))
	case protoreflect.EnumKind:
		vals := fd.Enum().Values()
		return protoreflect.ValueOfEnum(vals.Get(g.rng.below(vals.Len())).Number())
	case protoreflect.Int32Kind, protoreflect.Sint32Kind, protoreflect.Sfixed32Kind:
		return protoreflect.ValueOfInt32(int32(g.rng.below(100)))
	case protoreflect.Uint32Kind, protoreflect.Fixed32Kind:
		return protoreflect.ValueOfUint32(uint32(g.rng.below(100)))
	case protoreflect.Int64Kind, protoreflect.Sint64Kind, protoreflect.Sfixed64Kind:
		return protoreflect.ValueOfInt64(int64(g.rng.below(1000)))
	case protoreflect.Uint64Kind, protoreflect.Fixed64Kind:
		return protoreflect.ValueOfUint64(uint64(g.rng.below(1000)))
	case protoreflect.FloatKind:
		return protoreflect.ValueOfFloat32(float32(g.rng.below(100)))
	case protoreflect.DoubleKind:
		return protoreflect.ValueOfFloat64(float64(g.rng.below(100)))
	case protoreflect.StringKind:
		if vwIsNamespaceField(fd) {
			if g.nsFixed != "" {
				return protoreflect.ValueOfString(g.nsFixed)
			}
			return protoreflect.ValueOfString(g.rng.pick(vwNsPool))
		}
		return protoreflect.ValueOfString(g.rng.pick(vwOtherPool))
	case protoreflect.BytesKind:
		return protoreflect.ValueOfBytes([]byte(g.rng.pick(vwOtherPool)))
	}
	return protoreflect.Value{}
}

func (g *vwGen) events() []*historypb.HistoryEvent {
	n := 1 + g.rng.below(3)
	allSkippable := g.rng.chance(1, 3)
	var evs []*historypb.HistoryEvent
	for i := 0; i < n; i++ {
		evs = append(evs, g.event(allSkippable))
	}
	if allSkippable && g.rng.chance(1, 2) {
		// a batch that needs no namespace translation can still carry search-attribute keys
		fields := map[string]*commonpb.Payload{}
		for k := 0; k < 1+g.rng.below(2); k++ {
			fields[g.rng.pick(vwKeyPool)] = &commonpb.Payload{Data: []byte(g.rng.pick(vwOtherPool))}
		}
		evs = append(evs, &historypb.HistoryEvent{EventId: int64(g.rng.below(1000)), EventType: enumspb.EVENT_TYPE_UPSERT_WORKFLOW_SEARCH_ATTRIBUTES,
			Attributes: &historypb.HistoryEvent_UpsertWorkflowSearchAttributesEventAttributes{UpsertWorkflowSearchAttributesEventAttributes: &historypb.UpsertWorkflowSearchAttributesEventAttributes{
				SearchAttributes: &commonpb.SearchAttributes{IndexedFields: fields}}}})
		if g.rng.chance(1, 2) {
			// ... next to a second container of the same batch whose keys have no mapping at all, before or after it
			other := &historypb.HistoryEvent{EventId: int64(g.rng.below(1000)), EventType: enumspb.EVENT_TYPE_UPSERT_WORKFLOW_SEARCH_ATTRIBUTES,
				Attributes: &historypb.HistoryEvent_UpsertWorkflowSearchAttributesEventAttributes{UpsertWorkflowSearchAttributesEventAttributes: &historypb.UpsertWorkflowSearchAttributesEventAttributes{
					SearchAttributes: &commonpb.SearchAttributes{IndexedFields: map[string]*commonpb.Payload{"UnmappedOnlyA": {Data: []byte("x")}, "UnmappedOnlyB": {Data: []byte("y")}}}}}}
			if g.rng.chance(1, 2) {
				evs = append(evs, other)
			} else {
				evs = append([]*historypb.HistoryEvent{other}, evs...)
			}
		}
	}
	return evs
}

// an event whose event_type is consistent with the populated attributes alternative
func (g *vwGen) event(preferSkippable bool) *historypb.HistoryEvent {
	ev := &historypb.HistoryEvent{}
	m := ev.ProtoReflect()
	od := m.Descriptor().Oneofs().ByName("attributes")
	var fd protoreflect.FieldDescriptor
	for tries := 0; tries < 30; tries++ {
		fd = od.Fields().Get(g.rng.below(od.Fields().Len()))
		et, ok := vwEventTypeOf(fd)
		if !ok {
			continue
		}
		_, skippable := namespaceTranslationSkippableHistoryEvents[et]
		if preferSkippable == skippable || tries > 20 {
			ev.EventType = et
			break
		}
	}
	ev.EventId = int64(g.rng.below(1000))
	sub := m.NewField(fd).Message()
	g.fill(sub, 2)
	m.Set(fd, protoreflect.ValueOfMessage(sub))
	// links: sometimes several, the first without a namespace
	nl := 0
	if g.rng.chance(1, 2) {
		nl = 1 + g.rng.below(3)
	}
	for i := 0; i < nl; i++ {
		ns := g.rng.pick(vwNsPool)
		if g.nsFixed != "" {
			ns = g.nsFixed
		}
		if i == 0 && nl > 1 && g.rng.chance(2, 3) {
			ns = "" // the first link names no namespace, a later one does
		}
		if g.rng.chance(1, 6) {
			ev.Links = append(ev.Links, &commonpb.Link{Variant: &commonpb.Link_BatchJob_{BatchJob: &commonpb.Link_BatchJob{JobId: "job"}}})
			continue
		}
		ev.Links = append(ev.Links, &commonpb.Link{Variant: &commonpb.Link_WorkflowEvent_{WorkflowEvent: &commonpb.Link_WorkflowEvent{Namespace: ns, WorkflowId: "wf"}}})
	}
	return ev
}

func vwEventTypeOf(fd protoreflect.FieldDescriptor) (enumspb.EventType, bool) {
	// workflow_execution_started_event_attributes -> EVENT_TYPE_WORKFLOW_EXECUTION_STARTED
	n := strings.TrimSuffix(string(fd.Name()), "_event_attributes")
	v, ok := enumspb.EventType_value["EVENT_TYPE_"+strings.ToUpper(n)]
	return enumspb.EventType(v), ok
}

func (g *vwGen) eventBlob() *commonpb.DataBlob {
	evs := g.events()
	if g.jsonEnc && (g.rng.chance(1, 4) || (g.jsonOften && g.rng.chance(1, 2))) {
		data, err := vwJSONEncode(&historypb.History{Events: evs})
		if err == nil {
			return &commonpb.DataBlob{EncodingType: enumspb.ENCODING_TYPE_JSON, Data: data}
		}
	}
	b, err := vwSerializer.SerializeEvents(evs)
	if err != nil {
		panic(err)
	}
	return b
}

func (g *vwGen) fill(m protoreflect.Message, depth int) {
	md := m.Descriptor()
	if md.FullName() == "google.protobuf.Any" {
		return
	}
	if md.FullName() == "temporal.api.history.v1.HistoryEvent" {
		proto.Merge(m.Interface(), g.event(g.rng.chance(1, 2)))
		return
	}
	fields := md.Fields()
	chosen := map[string]int{} // oneof name -> chosen field index
	for i := 0; i < fields.Len(); i++ {
		fd := fields.Get(i)
		if od := fd.ContainingOneof(); od != nil && !od.IsSynthetic() {
			if _, ok := chosen[string(od.Name())]; !ok {
				chosen[string(od.Name())] = od.Fields().Get(g.rng.below(od.Fields().Len())).Index()
			}
			if chosen[string(od.Name())] != fd.Index() {
				continue
			}
		}
		g.budget--
		if g.budget < 0 && !vwIsNamespaceField(fd) {
			continue
		}
		switch {
		case vwIsEventBlobField(fd):
			if fd.IsList() {
				l := m.Mutable(fd).List()
				for k := 0; k < 1+g.rng.below(2); k++ {
					l.Append(protoreflect.ValueOfMessage(g.eventBlob().ProtoReflect()))
				}
			} else {
				m.Set(fd, protoreflect.ValueOfMessage(g.eventBlob().ProtoReflect()))
			}
		case vwIsSAContainer(fd):
			if fd.IsMap() {
				mp := m.Mutable(fd).Map()
				g.fillSAMap(mp, fd.MapValue())
			} else if depth > 0 {
				sa := &commonpb.SearchAttributes{IndexedFields: map[string]*commonpb.Payload{}}
				g.fillSAMap(sa.ProtoReflect().Mutable(sa.ProtoReflect().Descriptor().Fields().ByName("indexed_fields")).Map(), nil)
				m.Set(fd, protoreflect.ValueOfMessage(sa.ProtoReflect()))
			}
		case fd.IsMap():
			if depth <= 0 && fd.MapValue().Message() != nil {
				continue
			}
			mp := m.Mutable(fd).Map()
			for k := 0; k < 1+g.rng.below(2); k++ {
				key := g.scalar(fd.MapKey()).MapKey()
				if fd.MapKey().Kind() == protoreflect.StringKind {
					key = protoreflect.ValueOfString(g.rng.pick(vwKeyPool)).MapKey()
				}
				if fd.MapValue().Message() != nil {
					sub := mp.NewValue().Message()
					g.fill(sub, depth-1)
					mp.Set(key, protoreflect.ValueOfMessage(sub))
				} else {
					mp.Set(key, g.scalar(fd.MapValue()))
				}
			}
		case fd.IsList():
			if fd.Message() != nil && depth <= 0 {
				continue
			}
			l := m.Mutable(fd).List()
			for k := 0; k < 1+g.rng.below(2); k++ {
				if fd.Message() != nil {
					sub := l.NewElement().Message()
					g.fill(sub, depth-1)
					l.Append(protoreflect.ValueOfMessage(sub))
				} else {
					l.Append(g.scalar(fd))
				}
			}
		case fd.Message() != nil:
			if depth <= 0 {
				continue
			}
			sub := m.NewField(fd).Message()
			g.fill(sub, depth-1)
			m.Set(fd, protoreflect.ValueOfMessage(sub))
		default:
			m.Set(fd, g.scalar(fd))
		}
	}
}

func (g *vwGen) fillSAMap(mp protoreflect.Map, _ protoreflect.FieldDescriptor) {
	n := 1 + g.rng.below(4)
	for k := 0; k < n; k++ {
		key := g.rng.pick(vwKeyPool)
		p := &commonpb.Payload{Data: []byte("v-" + key + strconv.Itoa(g.rng.below(100)))}
		mp.Set(protoreflect.ValueOfString(key).MapKey(), protoreflect.ValueOfMessage(p.ProtoReflect()))
	}
}

// ---------------- reference translation (descriptor driven) ----------------
type vwRef struct {
	ns        map[string]string // namespace mapping (nil = none)
	sa        map[string]string // search attribute key mapping (nil = none)
	matched   bool
	names     []string // every namespace name encountered, including empty (unset) ones of present messages
	collision bool     // a search-attribute container whose renamed keys collide (outside the property's domain)
	// poisoning (C16: a forbidden name at exactly one path): overwrite the poisonAt-th namespace position
	poison       bool
	poisonAt     int
	counter      int
	poisonName   string
	keepEncoding bool
	sawBlob      bool
}

func (r *vwRef) walk(m protoreflect.Message) {
	// proto3 strings have no presence: an unset namespace field of a present message is the empty name
	fds := m.Descriptor().Fields()
	for i := 0; i < fds.Len(); i++ {
		fd := fds.Get(i)
		if vwIsNamespaceField(fd) && !m.Has(fd) && (fd.ContainingOneof() == nil || fd.ContainingOneof().IsSynthetic()) {
			r.names = append(r.names, "")
		}
	}
	m.Range(func(fd protoreflect.FieldDescriptor, v protoreflect.Value) bool {
		switch {
		case vwIsNamespaceField(fd):
			if r.poison {
				if r.counter == r.poisonAt {
					m.Set(fd, protoreflect.ValueOfString(r.poisonName))
				}
				r.counter++
				return true
			}
			r.names = append(r.names, v.String())
			if r.ns != nil {
				if nv, ok := r.ns[v.String()]; ok {
					r.matched = true
					m.Set(fd, protoreflect.ValueOfString(nv))
				}
			}
		case vwIsEventBlobField(fd):
			if fd.IsList() {
				l := v.List()
				for i := 0; i < l.Len(); i++ {
					l.Set(i, protoreflect.ValueOfMessage(r.blob(l.Get(i).Message().Interface().(*commonpb.DataBlob)).ProtoReflect()))
				}
			} else {
				m.Set(fd, protoreflect.ValueOfMessage(r.blob(v.Message().Interface().(*commonpb.DataBlob)).ProtoReflect()))
			}
		case r.sa != nil && vwIsSAContainer(fd):
			if fd.IsMap() {
				r.renameKeys(v.Map())
			} else {
				sa := v.Message()
				r.renameKeys(sa.Mutable(sa.Descriptor().Fields().ByName("indexed_fields")).Map())
			}
		case fd.IsMap():
			if fd.MapValue().Message() != nil {
				v.Map().Range(func(_ protoreflect.MapKey, mv protoreflect.Value) bool { r.walk(mv.Message()); return true })
			}
		case fd.IsList():
			if fd.Message() != nil {
				for i := 0; i < v.List().Len(); i++ {
					r.walk(v.List().Get(i).Message())
				}
			}
		case fd.Message() != nil:
			r.walk(v.Message())
		}
		return true
	})
}

func (r *vwRef) renameKeys(mp protoreflect.Map) {
	type kv struct {
		k string
		v protoreflect.Value
	}
	var all []kv
	mp.Range(func(k protoreflect.MapKey, v protoreflect.Value) bool {
		all = append(all, kv{k.String(), v})
		return true
	})
	for _, e := range all {
		mp.Clear(protoreflect.ValueOfString(e.k).MapKey())
	}
	for _, e := range all {
		nk := e.k
		if t, ok := r.sa[e.k]; ok {
			nk = t
			r.matched = true
		}
		if mp.Has(protoreflect.ValueOfString(nk).MapKey()) {
			r.collision = true
		}
		mp.Set(protoreflect.ValueOfString(nk).MapKey(), e.v)
	}
}

func (r *vwRef) blob(b *commonpb.DataBlob) *commonpb.DataBlob {
	if b == nil || len(b.Data) == 0 {
		return b
	}
	r.sawBlob = true
	evs, err := vwSerializer.DeserializeEvents(b)
	if err != nil {
		return b
	}
	for _, e := range evs {
		r.walk(e.ProtoReflect())
	}
	if r.keepEncoding && b.EncodingType == enumspb.ENCODING_TYPE_JSON {
		data, err := vwJSONEncode(&historypb.History{Events: evs})
		if err != nil {
			panic(err)
		}
		return &commonpb.DataBlob{EncodingType: enumspb.ENCODING_TYPE_JSON, Data: data}
	}
	nb, err := vwSerializer.SerializeEvents(evs)
	if err != nil {
		panic(err)
	}
	return nb
}

// canonical form for comparison: every event blob re-encoded deterministically as proto3
func vwCanon(m proto.Message) proto.Message {
	c := proto.Clone(m)
	r := &vwRef{}
	r.walk(c.ProtoReflect())
	return c
}

func vwDiff(a, b proto.Message) string {
	if proto.Equal(vwCanon(a), vwCanon(b)) {
		return ""
	}
	return vwFirstDiff(vwCanon(a).ProtoReflect(), vwCanon(b).ProtoReflect(), "")
}

func vwFirstDiff(a, b protoreflect.Message, path string) string {
	res := ""
	fields := a.Descriptor().Fields()
	for i := 0; i < fields.Len() && res == ""; i++ {
		fd := fields.Get(i)
		p := path + "." + string(fd.Name())
		va, vb := a.Get(fd), b.Get(fd)
		if a.Has(fd) != b.Has(fd) {
			return p + ": presence differs"
		}
		if !a.Has(fd) {
			continue
		}
		switch {
		case vwIsEventBlobField(fd):
			var la, lb []*commonpb.DataBlob
			if fd.IsList() {
				for k := 0; k < va.List().Len(); k++ {
					la = append(la, va.List().Get(k).Message().Interface().(*commonpb.DataBlob))
				}
				for k := 0; k < vb.List().Len(); k++ {
					lb = append(lb, vb.List().Get(k).Message().Interface().(*commonpb.DataBlob))
				}
			} else {
				la, lb = []*commonpb.DataBlob{va.Message().Interface().(*commonpb.DataBlob)}, []*commonpb.DataBlob{vb.Message().Interface().(*commonpb.DataBlob)}
			}
			if len(la) != len(lb) {
				return p + ": blob count differs"
			}
			for k := range la {
				ea, _ := vwSerializer.DeserializeEvents(la[k])
				eb, _ := vwSerializer.DeserializeEvents(lb[k])
				if len(ea) != len(eb) {
					return fmt.Sprintf("%s[%d]: event count differs", p, k)
				}
				for j := range ea {
					if !proto.Equal(ea[j], eb[j]) {
						return fmt.Sprintf("%s[%d].event[%d:%s]%s", p, k, j, ea[j].EventType, vwFirstDiff(ea[j].ProtoReflect(), eb[j].ProtoReflect(), ""))
					}
				}
			}
		case fd.IsMap():
			if fd.MapValue().Message() != nil {
				va.Map().Range(func(k protoreflect.MapKey, mv protoreflect.Value) bool {
					if !vb.Map().Has(k) {
						res = fmt.Sprintf("%s[%s]: key missing on one side", p, k.String())
						return false
					}
					if d := vwFirstDiff(mv.Message(), vb.Map().Get(k).Message(), fmt.Sprintf("%s[%s]", p, k.String())); d != "" {
						res = d
						return false
					}
					return true
				})
				if res == "" && va.Map().Len() != vb.Map().Len() {
					res = p + ": map size differs"
				}
			} else if !va.Equal(vb) {
				res = p + ": map differs"
			}
		case fd.IsList():
			if va.List().Len() != vb.List().Len() {
				return p + ": list length differs"
			}
			for k := 0; k < va.List().Len() && res == ""; k++ {
				if fd.Message() != nil {
					res = vwFirstDiff(va.List().Get(k).Message(), vb.List().Get(k).Message(), fmt.Sprintf("%s[%d]", p, k))
				} else if !va.List().Get(k).Equal(vb.List().Get(k)) {
					res = fmt.Sprintf("%s[%d]: %v vs %v", p, k, va.List().Get(k), vb.List().Get(k))
				}
			}
		case fd.Message() != nil:
			res = vwFirstDiff(va.Message(), vb.Message(), p)
		default:
			if !va.Equal(vb) {
				res = fmt.Sprintf("%s: %q vs %q", p, va.String(), vb.String())
			}
		}
	}
	return res
}

// ---------------- the test ----------------
type vwRoot struct {
	full   string
	method string // full gRPC method
	isReq  bool
	desc   protoreflect.MessageDescriptor
}

func vwRoots() []vwRoot {
	var res []vwRoot
	for _, svc := range []string{"temporal.server.api.adminservice.v1.AdminService", "temporal.api.workflowservice.v1.WorkflowService"} {
		d, err := protoregistry.GlobalFiles.FindDescriptorByName(protoreflect.FullName(svc))
		if err != nil {
			panic(err)
		}
		ms := d.(protoreflect.ServiceDescriptor).Methods()
		for i := 0; i < ms.Len(); i++ {
			full := "/" + svc + "/" + string(ms.Get(i).Name())
			res = append(res, vwRoot{string(ms.Get(i).Input().FullName()), full, true, ms.Get(i).Input()},
				vwRoot{string(ms.Get(i).Output().FullName()), full, false, ms.Get(i).Output()})
		}
	}
	sort.Slice(res, func(i, j int) bool { return res[i].full < res[j].full })
	return res
}

func vwNew(full string) proto.Message {
	mt, err := protoregistry.GlobalTypes.FindMessageByName(protoreflect.FullName(full))
	if err != nil {
		panic(err)
	}
	return mt.New().Interface()
}

var vwMappings = []struct {
	name string
	ns   map[string]string
	sa   map[string]string
}{
	{"simple", map[string]string{"orig": "orig.cloud", "orig2": "renamed2"}, map[string]string{"CustomA": "CustomA_remote", "KeyX": "KeyX_r"}},
	{"chain", map[string]string{"chain-a": "chain-b", "chain-b": "chain-c", "orig": "orig.cloud"}, map[string]string{"KeyX": "KeyY", "KeyY": "KeyZ"}},
	{"swap", map[string]string{"chain-a": "chain-b", "chain-b": "chain-a"}, map[string]string{"CustomA": "CustomB", "CustomB": "CustomA"}},
	{"none-matching", map[string]string{"absent": "absent2"}, map[string]string{"Absent": "Absent2"}},
	// an entry that keeps its name next to entries that rename (both are legal in a one-to-one mapping)
	{"identity", map[string]string{"other-ns": "other-ns", "orig": "orig.cloud", "orig-x": "orig-x", "ori": "ori", "chain-a": "chain-a", "orig2": "renamed2"},
		map[string]string{"Other": "Other", "CustomA": "CustomA_remote", "KeyY": "KeyY", "KeyX": "KeyX_r"}},
}

func vwInverse(m map[string]string) map[string]string {
	r := map[string]string{}
	for k, v := range m {
		r[v] = k
	}
	return r
}

// ---------------- every path to a namespace field, one at a time ----------------
type vwStep struct {
	fd   protoreflect.FieldDescriptor
	blob bool // the field is an event blob: the path continues inside a HistoryEvent of that blob
}

// vwPrependNilBlob replaces the first element of every top-level list-valued blob field by ... nothing decodable: Go protobuf
// lists cannot hold nil messages through reflection, so the typed slice is reached through the generated struct.
func vwPrependNilBlob(m proto.Message, paths [][]vwStep) bool {
	done := false
	rv := reflect.ValueOf(m).Elem()
	for i := 0; i < rv.NumField(); i++ {
		f := rv.Field(i)
		if f.Kind() == reflect.Slice && f.Type().Elem() == reflect.TypeOf((*commonpb.DataBlob)(nil)) && f.Len() > 0 && f.CanSet() {
			f.Index(0).Set(reflect.Zero(f.Type().Elem()))
			done = true
		}
	}
	return done
}

// vwNsPaths enumerates the paths from a message type to every namespace field reachable from it (through singular,
// repeated and map-valued message fields, oneof alternatives and event blobs); a message type occurs at most `limit`
// times on one path (failure cause chains: twice).
func vwNsPaths(md protoreflect.MessageDescriptor, onPath map[protoreflect.FullName]int, depth int, prefix []vwStep, out *[][]vwStep) {
	if depth <= 0 || md.FullName() == "google.protobuf.Any" {
		return
	}
	limit := 1
	if md.FullName() == "temporal.api.failure.v1.Failure" {
		limit = 2
	}
	if onPath[md.FullName()] >= limit {
		return
	}
	onPath[md.FullName()]++
	defer func() { onPath[md.FullName()]-- }()
	fds := md.Fields()
	for i := 0; i < fds.Len(); i++ {
		fd := fds.Get(i)
		here := append(append([]vwStep{}, prefix...), vwStep{fd: fd})
		switch {
		case vwIsNamespaceField(fd):
			*out = append(*out, here)
		case vwIsEventBlobField(fd):
			here[len(here)-1].blob = true
			evd := (&historypb.HistoryEvent{}).ProtoReflect().Descriptor()
			vwNsPaths(evd, onPath, depth-1, here, out)
		case fd.IsMap():
			if fd.MapValue().Message() != nil {
				vwNsPaths(fd.MapValue().Message(), onPath, depth-1, here, out)
			}
		case fd.Message() != nil:
			vwNsPaths(fd.Message(), onPath, depth-1, here, out)
		}
	}
}

// vwBuildPath builds, inside m, the minimal message in which the namespace field at the end of path holds name.
func vwBuildPath(m protoreflect.Message, path []vwStep, name string) {
	st := path[0]
	fd := st.fd
	if len(path) == 1 {
		m.Set(fd, protoreflect.ValueOfString(name))
		return
	}
	if m.Descriptor().FullName() == "temporal.api.history.v1.HistoryEvent" {
		ev := m.Interface().(*historypb.HistoryEvent)
		if et, ok := vwEventTypeOf(fd); ok && fd.ContainingOneof() != nil {
			ev.EventType = et
		} else if ev.EventType == enumspb.EVENT_TYPE_UNSPECIFIED {
			ev.EventType = enumspb.EVENT_TYPE_WORKFLOW_EXECUTION_SIGNALED
		}
		ev.EventId = 7
	}
	if st.blob {
		ev := &historypb.HistoryEvent{}
		vwBuildPath(ev.ProtoReflect(), path[1:], name)
		if ev.EventType == enumspb.EVENT_TYPE_UNSPECIFIED {
			ev.EventType = enumspb.EVENT_TYPE_WORKFLOW_EXECUTION_SIGNALED
		}
		b, err := vwSerializer.SerializeEvents([]*historypb.HistoryEvent{ev})
		if err != nil {
			panic(err)
		}
		if fd.IsList() {
			m.Mutable(fd).List().Append(protoreflect.ValueOfMessage(b.ProtoReflect()))
		} else {
			m.Set(fd, protoreflect.ValueOfMessage(b.ProtoReflect()))
		}
		return
	}
	switch {
	case fd.IsMap():
		mp := m.Mutable(fd).Map()
		sub := mp.NewValue().Message()
		vwBuildPath(sub, path[1:], name)
		var key protoreflect.MapKey
		switch fd.MapKey().Kind() {
		case protoreflect.StringKind:
			key = protoreflect.ValueOfString("k").MapKey()
		case protoreflect.BoolKind:
			key = protoreflect.ValueOfBool(true).MapKey()
		case protoreflect.Int32Kind, protoreflect.Sint32Kind, protoreflect.Sfixed32Kind:
			key = protoreflect.ValueOfInt32(1).MapKey()
		case protoreflect.Uint32Kind, protoreflect.Fixed32Kind:
			key = protoreflect.ValueOfUint32(1).MapKey()
		case protoreflect.Uint64Kind, protoreflect.Fixed64Kind:
			key = protoreflect.ValueOfUint64(1).MapKey()
		default:
			key = protoreflect.ValueOfInt64(1).MapKey()
		}
		mp.Set(key, protoreflect.ValueOfMessage(sub))
	case fd.IsList():
		l := m.Mutable(fd).List()
		if vwLinkFront && fd.Message() != nil && fd.Message().FullName() == "temporal.api.common.v1.Link" {
			// a link of another kind first: the scan for links naming a namespace must not stop at it
			l.Append(protoreflect.ValueOfMessage((&commonpb.Link{Variant: &commonpb.Link_BatchJob_{BatchJob: &commonpb.Link_BatchJob{JobId: "verif-job"}}}).ProtoReflect()))
		}
		sub := l.NewElement().Message()
		vwBuildPath(sub, path[1:], name)
		l.Append(protoreflect.ValueOfMessage(sub))
	default:
		sub := m.Mutable(fd).Message()
		vwBuildPath(sub, path[1:], name)
	}
}

// when set, every list of links built along a path starts with a batch-job link
var vwLinkFront bool

func vwPathString(path []vwStep) string {
	var parts []string
	for _, st := range path {
		n := string(st.fd.Name())
		if st.blob {
			n += "{events}"
		}
		parts = append(parts, n)
	}
	return strings.Join(parts, ".")
}

// TestVerifWalker: VERIF_SEED, VERIF_CASES (per root type), VERIF_MODE = ns | sa | acl | all ; one line per disagreement.
func TestVerifWalker(t *testing.T) {
	_, w, done := verifIO(t)
	defer done()
	vwLoadOracle()
	seed, _ := strconv.ParseUint(os.Getenv("VERIF_SEED"), 10, 64)
	cases, _ := strconv.Atoi(os.Getenv("VERIF_CASES"))
	if cases <= 0 {
		cases = 3
	}
	only := os.Getenv("VERIF_ONLY") // "type#case" replay filter
	mode := os.Getenv("VERIF_MODE")
	logger := log.NewNoopLogger()
	roots := vwRoots()
	stats := map[string]int{}
	if mode == "paths" {
		// every path to a namespace field of every root type, one message per path: the name there must be translated
		// (C12) and, for requests, a forbidden name there must be refused (C16)
		nsMap := map[string]string{"orig": "orig.cloud"}
		for _, root := range roots {
			var paths [][]vwStep
			vwNsPaths(root.desc, map[protoreflect.FullName]int{}, 9, nil, &paths)
			// every path, and - for paths that run through a failure's cause - the same path with the cause chain 40 levels
			// deeper (translation is required at any nesting depth)
			type pathCase struct {
				id   string
				path []vwStep
			}
			var pcases []pathCase
			for pi, p0 := range paths {
				pcases = append(pcases, pathCase{fmt.Sprintf("%s#p%d", root.full, pi), p0})
				for k, st := range p0 {
					if st.fd.FullName() == "temporal.api.failure.v1.Failure.cause" {
						ext := append([]vwStep{}, p0[:k]...)
						for r := 0; r < 40; r++ {
							ext = append(ext, st)
						}
						ext = append(ext, p0[k:]...)
						pcases = append(pcases, pathCase{fmt.Sprintf("%s#p%d+deep", root.full, pi), ext})
						break
					}
				}
			}
			for _, pc0 := range append([]pathCase{}, pcases...) {
				for _, st := range pc0.path {
					if st.fd.IsList() && st.fd.Message() != nil && st.fd.Message().FullName() == "temporal.api.common.v1.Link" {
						pcases = append(pcases, pathCase{pc0.id + "+linkfront", pc0.path})
						break
					}
				}
			}
			for _, pc := range pcases {
				id, path := pc.id, pc.path
				if only != "" && only != id {
					continue
				}
				vwLinkFront = strings.HasSuffix(id, "+linkfront")
				stats["paths"]++
				msg := vwNew(root.full)
				vwBuildPath(msg.ProtoReflect(), path, "orig")
				real, ref := proto.Clone(msg), proto.Clone(msg)
				_, err := visitNamespace(logger, real, createStringMatcher(nsMap))
				r := &vwRef{ns: nsMap}
				r.walk(ref.ProtoReflect())
				if err != nil {
					fmt.Fprintf(w, "PATH %s %s ERROR %v\n", id, vwPathString(path), err)
				} else if !r.matched {
					fmt.Fprintf(w, "PATH %s %s UNREACHED-BY-REFERENCE\n", id, vwPathString(path))
				} else if d := vwDiff(real, ref); d != "" {
					fmt.Fprintf(w, "PATH %s %s DIFF %s\n", id, vwPathString(path), d)
				}
				// the same through the Translator object the interceptor uses (request direction for requests, response
				// direction for responses), the message's own top-level namespace holding a name that has no mapping
				{
					tr := NewNamespaceNameTranslator(logger, nsMap, nsMap)
					m2 := vwNew(root.full)
					vwBuildPath(m2.ProtoReflect(), path, "orig")
					if fd := m2.ProtoReflect().Descriptor().Fields().ByName("namespace"); fd != nil && fd.Kind() == protoreflect.StringKind && !fd.IsList() &&
						!(len(path) == 1 && path[0].fd == fd) {
						m2.ProtoReflect().Set(fd, protoreflect.ValueOfString("unmapped-ns"))
					}
					ref2 := proto.Clone(m2)
					var terr error
					if root.isReq {
						_, terr = tr.TranslateRequest(m2)
					} else {
						_, terr = tr.TranslateResponse(m2)
					}
					r2 := &vwRef{ns: nsMap}
					r2.walk(ref2.ProtoReflect())
					stats["translator_paths"]++
					if terr != nil {
						fmt.Fprintf(w, "PATH %s %s VIA-TRANSLATOR ERROR %v\n", id, vwPathString(path), terr)
					} else if d := vwDiff(m2, ref2); d != "" {
						fmt.Fprintf(w, "PATH %s %s VIA-TRANSLATOR (top-level namespace unmapped) DIFF %s\n", id, vwPathString(path), d)
					}
				}
				if root.isReq {
					bad := vwNew(root.full)
					vwBuildPath(bad.ProtoReflect(), path, "forbidden-ns")
					// every other (unset) namespace position is empty: use a list that also admits the empty name's refusal
					got, aerr := isNamespaceAccessAllowed(logger, bad, auth.NewAccesControl([]string{"orig"}))
					stats["acl_paths"]++
					if aerr == nil && got {
						fmt.Fprintf(w, "PATHACL %s %s forbidden name admitted\n", id, vwPathString(path))
					}
					// the same request through the real interceptor, once as it is and once next to a history blob the proxy
					// cannot decode (in every top-level blob field of the request type): it must not reach the handler
					for _, dmode := range []string{"", "garbage", "empty", "nil"} {
						damage := dmode != ""
						b2 := proto.Clone(bad)
						if damage {
							// the request's own namespace is an allowed one: only the name at the path is forbidden
							if fd := b2.ProtoReflect().Descriptor().Fields().ByName("namespace"); fd != nil && fd.Kind() == protoreflect.StringKind && !fd.IsList() &&
								!(len(path) == 1 && path[0].fd == fd) {
								b2.ProtoReflect().Set(fd, protoreflect.ValueOfString("orig"))
							}
						}
						if damage {
							n := 0
							for _, p2 := range paths {
								if len(p2) > 1 && p2[0].blob && !(p2[0].fd == path[0].fd && !p2[0].fd.IsList()) {
									garbage := &commonpb.DataBlob{EncodingType: enumspb.ENCODING_TYPE_PROTO3, Data: []byte("\xff\xfe\x00 not a history batch")}
									if dmode == "empty" {
										garbage = &commonpb.DataBlob{} // an empty batch: nothing to decode, nothing to check - and nothing to stop at
									}
									if dmode == "nil" && !p2[0].fd.IsList() {
										continue
									}
									fd := p2[0].fd
									if fd.IsList() {
										l := b2.ProtoReflect().Mutable(fd).List()
										if l.Len() == 0 || dmode != "garbage" || string(l.Get(0).Message().Interface().(*commonpb.DataBlob).Data) != string(garbage.Data) {
											// put the damaged batch FIRST: the walk meets it before the forbidden name
											old := make([]protoreflect.Value, l.Len())
											for i := range old {
												old[i] = l.Get(i)
											}
											l.Truncate(0)
											l.Append(protoreflect.ValueOfMessage(garbage.ProtoReflect()))
											for _, v := range old {
												l.Append(v)
											}
											n++
										}
									} else if !b2.ProtoReflect().Has(fd) {
										b2.ProtoReflect().Set(fd, protoreflect.ValueOfMessage(garbage.ProtoReflect()))
										n++
									}
								}
							}
							if n == 0 {
								continue
							}
							stats["acl_paths_damaged_blob"]++
							if dmode == "nil" {
								// a nil entry in front of the list (what a sparse batch list looks like after decoding)
								if msgWithNil := vwPrependNilBlob(b2, paths); !msgWithNil {
									continue
								}
							}
						}
						ic := NewAccessControlInterceptor(logger, nil, []string{"orig"})
						reached := false
						_, ierr := ic.Intercept(context.Background(), b2, &grpc.UnaryServerInfo{FullMethod: root.method},
							func(ctx context.Context, req any) (any, error) { reached = true; return nil, nil })
						// an undecodable blob may be answered with any refusal; an empty or nil batch in front changes nothing: the
						// forbidden name must still be refused
						if reached || ierr == nil {
							fmt.Fprintf(w, "PATHACL %s %s forbidden name reached the handler through the interceptor (blob placed in front of it: %q)\n", id, vwPathString(path), dmode)
						}
					}
				}
			}
		}
	}
	vwLinkFront = false
	pNS, pSA, primed := map[string]Translator{}, map[string]Translator{}, map[string]bool{}
	for ri, root := range roots {
		for c := 0; c < cases; c++ {
			id := fmt.Sprintf("%s#%d", root.full, c)
			if only != "" && only != id {
				continue
			}
			rng := &vwRng{s: seed*1000003 + uint64(ri)*7919 + uint64(c)}
			g := &vwGen{rng: rng, budget: 400, jsonEnc: true}
			msg := vwNew(root.full)
			g.fill(msg.ProtoReflect(), 3+rng.below(2))
			mp := vwMappings[(ri+c)%len(vwMappings)]
			stats["messages"]++
			if mode == "" || mode == "all" || mode == "ns" {
				// ---- namespace translation (C12, C13) ----
				real, ref := proto.Clone(msg), proto.Clone(msg)
				changed, err := visitNamespace(logger, real, createStringMatcher(mp.ns))
				r := &vwRef{ns: mp.ns}
				r.walk(ref.ProtoReflect())
				if err != nil {
					fmt.Fprintf(w, "NS %s %s ERROR %v\n", id, mp.name, err)
				} else if d := vwDiff(real, ref); d != "" {
					fmt.Fprintf(w, "NS %s %s DIFF %s\n", id, mp.name, d)
				} else if changed != r.matched {
					fmt.Fprintf(w, "NS %s %s MATCHED real=%v ref=%v\n", id, mp.name, changed, r.matched)
				}
				if r.matched {
					stats["ns_matched"]++
				}
				// round trip through the inverse mapping (C13): restores the original when no untranslated name collides with a target
				safe := true
				for _, n := range r.names {
					if _, isTarget := vwInverse(mp.ns)[n]; isTarget {
						if _, isSource := mp.ns[n]; !isSource {
							safe = false
						}
					}
				}
				{
					tr := pNS[mp.name]
					if tr == nil {
						tr = NewNamespaceNameTranslator(logger, mp.ns, mp.ns)
						pNS[mp.name] = tr
					}
					via := func(t Translator, m proto.Message) error {
						if root.isReq {
							_, e := t.TranslateRequest(m)
							return e
						}
						_, e := t.TranslateResponse(m)
						return e
					}
					if !primed["ns|"+root.full+"|"+mp.name] {
						primed["ns|"+root.full+"|"+mp.name] = true
						_ = via(tr, vwNew(root.full))
					}
					real2 := proto.Clone(msg)
					if err2 := via(tr, real2); err2 == nil && err == nil {
						stats["ns_sequence"]++
						if d := vwDiff(real2, ref); d != "" {
							fmt.Fprintf(w, "NS %s %s SEQUENCE (long-lived translator, after an empty message of the type) DIFF %s\n", id, mp.name, d)
						}
					}
				}
				if err == nil && safe {
					back := proto.Clone(real)
					if _, err2 := visitNamespace(logger, back, createStringMatcher(vwInverse(mp.ns))); err2 != nil {
						fmt.Fprintf(w, "NSRT %s %s ERROR %v\n", id, mp.name, err2)
					} else if d := vwDiff(back, msg); d != "" {
						fmt.Fprintf(w, "NSRT %s %s DIFF %s\n", id, mp.name, d)
					}
					stats["ns_roundtrip"]++
				}
			}
			if mode == "" || mode == "all" || mode == "sa" {
				// ---- search attribute translation (C14) ----
				real, ref := proto.Clone(msg), proto.Clone(msg)
				_, err := visitSearchAttributes(logger, real, createStringMatcher(mp.sa))
				r := &vwRef{sa: mp.sa}
				r.walk(ref.ProtoReflect())
				if err != nil {
					if !strings.Contains(err.Error(), "unhandled search attribute type") {
						fmt.Fprintf(w, "SA %s %s ERROR %v\n", id, mp.name, err)
					}
				} else if r.collision {
					stats["sa_collision_skipped"]++
				} else if d := vwDiff(real, ref); d != "" {
					fmt.Fprintf(w, "SA %s %s DIFF %s\n", id, mp.name, d)
				}
				if r.matched {
					stats["sa_matched"]++
				}
				// the same through ONE long-lived translator object per mapping (as the proxy uses it), which has already
				// seen a message of this type with nothing to rename: what it did before must not matter
				tr := pSA[mp.name]
				if tr == nil {
					tr = NewSearchAttributeTranslator(logger, map[string]map[string]string{"ns-id": mp.sa}, map[string]map[string]string{"ns-id": mp.sa})
					pSA[mp.name] = tr
				}
				via := func(t Translator, m proto.Message) error {
					if root.isReq {
						_, e := t.TranslateRequest(m)
						return e
					}
					_, e := t.TranslateResponse(m)
					return e
				}
				if !primed["sa|"+root.full+"|"+mp.name] {
					primed["sa|"+root.full+"|"+mp.name] = true
					_ = via(tr, vwNew(root.full))
				}
				real2 := proto.Clone(msg)
				if err2 := via(tr, real2); err2 == nil && err == nil && !r.collision {
					stats["sa_sequence"]++
					if d := vwDiff(real2, ref); d != "" {
						fmt.Fprintf(w, "SA %s %s SEQUENCE (long-lived translator, after an empty message of the type) DIFF %s\n", id, mp.name, d)
					}
				}
			}
			if (mode == "icpt") && root.isReq && !strings.Contains(root.method, "SearchAttributes") {
				// ---- the whole TranslationInterceptor (method filter + both translators, request and response) ----
				var respRoot vwRoot
				for _, r2 := range roots {
					if r2.method == root.method && !r2.isReq {
						respRoot = r2
					}
				}
				resp := vwNew(respRoot.full)
				g2 := &vwGen{rng: rng, budget: 300, jsonEnc: true}
				g2.fill(resp.ProtoReflect(), 3)
				icpt := NewTranslationInterceptor(logger, []Translator{
					NewNamespaceNameTranslator(logger, mp.ns, vwInverse(mp.ns)),
					NewSearchAttributeTranslator(logger, map[string]map[string]string{"ns-id": mp.sa}, map[string]map[string]string{"ns-id": vwInverse(mp.sa)}),
				})
				realReq, realResp := proto.Clone(msg), proto.Clone(resp)
				var seenReq proto.Message
				out, err := icpt.Intercept(context.Background(), realReq, &grpc.UnaryServerInfo{FullMethod: root.method},
					func(ctx context.Context, req any) (any, error) {
						seenReq = proto.Clone(req.(proto.Message))
						return realResp, nil
					})
				isWorkflow := strings.HasPrefix(root.method, "/temporal.api.workflowservice.v1.WorkflowService/")
				refReq, refResp := proto.Clone(msg), proto.Clone(resp)
				rq := &vwRef{ns: mp.ns}
				rs := &vwRef{ns: vwInverse(mp.ns)}
				if !isWorkflow {
					rq.sa, rs.sa = mp.sa, vwInverse(mp.sa)
				}
				rq.walk(refReq.ProtoReflect())
				rs.walk(refResp.ProtoReflect())
				stats["icpt_calls"]++
				if isWorkflow {
					stats["icpt_workflow"]++
				}
				if err != nil || out == nil || seenReq == nil {
					fmt.Fprintf(w, "ICPT %s %s ERROR %v\n", id, mp.name, err)
				} else if !rq.collision && !rs.collision {
					if d := vwDiff(seenReq, refReq); d != "" {
						fmt.Fprintf(w, "ICPT %s %s REQ %s DIFF %s\n", id, mp.name, root.method, d)
					} else if d := vwDiff(out.(proto.Message), refResp); d != "" {
						fmt.Fprintf(w, "ICPT %s %s RESP %s DIFF %s\n", id, mp.name, root.method, d)
					}
				}
			}
			if (mode == "" || mode == "all" || mode == "acl") && root.isReq {
				// ---- namespace access control (C16) ----
				for _, allowedList := range [][]string{{"orig", "other-ns", "chain-a", "chain-b", "chain-c", "orig2", "orig.cloud", "orig-x", "ori"}, {"orig"}, {"orig", "orig2"}, {}} {
					r := &vwRef{}
					r.walk(proto.Clone(msg).ProtoReflect())
					// want: refused iff a non-empty name outside the list occurs. Empty (unset) names are refused by the code
					// wherever it looks at them - stricter than the property - but not inside skipped events: either answer is accepted.
					want, lenient := true, false
					if len(allowedList) > 0 {
						for _, n := range r.names {
							ok := false
							for _, a := range allowedList {
								if a == n {
									ok = true
								}
							}
							if !ok && n != "" {
								want = false
							}
							if !ok && n == "" {
								lenient = true
							}
						}
					}
					got, err := isNamespaceAccessAllowed(logger, proto.Clone(msg), auth.NewAccesControl(allowedList))
					if err != nil {
						fmt.Fprintf(w, "ACL %s allowed=%v ERROR %v\n", id, allowedList, err)
					} else if got != want && !(want && lenient) {
						fmt.Fprintf(w, "ACL %s allowed=%v real=%v ref=%v names=%v\n", id, allowedList, got, want, r.names)
					}
					if want && lenient {
						want = got
					}
					// through the interceptor (unary): handler reached iff allowed (and not a refused method)
					ic := NewAccessControlInterceptor(logger, nil, allowedList)
					// the same interceptor has served an earlier request of this method that named no namespace at all
					_, _ = ic.Intercept(context.Background(), vwNew(root.full), &grpc.UnaryServerInfo{FullMethod: root.method},
						func(ctx context.Context, req any) (any, error) { return nil, nil })
					reached := false
					_, ierr := ic.Intercept(context.Background(), proto.Clone(msg), &grpc.UnaryServerInfo{FullMethod: root.method},
						func(ctx context.Context, req any) (any, error) { reached = true; return nil, nil })
					refused := strings.HasSuffix(root.method, "/RegisterNamespace") || strings.HasSuffix(root.method, "/DeprecateNamespace")
					if reached != (want && !refused) || (!reached && status.Code(ierr) != codes.PermissionDenied) {
						fmt.Fprintf(w, "ACLI %s allowed=%v reached=%v want=%v code=%v\n", id, allowedList, reached, want && !refused, status.Code(ierr))
					}
					if !want {
						stats["acl_denied"]++
					}
					stats["acl_cases"]++
				}
				// a forbidden (or an allowed) name at exactly ONE namespace position, every other position allowed
				for round := 0; round < 6; round++ {
					pg := &vwGen{rng: &vwRng{s: rng.s + 17 + uint64(round)*101}, budget: 400, jsonEnc: true, nsFixed: "orig", jsonOften: round > 0}
					clean := vwNew(root.full)
					pg.fill(clean.ProtoReflect(), 3+rng.below(2))
					cnt := &vwRef{poison: true, poisonAt: -1, keepEncoding: true}
					cnt.walk(clean.ProtoReflect())
					if round > 0 && !cnt.sawBlob {
						break // extra rounds only for request types that carry history blobs
					}
					for k := 0; k < cnt.counter && k < 8; k++ {
						at := k
						if cnt.counter > 8 {
							at = rng.below(cnt.counter)
						}
						for _, name := range []string{"forbidden-ns", "orig"} {
							pm := proto.Clone(clean)
							(&vwRef{poison: true, poisonAt: at, poisonName: name, keepEncoding: true}).walk(pm.ProtoReflect())
							got, err := isNamespaceAccessAllowed(logger, proto.Clone(pm), auth.NewAccesControl([]string{"orig"}))
							want := name == "orig"
							chk := &vwRef{}
							chk.walk(proto.Clone(pm).ProtoReflect())
							lenient := false
							for _, n := range chk.names {
								if n == "" {
									lenient = true
								}
							}
							if err != nil {
								fmt.Fprintf(w, "ACL %s poison@%d=%s ERROR %v\n", id, at, name, err)
							} else if got != want && !(want && lenient) {
								fmt.Fprintf(w, "ACL %s poison@%d/%d=%s round=%d real=%v ref=%v\n", id, at, cnt.counter, name, round, got, want)
							}
							stats["acl_single_position_cases"]++
							if !want {
								stats["acl_denied"]++
							}
						}
					}
				}
			}
		}
	}
	keys := make([]string, 0, len(stats))
	for k := range stats {
		keys = append(keys, k)
	}
	sort.Strings(keys)
	parts := []string{"STATS", fmt.Sprintf("roots=%d", len(roots))}
	for _, k := range keys {
		parts = append(parts, fmt.Sprintf("%s=%d", k, stats[k]))
	}
	fmt.Fprintln(w, strings.Join(parts, " "))
	_ = anypb.Any{}
}
