//go:build verif

package interceptor

import (
	"bytes"
	"fmt"
	replicationv1 "go.temporal.io/server/api/replication/v1"
	"strings"
	"testing"

	commonpb "go.temporal.io/api/common/v1"
	failurepb "go.temporal.io/api/failure/v1"
	historypb "go.temporal.io/api/history/v1"
	"go.temporal.io/server/api/adminservice/v1"
	"go.temporal.io/server/common/log"
	"go.temporal.io/server/common/persistence/serialization"
	"google.golang.org/protobuf/proto"
)

// C17 on the history-blob path of the translation interceptor (translateOneDataBlob / tryRepairInvalidUTF8InBlob):
// batches of 1-3 events, every subset of them carrying a failure message with invalid UTF-8 (at the top of the chain or in
// a cause), several kinds of damage.  What the walker hands on must decode with the standard serializer and equal the
// batch with exactly the offending bytes replaced; an all-valid batch must come out byte-identical.
//
// output: one line per disagreement, then STATS.
func TestVerifBlobRepair(t *testing.T) {
	_, w, done := verifIO(t)
	defer done()
	s := serialization.NewSerializer()
	logger := log.NewNoopLogger()
	damages := [][2]string{{"XX", "\xff\xfe"}, {"XXX", "\xf0\x9f\x98"}, {"XXX", "\x80\x80\x80"}, {"XX", "\xe2\x82"}, {"XX", "\xc0\xaf"}}
	mkEvent := func(id int64, bad bool, deep bool, kind int, marker string) *historypb.HistoryEvent {
		msg := fmt.Sprintf("message-%d", id)
		if bad {
			msg = fmt.Sprintf("msg%d-%s-tail", id, marker)
		}
		f := &failurepb.Failure{Message: msg, Source: "GoSDK"}
		if deep {
			f = &failurepb.Failure{Message: fmt.Sprintf("outer-%d", id), Cause: &failurepb.Failure{Message: "mid", Cause: f}}
		}
		switch kind % 4 {
		case 0:
			return &historypb.HistoryEvent{EventId: id, EventType: 12, Attributes: &historypb.HistoryEvent_ActivityTaskFailedEventAttributes{
				ActivityTaskFailedEventAttributes: &historypb.ActivityTaskFailedEventAttributes{Identity: "worker", Failure: f}}}
		case 1:
			return &historypb.HistoryEvent{EventId: id, EventType: 3, Attributes: &historypb.HistoryEvent_WorkflowExecutionFailedEventAttributes{
				WorkflowExecutionFailedEventAttributes: &historypb.WorkflowExecutionFailedEventAttributes{Failure: f}}}
		case 2:
			return &historypb.HistoryEvent{EventId: id, EventType: 32, Attributes: &historypb.HistoryEvent_ChildWorkflowExecutionFailedEventAttributes{
				ChildWorkflowExecutionFailedEventAttributes: &historypb.ChildWorkflowExecutionFailedEventAttributes{Namespace: "child-ns", Failure: f}}}
		default:
			return &historypb.HistoryEvent{EventId: id, EventType: 5, Attributes: &historypb.HistoryEvent_WorkflowTaskScheduledEventAttributes{
				WorkflowTaskScheduledEventAttributes: &historypb.WorkflowTaskScheduledEventAttributes{Attempt: int32(id)}}}
		}
	}
	n, bad := 0, 0
	for size := 1; size <= 3; size++ {
		for mask := 0; mask < 1<<size; mask++ {
			for di, dmg := range damages {
				for variant := 0; variant < 2; variant++ {
					build := func(marker string) []*historypb.HistoryEvent {
						var evs []*historypb.HistoryEvent
						for i := 0; i < size; i++ {
							isBad := mask&(1<<i) != 0
							kind := (i + di + variant) % 3
							if !isBad && (i+variant)%2 == 0 {
								kind = 3 // an ordinary event without any failure
							}
							evs = append(evs, mkEvent(int64(10+i), isBad, variant == 1, kind, marker))
						}
						return evs
					}
					// the batch as an old server wrote it: same bytes, with the damage in place of the marker
					markerBlob, err := s.SerializeEvents(build("abc" + dmg[0] + "def"))
					if err != nil {
						panic(err)
					}
					invalid := &commonpb.DataBlob{EncodingType: markerBlob.EncodingType, Data: bytes.ReplaceAll(markerBlob.Data, []byte("abc"+dmg[0]+"def"), []byte("abc"+dmg[1]+"def"))}
					want := build("abc" + strings.ToValidUTF8(dmg[1], "\uFFFD") + "def")
					id := fmt.Sprintf("size=%d mask=%d damage=%d deep=%d", size, mask, di, variant)
					// the same batch in a list-valued blob field and in the single-blob fields of a replication task
					type container struct {
						name string
						msg  proto.Message
						get  func() *commonpb.DataBlob
					}
					mkContainers := func(b *commonpb.DataBlob) []container {
						raw := &adminservice.GetWorkflowExecutionRawHistoryV2Response{HistoryBatches: []*commonpb.DataBlob{b}}
						mkTask := func(attrs *replicationv1.HistoryTaskAttributes) (*adminservice.StreamWorkflowReplicationMessagesResponse, *replicationv1.HistoryTaskAttributes) {
							return &adminservice.StreamWorkflowReplicationMessagesResponse{Attributes: &adminservice.StreamWorkflowReplicationMessagesResponse_Messages{
								Messages: &replicationv1.WorkflowReplicationMessages{ReplicationTasks: []*replicationv1.ReplicationTask{{
									Attributes: &replicationv1.ReplicationTask_HistoryTaskAttributes{HistoryTaskAttributes: attrs}}}}}}, attrs
						}
						m1, a1 := mkTask(&replicationv1.HistoryTaskAttributes{NamespaceId: "nsid", WorkflowId: "wf", Events: b})
						m2, a2 := mkTask(&replicationv1.HistoryTaskAttributes{NamespaceId: "nsid", WorkflowId: "wf", NewRunEvents: b})
						m3, a3 := mkTask(&replicationv1.HistoryTaskAttributes{NamespaceId: "nsid", WorkflowId: "wf", EventsBatches: []*commonpb.DataBlob{b}})
						return []container{
							{"HistoryBatches[0]", raw, func() *commonpb.DataBlob { return raw.HistoryBatches[0] }},
							{"HistoryTaskAttributes.Events", m1, func() *commonpb.DataBlob { return a1.Events }},
							{"HistoryTaskAttributes.NewRunEvents", m2, func() *commonpb.DataBlob { return a2.NewRunEvents }},
							{"HistoryTaskAttributes.EventsBatches[0]", m3, func() *commonpb.DataBlob { return a3.EventsBatches[0] }},
						}
					}
					for _, c := range mkContainers(&commonpb.DataBlob{EncodingType: invalid.EncodingType, Data: append([]byte{}, invalid.Data...)}) {
						if c.name != "HistoryBatches[0]" && (size+mask+di+variant)%2 == 1 {
							continue // the single-blob fields get every other case
						}
						n++
						cid := id + " in " + c.name
						_, verr := visitNamespace(logger, c.msg, createStringMatcher(map[string]string{"absent": "absent2"}))
						if verr != nil {
							bad++
							fmt.Fprintf(w, "BLOB %s ERROR %v\n", cid, verr)
							continue
						}
						got, derr := s.DeserializeEvents(c.get())
						switch {
						case derr != nil:
							bad++
							fmt.Fprintf(w, "BLOB %s what was handed on does not decode with the standard serializer: %v\n", cid, derr)
						case len(got) != len(want):
							bad++
							fmt.Fprintf(w, "BLOB %s %d events handed on, %d expected\n", cid, len(got), len(want))
						default:
							for i := range want {
								if !proto.Equal(got[i], want[i]) {
									bad++
									fmt.Fprintf(w, "BLOB %s event %d differs from the batch with only the offending bytes replaced\n", cid, i)
									break
								}
							}
						}
						if mask == 0 && !bytes.Equal(c.get().Data, invalid.Data) {
							bad++
							fmt.Fprintf(w, "BLOB %s a valid batch did not come out byte-identical\n", cid)
						}
					}
				}
			}
		}
	}
	fmt.Fprintf(w, "STATS batches=%d bad=%d\n", n, bad)
}
