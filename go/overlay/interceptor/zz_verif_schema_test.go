//go:build verif

package interceptor

import (
	"encoding/json"
	"fmt"
	"reflect"
	"sort"
	"strings"
	"testing"

	"go.temporal.io/api/enums/v1"
	_ "go.temporal.io/api/workflowservice/v1"
	_ "go.temporal.io/server/api/adminservice/v1"
	"google.golang.org/protobuf/proto"
	"google.golang.org/protobuf/reflect/protoreflect"
	"google.golang.org/protobuf/reflect/protoregistry"
	"google.golang.org/protobuf/runtime/protoimpl"

	"github.com/temporalio/s2s-proxy/auth"
)

// Schema translator (T): dumps, from the packages as compiled from /repo's working tree, the Go struct graph
// reachable from every request / response type of both proxied services joined with the protobuf descriptors,
// and the walker's tables.  One JSON document on VERIF_OUT.

type vsField struct {
	Go     string   `json:"go"`
	Exp    bool     `json:"exp"`
	Kind   string   `json:"kind"`           // str bytes scalar msg listmsg liststr listother mapmsg mapstr mapother oneof internal other
	Msg    string   `json:"msg,omitempty"`  // Go type name of the message / element / map value
	Alts   []string `json:"alts,omitempty"` // oneof: Go wrapper type names
	Proto  string   `json:"proto,omitempty"`
	PKind  string   `json:"pkind,omitempty"`
	PMsg   string   `json:"pmsg,omitempty"`
	Repeat bool     `json:"repeat,omitempty"`
	KeyStr bool     `json:"keystr,omitempty"`
}

type vsType struct {
	Go      string    `json:"go"`
	Proto   string    `json:"proto,omitempty"`
	Wrapper bool      `json:"wrapper,omitempty"`
	Fields  []vsField `json:"fields"`
}

type vsDump struct {
	Types        []vsType          `json:"types"`
	Roots        []string          `json:"roots"`       // Go type names of all request/response types
	RootMethods  map[string]string `json:"rootMethods"` // Go type -> "svc/Method:req|resp"
	NsNames      []string          `json:"nsNames"`
	BlobNames    []string          `json:"blobNames"`
	SaNames      []string          `json:"saNames"`
	Skippable    []string          `json:"skippable"`  // Go wrapper type names of skippable event attribute alternatives
	EventTypes   map[string]string `json:"eventTypes"` // enum name -> Go wrapper type name of its attributes
	DenyList     []string          `json:"denyList"`
	WholeSkipped []string          `json:"wholeSkipped"` // root types skipped as a whole by isSkippableForNamespaceTranslation
}

func vsTypeName(t reflect.Type) string {
	for t.Kind() == reflect.Ptr {
		t = t.Elem()
	}
	return t.PkgPath() + "." + t.Name()
}

func TestVerifSchema(t *testing.T) {
	_, w, done := verifIO(t)
	defer done()
	dump := vsDump{RootMethods: map[string]string{}, EventTypes: map[string]string{}}
	seen := map[reflect.Type]bool{}
	var queue []reflect.Type
	push := func(t reflect.Type) {
		for t.Kind() == reflect.Ptr {
			t = t.Elem()
		}
		if t.Kind() == reflect.Struct && !seen[t] {
			seen[t] = true
			queue = append(queue, t)
		}
	}
	for _, svc := range []string{"temporal.server.api.adminservice.v1.AdminService", "temporal.api.workflowservice.v1.WorkflowService"} {
		d, err := protoregistry.GlobalFiles.FindDescriptorByName(protoreflect.FullName(svc))
		if err != nil {
			t.Fatal(err)
		}
		ms := d.(protoreflect.ServiceDescriptor).Methods()
		for i := 0; i < ms.Len(); i++ {
			for k, md := range []protoreflect.MessageDescriptor{ms.Get(i).Input(), ms.Get(i).Output()} {
				mt, err := protoregistry.GlobalTypes.FindMessageByName(md.FullName())
				if err != nil {
					t.Fatal(err)
				}
				rt := reflect.TypeOf(mt.New().Interface())
				push(rt)
				name := vsTypeName(rt)
				dump.Roots = append(dump.Roots, name)
				dump.RootMethods[name] = fmt.Sprintf("%s/%s:%s", svc, ms.Get(i).Name(), []string{"req", "resp"}[k])
			}
		}
	}
	for len(queue) > 0 {
		rt := queue[0]
		queue = queue[1:]
		vt := vsType{Go: vsTypeName(rt)}
		var desc protoreflect.MessageDescriptor
		var wrappers []any
		if pm, ok := reflect.New(rt).Interface().(proto.Message); ok {
			desc = pm.ProtoReflect().Descriptor()
			vt.Proto = string(desc.FullName())
			if mi, ok := pm.ProtoReflect().Type().(*protoimpl.MessageInfo); ok {
				wrappers = mi.OneofWrappers
			}
		}
		for i := 0; i < rt.NumField(); i++ {
			sf := rt.Field(i)
			f := vsField{Go: sf.Name, Exp: sf.IsExported()}
			ft := sf.Type
			if !f.Exp {
				f.Kind = "internal"
				vt.Fields = append(vt.Fields, f)
				continue
			}
			// protobuf tag: "bytes,1,opt,name=namespace,proto3"
			if tag := sf.Tag.Get("protobuf"); tag != "" && desc != nil {
				for _, p := range strings.Split(tag, ",") {
					if strings.HasPrefix(p, "name=") {
						f.Proto = strings.TrimPrefix(p, "name=")
					}
				}
				if fd := desc.Fields().ByName(protoreflect.Name(f.Proto)); fd != nil {
					f.PKind = fd.Kind().String()
					f.Repeat = fd.IsList()
					if fd.IsMap() {
						f.PKind = "map"
						f.KeyStr = fd.MapKey().Kind() == protoreflect.StringKind
						if fd.MapValue().Message() != nil {
							f.PMsg = string(fd.MapValue().Message().FullName())
						} else {
							f.PMsg = fd.MapValue().Kind().String()
						}
					} else if fd.Message() != nil {
						f.PMsg = string(fd.Message().FullName())
					}
				}
			}
			switch ft.Kind() {
			case reflect.String:
				f.Kind = "str"
			case reflect.Ptr:
				if ft.Elem().Kind() == reflect.Struct {
					f.Kind, f.Msg = "msg", vsTypeName(ft)
					push(ft)
				} else {
					f.Kind = "scalar" // proto3 optional scalars
					if ft.Elem().Kind() == reflect.String {
						f.Kind = "str"
					}
				}
			case reflect.Struct:
				f.Kind, f.Msg = "msg", vsTypeName(ft)
				push(ft)
			case reflect.Slice:
				et := ft.Elem()
				switch {
				case et.Kind() == reflect.Uint8:
					f.Kind = "bytes"
				case et.Kind() == reflect.Ptr && et.Elem().Kind() == reflect.Struct:
					f.Kind, f.Msg = "listmsg", vsTypeName(et)
					push(et)
				case et.Kind() == reflect.String:
					f.Kind = "liststr"
				default:
					f.Kind = "listother"
				}
			case reflect.Map:
				vtp := ft.Elem()
				f.KeyStr = ft.Key().Kind() == reflect.String
				switch {
				case vtp.Kind() == reflect.Ptr && vtp.Elem().Kind() == reflect.Struct:
					f.Kind, f.Msg = "mapmsg", vsTypeName(vtp)
					push(vtp)
				case vtp.Kind() == reflect.String:
					f.Kind = "mapstr"
				default:
					f.Kind = "mapother"
				}
			case reflect.Interface:
				f.Kind = "oneof"
				oneofName := sf.Tag.Get("protobuf_oneof")
				for _, wv := range wrappers {
					wt := reflect.TypeOf(wv)
					if wt.Implements(ft) {
						f.Alts = append(f.Alts, vsTypeName(wt))
						push(wt)
					}
				}
				f.Proto = oneofName
			default:
				f.Kind = "scalar"
			}
			vt.Fields = append(vt.Fields, f)
		}
		// a oneof wrapper struct: a single exported field with a protobuf tag, no descriptor of its own
		if desc == nil && rt.NumField() == 1 {
			vt.Wrapper = true
			sf := rt.Field(0)
			for _, p := range strings.Split(sf.Tag.Get("protobuf"), ",") {
				if strings.HasPrefix(p, "name=") {
					vt.Fields[0].Proto = strings.TrimPrefix(p, "name=")
				}
			}
			vt.Fields[0].PKind = strings.Split(sf.Tag.Get("protobuf"), ",")[0]
		}
		dump.Types = append(dump.Types, vt)
	}
	keys := func(m map[string]bool) []string {
		var r []string
		for k, v := range m {
			if v {
				r = append(r, k)
			}
		}
		sort.Strings(r)
		return r
	}
	dump.NsNames, dump.BlobNames, dump.SaNames = keys(namespaceFieldNames), keys(dataBlobFieldNames), keys(searchAttributeFieldNames)
	// event type -> attributes alternative (by the naming convention of the generated code, checked against the oneof)
	hev := reflect.TypeOf((*historyEventT)(nil)).Elem()
	_ = hev
	for num, name := range enums.EventType_name {
		if num == 0 {
			continue
		}
		camel := ""
		for _, part := range strings.Split(strings.TrimPrefix(name, "EVENT_TYPE_"), "_") {
			camel += part[:1] + strings.ToLower(part[1:])
		}
		wrapper := "go.temporal.io/api/history/v1.HistoryEvent_" + camel + "EventAttributes"
		dump.EventTypes[name] = wrapper
		if _, ok := namespaceTranslationSkippableHistoryEvents[enums.EventType(num)]; ok {
			dump.Skippable = append(dump.Skippable, wrapper)
		}
	}
	sort.Strings(dump.Skippable)
	for _, m := range []string{"DeprecateNamespace", "RegisterNamespace", "UpdateNamespace", "DescribeNamespace", "ListNamespaces"} {
		if !auth.IsAllowedWorkflowMigrationAPIs(m) {
			dump.DenyList = append(dump.DenyList, m)
		}
	}
	// which root types does the shortcut skip as a whole?
	for _, r := range dump.Roots {
		_ = r
	}
	for rt := range seen {
		v := reflect.New(rt).Interface()
		if isSkippableForNamespaceTranslation(v) {
			dump.WholeSkipped = append(dump.WholeSkipped, vsTypeName(rt))
		}
	}
	sort.Strings(dump.WholeSkipped)
	sort.Slice(dump.Types, func(i, j int) bool { return dump.Types[i].Go < dump.Types[j].Go })
	sort.Strings(dump.Roots)
	enc := json.NewEncoder(w)
	if err := enc.Encode(dump); err != nil {
		t.Fatal(err)
	}
}

type historyEventT = struct{}
