//go:build verif

package config

import (
	"fmt"
	"sort"
	"strings"
	"testing"
)

// The configuration layer in front of collect.NewStaticBiMap: StringTranslator.AsLocalToRemoteBiMap on the mapping list
// as written in the configuration file.
//
//	B k:v,k:v,...   ->  B err | B ok fwd=k:v,... inv=v:k,... len=n   (sorted; same format as the collect harness)
func TestVerifStringTranslator(t *testing.T) {
	sc, w, done := verifIO(t)
	defer done()
	for sc.Scan() {
		f := verifFields(sc.Text())
		if len(f) == 0 {
			continue
		}
		st := &StringTranslator{}
		if len(f) > 1 && f[1] != "-" {
			for _, p := range strings.Split(f[1], ",") {
				a := strings.SplitN(p, ":", 2)
				st.Mappings = append(st.Mappings, StringMapping{Local: a[0], Remote: a[1]})
			}
		}
		bm, err := st.AsLocalToRemoteBiMap()
		if err != nil {
			fmt.Fprintln(w, "B err")
			continue
		}
		dump := func(m map[string]string) string {
			var keys []string
			for k := range m {
				keys = append(keys, k)
			}
			sort.Strings(keys)
			var parts []string
			for _, k := range keys {
				parts = append(parts, fmt.Sprintf("%s:%s", k, m[k]))
			}
			return strings.Join(parts, ",")
		}
		// a second call must give the same answer (the result is cached)
		bm2, err2 := st.AsLocalToRemoteBiMap()
		again := err2 == nil && dump(bm2.AsMap()) == dump(bm.AsMap())
		if !again {
			fmt.Fprintln(w, "B unstable")
			continue
		}
		fmt.Fprintf(w, "B ok fwd=%s inv=%s len=%d\n", dump(bm.AsMap()), dump(bm.Inverse().AsMap()), bm.Len())
	}
}
