//go:build verif

package compat

import (
	"fmt"
	"google.golang.org/grpc/mem"
	"reflect"
	"strings"
	"testing"
	"unicode/utf8"

	failure122 "github.com/temporalio/s2s-proxy/proto/1_22/api/failure/v1"
	_ "go.temporal.io/api/workflowservice/v1"
	_ "go.temporal.io/server/api/adminservice/v1"
	"google.golang.org/protobuf/reflect/protoreflect"
	"google.golang.org/protobuf/reflect/protoregistry"
)

// C18 correspondence: for every legacy root type of the conversion tables and every structural path to a failure
// message (enumerated here by reflection), an invalid UTF-8 message placed there - one path at a time, at cause depths
// 1 and 3 - must be repaired by the REAL RepairInvalidUTF8.

var vpFailureType = reflect.TypeOf(failure122.Failure{})

type vpStep struct {
	field   int          // field index in the struct
	wrapper reflect.Type // oneof: wrapper struct type (pointer elem)
	kind    string       // msg list map oneof
}

func vpPaths(rt reflect.Type, visited map[reflect.Type]bool) [][]vpStep {
	if rt == vpFailureType {
		return [][]vpStep{{}}
	}
	if visited[rt] {
		return nil
	}
	visited[rt] = true
	defer delete(visited, rt)
	var res [][]vpStep
	var wrappers []interface{}
	if ow, ok := reflect.New(rt).Interface().(interface{ XXX_OneofWrappers() []interface{} }); ok {
		wrappers = ow.XXX_OneofWrappers()
	}
	for i := 0; i < rt.NumField(); i++ {
		sf := rt.Field(i)
		if !sf.IsExported() || strings.HasPrefix(sf.Name, "XXX_") {
			continue
		}
		ft := sf.Type
		add := func(st vpStep, next reflect.Type) {
			for _, p := range vpPaths(next, visited) {
				res = append(res, append([]vpStep{st}, p...))
			}
		}
		switch ft.Kind() {
		case reflect.Ptr:
			if ft.Elem().Kind() == reflect.Struct {
				add(vpStep{field: i, kind: "msg"}, ft.Elem())
			}
		case reflect.Slice:
			if ft.Elem().Kind() == reflect.Ptr && ft.Elem().Elem().Kind() == reflect.Struct {
				add(vpStep{field: i, kind: "list"}, ft.Elem().Elem())
			}
		case reflect.Map:
			if ft.Elem().Kind() == reflect.Ptr && ft.Elem().Elem().Kind() == reflect.Struct {
				add(vpStep{field: i, kind: "map"}, ft.Elem().Elem())
			}
		case reflect.Interface:
			for _, wv := range wrappers {
				wt := reflect.TypeOf(wv)
				if wt.Implements(ft) && wt.Elem().NumField() == 1 {
					inner := wt.Elem().Field(0).Type
					if inner.Kind() == reflect.Ptr && inner.Elem().Kind() == reflect.Struct {
						add(vpStep{field: i, kind: "oneof", wrapper: wt.Elem()}, inner.Elem())
					}
				}
			}
		}
	}
	return res
}

func vpBuild(rt reflect.Type, path []vpStep, leaf *failure122.Failure) reflect.Value {
	if len(path) == 0 {
		return reflect.ValueOf(leaf)
	}
	v := reflect.New(rt)
	st := path[0]
	f := v.Elem().Field(st.field)
	switch st.kind {
	case "msg":
		f.Set(vpBuild(f.Type().Elem(), path[1:], leaf))
	case "list":
		// a healthy element first, then the one carrying the leaf: a decoder that has consumed complete elements before it
		// meets the damaged one must not leave traces of them
		sibling := vpBuild(f.Type().Elem().Elem(), path[1:], &failure122.Failure{Message: "healthy sibling", Source: "src"})
		child := vpBuild(f.Type().Elem().Elem(), path[1:], leaf)
		f.Set(reflect.Append(reflect.Append(reflect.MakeSlice(f.Type(), 0, 2), sibling), child))
	case "map":
		child := vpBuild(f.Type().Elem().Elem(), path[1:], leaf)
		m := reflect.MakeMap(f.Type())
		key := reflect.New(f.Type().Key()).Elem()
		if key.Kind() == reflect.String {
			key.SetString("k")
		}
		m.SetMapIndex(key, child)
		f.Set(m)
	case "oneof":
		w := reflect.New(st.wrapper)
		inner := w.Elem().Field(0)
		inner.Set(vpBuild(inner.Type().Elem(), path[1:], leaf))
		f.Set(w)
	}
	return v
}

func vpPathString(rt reflect.Type, path []vpStep) string {
	var parts []string
	cur := rt
	for _, st := range path {
		sf := cur.Field(st.field)
		switch st.kind {
		case "msg":
			parts = append(parts, sf.Name)
			cur = sf.Type.Elem()
		case "list", "map":
			parts = append(parts, sf.Name+"[]")
			cur = sf.Type.Elem().Elem()
		case "oneof":
			parts = append(parts, sf.Name+"("+st.wrapper.Name()+")")
			cur = st.wrapper.Field(0).Type.Elem()
		}
	}
	return strings.Join(parts, ".")
}

func vpChainValid(f *failure122.Failure) bool {
	for ; f != nil; f = f.GetCause() {
		if !utf8.ValidString(f.GetMessage()) {
			return false
		}
	}
	return true
}

func TestVerifRepairPaths(t *testing.T) {
	_, w, done := verifIO(t)
	defer done()
	roots := map[reflect.Type]protoreflect.MessageType{}
	for _, svc := range []string{"temporal.server.api.adminservice.v1.AdminService", "temporal.api.workflowservice.v1.WorkflowService"} {
		d, err := protoregistry.GlobalFiles.FindDescriptorByName(protoreflect.FullName(svc))
		if err != nil {
			t.Fatal(err)
		}
		ms := d.(protoreflect.ServiceDescriptor).Methods()
		for i := 0; i < ms.Len(); i++ {
			for _, md := range []protoreflect.MessageDescriptor{ms.Get(i).Input(), ms.Get(i).Output()} {
				mt, err := protoregistry.GlobalTypes.FindMessageByName(md.FullName())
				if err != nil {
					continue
				}
				v := mt.New().Interface()
				m122, ok := adminConvertTo122(v)
				if !ok {
					m122, ok = frontendConvertTo122(v)
				}
				if ok && m122 != nil {
					roots[reflect.TypeOf(m122).Elem()] = mt
				}
			}
		}
	}
	npaths, missed := 0, 0
	for rt, newType := range roots {
		for _, path := range vpPaths(rt, map[reflect.Type]bool{}) {
			for _, depth := range []int{1, 3} {
				npaths++
				leaf := &failure122.Failure{Message: "ok"}
				cur := leaf
				for d := 1; d < depth; d++ {
					cur.Cause = &failure122.Failure{Message: "ok"}
					cur = cur.Cause
				}
				// the kind of damage varies from path to path: a stray byte, a truncated 4-byte rune and three stray
				// continuation bytes (both repaired to text of the SAME length), an overlong form
				samples := []string{"bad \xff\xfe tail", "\xf0\x9f\x98", "\x80\x80\x80", "cut \xe2\x82", "\xc0\xaf"}
				cur.Message = samples[(npaths+depth)%len(samples)]
				msg := vpBuild(rt, path, leaf).Interface()
				changed, err := RepairInvalidUTF8(msg)
				if err != nil || !changed || !vpChainValid(leaf) {
					missed++
					fmt.Fprintf(w, "MISSED %s %s depth=%d changed=%v err=%v\n", rt.PkgPath()+"."+rt.Name(), vpPathString(rt, path), depth, changed, err)
				} else if depth == 1 {
					// the same damage on the wire, through the entry point the codec uses for this root type (down-conversion
					// by the admin or the frontend table, repair, re-encoding, decoding): it has to come out decodable
					leaf2 := &failure122.Failure{Message: samples[(npaths+depth)%len(samples)]}
					if mm, ok := vpBuild(rt, path, leaf2).Interface().(interface{ Marshal() ([]byte, error) }); ok {
						if data, merr := mm.Marshal(); merr == nil {
							if rerr := convertAndRepairInvalidUTF8(data, newType.New().Interface()); rerr != nil {
								missed++
								fmt.Fprintf(w, "MISSED %s %s via convertAndRepairInvalidUTF8 into %s: %v\n", rt.PkgPath()+"."+rt.Name(), vpPathString(rt, path), newType.Descriptor().FullName(), rerr)
							}
							// ... and through the process-wide codec gRPC uses, which has just been handed a message of the
							// same type that nothing can repair (invalid UTF-8 outside any failure message): what the codec
							// met before must not matter
							if other := vpBuild(rt, path, &failure122.Failure{Message: "fine"}); vcCorruptOther(other, 0) {
								if od, oerr := other.Interface().(interface{ Marshal() ([]byte, error) }).Marshal(); oerr == nil {
									_ = GetCodec().Unmarshal(mem.BufferSlice{mem.SliceBuffer(od)}, newType.New().Interface())
								}
							}
							if cerr := GetCodec().Unmarshal(mem.BufferSlice{mem.SliceBuffer(data)}, newType.New().Interface()); cerr != nil {
								missed++
								fmt.Fprintf(w, "MISSED %s %s through the codec (after an unrepairable message of the same type): %v\n", rt.PkgPath()+"."+rt.Name(), vpPathString(rt, path), cerr)
							}
						}
					}
				}
			}
		}
	}
	// chains up to, at and beyond the supported depth, the invalid message at every position of the chain
	for n := 1; n <= 12; n++ {
		for pos := 0; pos < n; pos++ {
			leaf := &failure122.Failure{Message: "ok"}
			cur := leaf
			if pos == 0 {
				cur.Message = "bad \xff"
			}
			for d := 1; d < n; d++ {
				cur.Cause = &failure122.Failure{Message: "ok"}
				cur = cur.Cause
				if d == pos {
					cur.Message = "bad \xff"
				}
			}
			changed, err := RepairInvalidUTF8(leaf)
			fmt.Fprintf(w, "CHAIN %d pos=%d changed=%v err=%v valid=%v\n", n, pos, changed, err != nil, vpChainValid(leaf))
		}
	}
	fmt.Fprintf(w, "STATS roots=%d cases=%d missed=%d\n", len(roots), npaths, missed)
}
