//go:build verif

package compat

import (
	"encoding/hex"
	"fmt"
	"os"
	"reflect"
	"strconv"
	"strings"
	"testing"
	"unicode/utf8"

	failure122 "github.com/temporalio/s2s-proxy/proto/1_22/api/failure/v1"
	"github.com/temporalio/s2s-proxy/common"
	_ "go.temporal.io/api/workflowservice/v1"
	_ "go.temporal.io/server/api/adminservice/v1"
	"google.golang.org/grpc/mem"
	"google.golang.org/protobuf/proto"
	"google.golang.org/protobuf/reflect/protoreflect"
	"google.golang.org/protobuf/reflect/protoregistry"
)

// TestVerifUtf8: byte-level correspondence.  U <hex> | R <hex,hex,...>
func TestVerifUtf8(t *testing.T) {
	sc, w, done := verifIO(t)
	defer done()
	unhex := func(h string) string {
		if h == "-" {
			return ""
		}
		b, _ := hex.DecodeString(h)
		return string(b)
	}
	tohex := func(s string) string {
		if s == "" {
			return "-"
		}
		return hex.EncodeToString([]byte(s))
	}
	for sc.Scan() {
		f := verifFields(sc.Text())
		if len(f) < 2 {
			continue
		}
		switch f[0] {
		case "U":
			s := unhex(f[1])
			v := 0
			if utf8.ValidString(s) {
				v = 1
			}
			fmt.Fprintf(w, "U %s %d\n", tohex(strings.ToValidUTF8(s, replacementCharacter)), v)
		case "R":
			var head, cur *failure122.Failure
			for _, h := range strings.Split(f[1], ",") {
				n := &failure122.Failure{Message: unhex(h)}
				if head == nil {
					head = n
				} else {
					cur.Cause = n
				}
				cur = n
			}
			changed, err := repairInvalidUTF8InFailure(head)
			var parts []string
			for x := head; x != nil; x = x.GetCause() {
				parts = append(parts, tohex(x.Message))
			}
			b := func(v bool) int {
				if v {
					return 1
				}
				return 0
			}
			fmt.Fprintf(w, "R %s changed=%d err=%d\n", strings.Join(parts, ","), b(changed), b(err != nil))
		}
	}
}

// ---- codec-level correspondence (C17) ----
type vcRng struct{ s uint64 }

func (r *vcRng) next() uint64 {
	r.s += 0x9E3779B97F4A7C15
	z := r.s
	z = (z ^ (z >> 30)) * 0xBF58476D1CE4E5B9
	z = (z ^ (z >> 27)) * 0x94D049BB133111EB
	return z ^ (z >> 31)
}
func (r *vcRng) below(n int) int { return int(r.next() % uint64(n)) }

var vcValid = []string{"plain", "héllo wörld", "日本語のメッセージ", "emoji 😀 ok", "", "mixed é€\U0001F600 tail", "� already replaced"}
var vcInvalid = []string{"bad \xff\xfe tail", "\xf0\x9f\x98", "trunc \xe2\x82", "\xc0\xaf overlong", "\xed\xa0\x80 surrogate", "a\xffb\xffc", "\xf0\x9f\x98 and \xff\xff\xff\xff", "ok then \x80", "\xf5\x80\x80\x80"}

// fill the scalar / string fields of every struct allocated along the path (so that "every other field intact" is observable)
func vcDecorate(v reflect.Value, rng *vcRng, depth int) {
	for v.Kind() == reflect.Ptr || v.Kind() == reflect.Interface {
		if v.IsNil() {
			return
		}
		v = v.Elem()
	}
	if v.Kind() != reflect.Struct || depth > 12 {
		return
	}
	if v.Type() == vpFailureType {
		return
	}
	for i := 0; i < v.NumField(); i++ {
		sf := v.Type().Field(i)
		if !sf.IsExported() || strings.HasPrefix(sf.Name, "XXX_") {
			continue
		}
		f := v.Field(i)
		switch f.Kind() {
		case reflect.String:
			f.SetString(vcValid[rng.below(len(vcValid))])
		case reflect.Int32, reflect.Int64:
			if f.Type().PkgPath() == "" {
				f.SetInt(int64(rng.below(1000)))
			}
		case reflect.Bool:
			f.SetBool(rng.below(2) == 0)
		case reflect.Ptr, reflect.Interface:
			vcDecorate(f, rng, depth+1)
		case reflect.Slice:
			if f.Type().Elem().Kind() == reflect.Uint8 {
				f.SetBytes([]byte("bytes-" + strconv.Itoa(rng.below(100))))
			} else {
				for k := 0; k < f.Len(); k++ {
					vcDecorate(f.Index(k), rng, depth+1)
				}
			}
		case reflect.Map:
			it := f.MapRange()
			for it.Next() {
				vcDecorate(it.Value(), rng, depth+1)
			}
		}
	}
}

func vcSanitize(v reflect.Value, depth int) {
	for v.Kind() == reflect.Ptr || v.Kind() == reflect.Interface {
		if v.IsNil() {
			return
		}
		v = v.Elem()
	}
	if v.Kind() != reflect.Struct || depth > 40 {
		return
	}
	if v.Type() == vpFailureType {
		f := v.Addr().Interface().(*failure122.Failure)
		f.Message = strings.ToValidUTF8(f.Message, "�")
	}
	for i := 0; i < v.NumField(); i++ {
		if !v.Type().Field(i).IsExported() {
			continue
		}
		f := v.Field(i)
		switch f.Kind() {
		case reflect.Ptr, reflect.Interface:
			vcSanitize(f, depth+1)
		case reflect.Slice:
			if f.Type().Elem().Kind() != reflect.Uint8 {
				for k := 0; k < f.Len(); k++ {
					vcSanitize(f.Index(k), depth+1)
				}
			}
		case reflect.Map:
			it := f.MapRange()
			for it.Next() {
				vcSanitize(it.Value(), depth+1)
			}
		}
	}
}

// first string field (not a failure message) found in the structs along the path
func vcCorruptOther(v reflect.Value, depth int) bool {
	for v.Kind() == reflect.Ptr || v.Kind() == reflect.Interface {
		if v.IsNil() {
			return false
		}
		v = v.Elem()
	}
	if v.Kind() != reflect.Struct || depth > 12 || v.Type() == vpFailureType {
		return false
	}
	for i := 0; i < v.NumField(); i++ {
		sf := v.Type().Field(i)
		if sf.IsExported() && v.Field(i).Kind() == reflect.String {
			v.Field(i).SetString("other \xff field")
			return true
		}
	}
	for i := 0; i < v.NumField(); i++ {
		if !v.Type().Field(i).IsExported() {
			continue
		}
		f := v.Field(i)
		switch f.Kind() {
		case reflect.Ptr, reflect.Interface:
			if vcCorruptOther(f, depth+1) {
				return true
			}
		case reflect.Slice:
			if f.Type().Elem().Kind() != reflect.Uint8 {
				for k := 0; k < f.Len(); k++ {
					if vcCorruptOther(f.Index(k), depth+1) {
						return true
					}
				}
			}
		}
	}
	return false
}

func TestVerifCodec(t *testing.T) {
	_, w, done := verifIO(t)
	defer done()
	seed, _ := strconv.ParseUint(os.Getenv("VERIF_SEED"), 10, 64)
	reps, _ := strconv.Atoi(os.Getenv("VERIF_CASES"))
	if reps <= 0 {
		reps = 1
	}
	type root struct {
		legacy reflect.Type
		newMsg protoreflect.MessageType
	}
	var roots []root
	for _, svc := range []string{"temporal.server.api.adminservice.v1.AdminService", "temporal.api.workflowservice.v1.WorkflowService"} {
		d, err := protoregistry.GlobalFiles.FindDescriptorByName(protoreflect.FullName(svc))
		if err != nil {
			t.Fatal(err)
		}
		ms := d.(protoreflect.ServiceDescriptor).Methods()
		for i := 0; i < ms.Len(); i++ {
			for _, md := range []protoreflect.MessageDescriptor{ms.Get(i).Input(), ms.Get(i).Output()} {
				mt, err := protoregistry.GlobalTypes.FindMessageByName(md.FullName())
				if err != nil {
					continue
				}
				v := mt.New().Interface()
				m122, ok := adminConvertTo122(v)
				if !ok {
					m122, ok = frontendConvertTo122(v)
				}
				if ok && m122 != nil {
					roots = append(roots, root{reflect.TypeOf(m122).Elem(), mt})
				}
			}
		}
	}
	codec := GetCodec()
	stats := map[string]int{}
	// gRPC hands the codec the wire bytes in one or several buffers (one per HTTP/2 DATA frame for messages above 16KB):
	// every decode is done for five ways of cutting the same bytes and the outcomes must be the same
	segment := func(data []byte, k int) mem.BufferSlice {
		cp := func(b []byte) mem.Buffer { return mem.SliceBuffer(append([]byte{}, b...)) }
		n := len(data)
		switch k {
		case 1:
			return mem.BufferSlice{cp(data[:n/2]), cp(data[n/2:])}
		case 2:
			return mem.BufferSlice{cp(data[:n/3]), cp(data[n/3 : 2*n/3]), cp(data[2*n/3:])}
		case 3:
			return mem.BufferSlice{cp(nil), cp(data)}
		case 4:
			if n > 1 {
				return mem.BufferSlice{cp(data[:1]), cp(data[1:])}
			}
		}
		return mem.BufferSlice{cp(data)}
	}
	decode := func(mt protoreflect.MessageType, data []byte) (proto.Message, error) {
		m := mt.New().Interface()
		err := codec.Unmarshal(segment(data, 0), m)
		for k := 1; k <= 4; k++ {
			mk := mt.New().Interface()
			errk := codec.Unmarshal(segment(data, k), mk)
			if (errk == nil) != (err == nil) || (err == nil && !proto.Equal(m, mk)) {
				fmt.Fprintf(w, "CODEC %s segmentation %d of the same %d wire bytes decodes differently (one buffer: err=%v; cut: err=%v)\n", mt.Descriptor().Name(), k, len(data), err, errk)
			}
		}
		return m, err
	}
	std := func(mt protoreflect.MessageType, data []byte) (proto.Message, error) {
		m := mt.New().Interface()
		err := proto.Unmarshal(data, m)
		return m, err
	}
	for ri, r := range roots {
		paths := vpPaths(r.legacy, map[reflect.Type]bool{})
		if len(paths) == 0 {
			paths = [][]vpStep{nil}
		}
		for pi, path := range paths {
			for rep := 0; rep < reps; rep++ {
				rng := &vcRng{s: seed*7919 + uint64(ri)*104729 + uint64(pi)*31 + uint64(rep)}
				id := fmt.Sprintf("%s#%d#%d", r.legacy.Name(), pi, rep)
				mk := func(msgs []string) (common.Marshaler, reflect.Value) {
					var leaf, cur *failure122.Failure
					for _, m := range msgs {
						n := &failure122.Failure{Message: m, Source: "src"}
						if leaf == nil {
							leaf = n
						} else {
							cur.Cause = n
						}
						cur = n
					}
					var v reflect.Value
					if path == nil {
						v = reflect.New(r.legacy)
					} else {
						v = vpBuild(r.legacy, path, leaf)
					}
					vcDecorate(v, &vcRng{s: rng.s + 1}, 0)
					return v.Interface().(common.Marshaler), v
				}
				check := func(kind string, msg common.Marshaler, v reflect.Value, wantErr bool) {
					data, err := msg.Marshal()
					if err != nil {
						fmt.Fprintf(w, "CODEC %s %s MARSHAL %v\n", id, kind, err)
						return
					}
					got, gerr := decode(r.newMsg, data)
					stats[kind]++
					if wantErr {
						if gerr == nil {
							fmt.Fprintf(w, "CODEC %s %s accepted although it cannot be repaired\n", id, kind)
						}
						return
					}
					// reference: standard decode of the sanitised bytes
					vcSanitize(v, 0)
					sdata, _ := msg.Marshal()
					ref, rerr := std(r.newMsg, sdata)
					if rerr != nil {
						fmt.Fprintf(w, "CODEC %s %s REFERENCE-ERROR %v\n", id, kind, rerr)
						return
					}
					if gerr != nil {
						fmt.Fprintf(w, "CODEC %s %s rejected: %v\n", id, kind, gerr)
					} else if !proto.Equal(got, ref) {
						fmt.Fprintf(w, "CODEC %s %s decoded message differs from the reference\n", id, kind)
					}
				}
				// (a) valid data: exactly what the standard codec yields
				{
					msgs := []string{vcValid[rng.below(len(vcValid))], vcValid[rng.below(len(vcValid))]}
					m, v := mk(msgs)
					check("valid", m, v, false)
				}
				if path == nil {
					continue
				}
				// (b) invalid UTF-8 in failure messages, at one or several depths
				{
					msgs := []string{vcInvalid[rng.below(len(vcInvalid))]}
					for d := 0; d < rng.below(4); d++ {
						if rng.below(2) == 0 {
							msgs = append(msgs, vcInvalid[rng.below(len(vcInvalid))])
						} else {
							msgs = append(msgs, vcValid[rng.below(len(vcValid))])
						}
					}
					m, v := mk(msgs)
					check("invalid-failure", m, v, false)
				}
				// (c) chain at and beyond the supported depth
				for _, n := range []int{10, 11} {
					msgs := make([]string, n)
					for k := range msgs {
						msgs[k] = "ok"
					}
					msgs[n-1] = "deep \xff"
					m, v := mk(msgs)
					check(fmt.Sprintf("chain-%d", n), m, v, n > 10)
				}
				// (d) invalid UTF-8 in another string field: must be an error, never passed on
				{
					m, v := mk([]string{"fine"})
					if vcCorruptOther(v, 0) {
						check("invalid-other-field", m, v, true)
					}
				}
				// (e) truncated / garbled encodings: the codec errs iff the standard codec errs
				{
					m, _ := mk([]string{vcValid[rng.below(len(vcValid))]})
					data, _ := m.Marshal()
					if len(data) > 2 {
						cut := data[:1+rng.below(len(data)-1)]
						_, e1 := decode(r.newMsg, cut)
						_, e2 := std(r.newMsg, cut)
						stats["truncated"]++
						if (e1 == nil) != (e2 == nil) {
							fmt.Fprintf(w, "CODEC %s truncated codec-err=%v standard-err=%v\n", id, e1, e2)
						}
						g := append([]byte{}, data...)
						g[rng.below(len(g))] ^= byte(1 + rng.below(255))
						m1, e1 := decode(r.newMsg, g)
						m2, e2 := std(r.newMsg, g)
						stats["garbled"]++
						if e2 == nil && (e1 != nil || !proto.Equal(m1, m2)) {
							fmt.Fprintf(w, "CODEC %s garbled: standard codec accepts, repair codec differs (err=%v)\n", id, e1)
						}
					}
				}
			}
		}
	}
	parts := []string{"STATS", fmt.Sprintf("roots=%d", len(roots))}
	for _, k := range []string{"valid", "invalid-failure", "chain-10", "chain-11", "invalid-other-field", "truncated", "garbled"} {
		parts = append(parts, fmt.Sprintf("%s=%d", k, stats[k]))
	}
	fmt.Fprintln(w, strings.Join(parts, " "))
}
