//go:build verif

package compat

import (
	"encoding/json"
	"fmt"
	"go/ast"
	"go/parser"
	"go/token"
	"os"
	"path/filepath"
	"reflect"
	"runtime"
	"sort"
	"strings"
	"testing"

	_ "go.temporal.io/api/workflowservice/v1"
	_ "go.temporal.io/server/api/adminservice/v1"
	"google.golang.org/protobuf/reflect/protoreflect"
	"google.golang.org/protobuf/reflect/protoregistry"
)

// Translator (T) for C18: (1) the generated visitor RepairInvalidUTF8 read back from its source with go/ast as a set of
// access paths per root type, (2) the legacy (gogo 1.22) struct graph reachable from every type the conversion tables
// can produce, by reflection.

type vrStep struct {
	Op      string `json:"op"` // get | range | oneof
	Field   string `json:"field"`
	Wrapper string `json:"wrapper,omitempty"` // oneof: Go type of the selected wrapper
	WField  string `json:"wfield,omitempty"`  // oneof: the wrapper's field
}

type vrField struct {
	Go   string   `json:"go"`
	Kind string   `json:"kind"` // msg listmsg mapmsg oneof str other
	Msg  string   `json:"msg,omitempty"`
	Alts []string `json:"alts,omitempty"`
}
type vrType struct {
	Go      string    `json:"go"`
	Wrapper bool      `json:"wrapper,omitempty"`
	Fields  []vrField `json:"fields"`
}
type vrDump struct {
	Types    []vrType              `json:"types"`
	Roots    []string              `json:"roots"` // legacy types the conversion tables produce
	NewRoots map[string]string     `json:"newRoots"`
	Failure  string                `json:"failure"`
	IR       map[string][][]vrStep `json:"ir"` // root legacy type -> paths that end in a repair call
	IRErrors []string              `json:"irErrors"`
}

func vrTypeName(t reflect.Type) string {
	for t.Kind() == reflect.Ptr {
		t = t.Elem()
	}
	return t.PkgPath() + "." + t.Name()
}

func vrParseIR(file string, dump *vrDump) {
	fset := token.NewFileSet()
	f, err := parser.ParseFile(fset, file, nil, 0)
	if err != nil {
		dump.IRErrors = append(dump.IRErrors, err.Error())
		return
	}
	imports := map[string]string{}
	for _, im := range f.Imports {
		p := strings.Trim(im.Path.Value, `"`)
		name := filepath.Base(p)
		if im.Name != nil {
			name = im.Name.Name
		}
		imports[name] = p
	}
	typeName := func(e ast.Expr) string {
		if st, ok := e.(*ast.StarExpr); ok {
			e = st.X
		}
		if se, ok := e.(*ast.SelectorExpr); ok {
			if id, ok := se.X.(*ast.Ident); ok {
				return imports[id.Name] + "." + se.Sel.Name
			}
		}
		return fmt.Sprintf("?%T", e)
	}
	var fn *ast.FuncDecl
	for _, d := range f.Decls {
		if fd, ok := d.(*ast.FuncDecl); ok && fd.Name.Name == "RepairInvalidUTF8" {
			fn = fd
		}
	}
	if fn == nil {
		dump.IRErrors = append(dump.IRErrors, "RepairInvalidUTF8 not found")
		return
	}
	// x.GetF() -> (x, F)
	getter := func(e ast.Expr) (string, string, bool) {
		ce, ok := e.(*ast.CallExpr)
		if !ok || len(ce.Args) != 0 {
			return "", "", false
		}
		se, ok := ce.Fun.(*ast.SelectorExpr)
		if !ok || !strings.HasPrefix(se.Sel.Name, "Get") {
			return "", "", false
		}
		id, ok := se.X.(*ast.Ident)
		if !ok {
			return "", "", false
		}
		return id.Name, strings.TrimPrefix(se.Sel.Name, "Get"), true
	}
	var walk func(root string, stmts []ast.Stmt, env map[string][]vrStep)
	walk = func(root string, stmts []ast.Stmt, env map[string][]vrStep) {
		cp := func(p []vrStep, s ...vrStep) []vrStep { return append(append([]vrStep{}, p...), s...) }
		for _, st := range stmts {
			switch s := st.(type) {
			case *ast.AssignStmt:
				if len(s.Lhs) == 1 && len(s.Rhs) == 1 {
					lhs, _ := s.Lhs[0].(*ast.Ident)
					if v, fld, ok := getter(s.Rhs[0]); ok && lhs != nil {
						if p, known := env[v]; known {
							env[lhs.Name] = cp(p, vrStep{Op: "get", Field: fld})
							continue
						}
					}
					if se, ok := s.Rhs[0].(*ast.SelectorExpr); ok && lhs != nil {
						if id, ok := se.X.(*ast.Ident); ok {
							if p, known := env[id.Name]; known && len(p) > 0 && p[len(p)-1].Op == "oneof" && p[len(p)-1].WField == "" {
								np := cp(p)
								np[len(np)-1].WField = se.Sel.Name
								env[lhs.Name] = np
								continue
							}
						}
					}
				}
				dump.IRErrors = append(dump.IRErrors, fmt.Sprintf("%s: unrecognised assignment at %s", root, fset.Position(s.Pos())))
			case *ast.RangeStmt:
				val, _ := s.Value.(*ast.Ident)
				if v, fld, ok := getter(s.X); ok && val != nil {
					if p, known := env[v]; known {
						env2 := map[string][]vrStep{}
						for k, vv := range env {
							env2[k] = vv
						}
						env2[val.Name] = cp(p, vrStep{Op: "range", Field: fld})
						walk(root, s.Body.List, env2)
						continue
					}
				}
				dump.IRErrors = append(dump.IRErrors, fmt.Sprintf("%s: unrecognised range at %s", root, fset.Position(s.Pos())))
			case *ast.TypeSwitchStmt:
				as, ok := s.Assign.(*ast.AssignStmt)
				if !ok || len(as.Lhs) != 1 {
					dump.IRErrors = append(dump.IRErrors, fmt.Sprintf("%s: unrecognised type switch at %s", root, fset.Position(s.Pos())))
					continue
				}
				bind := as.Lhs[0].(*ast.Ident).Name
				ta, ok := as.Rhs[0].(*ast.TypeAssertExpr)
				if !ok {
					continue
				}
				v, fld, ok := getter(ta.X)
				p, known := env[v]
				if !ok || !known {
					dump.IRErrors = append(dump.IRErrors, fmt.Sprintf("%s: unrecognised type switch subject at %s", root, fset.Position(s.Pos())))
					continue
				}
				for _, c := range s.Body.List {
					cc := c.(*ast.CaseClause)
					for _, te := range cc.List {
						env2 := map[string][]vrStep{}
						for k, vv := range env {
							env2[k] = vv
						}
						env2[bind] = cp(p, vrStep{Op: "oneof", Field: fld, Wrapper: typeName(te)})
						walk(root, cc.Body, env2)
					}
				}
			case *ast.IfStmt:
				// if changed, err := repairInvalidUTF8InFailure(v); err != nil || changed { ... }
				if as, ok := s.Init.(*ast.AssignStmt); ok && len(as.Rhs) == 1 {
					if ce, ok := as.Rhs[0].(*ast.CallExpr); ok {
						if id, ok := ce.Fun.(*ast.Ident); ok && id.Name == "repairInvalidUTF8InFailure" && len(ce.Args) == 1 {
							if arg, ok := ce.Args[0].(*ast.Ident); ok {
								if p, known := env[arg.Name]; known {
									dump.IR[root] = append(dump.IR[root], cp(p))
									continue
								}
							}
						}
					}
				}
				dump.IRErrors = append(dump.IRErrors, fmt.Sprintf("%s: unrecognised if at %s", root, fset.Position(s.Pos())))
			default:
				dump.IRErrors = append(dump.IRErrors, fmt.Sprintf("%s: unrecognised statement %T at %s", root, st, fset.Position(st.Pos())))
			}
		}
	}
	for _, st := range fn.Body.List {
		ts, ok := st.(*ast.TypeSwitchStmt)
		if !ok {
			continue
		}
		bind := ts.Assign.(*ast.AssignStmt).Lhs[0].(*ast.Ident).Name
		for _, c := range ts.Body.List {
			cc := c.(*ast.CaseClause)
			for _, te := range cc.List {
				root := typeName(te)
				if _, ok := dump.IR[root]; !ok {
					dump.IR[root] = [][]vrStep{}
				}
				walk(root, cc.Body, map[string][]vrStep{bind: {}})
			}
		}
	}
}

func TestVerifRepairDump(t *testing.T) {
	_, w, done := verifIO(t)
	defer done()
	dump := vrDump{IR: map[string][][]vrStep{}, NewRoots: map[string]string{}}
	_, thisFile, _, _ := runtime.Caller(0)
	_ = thisFile
	src := os.Getenv("VERIF_REPAIR_SRC")
	vrParseIR(src, &dump)
	// roots: every legacy type the conversion tables return, probed with every message type of both services
	seen := map[reflect.Type]bool{}
	var queue []reflect.Type
	push := func(rt reflect.Type) {
		for rt.Kind() == reflect.Ptr {
			rt = rt.Elem()
		}
		if rt.Kind() == reflect.Struct && !seen[rt] {
			seen[rt] = true
			queue = append(queue, rt)
		}
	}
	for _, svc := range []string{"temporal.server.api.adminservice.v1.AdminService", "temporal.api.workflowservice.v1.WorkflowService"} {
		d, err := protoregistry.GlobalFiles.FindDescriptorByName(protoreflect.FullName(svc))
		if err != nil {
			t.Fatal(err)
		}
		ms := d.(protoreflect.ServiceDescriptor).Methods()
		for i := 0; i < ms.Len(); i++ {
			for _, md := range []protoreflect.MessageDescriptor{ms.Get(i).Input(), ms.Get(i).Output()} {
				mt, err := protoregistry.GlobalTypes.FindMessageByName(md.FullName())
				if err != nil {
					continue
				}
				v := mt.New().Interface()
				m122, ok := adminConvertTo122(v)
				if !ok {
					m122, ok = frontendConvertTo122(v)
				}
				if ok && m122 != nil {
					rt := reflect.TypeOf(m122)
					push(rt)
					dump.Roots = append(dump.Roots, vrTypeName(rt))
					dump.NewRoots[vrTypeName(rt)] = string(md.FullName())
				}
			}
		}
	}
	// every root of the visitor is a root too (history events are repaired on their own in blobs)
	for len(queue) > 0 {
		rt := queue[0]
		queue = queue[1:]
		vt := vrType{Go: vrTypeName(rt)}
		var wrappers []interface{}
		if ow, ok := reflect.New(rt).Interface().(interface{ XXX_OneofWrappers() []interface{} }); ok {
			wrappers = ow.XXX_OneofWrappers()
		}
		hasTag := false
		for i := 0; i < rt.NumField(); i++ {
			sf := rt.Field(i)
			if !sf.IsExported() || strings.HasPrefix(sf.Name, "XXX_") {
				continue
			}
			if sf.Tag.Get("protobuf") != "" || sf.Tag.Get("protobuf_oneof") != "" {
				hasTag = true
			}
			f := vrField{Go: sf.Name, Kind: "other"}
			ft := sf.Type
			switch ft.Kind() {
			case reflect.String:
				f.Kind = "str"
			case reflect.Ptr:
				if ft.Elem().Kind() == reflect.Struct {
					f.Kind, f.Msg = "msg", vrTypeName(ft)
					push(ft)
				}
			case reflect.Struct:
				f.Kind, f.Msg = "msg", vrTypeName(ft)
				push(ft)
			case reflect.Slice:
				et := ft.Elem()
				if et.Kind() == reflect.Ptr && et.Elem().Kind() == reflect.Struct {
					f.Kind, f.Msg = "listmsg", vrTypeName(et)
					push(et)
				} else if et.Kind() == reflect.Struct {
					f.Kind, f.Msg = "listmsg", vrTypeName(et)
					push(et)
				}
			case reflect.Map:
				vt2 := ft.Elem()
				if vt2.Kind() == reflect.Ptr && vt2.Elem().Kind() == reflect.Struct {
					f.Kind, f.Msg = "mapmsg", vrTypeName(vt2)
					push(vt2)
				}
			case reflect.Interface:
				f.Kind = "oneof"
				for _, wv := range wrappers {
					wt := reflect.TypeOf(wv)
					if wt.Implements(ft) {
						f.Alts = append(f.Alts, vrTypeName(wt))
						push(wt)
					}
				}
			}
			vt.Fields = append(vt.Fields, f)
		}
		_ = hasTag
		if len(wrappers) == 0 && rt.NumField() == 1 && strings.Contains(rt.Name(), "_") {
			vt.Wrapper = true
		}
		dump.Types = append(dump.Types, vt)
	}
	dump.Failure = "github.com/temporalio/s2s-proxy/proto/1_22/api/failure/v1.Failure"
	sort.Slice(dump.Types, func(i, j int) bool { return dump.Types[i].Go < dump.Types[j].Go })
	sort.Strings(dump.Roots)
	if err := json.NewEncoder(w).Encode(dump); err != nil {
		t.Fatal(err)
	}
}
