//go:build verif

package encryption

import (
	"crypto/ecdsa"
	"crypto/elliptic"
	"crypto/rand"
	"crypto/tls"
	"crypto/x509"
	"crypto/x509/pkix"
	"encoding/pem"
	"fmt"
	"math/big"
	"net"
	"os"
	"path/filepath"
	"testing"
	"time"

	"go.temporal.io/server/common/log"
)

// C19 harness: (1) the fields of the tls.Config the real builders return for every configuration shape,
// (2) real handshakes for the cross product of peer credentials x shapes x roles.
//
//	CFG role cert ca name skip             -> CFG <disabled|error|fields>
//	HS  role cert ca name skip credential  -> HS admit|refuse|n/a
//
// role: server | client.  cert/ca/name/skip: 0|1.

const vtServerName = "proxy.verif.test"

type vtPKI struct {
	dir         string
	caPath      string
	otherCAPath string
	ownCert     string
	ownKey      string
	ca, otherCA *x509.Certificate
	caKey       *ecdsa.PrivateKey
	otherCAKey  *ecdsa.PrivateKey
	hostCA      *x509.Certificate // the only CA of the host's trust store, as this process sees it
	hostCAKey   *ecdsa.PrivateKey
	oldCA       *x509.Certificate // the CA the bundle at caPath held before the last ROTATE
	oldCAKey    *ecdsa.PrivateKey
	serial      int64
}

func (p *vtPKI) newCA(cn string) (*x509.Certificate, *ecdsa.PrivateKey, []byte) {
	key, _ := ecdsa.GenerateKey(elliptic.P256(), rand.Reader)
	p.serial++
	tmpl := &x509.Certificate{SerialNumber: big.NewInt(p.serial), Subject: pkix.Name{CommonName: cn},
		NotBefore: time.Now().Add(-24 * time.Hour), NotAfter: time.Now().Add(24 * time.Hour),
		IsCA: true, BasicConstraintsValid: true, KeyUsage: x509.KeyUsageCertSign | x509.KeyUsageDigitalSignature}
	der, _ := x509.CreateCertificate(rand.Reader, tmpl, tmpl, &key.PublicKey, key)
	cert, _ := x509.ParseCertificate(der)
	return cert, key, pem.EncodeToMemory(&pem.Block{Type: "CERTIFICATE", Bytes: der})
}

type vtLeafOpt struct {
	selfSigned bool
	otherCA    bool
	hostCA     bool
	oldCA      bool
	notBefore  time.Time
	notAfter   time.Time
	eku        []x509.ExtKeyUsage
	dns        string
}

func (p *vtPKI) leaf(o vtLeafOpt) tls.Certificate {
	key, _ := ecdsa.GenerateKey(elliptic.P256(), rand.Reader)
	p.serial++
	if o.notBefore.IsZero() {
		o.notBefore = time.Now().Add(-time.Hour)
	}
	if o.notAfter.IsZero() {
		o.notAfter = time.Now().Add(time.Hour)
	}
	if o.eku == nil {
		o.eku = []x509.ExtKeyUsage{x509.ExtKeyUsageClientAuth, x509.ExtKeyUsageServerAuth}
	}
	tmpl := &x509.Certificate{SerialNumber: big.NewInt(p.serial), Subject: pkix.Name{CommonName: "leaf"},
		NotBefore: o.notBefore, NotAfter: o.notAfter, KeyUsage: x509.KeyUsageDigitalSignature, ExtKeyUsage: o.eku}
	if o.dns != "" {
		tmpl.DNSNames = []string{o.dns}
	}
	parent, pkey := p.ca, p.caKey
	if o.otherCA {
		parent, pkey = p.otherCA, p.otherCAKey
	}
	if o.hostCA {
		parent, pkey = p.hostCA, p.hostCAKey
	}
	if o.oldCA && p.oldCA != nil {
		parent, pkey = p.oldCA, p.oldCAKey
	}
	var der []byte
	if o.selfSigned {
		der, _ = x509.CreateCertificate(rand.Reader, tmpl, tmpl, &key.PublicKey, key)
	} else {
		der, _ = x509.CreateCertificate(rand.Reader, tmpl, parent, &key.PublicKey, pkey)
	}
	return tls.Certificate{Certificate: [][]byte{der}, PrivateKey: key}
}

func newVtPKI(t *testing.T) *vtPKI {
	p := &vtPKI{dir: t.TempDir(), serial: 100}
	var caPEM, otherPEM []byte
	p.ca, p.caKey, caPEM = p.newCA("verif-ca")
	p.otherCA, p.otherCAKey, otherPEM = p.newCA("other-ca")
	// the host's trust store of this process: one throw-away CA.  crypto/x509 reads the store once, on first use, from
	// SSL_CERT_FILE / SSL_CERT_DIR; nothing in this test binary has used it yet.
	var hostPEM []byte
	p.hostCA, p.hostCAKey, hostPEM = p.newCA("host-store-ca")
	storeDir := filepath.Join(p.dir, "host-store")
	_ = os.MkdirAll(filepath.Join(storeDir, "certs"), 0o700)
	_ = os.WriteFile(filepath.Join(storeDir, "bundle.pem"), hostPEM, 0o600)
	_ = os.Setenv("SSL_CERT_FILE", filepath.Join(storeDir, "bundle.pem"))
	_ = os.Setenv("SSL_CERT_DIR", filepath.Join(storeDir, "certs"))
	p.caPath = filepath.Join(p.dir, "ca.pem")
	p.otherCAPath = filepath.Join(p.dir, "other-ca.pem")
	_ = os.WriteFile(p.caPath, caPEM, 0o600)
	_ = os.WriteFile(p.otherCAPath, otherPEM, 0o600)
	own := p.leaf(vtLeafOpt{dns: vtServerName})
	p.ownCert = filepath.Join(p.dir, "own.pem")
	p.ownKey = filepath.Join(p.dir, "own.key")
	_ = os.WriteFile(p.ownCert, pem.EncodeToMemory(&pem.Block{Type: "CERTIFICATE", Bytes: own.Certificate[0]}), 0o600)
	kb, _ := x509.MarshalECPrivateKey(own.PrivateKey.(*ecdsa.PrivateKey))
	_ = os.WriteFile(p.ownKey, pem.EncodeToMemory(&pem.Block{Type: "EC PRIVATE KEY", Bytes: kb}), 0o600)
	return p
}

func (p *vtPKI) shape(cert, ca, name, skip bool) TLSConfig {
	c := TLSConfig{SkipCAVerification: skip}
	if cert {
		c.CertificatePath, c.KeyPath = p.ownCert, p.ownKey
	}
	if ca {
		c.RemoteCAPath = p.caPath
	}
	if name {
		c.CAServerName = vtServerName
	}
	return c
}

// credentials a peer may present; nil certificate = presents nothing
func (p *vtPKI) credentials(role string) map[string]*tls.Certificate {
	mk := func(o vtLeafOpt) *tls.Certificate { c := p.leaf(o); return &c }
	name := ""
	if role == "client" {
		name = vtServerName // the peer is a server: it needs a name
	}
	creds := map[string]*tls.Certificate{
		"valid":          mk(vtLeafOpt{dns: name}),
		"selfsigned":     mk(vtLeafOpt{selfSigned: true, dns: name}),
		"otherca":        mk(vtLeafOpt{otherCA: true, dns: name}),
		"hostca":         mk(vtLeafOpt{hostCA: true, dns: name}), // issued by a CA of the host's trust store
		"oldca":          mk(vtLeafOpt{oldCA: true, dns: name, selfSigned: p.oldCA == nil}), // issued by the CA the bundle held before it was replaced
		"expired1h":      mk(vtLeafOpt{dns: name, notBefore: time.Now().Add(-48 * time.Hour), notAfter: time.Now().Add(-time.Hour)}),
		"expired90s":     mk(vtLeafOpt{dns: name, notBefore: time.Now().Add(-48 * time.Hour), notAfter: time.Now().Add(-90 * time.Second)}),
		"notyetvalid90s": mk(vtLeafOpt{dns: name, notBefore: time.Now().Add(90 * time.Second), notAfter: time.Now().Add(48 * time.Hour)}),
		"none":           nil,
	}
	if role == "server" {
		creds["wrongusage"] = mk(vtLeafOpt{eku: []x509.ExtKeyUsage{x509.ExtKeyUsageServerAuth}})
	} else {
		creds["wrongusage"] = mk(vtLeafOpt{dns: name, eku: []x509.ExtKeyUsage{x509.ExtKeyUsageClientAuth}})
		creds["wrongname"] = mk(vtLeafOpt{dns: "someone-else.verif.test"})
		delete(creds, "none") // a TLS server always presents a certificate
	}
	return creds
}

func vtExchange(server, client *tls.Conn) bool {
	type res struct{ err error }
	sch, cch := make(chan res, 1), make(chan res, 1)
	deadline := time.Now().Add(5 * time.Second)
	_ = server.SetDeadline(deadline)
	_ = client.SetDeadline(deadline)
	go func() {
		if err := server.Handshake(); err != nil {
			sch <- res{err}
			return
		}
		b := make([]byte, 1)
		if _, err := server.Read(b); err != nil {
			sch <- res{err}
			return
		}
		_, err := server.Write([]byte{'s'})
		sch <- res{err}
	}()
	go func() {
		if err := client.Handshake(); err != nil {
			cch <- res{err}
			return
		}
		if _, err := client.Write([]byte{'c'}); err != nil {
			cch <- res{err}
			return
		}
		b := make([]byte, 1)
		_, err := client.Read(b)
		cch <- res{err}
	}()
	s, c := <-sch, <-cch
	_ = server.Close()
	_ = client.Close()
	return s.err == nil && c.err == nil
}

func vtPipe() (net.Conn, net.Conn) {
	l, _ := net.Listen("tcp", "127.0.0.1:0")
	defer l.Close()
	ch := make(chan net.Conn, 1)
	go func() { c, _ := l.Accept(); ch <- c }()
	c, _ := net.Dial("tcp", l.Addr().String())
	return <-ch, c
}

func TestVerifTLS(t *testing.T) {
	sc, w, done := verifIO(t)
	defer done()
	pki := newVtPKI(t)
	b := func(s string) bool { return s == "1" }
	bit := func(v bool) int {
		if v {
			return 1
		}
		return 0
	}
	for sc.Scan() {
		f := verifFields(sc.Text())
		if len(f) == 1 && f[0] == "ROTATE" {
			// the CA bundle at the configured path is replaced by another CA (certificate rotation); the proxy's own
			// certificate is re-issued by it.  Configurations built from now on must trust the new CA and only it.
			pki.oldCA, pki.oldCAKey = pki.ca, pki.caKey
			var pem2 []byte
			pki.ca, pki.caKey, pem2 = pki.newCA("verif-ca-rotated")
			_ = os.WriteFile(pki.caPath, pem2, 0o600)
			own := pki.leaf(vtLeafOpt{dns: vtServerName})
			_ = os.WriteFile(pki.ownCert, pem.EncodeToMemory(&pem.Block{Type: "CERTIFICATE", Bytes: own.Certificate[0]}), 0o600)
			kb, _ := x509.MarshalECPrivateKey(own.PrivateKey.(*ecdsa.PrivateKey))
			_ = os.WriteFile(pki.ownKey, pem.EncodeToMemory(&pem.Block{Type: "EC PRIVATE KEY", Bytes: kb}), 0o600)
			fmt.Fprintln(w, "ROTATE ok")
			continue
		}
		if len(f) < 6 {
			continue
		}
		role := f[1]
		shape := pki.shape(b(f[2]), b(f[3]), b(f[4]), b(f[5]))
		switch f[0] {
		case "CFG":
			if role == "server" {
				cfg, err := GetServerTLSConfig(shape, log.NewNoopLogger())
				switch {
				case err != nil:
					fmt.Fprintln(w, "CFG error")
				case cfg == nil:
					fmt.Fprintln(w, "CFG disabled")
				default:
					casOK := cfg.ClientCAs != nil && cfg.ClientCAs.Equal(func() *x509.CertPool { p := x509.NewCertPool(); p.AddCert(pki.ca); return p }())
					fmt.Fprintf(w, "CFG auth=%d cas=%d cert=%d time=%d insecure=%d minver=%d\n", int(cfg.ClientAuth), bit(casOK), bit(len(cfg.Certificates) > 0),
						bit(cfg.Time != nil), bit(cfg.InsecureSkipVerify), bit(cfg.MinVersion >= tls.VersionTLS12 || cfg.MinVersion == 0))
				}
			} else {
				cfg, err := GetClientTLSConfig(shape)
				switch {
				case err != nil:
					fmt.Fprintln(w, "CFG error")
				case cfg == nil:
					fmt.Fprintln(w, "CFG disabled")
				default:
					rootsOK := cfg.RootCAs != nil && cfg.RootCAs.Equal(func() *x509.CertPool { p := x509.NewCertPool(); p.AddCert(pki.ca); return p }())
					fmt.Fprintf(w, "CFG insecure=%d name=%d roots=%d cert=%d time=%d hooks=%d\n", bit(cfg.InsecureSkipVerify), bit(cfg.ServerName == vtServerName), bit(rootsOK),
						bit(len(cfg.Certificates) > 0), bit(cfg.Time != nil), bit(cfg.VerifyPeerCertificate != nil || cfg.VerifyConnection != nil))
				}
			}
		case "HS":
			cred, known := pki.credentials(role)[f[6]]
			if !known {
				fmt.Fprintln(w, "HS n/a")
				continue
			}
			if role == "server" {
				cfg, err := GetServerTLSConfig(shape, log.NewNoopLogger())
				if err != nil || cfg == nil {
					fmt.Fprintln(w, "HS n/a")
					continue
				}
				sconn, cconn := vtPipe()
				ccfg := &tls.Config{InsecureSkipVerify: true}
				if cred != nil {
					// a client that sends its certificate regardless of the CA hint
					ccfg.GetClientCertificate = func(*tls.CertificateRequestInfo) (*tls.Certificate, error) { return cred, nil }
				}
				if vtExchange(tls.Server(sconn, cfg), tls.Client(cconn, ccfg)) {
					fmt.Fprintln(w, "HS admit")
				} else {
					fmt.Fprintln(w, "HS refuse")
				}
			} else {
				cfg, err := GetClientTLSConfig(shape)
				if err != nil || cfg == nil {
					fmt.Fprintln(w, "HS n/a")
					continue
				}
				sconn, cconn := vtPipe()
				scfg := &tls.Config{Certificates: []tls.Certificate{*cred}, ClientAuth: tls.NoClientCert}
				if vtExchange(tls.Server(sconn, scfg), tls.Client(cconn, cfg)) {
					fmt.Fprintln(w, "HS admit")
				} else {
					fmt.Fprintln(w, "HS refuse")
				}
			}
		}
	}
}
