//go:build verif

package grpcutil

import "sort"

// VerifConnKeys exposes the dialable key set of a MultiClientConn to the /verif harness (overlay-injected, never in /repo).
func VerifConnKeys(mcc *MultiClientConn) []string {
	mcc.connMapLock.RLock()
	defer mcc.connMapLock.RUnlock()
	keys := make([]string, 0, len(mcc.connMap))
	for k := range mcc.connMap {
		keys = append(keys, k)
	}
	sort.Strings(keys)
	return keys
}
