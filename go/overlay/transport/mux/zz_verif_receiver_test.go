//go:build verif

package mux

// C10 on the REAL receiver-role provider (NewMuxReceiverProvider: TCP listener, optional TLS wrapper, yamux server), in real
// time over loopback TCP.  Every row runs a pool of two slots: a healthy peer takes one slot, then a faulty peer shows up,
// then another healthy peer.  Whatever the faulty peer does (or does not do), its attempt has to be abandoned by the provider
// itself, its connection closed and its slot reused, so that the pool is back at full strength while the healthy peer is
// reachable; shutdown then closes every harness-side end.
//
// input: one line per row   RR <name> tls=<0|1> fault=<silent|garbage|tlssilent|hangup|partial>
// output per row:           ROW <name> first=<live> healed=<0|1> ms=<time to heal> max=<max live seen> badclosed=<0|1> shut=<0|1> live=<after shutdown>

import (
	"context"
	"crypto/ecdsa"
	"crypto/elliptic"
	"crypto/rand"
	"crypto/tls"
	"crypto/x509"
	"crypto/x509/pkix"
	"encoding/pem"
	"fmt"
	"io"
	"math/big"
	"net"
	"os"
	"path/filepath"
	"runtime"
	"strings"
	"sync"
	"testing"
	"time"

	"github.com/hashicorp/yamux"
	"go.temporal.io/server/common/log"
	"google.golang.org/grpc"

	"github.com/temporalio/s2s-proxy/config"
	"github.com/temporalio/s2s-proxy/encryption"
	"github.com/temporalio/s2s-proxy/transport/mux/session"
)

func vrrCert(dir string) (string, string, error) {
	key, err := ecdsa.GenerateKey(elliptic.P256(), rand.Reader)
	if err != nil {
		return "", "", err
	}
	tmpl := &x509.Certificate{
		SerialNumber: big.NewInt(1), Subject: pkix.Name{CommonName: "verif-receiver"},
		NotBefore: time.Now().Add(-time.Hour), NotAfter: time.Now().Add(time.Hour),
		KeyUsage: x509.KeyUsageDigitalSignature | x509.KeyUsageCertSign, ExtKeyUsage: []x509.ExtKeyUsage{x509.ExtKeyUsageServerAuth},
		BasicConstraintsValid: true, IsCA: true, IPAddresses: []net.IP{net.ParseIP("127.0.0.1")},
	}
	der, err := x509.CreateCertificate(rand.Reader, tmpl, tmpl, &key.PublicKey, key)
	if err != nil {
		return "", "", err
	}
	kd, err := x509.MarshalECPrivateKey(key)
	if err != nil {
		return "", "", err
	}
	cp, kp := filepath.Join(dir, "server.pem"), filepath.Join(dir, "server.key")
	if err := os.WriteFile(cp, pem.EncodeToMemory(&pem.Block{Type: "CERTIFICATE", Bytes: der}), 0o600); err != nil {
		return "", "", err
	}
	if err := os.WriteFile(kp, pem.EncodeToMemory(&pem.Block{Type: "EC PRIVATE KEY", Bytes: kd}), 0o600); err != nil {
		return "", "", err
	}
	return cp, kp, nil
}

func vrrLive(m MultiMuxManager) int {
	n := 0
	for _, s := range m.GetMuxConnections() {
		if !s.IsClosed() {
			n++
		}
	}
	return n
}

func vrrGood(addr string, useTLS bool) (*yamux.Session, error) {
	raw, err := net.DialTimeout("tcp", addr, 5*time.Second)
	if err != nil {
		return nil, err
	}
	var c net.Conn = raw
	if useTLS {
		c = tls.Client(raw, &tls.Config{InsecureSkipVerify: true})
	}
	cfg := yamux.DefaultConfig()
	cfg.LogOutput = io.Discard
	cfg.EnableKeepAlive = false
	cfg.ConnectionWriteTimeout = time.Minute
	return yamux.Client(c, cfg)
}

func vrrRow(name string, useTLS bool, fault, certPath, keyPath string) string {
	const size = 2
	logger := log.NewNoopLogger()
	setting := config.TCPTLSInfo{ConnectionString: "127.0.0.1:0"}
	if useTLS {
		setting.TLSConfig = encryption.TLSConfig{CertificatePath: certPath, KeyPath: keyPath, SkipCAVerification: true}
	}
	builder := func(cb AddNewMux, lifetime context.Context) (MuxProvider, error) {
		return NewMuxReceiverProvider(lifetime, "verif-"+name, cb, size, setting, []string{"verif", "mux", "receiver"}, logger)
	}
	ctx, cancel := context.WithCancel(context.Background())
	defer cancel()
	mgr, err := NewCustomMultiMuxManager(ctx, "verif-"+name, builder, []session.StartManagedComponentFn{}, []OnConnectionListUpdate{func(map[string]session.ManagedMuxSession) {}}, logger)
	if err != nil {
		return fmt.Sprintf("ROW %s error=%v", name, err)
	}
	mgr.Start()
	addr := mgr.Address()
	maxLive := 0
	stopSample := make(chan struct{})
	var sampleWg sync.WaitGroup
	sampleWg.Add(1)
	go func() {
		defer sampleWg.Done()
		for {
			select {
			case <-stopSample:
				return
			case <-time.After(5 * time.Millisecond):
				if n := len(mgr.GetMuxConnections()); n > maxLive {
					maxLive = n
				}
			}
		}
	}()
	waitLive := func(n int, d time.Duration) (bool, time.Duration) {
		start := time.Now()
		for time.Since(start) < d {
			if vrrLive(mgr) == n {
				return true, time.Since(start)
			}
			time.Sleep(20 * time.Millisecond)
		}
		return false, d
	}
	first, err := vrrGood(addr, useTLS)
	if err != nil {
		return fmt.Sprintf("ROW %s error=%v", name, err)
	}
	waitLive(1, 5*time.Second)
	firstLive := vrrLive(mgr)

	// the faulty peer
	bad, err := net.DialTimeout("tcp", addr, 5*time.Second)
	if err != nil {
		return fmt.Sprintf("ROW %s error=%v", name, err)
	}
	badClosed := make(chan struct{})
	drain := func(c net.Conn) {
		defer close(badClosed)
		buf := make([]byte, 4096)
		for {
			if _, err := c.Read(buf); err != nil {
				return
			}
		}
	}
	switch fault {
	case "silent":
		go drain(bad)
	case "garbage":
		_, _ = bad.Write([]byte("GET / HTTP/1.1\r\nHost: x\r\n\r\n"))
		go drain(bad)
	case "partial":
		// the first three bytes of a TLS record header (or of a yamux header), then nothing
		_, _ = bad.Write([]byte{0x16, 0x03, 0x01})
		go drain(bad)
	case "tlssilent":
		// completes the TLS handshake, never speaks yamux
		tc := tls.Client(bad, &tls.Config{InsecureSkipVerify: true})
		go func() {
			_ = tc.Handshake()
			drain(tc)
		}()
	case "hangup":
		_ = bad.Close()
		close(badClosed)
	}
	time.Sleep(300 * time.Millisecond)
	second, err := vrrGood(addr, useTLS)
	if err != nil {
		return fmt.Sprintf("ROW %s error=%v", name, err)
	}
	healed, took := waitLive(size, 16*time.Second)
	bc := 0
	select {
	case <-badClosed:
		bc = 1
	case <-time.After(2 * time.Second):
	}
	cancel()
	shut := 0
	select {
	case <-mgr.CloseChan():
		shut = 1
	case <-time.After(5 * time.Second):
	}
	deadline := time.Now().Add(5 * time.Second)
	for time.Now().Before(deadline) && !(first.IsClosed() && second.IsClosed()) {
		time.Sleep(20 * time.Millisecond)
	}
	if !(first.IsClosed() && second.IsClosed()) {
		shut = 0
	}
	close(stopSample)
	sampleWg.Wait()
	_ = bad.Close()
	h := 0
	if healed {
		h = 1
	}
	return fmt.Sprintf("ROW %s first=%d healed=%d ms=%d max=%d badclosed=%d shut=%d live=%d", name, firstLive, h, took.Milliseconds(), maxLive, bc, shut, vrrLive(mgr))
}

// churn: sessions come and go on a pool of three while other goroutines keep asking the manager to describe itself (the
// proxy logs its configuration, the debug endpoint renders it): nothing may wedge the session table
func vrrChurn(name string) string {
	const size = 3
	logger := log.NewNoopLogger()
	setting := config.TCPTLSInfo{ConnectionString: "127.0.0.1:0"}
	builder := func(cb AddNewMux, lifetime context.Context) (MuxProvider, error) {
		return NewMuxReceiverProvider(lifetime, "verif-"+name, cb, size, setting, []string{"verif", "mux", "churn"}, logger)
	}
	ctx, cancel := context.WithCancel(context.Background())
	defer cancel()
	mgr, err := NewCustomMultiMuxManager(ctx, "verif-"+name, builder, []session.StartManagedComponentFn{}, []OnConnectionListUpdate{func(map[string]session.ManagedMuxSession) {}}, logger)
	if err != nil {
		return fmt.Sprintf("ROW %s error=%v", name, err)
	}
	mgr.Start()
	addr := mgr.Address()
	stop := make(chan struct{})
	var described [8]int64
	var pwg sync.WaitGroup
	for p := 0; p < len(described); p++ {
		pwg.Add(1)
		go func(p int) {
			defer pwg.Done()
			for {
				select {
				case <-stop:
					return
				default:
				}
				_ = mgr.Describe()
				_ = mgr.CanAcceptConnections()
				described[p]++
				runtime.Gosched()
			}
		}(p)
	}
	waitLive := func(n int) bool {
		deadline := time.Now().Add(3 * time.Second)
		for time.Now().Before(deadline) {
			ch := make(chan int, 1)
			go func() { ch <- vrrLive(mgr) }()
			select {
			case got := <-ch:
				if got == n {
					return true
				}
			case <-time.After(time.Until(deadline)):
				return false
			}
			time.Sleep(2 * time.Millisecond)
		}
		return false
	}
	var peers []*yamux.Session
	stalled := ""
	for k := 0; k < size && stalled == ""; k++ {
		s, err := vrrGood(addr, false)
		if err != nil {
			return fmt.Sprintf("ROW %s error=%v", name, err)
		}
		peers = append(peers, s)
		if !waitLive(k + 1) {
			stalled = fmt.Sprintf("fill%d", k)
		}
	}
	cycles := 0
	for ; cycles < 60 && stalled == ""; cycles++ {
		_ = peers[0].Close()
		peers = peers[1:]
		if !waitLive(size - 1) {
			stalled = fmt.Sprintf("remove@%d", cycles)
			break
		}
		s, err := vrrGood(addr, false)
		if err != nil {
			stalled = fmt.Sprintf("dial@%d", cycles)
			break
		}
		peers = append(peers, s)
		if !waitLive(size) {
			stalled = fmt.Sprintf("add@%d", cycles)
		}
	}
	close(stop)
	pdone := make(chan struct{})
	go func() { pwg.Wait(); close(pdone) }()
	describeOK := 1
	select {
	case <-pdone:
	case <-time.After(3 * time.Second):
		describeOK = 0
	}
	cancel()
	shut := 0
	select {
	case <-mgr.CloseChan():
		shut = 1
	case <-time.After(5 * time.Second):
	}
	for _, s := range peers {
		_ = s.Close()
	}
	if stalled == "" {
		stalled = "-"
	}
	return fmt.Sprintf("ROW %s cycles=%d stalled=%s describe=%d shut=%d", name, cycles, stalled, describeOK, shut)
}

func TestVerifReceiverRole(t *testing.T) {
	scn, w, done := verifIO(t)
	defer done()
	cp, kp, err := vrrCert(t.TempDir())
	if err != nil {
		t.Fatal(err)
	}
	var rows [][]string
	for scn.Scan() {
		f := strings.Fields(scn.Text())
		if len(f) >= 4 && f[0] == "RR" {
			rows = append(rows, f)
		}
	}
	res := make([]string, len(rows))
	var wg sync.WaitGroup
	for i, f := range rows {
		wg.Add(1)
		go func(i int, f []string) {
			defer wg.Done()
			defer func() {
				if r := recover(); r != nil {
					res[i] = fmt.Sprintf("ROW %s PANIC %v", f[1], r)
				}
			}()
			if strings.TrimPrefix(f[3], "fault=") == "churn" {
				res[i] = vrrChurn(f[1])
				return
			}
			res[i] = vrrRow(f[1], strings.TrimPrefix(f[2], "tls=") == "1", strings.TrimPrefix(f[3], "fault="), cp, kp)
		}(i, f)
	}
	wg.Wait()
	for _, l := range res {
		fmt.Fprintln(w, l)
	}
}

// The configured pool size as the proxy's configuration layer hands it to the providers (NewGRPCMuxManager from a
// config.ClusterDefinition): for both roles and muxCount 0 (unset: the documented default of 10), 1, 2, 3, 7, 16 the number
// of connection permits of the provider that was built.
//
// output: MUXCOUNT role=<server|client> configured=<n> permits=<k>
type vrrNoListener struct{}

func (vrrNoListener) OnConnectionListUpdate(map[string]session.ManagedMuxSession) {}

func TestVerifMuxCountConfig(t *testing.T) {
	_, w, done := verifIO(t)
	defer done()
	for _, role := range []config.ConnectionType{config.ConnTypeMuxServer, config.ConnTypeMuxClient} {
		for _, n := range []int{0, 1, 2, 3, 7, 16} {
			ctx, cancel := context.WithCancel(context.Background())
			cd := config.ClusterDefinition{ConnectionType: role, MuxCount: n, MuxAddressInfo: config.TCPTLSInfo{ConnectionString: "127.0.0.1:0"}}
			mgr, err := NewGRPCMuxManager(ctx, "verif-count", cd, vrrNoListener{}, grpc.NewServer(), log.NewNoopLogger())
			if err != nil {
				fmt.Fprintf(w, "MUXCOUNT role=%s configured=%d error=%v\n", role, n, err)
				cancel()
				continue
			}
			p := mgr.(*multiMuxManager).muxProvider.(*muxProvider)
			permits := 0
			for k := 64; k >= 1; k-- {
				if p.muxPermits.TryAcquire(int64(k)) {
					p.muxPermits.Release(int64(k))
					permits = k
					break
				}
			}
			name := "server"
			if role == config.ConnTypeMuxClient {
				name = "client"
			}
			fmt.Fprintf(w, "MUXCOUNT role=%s configured=%d permits=%d\n", name, n, permits)
			cancel()
			mgr.Start() // lets the manager observe the cancelled lifetime and release the listener
		}
	}
}
