//go:build verif

package mux

// C19 on the REAL mux listener (NewMuxReceiverProvider): for every shape of the TLS block, which peers get a mux session
// registered - a peer speaking plain yamux, and TLS peers presenting a certificate of the configured CA, a self-signed
// one, or none.
//
// input:   MX <cert> <ca> <name> <skip>                (0|1 each, as in the C19 handshake matrix)
// output:  MX <cert> <ca> <name> <skip> build=ok|error plain=admit|refuse valid=.. selfsigned=.. none=..

import (
	"context"
	"crypto/ecdsa"
	"crypto/elliptic"
	"crypto/rand"
	"crypto/tls"
	"crypto/x509"
	"crypto/x509/pkix"
	"encoding/pem"
	"fmt"
	"io"
	"math/big"
	"net"
	"os"
	"path/filepath"
	"strings"
	"sync"
	"testing"
	"time"

	"github.com/hashicorp/yamux"
	"go.temporal.io/server/common/log"

	"github.com/temporalio/s2s-proxy/config"
	"github.com/temporalio/s2s-proxy/encryption"
	"github.com/temporalio/s2s-proxy/transport/mux/session"
)

type vxPKI struct {
	caPath, certPath, keyPath string
	ca                        *x509.Certificate
	caKey                     *ecdsa.PrivateKey
	serial                    int64
}

func (p *vxPKI) issue(selfSigned bool, cn string) tls.Certificate {
	key, _ := ecdsa.GenerateKey(elliptic.P256(), rand.Reader)
	p.serial++
	tmpl := &x509.Certificate{SerialNumber: big.NewInt(p.serial), Subject: pkix.Name{CommonName: cn},
		NotBefore: time.Now().Add(-time.Hour), NotAfter: time.Now().Add(time.Hour), KeyUsage: x509.KeyUsageDigitalSignature,
		ExtKeyUsage: []x509.ExtKeyUsage{x509.ExtKeyUsageClientAuth, x509.ExtKeyUsageServerAuth}, IPAddresses: []net.IP{net.ParseIP("127.0.0.1")},
		DNSNames: []string{"proxy.verif.test"}}
	var der []byte
	if selfSigned {
		der, _ = x509.CreateCertificate(rand.Reader, tmpl, tmpl, &key.PublicKey, key)
	} else {
		der, _ = x509.CreateCertificate(rand.Reader, tmpl, p.ca, &key.PublicKey, p.caKey)
	}
	return tls.Certificate{Certificate: [][]byte{der}, PrivateKey: key}
}

func newVxPKI(dir string) *vxPKI {
	p := &vxPKI{serial: 10}
	p.caKey, _ = ecdsa.GenerateKey(elliptic.P256(), rand.Reader)
	tmpl := &x509.Certificate{SerialNumber: big.NewInt(1), Subject: pkix.Name{CommonName: "verif-mux-ca"},
		NotBefore: time.Now().Add(-24 * time.Hour), NotAfter: time.Now().Add(24 * time.Hour), IsCA: true, BasicConstraintsValid: true,
		KeyUsage: x509.KeyUsageCertSign | x509.KeyUsageDigitalSignature}
	der, _ := x509.CreateCertificate(rand.Reader, tmpl, tmpl, &p.caKey.PublicKey, p.caKey)
	p.ca, _ = x509.ParseCertificate(der)
	p.caPath = filepath.Join(dir, "ca.pem")
	_ = os.WriteFile(p.caPath, pem.EncodeToMemory(&pem.Block{Type: "CERTIFICATE", Bytes: der}), 0o600)
	own := p.issue(false, "listener")
	p.certPath, p.keyPath = filepath.Join(dir, "own.pem"), filepath.Join(dir, "own.key")
	_ = os.WriteFile(p.certPath, pem.EncodeToMemory(&pem.Block{Type: "CERTIFICATE", Bytes: own.Certificate[0]}), 0o600)
	kb, _ := x509.MarshalECPrivateKey(own.PrivateKey.(*ecdsa.PrivateKey))
	_ = os.WriteFile(p.keyPath, pem.EncodeToMemory(&pem.Block{Type: "EC PRIVATE KEY", Bytes: kb}), 0o600)
	return p
}

// one peer against one freshly started listener of the given shape: "admit" iff a mux session gets registered
func vxTry(p *vxPKI, shape encryption.TLSConfig, peer string, creds map[string]*tls.Certificate) string {
	logger := log.NewNoopLogger()
	builder := func(cb AddNewMux, lifetime context.Context) (MuxProvider, error) {
		return NewMuxReceiverProvider(lifetime, "verif-muxtls", cb, 1, config.TCPTLSInfo{ConnectionString: "127.0.0.1:0", TLSConfig: shape},
			[]string{"verif", "mux", "tls"}, logger)
	}
	ctx, cancel := context.WithCancel(context.Background())
	defer cancel()
	mgr, err := NewCustomMultiMuxManager(ctx, "verif-muxtls", builder, []session.StartManagedComponentFn{},
		[]OnConnectionListUpdate{func(map[string]session.ManagedMuxSession) {}}, logger)
	if err != nil {
		return "builderror"
	}
	mgr.Start()
	raw, err := net.DialTimeout("tcp", mgr.Address(), 3*time.Second)
	if err != nil {
		return "dialerror"
	}
	defer raw.Close()
	var c net.Conn = raw
	if peer != "plain" {
		cfg := &tls.Config{InsecureSkipVerify: true}
		if cert := creds[peer]; cert != nil {
			cfg.GetClientCertificate = func(*tls.CertificateRequestInfo) (*tls.Certificate, error) { return cert, nil }
		}
		c = tls.Client(raw, cfg)
	}
	ycfg := yamux.DefaultConfig()
	ycfg.LogOutput = io.Discard
	ycfg.EnableKeepAlive = false
	sess, err := yamux.Client(c, ycfg)
	if err == nil {
		defer sess.Close()
	}
	deadline := time.Now().Add(3 * time.Second)
	for time.Now().Before(deadline) {
		n := 0
		for _, s := range mgr.GetMuxConnections() {
			if !s.IsClosed() {
				n++
			}
		}
		if n > 0 {
			return "admit"
		}
		if err != nil || (sess != nil && sess.IsClosed()) {
			return "refuse"
		}
		time.Sleep(10 * time.Millisecond)
	}
	return "refuse"
}

func TestVerifMuxTLSShapes(t *testing.T) {
	scn, w, done := verifIO(t)
	defer done()
	pki := newVxPKI(t.TempDir())
	valid, self := pki.issue(false, "peer"), pki.issue(true, "peer-self")
	creds := map[string]*tls.Certificate{"valid": &valid, "selfsigned": &self, "none": nil}
	var rows [][]string
	for scn.Scan() {
		f := strings.Fields(scn.Text())
		if len(f) == 5 && f[0] == "MX" {
			rows = append(rows, f)
		}
	}
	peers := []string{"plain", "valid", "selfsigned", "none"}
	res := make([]map[string]string, len(rows))
	var wg sync.WaitGroup
	var mu sync.Mutex
	for i, f := range rows {
		res[i] = map[string]string{}
		shape := encryption.TLSConfig{SkipCAVerification: f[4] == "1"}
		if f[1] == "1" {
			shape.CertificatePath, shape.KeyPath = pki.certPath, pki.keyPath
		}
		if f[2] == "1" {
			shape.RemoteCAPath = pki.caPath
		}
		if f[3] == "1" {
			shape.CAServerName = "proxy.verif.test"
		}
		for _, peer := range peers {
			wg.Add(1)
			go func(i int, peer string, shape encryption.TLSConfig) {
				defer wg.Done()
				r := vxTry(pki, shape, peer, creds)
				mu.Lock()
				res[i][peer] = r
				mu.Unlock()
			}(i, peer, shape)
		}
	}
	wg.Wait()
	for i, f := range rows {
		build := "ok"
		if res[i]["plain"] == "builderror" {
			build = "error"
		}
		fmt.Fprintf(w, "MX %s %s %s %s build=%s plain=%s valid=%s selfsigned=%s none=%s\n", f[1], f[2], f[3], f[4], build,
			res[i]["plain"], res[i]["valid"], res[i]["selfsigned"], res[i]["none"])
	}
}
