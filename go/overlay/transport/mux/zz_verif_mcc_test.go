//go:build verif

package mux

import (
	"context"
	"fmt"
	"net"
	"sort"
	"strings"
	"testing"
	"time"

	"google.golang.org/grpc"
	"google.golang.org/grpc/codes"
	"google.golang.org/grpc/health"
	healthpb "google.golang.org/grpc/health/grpc_health_v1"
	"google.golang.org/grpc/status"

	"github.com/temporalio/s2s-proxy/metrics"
	"github.com/temporalio/s2s-proxy/transport/grpcutil"
	"github.com/temporalio/s2s-proxy/transport/mux/session"
)

// C11 harness: the pool of zz_verif_pool_test.go with a real MultiClientConn as connection-list listener.  The peer of
// every session serves a gRPC health service on its yamux session, so RPCs through the MultiClientConn really travel over
// the mux sessions.  Header "N <size> slow=0|1": with slow=1 a first listener delays removal notifications by one second
// (the listener is called under the manager's lock, so nothing may overtake it).
//
//	KA r|l <conn> <sess> <ping>   a session dies and, 100ms later, an attempt becomes possible
//	C                             one RPC through the MultiClientConn
//	I                             a quiet period longer than the channel's idle timeout (header idle=1)
//	H | HR                        the newest session's health check records a failed ping (session stays open) / a good one again
//
// after every event: "= sessions=<ids> dialable=<ids> can=<0|1>" (+ " rpc=<code>" for C)
func vcScenario(lines []string, out func(string)) {
	f0 := strings.Fields(lines[0])
	slow := len(f0) > 2 && f0[2] == "slow=1"
	vmRealSettle = 250 * time.Millisecond
	if slow {
		vmRealSettle = 700 * time.Millisecond
	}
	ctx, cancel := context.WithCancel(context.Background())
	defer cancel()
	dialOpts := grpcutil.MakeDialOptions(nil, metrics.GetGRPCClientMetrics("outbound"))
	if len(f0) > 3 && f0[3] == "idle=1" {
		// gRPC lets a channel go idle after a period without RPCs (30 minutes by default) and rebuilds its resolver on the
		// next call; a short period stands in for it
		dialOpts = append(dialOpts, grpc.WithIdleTimeout(300*time.Millisecond))
	}
	mcc, err := grpcutil.NewMultiClientConn(ctx, "verif-mcc", dialOpts...)
	if err != nil {
		out("SETUP error " + err.Error())
		return
	}
	prev := 0
	first := func(m map[string]session.ManagedMuxSession) {
		if slow && len(m) < prev {
			time.Sleep(400 * time.Millisecond)
		}
		prev = len(m)
	}
	var mgrRef MultiMuxManager
	lastRPC := ""
	snapshot := func() string {
		var ids []string
		if mgrRef != nil {
			for id := range mgrRef.GetMuxConnections() {
				ids = append(ids, id)
			}
		}
		sort.Strings(ids)
		can := 0
		if mcc.CanMakeCalls() {
			can = 1
		}
		s := fmt.Sprintf("= sessions=%s dialable=%s can=%d", strings.Join(ids, ","), strings.Join(grpcutil.VerifConnKeys(mcc), ","), can)
		if lastRPC != "" {
			s += " rpc=" + lastRPC
			lastRPC = ""
		}
		return s
	}
	inner := func(s string) {
		if strings.HasPrefix(s, "= ") {
			out(snapshot())
		} else if !strings.HasPrefix(s, "FINAL") {
			out(s)
		}
	}
	listener := func(m map[string]session.ManagedMuxSession) {
		first(m)
		mcc.OnConnectionListUpdate(m)
	}
	extra := func(env *vmEnv, mgr MultiMuxManager, f []string) bool {
		mgrRef = mgr
		switch f[0] {
		case "KA":
			conns := mgr.GetMuxConnections()
			var ids []string
			for id := range conns {
				ids = append(ids, id)
			}
			sort.Strings(ids)
			if len(ids) > 0 {
				if f[1] == "l" {
					conns[ids[0]].Close()
				} else {
					env.mu.Lock()
					for c, p := range env.peers {
						if sessionConn(conns[ids[0]]) == c && p.session != nil {
							_ = p.session.Close()
							_ = p.conn.Close()
						}
					}
					env.mu.Unlock()
				}
			}
			time.Sleep(50 * time.Millisecond)
			var a vmAttempt
			fmt.Sscanf(f[2]+" "+f[3]+" "+f[4], "%d %d %d", &a.conn, &a.sess, &a.ping)
			env.offers <- a
			return true
		case "H", "HR":
			// the health check of the first registered session reports a failed ping (the session stays open) / recovers
			conns := mgr.GetMuxConnections()
			var ids []string
			for id := range conns {
				ids = append(ids, id)
			}
			sort.Strings(ids)
			if len(ids) > 0 {
				session.VerifMarkPingFailed(conns[ids[len(ids)-1]], f[0] == "H")
			}
			return true
		case "I":
			// a quiet period longer than the idle timeout
			time.Sleep(900 * time.Millisecond)
			return true
		case "C":
			var pre []string
			for id := range mgr.GetMuxConnections() {
				pre = append(pre, id)
			}
			sort.Strings(pre)
			cctx, ccancel := context.WithTimeout(ctx, 1500*time.Millisecond)
			_, err := healthpb.NewHealthClient(mcc).Check(cctx, &healthpb.HealthCheckRequest{})
			ccancel()
			lastRPC = status.Code(err).String()
			if status.Code(err) == codes.DeadlineExceeded {
				lastRPC = "Unavailable" // no endpoint within the deadline
			}
			lastRPC += " pre=" + strings.Join(pre, ",")
			return true
		}
		return false
	}
	vcServe = func(p *vmPeer) {
		srv := grpc.NewServer()
		healthpb.RegisterHealthServer(srv, health.NewServer())
		go func() { _ = srv.Serve(p.session) }()
		go func() { <-p.session.CloseChan(); srv.Stop() }()
	}
	defer func() { vcServe = nil }()
	// the manager reference is needed before the first event: run the scenario with a hook that records it
	vmScenarioWithHook(lines, inner, listener, extra, func(m MultiMuxManager) { mgrRef = m })
	_ = mcc.Close()
}

func TestVerifMcc(t *testing.T) {
	scenarios, emit, done := vmReadScenarios(t)
	defer done()
	results := make([][]string, len(scenarios))
	vmRealTime = true
	defer func() { vmRealTime = false }()
	for i, lines := range scenarios {
		var buf []string
		func() {
			defer func() {
				if r := recover(); r != nil {
					buf = append(buf, fmt.Sprintf("PANIC %v", r))
				}
			}()
			vcScenario(lines, func(s string) { buf = append(buf, s) })
		}()
		results[i] = buf
		emit(i, buf) // at once: the output tells which scenario was running if the process dies
	}
}

// A session that is registered and alive but whose Open() does not return (a peer that stopped accepting streams): the dial
// gRPC makes on it is parked.  Whatever happens to that dial, the next session-list update must be applied, the state must
// stay readable and calls must go to the other session.
//
// output: PARK entered=<0|1> update=ok|blocked can=ok|blocked rpc=<code>
func TestVerifMccParkedDial(t *testing.T) {
	_, w, done := verifIO(t)
	defer done()
	ctx, cancel := context.WithCancel(context.Background())
	defer cancel()
	lis, err := net.Listen("tcp", "127.0.0.1:0")
	if err != nil {
		t.Fatal(err)
	}
	srv := grpc.NewServer()
	healthpb.RegisterHealthServer(srv, health.NewServer())
	go func() { _ = srv.Serve(lis) }()
	defer srv.Stop()
	mcc, err := grpcutil.NewMultiClientConn(ctx, "verif-park", grpcutil.MakeDialOptions(nil, metrics.GetGRPCClientMetrics("outbound"))...)
	if err != nil {
		t.Fatal(err)
	}
	release := make(chan struct{})
	entered := make(chan struct{}, 16)
	parked := func() (net.Conn, error) {
		select {
		case entered <- struct{}{}:
		default:
		}
		<-release
		return nil, fmt.Errorf("verif: session closed")
	}
	good := func() (net.Conn, error) { return net.Dial("tcp", lis.Addr().String()) }
	mcc.UpdateState(map[string]func() (net.Conn, error){"0": parked})
	// a call makes the channel connect: its dial on session 0 parks
	go func() {
		c, cc := context.WithTimeout(ctx, 8*time.Second)
		defer cc()
		_, _ = healthpb.NewHealthClient(mcc).Check(c, &healthpb.HealthCheckRequest{})
	}()
	ent := 0
	select {
	case <-entered:
		ent = 1
	case <-time.After(3 * time.Second):
	}
	within := func(d time.Duration, f func()) string {
		ch := make(chan struct{})
		go func() { f(); close(ch) }()
		select {
		case <-ch:
			return "ok"
		case <-time.After(d):
			return "blocked"
		}
	}
	upd := within(2*time.Second, func() { mcc.UpdateState(map[string]func() (net.Conn, error){"0": parked, "1": good}) })
	can := within(2*time.Second, func() { _ = mcc.CanMakeCalls() })
	code := codes.Unknown
	if upd == "ok" {
		// calls must resume over session 1 while the dial on session 0 is still parked
		deadline := time.Now().Add(4 * time.Second)
		for time.Now().Before(deadline) {
			c, cc := context.WithTimeout(ctx, time.Second)
			_, e := healthpb.NewHealthClient(mcc).Check(c, &healthpb.HealthCheckRequest{})
			cc()
			code = status.Code(e)
			if code == codes.OK {
				break
			}
			time.Sleep(50 * time.Millisecond)
		}
	}
	close(release)
	fmt.Fprintf(w, "PARK entered=%d update=%s can=%s rpc=%d\n", ent, upd, can, int(code))
}
