//go:build verif

package mux

import (
	"context"
	"errors"
	"fmt"
	"io"
	"net"
	"os"
	"sort"
	"strings"
	"sync"
	"sync/atomic"
	"testing"
	"testing/synctest"
	"time"

	"github.com/hashicorp/yamux"
	"go.temporal.io/server/common/channel"
	"go.temporal.io/server/common/log"
	"golang.org/x/sync/semaphore"

	"github.com/temporalio/s2s-proxy/config"
	"github.com/temporalio/s2s-proxy/transport/mux/session"
)

// C10 / C11 harness: the real muxProvider + multiMuxManager + managed sessions over net.Pipe with a fault-injecting
// connection provider and session factory, all scenarios inside ONE synctest bubble (yamux keeps a process-global
// timer pool).
//
//	N <size>                 new pool
//	A <conn> <sess> <ping>   the environment makes one connection attempt possible; 1/0 per stage (ping: 1 ok, 0 peer hangs up, 2 peer silent,
//	                         3 = the peer answers the first ping and dies before the session is registered)
//	K r|l                    a registered session dies: closed by the remote peer / locally
//	KS                       the peer of a registered session goes silent without closing anything (header role=establisher:
//	                         the session factory, hence the yamux keep-alive configuration, is the real constructor's)
//	X                        the lifetime ends
//	E                        end of scenario
//
// after every event:  "= live=<registered sessions> open=<connections not closed by the pool> accept=<0|1>"
type vmAttempt struct{ conn, sess, ping int }

type vmConn struct {
	net.Conn
	closed *atomic.Bool
}

func (c *vmConn) Close() error {
	c.closed.Store(true)
	return c.Conn.Close()
}

type vmPeer struct {
	conn    net.Conn
	session *yamux.Session
	hole    *vmHoleConn
}

// vmHoleConn is the peer's end of the pipe; once silenced it swallows what it is sent and never delivers or sends anything
// again, without closing (a peer that went away behind a firewall).
type vmHoleConn struct {
	net.Conn
	silent atomic.Bool
	gone   chan struct{}
	once   sync.Once
}

func (c *vmHoleConn) Read(b []byte) (int, error) {
	for {
		if c.silent.Load() {
			<-c.gone
			return 0, io.EOF
		}
		_ = c.Conn.SetReadDeadline(time.Now().Add(500 * time.Millisecond))
		n, err := c.Conn.Read(b)
		if c.silent.Load() {
			continue // whatever arrived after the peer went silent is lost
		}
		if err != nil && errors.Is(err, os.ErrDeadlineExceeded) {
			continue
		}
		return n, err
	}
}

func (c *vmHoleConn) Write(b []byte) (int, error) {
	if c.silent.Load() {
		return len(b), nil
	}
	return c.Conn.Write(b)
}

func (c *vmHoleConn) Close() error {
	c.once.Do(func() { close(c.gone) })
	if c.silent.Load() {
		return nil // a peer that vanished sends no FIN either
	}
	return c.Conn.Close()
}

type vmEnv struct {
	mu       sync.Mutex
	lifetime context.Context
	offers   chan vmAttempt
	byConn   map[net.Conn]vmAttempt
	flags    []*atomic.Bool
	peers    map[net.Conn]*vmPeer // keyed by the pool-side conn
	cancel   context.CancelFunc
	role     string // "" = the harness's own session factory; establisher | receiver = the real constructor's
}

func (e *vmEnv) NewConnection() (net.Conn, error) {
	select {
	case <-e.lifetime.Done():
		return nil, e.lifetime.Err()
	case a := <-e.offers:
		if a.conn == 0 {
			return nil, errors.New("verif: dial/accept failed")
		}
		if a.conn == 2 && e.cancel != nil {
			// the lifetime ends while the establisher is completing: a live connection is still returned
			e.cancel()
		}
		poolSide, peerSide := net.Pipe()
		flag := &atomic.Bool{}
		c := &vmConn{Conn: poolSide, closed: flag}
		peer := &vmPeer{conn: peerSide}
		e.mu.Lock()
		e.byConn[c] = a
		e.flags = append(e.flags, flag)
		e.peers[c] = peer
		e.mu.Unlock()
		switch {
		case a.sess == 0:
			// the session factory will fail; the peer just waits for the pool to hang up
			go func() { buf := make([]byte, 16); _, _ = peerSide.Read(buf) }()
		case a.ping == 1 || a.ping == 3:
			cfg := yamux.DefaultConfig()
			cfg.LogOutput = nil
			cfg.Logger = wrapLoggerForYamux{logger: log.NewNoopLogger()}
			if e.role != "" {
				cfg.EnableKeepAlive = false // the peer's own keep-alive must not do the pool's detecting for it
			}
			hole := &vmHoleConn{Conn: peerSide, gone: make(chan struct{})}
			peer.hole = hole
			var s *yamux.Session
			var err error
			if e.role == "establisher" {
				s, err = yamux.Server(hole, cfg) // the pool side is the yamux client
			} else {
				s, err = yamux.Client(hole, cfg)
			}
			if err == nil {
				peer.session = s
				if vcServe != nil {
					vcServe(peer)
				}
			}
		case a.ping == 0:
			_ = peerSide.Close()
		default:
			// silent peer: swallows bytes, never answers
			go func() {
				buf := make([]byte, 4096)
				for {
					if _, err := peerSide.Read(buf); err != nil {
						return
					}
				}
			}()
		}
		return c, nil
	}
}
func (e *vmEnv) CloseCh() <-chan struct{} { ch := make(chan struct{}); close(ch); return ch }
func (e *vmEnv) Address() string          { return "verif-pipe" }

func (e *vmEnv) openCount() int {
	e.mu.Lock()
	defer e.mu.Unlock()
	n := 0
	for _, f := range e.flags {
		if !f.Load() {
			n++
		}
	}
	return n
}

// when set, every peer session that answers pings also serves something on its yamux session (C11)
var vcServe func(*vmPeer)

// C11 runs in real time (gRPC's client internals hold locks across goroutine hand-offs, which a synctest bubble cannot wait out)
var vmRealTime bool
var vmRealSettle = 250 * time.Millisecond

func vmScenario(lines []string, out func(string), listener OnConnectionListUpdate, extra func(*vmEnv, MultiMuxManager, []string) bool) {
	vmScenarioWithHook(lines, out, listener, extra, nil)
}

func vmScenarioWithHook(lines []string, out func(string), listener OnConnectionListUpdate, extra func(*vmEnv, MultiMuxManager, []string) bool, hook func(MultiMuxManager)) {
	f0 := strings.Fields(lines[0])
	var size int64
	fmt.Sscanf(f0[1], "%d", &size)
	ctx, cancel := context.WithCancel(context.Background())
	env := &vmEnv{lifetime: ctx, offers: make(chan vmAttempt, 1024), byConn: map[net.Conn]vmAttempt{}, peers: map[net.Conn]*vmPeer{}, cancel: cancel}
	for _, opt := range f0[2:] {
		if strings.HasPrefix(opt, "role=") {
			env.role = strings.TrimPrefix(opt, "role=")
		}
	}
	builder := func(cb AddNewMux, lifetime context.Context) (MuxProvider, error) {
		// with role=..., the session factory (and with it the yamux configuration) is the one the real constructor builds
		var realSessionFn func(net.Conn) (*yamux.Session, error)
		switch env.role {
		case "establisher":
			rp, err := NewMuxEstablisherProvider(lifetime, "verif-real", cb, size, config.TCPTLSInfo{ConnectionString: "127.0.0.1:1"}, []string{"verif", "mux", "pool"}, log.NewNoopLogger())
			if err != nil {
				return nil, err
			}
			realSessionFn = rp.(*muxProvider).sessionFn
		}
		return &muxProvider{
			name:         "verif-provider",
			connProvider: env,
			sessionFn: func(conn net.Conn) (*yamux.Session, error) {
				env.mu.Lock()
				a := env.byConn[conn]
				env.mu.Unlock()
				if a.sess == 0 {
					return nil, errors.New("verif: yamux setup failed")
				}
				if realSessionFn != nil {
					return realSessionFn(conn)
				}
				cfg := yamux.DefaultConfig()
				cfg.LogOutput = nil
				cfg.Logger = wrapLoggerForYamux{logger: log.NewNoopLogger()}
				return yamux.Server(conn, cfg)
			},
			addNewMux: func(ys *yamux.Session, c net.Conn) {
				env.mu.Lock()
				a, peer := env.byConn[c], env.peers[c]
				env.mu.Unlock()
				if a.ping == 3 && peer != nil && peer.session != nil {
					// fault injected between the successful first Ping and the registration
					_ = peer.session.Close()
					_ = peer.conn.Close()
					<-ys.CloseChan()
				}
				cb(ys, c)
			},
			muxPermits:   semaphore.NewWeighted(size),
			metricLabels: []string{"verif", "mux", "pool"},
			logger:       log.NewNoopLogger(),
			lifetime:     lifetime,
			hasCleanedUp: channel.NewShutdownOnce(),
		}, nil
	}
	listeners := []OnConnectionListUpdate{}
	if listener != nil {
		listeners = append(listeners, listener)
	}
	mgr, err := NewCustomMultiMuxManager(ctx, "verif", builder, []session.StartManagedComponentFn{}, listeners, log.NewNoopLogger())
	if err != nil {
		out("SETUP error " + err.Error())
		cancel()
		return
	}
	mm := mgr.(*multiMuxManager)
	if hook != nil {
		hook(mgr)
	}
	mm.muxProvider.Start()
	settle := func() {
		if vmRealTime {
			time.Sleep(vmRealSettle)
			return
		}
		time.Sleep(45 * time.Second)
		synctest.Wait()
	}
	report := func(tag string) {
		acc := 0
		if mgr.CanAcceptConnections() {
			acc = 1
		}
		out(tag)
		zombies := 0
		env.mu.Lock()
		for _, ms := range mgr.GetMuxConnections() {
			if p := env.peers[sessionConn(ms)]; p != nil && p.hole != nil && p.hole.silent.Load() {
				zombies++
			}
		}
		env.mu.Unlock()
		line := fmt.Sprintf("= live=%d open=%d accept=%d", len(mgr.GetMuxConnections()), env.openCount(), acc)
		if zombies > 0 {
			line += fmt.Sprintf(" zombie=%d", zombies)
		}
		out(line)
	}
	settle()
	report("N")
	killRound := 0
	for _, line := range lines[1:] {
		f := strings.Fields(line)
		if len(f) == 0 {
			continue
		}
		switch f[0] {
		case "A":
			var a vmAttempt
			fmt.Sscanf(f[1]+" "+f[2]+" "+f[3], "%d %d %d", &a.conn, &a.sess, &a.ping)
			env.offers <- a
		case "K":
			conns := mgr.GetMuxConnections()
			ids := make([]string, 0, len(conns))
			for id := range conns {
				ids = append(ids, id)
			}
			sort.Strings(ids)
			if len(ids) > 0 {
				id := ids[killRound%len(ids)]
				killRound++
				if f[1] == "l" {
					conns[id].Close()
				} else {
					// remote close: find the peer of this session's connection and hang up
					ms := conns[id].(interface {
						GetConnectionInfo() (net.Addr, net.Addr)
					})
					_ = ms
					env.mu.Lock()
					for c, p := range env.peers {
						if vc, ok := c.(*vmConn); ok && !vc.closed.Load() && p.session != nil && !p.session.IsClosed() {
							if sessionConn(conns[id]) == c {
								_ = p.session.Close()
								_ = p.conn.Close()
							}
						}
					}
					env.mu.Unlock()
				}
			}
		case "KS":
			// the peer of a registered session goes silent: nothing is answered any more, nothing is closed
			conns := mgr.GetMuxConnections()
			ids := make([]string, 0, len(conns))
			for id := range conns {
				ids = append(ids, id)
			}
			sort.Strings(ids)
			if len(ids) > 0 {
				env.mu.Lock()
				if p := env.peers[sessionConn(conns[ids[0]])]; p != nil && p.hole != nil {
					p.hole.silent.Store(true)
				}
				env.mu.Unlock()
			}
		case "X":
			cancel()
		default:
			if extra != nil && extra(env, mgr, f) {
				break
			}
		}
		settle()
		report(f[0])
	}
	// end of scenario: shut everything down and check that nothing stays open
	cancel()
	select {
	case <-mgr.CloseChan():
	case <-time.After(5 * time.Minute):
		out("FINAL manager did not shut down")
	}
	settle()
	out(fmt.Sprintf("FINAL live=%d open=%d", len(mgr.GetMuxConnections()), env.openCount()))
	env.mu.Lock()
	for _, p := range env.peers {
		if p.session != nil {
			_ = p.session.Close()
		}
		_ = p.conn.Close()
	}
	env.mu.Unlock()
	settle()
}

// the pool-side net.Conn of a managed session (white-box)
func sessionConn(s session.ManagedMuxSession) net.Conn {
	return session.VerifConnOf(s)
}

func vmReadScenarios(t *testing.T) ([][]string, func(int, []string), func()) {
	scn, w, done := verifIO(t)
	var scenarios [][]string
	for scn.Scan() {
		line := strings.TrimSpace(scn.Text())
		if line == "" {
			continue
		}
		if strings.HasPrefix(line, "N ") {
			scenarios = append(scenarios, nil)
		}
		if len(scenarios) > 0 {
			scenarios[len(scenarios)-1] = append(scenarios[len(scenarios)-1], line)
		}
	}
	emit := func(i int, buf []string) {
		fmt.Fprintf(w, "# scenario %d\n", i)
		for _, l := range buf {
			fmt.Fprintln(w, l)
		}
		fmt.Fprintln(w, "#end")
	}
	return scenarios, emit, done
}

func TestVerifPool(t *testing.T) {
	scenarios, emit, done := vmReadScenarios(t)
	defer done()
	results := make([][]string, len(scenarios))
	func() {
		defer func() {
			if r := recover(); r != nil {
				for i := range results {
					if results[i] == nil {
						results[i] = []string{fmt.Sprintf("PANIC %v", r)}
					}
				}
			}
		}()
		synctest.Test(t, func(t *testing.T) {
			for i, lines := range scenarios {
				var buf []string
				vmScenario(lines, func(s string) { buf = append(buf, s) }, nil, nil)
				results[i] = buf
				emit(i, buf) // at once: the output tells which scenario was running if the process dies
			}
		})
	}()
	for i, buf := range results {
		if len(buf) == 1 && strings.HasPrefix(buf[0], "PANIC ") {
			emit(i, buf)
		}
	}
}
