//go:build verif

package session

import "net"

// VerifConnOf exposes the pool-side connection of a managed session to the /verif harness (overlay-injected, never in /repo).
func VerifConnOf(s ManagedMuxSession) net.Conn {
	if ms, ok := s.(*muxSession); ok {
		return ms.conn
	}
	return nil
}
