//go:build verif

package session

import "net"

// VerifConnOf exposes the pool-side connection of a managed session to the /verif harness (overlay-injected, never in /repo).
func VerifConnOf(s ManagedMuxSession) net.Conn {
	if ms, ok := s.(*muxSession); ok {
		return ms.conn
	}
	return nil
}

// VerifMarkPingFailed puts an open session into the state its health check leaves behind when a ping times out without the
// session closing (State = Error): exactly what healthCheck stores.
func VerifMarkPingFailed(s ManagedMuxSession, failed bool) {
	if ms, ok := s.(*muxSession); ok {
		old := ms.state.Load()
		if old != nil && old.State == Closed {
			return
		}
		if failed {
			ms.state.Store(&MuxSessionInfo{State: Error, Err: net.ErrClosed})
		} else {
			ms.state.Store(&MuxSessionInfo{State: Connected})
		}
	}
}
