//go:build verif

package collect

import (
	"fmt"
	"sort"
	"strconv"
	"strings"
	"testing"
)

// B k:v,k:v,...   ->  B err | B ok fwd=k:v,... inv=v:k,...   (sorted)
func TestVerifBimap(t *testing.T) {
	sc, w, done := verifIO(t)
	defer done()
	for sc.Scan() {
		f := verifFields(sc.Text())
		if len(f) == 0 {
			continue
		}
		type kv struct{ k, v int }
		var pairs []kv
		if len(f) > 1 && f[1] != "-" {
			for _, p := range strings.Split(f[1], ",") {
				a := strings.SplitN(p, ":", 2)
				k, _ := strconv.Atoi(a[0])
				v, _ := strconv.Atoi(a[1])
				pairs = append(pairs, kv{k, v})
			}
		}
		bm, err := NewStaticBiMap(func(yield func(int, int) bool) {
			for _, p := range pairs {
				if !yield(p.k, p.v) {
					return
				}
			}
		}, len(pairs))
		if err != nil {
			fmt.Fprintln(w, "B err")
			continue
		}
		dump := func(m map[int]int) string {
			var keys []int
			for k := range m {
				keys = append(keys, k)
			}
			sort.Ints(keys)
			var parts []string
			for _, k := range keys {
				parts = append(parts, fmt.Sprintf("%d:%d", k, m[k]))
			}
			return strings.Join(parts, ",")
		}
		fmt.Fprintf(w, "B ok fwd=%s inv=%s len=%d\n", dump(bm.AsMap()), dump(bm.Inverse().AsMap()), bm.Len())
	}
}
