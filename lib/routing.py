"""Shared engine for the routing-mode properties C01-C04: history generators (driven through the
extracted model so that targets can follow Temporal's ack behaviour), execution on the real
streamRouting pairs (synctest bubble), canonicalisation, and the executable monitors."""
import hashlib
import os
import re
import subprocess

from . import vfcore as V

GO_FILES = ["zz_verif_fakes_test.go", "zz_verif_routing_test.go"]


def build_driver():
    return V.ocaml_build("routing_driver", "ExtractRouting.v", "routing_model.ml", "routing_driver.ml")


class ModelProc:
    """the extracted model as a coprocess: one event in, its outputs out"""

    def __init__(self, exe, mode="fixed"):
        self.p = subprocess.Popen([exe, mode], stdin=subprocess.PIPE, stdout=subprocess.PIPE, text=True, bufsize=1)

    def send(self, line):
        self.p.stdin.write(("R " + line[3:] if line.startswith("RO ") else line) + "\n")
        self.p.stdin.flush()
        outs = []
        first = self.p.stdout.readline()
        if not first:
            raise RuntimeError("model driver died")
        while True:
            l = self.p.stdout.readline()
            if not l:
                raise RuntimeError("model driver died")
            l = l.rstrip("\n")
            if l == ".":
                break
            outs.append(l)
        return outs

    def close(self):
        try:
            self.p.stdin.close()
            self.p.wait(timeout=5)
        except Exception:  # noqa: BLE001
            self.p.kill()


# ----------------------------------------------------------------------------- generation
class Gen:
    """Generates one history.  Disciplines that keep the real code deterministic at event granularity
    (DESIGN.md appendix C): at most one source has tasks pending for a target that is not connected;
    a batch that carries tasks for a stalled target carries tasks for that target only."""

    def __init__(self, rng, exe, ns, nt, faults=False, stalls=True, unroutable=False, mode="fixed"):
        self.rng, self.ns, self.nt = rng, ns, nt
        self.faults, self.stalls, self.unroutable = faults, stalls, unroutable
        self.m = ModelProc(exe, mode)
        self.lines = []
        self.next_id = [rng.range(1, 30) for _ in range(ns)]
        self.high = [0] * ns
        self.conn = [False] * nt
        self.stalled = [False] * nt
        self.pending_src = [None] * nt       # source with tasks pending for an unconnected target
        self.last_high = [0] * nt            # highest watermark the target was sent (this incarnation)
        self.acked = [0] * nt
        self.queued = [0] * nt               # messages sent to a stalled target (bound the queue)
        self.copy = 0
        self.wm_sent = [False] * ns
        self.emit("I %d %d" % (ns, nt))

    def emit(self, line):
        self.lines.append(line)
        outs = self.m.send(line)
        for o in outs:
            f = o.split()
            if f[0] == "T":
                t = int(f[1])
                self.last_high[t] = max(self.last_high[t], int(f[2]))
        return outs

    def can_connect(self):
        # the watermark replay to a new target iterates a Go map of receivers: keep it deterministic by
        # connecting only while at most one source has a watermark to replay
        return sum(1 for s in range(self.ns) if self.wm_sent[s]) <= 1

    def connect(self, t):
        self.conn[t] = True
        self.stalled[t] = False
        self.last_high[t] = 0
        self.acked[t] = 0
        self.queued[t] = 0
        self.emit("C %d" % t)
        self.pending_src[t] = None

    def batch(self, s, force_targets=None, watermark=False, ntasks=None):
        rng = self.rng
        if watermark:
            h = max(self.high[s], self.next_id[s]) + (rng.range(0, 3) if rng.chance(1, 3) else 0)
            h = max(h, 1)
            self.high[s] = h
            self.wm_sent[s] = True
            self.next_id[s] = max(self.next_id[s], h)
            # a watermark broadcast to a stalled target occupies a queue slot (or is dropped when full)
            self.emit("S %d %d 0" % (s, h))
            return
        n = ntasks or (1 if rng.chance(3, 5) else rng.range(2, 5))
        # choose owners under the disciplines
        allowed = []
        for t in range(self.nt):
            if not self.conn[t] and self.pending_src[t] not in (None, s):
                continue
            allowed.append(t)
        if force_targets is not None:
            allowed = [t for t in force_targets if t in allowed]
        if not allowed:
            return self.batch(s, watermark=True)
        owners = [rng.choice(allowed) for _ in range(n)]
        st = [t for t in set(owners) if self.stalled[t]]
        if st:
            owners = [st[0]] * n
            if self.queued[st[0]] > 115:
                return self.batch(s, watermark=True)
            self.queued[st[0]] += 1
        parts = []
        ident = self.next_id[s]
        for o in owners:
            ident += rng.range(0, 2) if rng.chance(1, 6) else 0
            self.copy += 1
            own = o
            if self.unroutable and rng.chance(1, 7):
                own = -1 if rng.chance(1, 2) else -2
            # "~": the task's workflow id is the one the neighbouring target owns under the usual namespace, in a namespace
            # under which THIS target owns it (ownership depends on namespace id and workflow id together)
            alt = "~" if own >= 0 and self.nt > 1 and rng.chance(1, 4) else ""
            parts.append("%d %d p%d_%d_%d%s" % (ident, own, s, ident, self.copy, alt))
            if own >= 0 and not self.conn[o]:
                self.pending_src[o] = s
            ident += 1
        h = ident + (rng.range(0, 2) if rng.chance(1, 5) else 0)
        self.next_id[s] = h
        self.high[s] = h
        if all(p.split()[1].startswith("-") for p in parts):
            # the code treats an all-unroutable batch as a task batch with nothing to hand off; keep one routable task
            return self.batch(s, watermark=True)
        self.emit("S %d %d %d %s" % (s, h, len(parts), " ".join(parts)))

    def ack(self, t, policy=None):
        rng = self.rng
        if not self.conn[t]:
            return
        policy = policy or rng.choice(["prompt", "prompt", "prompt", "lag", "any", "repeat"])
        hi = self.last_high[t]
        if policy == "prompt":
            w = hi
        elif policy == "lag":
            w = max(self.acked[t], hi - rng.range(1, 3))
        elif policy == "repeat":
            w = self.acked[t]
        else:
            # a Temporal receiver's inclusive low watermark never exceeds the exclusive high watermark it was sent
            w = rng.range(0, hi)
        self.acked[t] = max(self.acked[t], w)
        self.emit("A %d %d" % (t, w))

    def step(self):
        rng = self.rng
        r = rng.below(100)
        if r < 38:
            self.batch(rng.below(self.ns))
        elif r < 50:
            self.batch(rng.below(self.ns), watermark=True)
        elif r < 78:
            self.ack(rng.below(self.nt))
        elif r < 86:
            t = rng.below(self.nt)
            if not self.conn[t] and self.can_connect():
                self.connect(t)
            else:
                self.ack(t, "prompt")
        elif r < 92 and self.stalls:
            t = rng.below(self.nt)
            if self.conn[t]:
                if self.stalled[t]:
                    self.stalled[t] = False
                    self.queued[t] = 0
                    self.emit("U %d" % t)
                elif sum(self.stalled) == 0:
                    self.stalled[t] = True
                    self.emit("X %d" % t)
        elif r < 97 and self.faults:
            t = rng.below(self.nt)
            if self.conn[t] and self.can_connect():
                self.conn[t] = False
                self.stalled[t] = False
                self.emit("B %d" % t)
        elif self.faults:
            s = rng.below(self.ns)
            # a restarted source resumes from (at most) what it was told is acknowledged: model as resending
            # from its current position (ids keep increasing) - resends of unacked tasks are exercised by C04's own generator
            if all(p != s for p in self.pending_src):
                self.wm_sent[s] = False
                self.emit("R %d" % s)
        else:
            self.ack(rng.below(self.nt))

    def completion_rounds(self, rounds=3):
        """C03: every target connected and reading, the source keeps sending its periodic watermark, every
        target acknowledges the highest watermark it was sent."""
        for t in range(self.nt):
            if self.stalled[t]:
                self.stalled[t] = False
                self.emit("U %d" % t)
        for t in range(self.nt):
            if not self.conn[t]:
                if not self.can_connect():
                    self.incomplete = True
                    return
                self.connect(t)
        for _ in range(rounds):
            for s in range(self.ns):
                h = max(self.high[s], self.next_id[s], 1)
                self.high[s] = h
                self.emit("S %d %d 0" % (s, h))
            for t in range(self.nt):
                self.ack(t, "prompt")

    def finish(self):
        self.emit("E")
        self.m.close()
        return self.lines


def gen_queue_full(rng, exe):
    """C03: the final watermark is first broadcast while a slow target's queue is full (it is dropped there);
    only the source's periodic repetition can bring it to that target."""
    ns, nt = 1, rng.range(1, 3)
    g = Gen(rng, exe, ns, nt)
    for t in range(nt):
        g.connect(t)
    slow = rng.below(nt)
    for _ in range(rng.range(1, 4)):
        g.batch(0)
        g.ack(rng.below(nt), "prompt")
    g.stalled[slow] = True
    g.emit("X %d" % slow)
    for _ in range(rng.range(103, 108)):
        g.high[0] += 1
        g.next_id[0] = max(g.next_id[0], g.high[0])
        g.emit("S 0 %d 0" % g.high[0])
    g.incomplete = False
    g.completion_rounds()
    return g.finish(), True


def gen_late_target(rng, exe):
    """C03: a target connects after the source has announced a watermark and has since been acknowledged beyond it: the stale
    watermark is replayed to the newcomer, which acknowledges it; the receiver must not let its acknowledgements to the
    source fall back to that level - not in its regular path and not in its idle keep-alive (time passes between events)."""
    nt = rng.range(2, 3)
    g = Gen(rng, exe, 1, nt, stalls=False)
    g.connect(0)
    g.batch(0, watermark=True)
    for _ in range(rng.range(1, 3)):
        g.batch(0, force_targets=[0], ntasks=rng.range(1, 5))
        g.ack(0, "prompt")
    for t in range(1, nt):
        g.connect(t)
        g.ack(t, "prompt")
        g.ack(0, "repeat")
    g.incomplete = False
    g.completion_rounds()
    return g.finish(), True


def gen_restart_completion(rng, exe):
    """C03: the source stream of a shard is re-established while its previous incarnation is still registered (an ordinary
    reconnect); afterwards the source keeps announcing its watermark and the targets acknowledge: the acknowledgements on
    the new stream must still become complete."""
    ns, nt = rng.range(1, 2), rng.range(1, 2)
    g = Gen(rng, exe, ns, nt, stalls=False)
    for t in range(nt):
        g.connect(t)
    for _ in range(rng.range(2, 6)):
        g.batch(rng.below(ns))
        g.ack(rng.below(nt), "prompt")
    for t in range(nt):
        g.ack(t, "prompt")
    s = rng.below(ns)
    g.wm_sent[s] = False
    g.emit(("RO %d" if rng.chance(2, 3) else "R %d") % s)
    for _ in range(rng.range(1, 4)):
        g.batch(s)
        g.ack(rng.below(nt), "prompt")
    g.incomplete = False
    g.completion_rounds()
    return g.finish(), True


def gen_long_ring(rng, exe):
    """C01: a target first confirms some tasks (the sender's id table advances), then falls more than the table's
    initial capacity (1024) behind, so the table grows while wrapped, then confirms a watermark in the middle."""
    g = Gen(rng, exe, 1, 2, stalls=False)
    g.connect(0)
    g.connect(1)
    for _ in range(rng.range(12, 40)):
        g.batch(0, force_targets=[1], ntasks=rng.range(4, 9))
        g.ack(1, "prompt")
    for k in range(rng.range(150, 170)):
        g.batch(0, force_targets=[1], ntasks=8)
        if k % 40 == 7:
            g.batch(0, force_targets=[0], ntasks=1)
            g.ack(0, "prompt")
    hi = g.last_high[1]
    for w in (hi - rng.range(850, 1000), hi - rng.range(300, 800), hi - rng.range(1, 200)):
        if w > g.acked[1]:
            g.acked[1] = w
            g.emit("A 1 %d" % w)
        g.ack(0, "prompt")
    g.incomplete = False
    g.completion_rounds()
    return g.finish(), True


def gen_history(rng, exe, nev, faults=False, liveness=False, unroutable=False, stalls=True, big=False):
    ns = rng.range(1, 3 if big else 2)
    nt = rng.range(1, 4 if big else 3)
    g = Gen(rng, exe, ns, nt, faults=faults, stalls=stalls, unroutable=unroutable)
    # usually connect most targets early
    for t in range(nt):
        if rng.chance(2, 3):
            g.connect(t)
    for _ in range(nev):
        g.step()
    g.incomplete = False
    if liveness:
        g.completion_rounds()
    lines = g.finish()
    return lines, (liveness and not g.incomplete)


# ----------------------------------------------------------------------------- execution
def run_impl(histories, tag, timeout=1500):
    inp = os.path.join(V.WORK, "rt_%s.in" % tag)
    outp = os.path.join(V.WORK, "rt_%s.impl" % tag)
    open(inp, "w").write("".join("\n".join(h) + "\n" for h in histories))
    if os.path.exists(outp):
        os.remove(outp)
    rc, out = V.go_test("proxy", GO_FILES, "^TestVerifRouting$", env={"VERIF_IN": inp, "VERIF_OUT": outp}, timeout=timeout)
    if rc != 0 or not os.path.exists(outp):
        return "go test failed (rc=%d):\n%s" % (rc, out[-3000:]), None
    res, cur = [], None
    for l in open(outp).read().split("\n"):
        if l.startswith("# scenario"):
            cur = []
        elif l == "#end":
            res.append(cur)
            cur = None
        elif cur is not None:
            cur.append(l)
    if len(res) != len(histories):
        return "harness produced %d scenarios for %d histories: %s" % (len(res), len(histories), out[-1500:]), None
    return None, [split_events(r) for r in res]


def run_model(exe, histories, mode="fixed", timeout=600):
    # RO (reconnect of a source stream overlapping its predecessor) is a restart as far as the model is concerned
    rc, out = V.run([exe, mode], input="".join("\n".join("R " + l[3:] if l.startswith("RO ") else l for l in h) + "\n" for h in histories), timeout=timeout)
    if rc != 0:
        return "model driver failed: " + out[-2000:], None
    evs = split_events(out.split("\n"))
    res, i = [], 0
    for h in histories:
        res.append(evs[i:i + len(h)])
        i += len(h)
    return None, res


def split_events(lines):
    """-> list of (letter, [output lines]) per event"""
    evs, cur = [], None
    for l in lines:
        if l == "":
            continue
        if l == ".":
            evs.append(cur)
            cur = None
        elif cur is None:
            cur = (l.split()[0], [])
        else:
            cur[1].append(l)
    return evs


def canon(history, events, project=("T", "K")):
    """Canonical projected observables per event: outputs grouped per stream, streams sorted;
    an empty target message whose watermark equals the previous message's watermark on that stream
    (keep-alive / ignorable watermark entry) and an ack equal to the previous ack to that source are dropped."""
    last_t, last_k = {}, {}
    res = []
    for line, ev in zip(history, events):
        f = line.split()
        if ev is None:
            res.append(["<missing>"])
            continue
        if f[0] in ("C", "B"):
            last_t.pop(int(f[1]), None)
        if f[0] in ("R", "RO"):
            last_k.pop(int(f[1]), None)
        per = {}
        for o in ev[1]:
            g = o.split()
            if g[0] == "T":
                t = int(g[1])
                if len(g) >= 4 and g[3] == "0" and last_t.get(t) == g[2]:
                    continue
                if len(g) >= 3:
                    last_t[t] = g[2]
                per.setdefault(("T", t), []).append(o)
            elif g[0] == "K":
                s = int(g[1])
                if last_k.get(s) == g[2]:
                    continue
                last_k[s] = g[2]
                per.setdefault(("K", s), []).append(o)
            else:
                per.setdefault(("Z", 0), []).append(o)
        outl = []
        for k in sorted(per):
            if k[0] in project or k[0] == "Z":
                outl += per[k]
        res.append(outl)
    return res


# ----------------------------------------------------------------------------- monitors
def monitor(history, events, check_faults=True):
    """The properties applied to one trace (implementation or model).  Returns a list of
    (property, event index, message).  Raw (uncanonicalised) outputs are used."""
    viol = []
    received = {}      # (src, id) -> set of payload strings received (routable)
    owner_of = {}      # payload -> owner target
    fwd = {}           # payload -> (tgt, pid, incarnation)
    confirmed = set()  # payloads confirmed by their target
    inc_t = {}         # target -> incarnation number
    fwd_by_t = {}      # tgt -> list of (pid, payload) in this incarnation
    last_high_src = {}     # src -> last exclusive high received (this incarnation)
    last_k = {}        # src -> last ack (this incarnation)
    stream_high = {}   # tgt -> last watermark sent on the stream (this incarnation)
    stream_pid = {}    # tgt -> last proxy id
    order = {}         # (src, tgt) -> list of ids received in order
    order_seen = {}    # (src, tgt) -> index of next expected in forwarded order
    src_of = {}
    recv_idx = {}      # (src, id) -> event index of first reception
    unroutable = {}    # src -> list of ids the receiver cannot route
    aq_snapshot, aq_value = {}, {}
    breaks = {}        # tgt -> event indices of breaks
    restarts = {}      # src -> event indices of restarts
    for idx, (line, ev) in enumerate(zip(history, events)):
        f = line.split()
        if f[0] in ("S", "SL"):
            s = int(f[1])
            last_high_src[s] = int(f[2])
            n = int(f[3])
            for k in range(n):
                ident, own, pay = int(f[4 + 3 * k]), int(f[5 + 3 * k]), f[6 + 3 * k]
                if own < 0:
                    unroutable.setdefault(s, []).append(ident)
                if own >= 0:
                    recv_idx.setdefault((s, ident), idx)
                    received.setdefault((s, ident), set()).add(pay)
                    owner_of[pay] = own
                    src_of[pay] = (s, ident)
                    order.setdefault((s, own), []).append(pay)
        elif f[0] == "SB":
            # burst of single-task batches (implementation-only histories)
            s, count, first, own = int(f[1]), int(f[2]), int(f[3]), int(f[4])
            for k in range(count):
                ident, pay = first + k, "b%d" % (first + k)
                last_high_src[s] = ident + 1
                recv_idx.setdefault((s, ident), idx)
                received.setdefault((s, ident), set()).add(pay)
                owner_of[pay] = own
                src_of[pay] = (s, ident)
                order.setdefault((s, own), []).append(pay)
        elif f[0] == "A":
            t, w = int(f[1]), int(f[2])
            for pid, pay in fwd_by_t.get(t, []):
                if pid < w:
                    confirmed.add(pay)
        elif f[0] == "AQ":
            # the target computes an acknowledgement now; it confirms what it had been sent by now (value: see the AQ output line)
            aq_snapshot[int(f[1])] = list(fwd_by_t.get(int(f[1]), []))
            for o in (ev[1] if ev else []):
                g = o.split()
                if g[0] == "AQ":
                    aq_value[int(g[1])] = int(g[2])
        elif f[0] == "AF":
            t = int(f[1])
            for pid, pay in aq_snapshot.pop(t, []):
                if pid < aq_value.get(t, 0):
                    confirmed.add(pay)
        elif f[0] == "C":
            t = int(f[1])
            inc_t[t] = inc_t.get(t, 0) + 1
            fwd_by_t[t] = []
            stream_high.pop(t, None)
            stream_pid.pop(t, None)
        elif f[0] == "B":
            t = int(f[1])
            breaks.setdefault(t, []).append(idx)
        elif f[0] in ("R", "RO"):
            s = int(f[1])
            restarts.setdefault(s, []).append(idx)
            last_k.pop(s, None)
            last_high_src.pop(s, None)
        if ev is None:
            viol.append(("harness", idx, "no output for event"))
            continue
        for o in ev[1]:
            g = o.split()
            if g[0] == "T":
                if len(g) < 4:
                    viol.append(("C02", idx, "malformed message to target: " + o))
                    continue
                t, high, n = int(g[1]), int(g[2]), int(g[3])
                tasks = g[4:4 + n]
                lastpid = None
                for tk in tasks:
                    pid_s, pay = tk.split(":", 1)
                    if pay.endswith("!raw"):
                        viol.append(("C02", idx, "RawTaskInfo.TaskId not rewritten consistently: " + tk))
                        pay = pay[:-4]
                    pid = int(pid_s)
                    if pay not in owner_of:
                        viol.append(("C02", idx, "task %s sent to target %d was never received (payload changed?)" % (tk, t)))
                        continue
                    if owner_of[pay] != t:
                        viol.append(("C02", idx, "task %s owned by target %d sent on target %d" % (pay, owner_of[pay], t)))
                    if pay in fwd:
                        viol.append(("C02", idx, "task %s sent twice (first on target %d pid %d)" % (pay, fwd[pay][0], fwd[pay][1])))
                    fwd[pay] = (t, pid, inc_t.get(t, 0))
                    fwd_by_t.setdefault(t, []).append((pid, pay))
                    if stream_pid.get(t) is not None and pid <= stream_pid[t]:
                        viol.append(("C02", idx, "proxy ids not strictly increasing on target %d: %d after %d" % (t, pid, stream_pid[t])))
                    stream_pid[t] = pid
                    lastpid = pid
                    key = (src_of[pay][0], t)
                    exp = order.get(key, [])
                    i = order_seen.get(key, 0)
                    # tasks of one source reach a target in source order (skipping ones lost to a break)
                    if pay in exp[i:]:
                        order_seen[key] = exp.index(pay, i) + 1
                    else:
                        viol.append(("C02", idx, "task %s reached target %d out of source order" % (pay, t)))
                if n > 0:
                    if high <= lastpid:
                        viol.append(("C02", idx, "task-bearing message to target %d has watermark %d <= last task id %d" % (t, high, lastpid)))
                    if stream_high.get(t) is not None and high <= stream_high[t]:
                        viol.append(("C02", idx, "task-bearing message to target %d has watermark %d <= earlier watermark %d (a Temporal receiver drops it)" % (t, high, stream_high[t])))
                if stream_high.get(t) is None or high > stream_high[t]:
                    stream_high[t] = high
            elif g[0] == "K":
                if g[1].startswith("tgt") or g[0] == "K!":
                    viol.append(("C01", idx, "acknowledgement sent on a target shard's own stream: " + o))
                    continue
                s, a = int(g[1]), int(g[2])
                if s in last_k and a < last_k[s]:
                    viol.append(("C03", idx, "ack to source %d decreased: %d after %d" % (s, a, last_k[s])))
                last_k[s] = a
                if s in last_high_src and a > last_high_src[s]:
                    viol.append(("C03", idx, "ack %d to source %d exceeds its last exclusive high watermark %d" % (a, s, last_high_src[s])))
                bad, tags = [], set()
                for (ss, ident), pays in received.items():
                    if ss == s and ident < a and not (pays & confirmed):
                        bad.append(ident)
                        own = owner_of[next(iter(pays))]
                        ri = recv_idx[(ss, ident)]
                        if any(ri < b <= idx for b in restarts.get(s, [])):
                            tags.add("F2b")
                        elif any(ri < b <= idx for b in breaks.get(own, [])):
                            tags.add("F2a")
                        else:
                            tags.add("none")
                if bad:
                    tag = "none" if "none" in tags else sorted(tags)[0]
                    viol.append(("C01", idx, "source %d acknowledged up to %d but task(s) %s were not confirmed by their target" % (s, a, sorted(bad)[:5]), tag))
                lost = [i for i in unroutable.get(s, []) if i < a]
                if lost:
                    viol.append(("C02", idx, "source %d acknowledged up to %d but unroutable task(s) %s were dropped, never delivered" % (s, a, lost[:5]), "F10"))
            elif g[0] == "AQ":
                pass
            elif g[0] == "K!":
                viol.append(("C01", idx, "acknowledgement sent on a target shard's own stream: " + o))
    return viol, {"received": received, "fwd": fwd, "confirmed": confirmed, "last_k": last_k, "last_high_src": last_high_src}


def has_fault(history):
    return any(l.split()[0] in ("B", "R", "RO") for l in history)


def hist_hash(h):
    return hashlib.sha256("\n".join(h).encode()).hexdigest()


def shrink(history, pred, max_rounds=6, budget=150):
    """delta-debug the event list (keeps I first / E last); pred(list of candidate histories) -> list of bools"""
    import time
    t0 = time.time()
    cur = history
    for _ in range(max_rounds):
        if time.time() - t0 > budget:
            break
        body = cur[1:-1]
        cands = []
        n = len(body)
        for sz in sorted({max(1, n // 2), max(1, n // 4), 1}, reverse=True):
            for i in range(0, n, sz):
                c = body[:i] + body[i + sz:]
                if c:
                    cands.append([cur[0]] + c + [cur[-1]])
        cands = cands[:150]
        if not cands:
            break
        res = pred(cands)
        good = [c for c, r in zip(cands, res) if r]
        if not good:
            break
        best = min(good, key=len)
        if len(best) >= len(cur):
            break
        cur = best
    return cur


# ----------------------------------------------------------------------------- the check engine
KNOWN_TAGS = {
    "F2a": "F2a-target-break-loses-unconfirmed-tasks",
    "F2b": "F2b-source-restart-stale-acks",
    "F10": "F10-unroutable-task-dropped-then-acknowledged",
}


def vtag(v):
    return v[3] if len(v) > 3 else "none"


def completion_violations(history, events, info):
    """liveness histories end with completion rounds: every routable task must have been forwarded and every
    source must have received an acknowledgement equal to its final high watermark"""
    viol = []
    final_high = {}
    for l in history:
        f = l.split()
        if f[0] == "S":
            final_high[int(f[1])] = int(f[2])
    for s, F in final_high.items():
        if info["last_k"].get(s) != F:
            viol.append(("C03", len(history) - 1, "source %d: final high watermark %d but the last acknowledgement it received is %s"
                         % (s, F, info["last_k"].get(s)), "none"))
    for (s, ident), pays in info["received"].items():
        if not any(p in info["fwd"] for p in pays):
            viol.append(("C02", len(history) - 1, "task %d of source %d was never sent to its target" % (ident, s), "none"))
    return viol


def load_corpus(prop):
    d = os.path.join(V.ROOT, "corpus", prop)
    hs = []
    if os.path.isdir(d):
        for f in sorted(os.listdir(d)):
            lines = [l.strip() for l in open(os.path.join(d, f)) if l.strip() and not l.startswith("#")]
            if lines:
                hs.append((lines, lines[0].startswith("I") and "#complete" in open(os.path.join(d, f)).read()))
    return hs


def engine(ck, prop, tier, seed, gen_kwargs, props, n_quick, n_thorough, proof_ok, nontrivial, rule, allow_tags=(), project=("T", "K"), extra_histories=None):
    """Runs corpus + generated histories on the implementation and the model; compares canonical observables;
    applies the monitors for `props`. Registers obligations/violations on ck."""
    ok, log, exe = build_driver()
    ck.obligation("extraction + driver build", ok, log[-2000:])
    if not ok:
        ck.violation({"kind": "build", "log": log[-4000:], "broken": "extraction of Routing/Model.v"}, "model driver does not build", no_input=True)
        return
    # constants of the model read off the source: both channel capacities are Model.chan_cap
    try:
        src = open(os.path.join(V.REPO, "proxy", "proxy_streams.go")).read()
        caps = re.findall(r"make\(chan Routed(?:Message|Ack), (\d+)\)", src)
        model_cap = re.search(r"Definition chan_cap : nat := (\d+)\.", open(os.path.join(V.COQ, "theories", "Routing", "Model.v")).read()).group(1)
        ck.obligation("channel capacities in proxy_streams.go (%s) = Model.chan_cap (%s)" % (",".join(caps), model_cap), len(caps) == 2 and all(c == model_cap for c in caps), "")
    except Exception as e:  # noqa: BLE001
        ck.obligation("channel capacities read from proxy_streams.go", False, repr(e))
    rng = V.Rng(seed)
    hs = list(load_corpus(prop))
    n = n_quick if tier == "quick" else n_thorough
    for i in range(n):
        r = rng.fork("h%d" % i)
        kw = dict(gen_kwargs)
        if callable(kw.get("vary")):
            kw.update(kw.pop("vary")(i, r))
        kw.pop("vary", None)
        hs.append(gen_history(r, exe, r.range(kw.pop("min_ev", 10), kw.pop("max_ev", 45)), **kw))
    if extra_histories:
        hs += extra_histories(rng.fork("extra"), exe, tier)
    histories = [h[0] for h in hs]
    diffs, flagged, known, evaluations, distinct = [], [], {}, 0, set()
    dist = {}
    chunk = 400
    for c0 in range(0, len(histories), chunk):
        part = histories[c0:c0 + chunk]
        err, impl = run_impl(part, prop.lower())
        if err:
            ck.obligation("correspondence run", False, err)
            if not V.crash_violation(ck, err, os.path.join(V.WORK, "rt_%s.impl" % prop.lower()), part, lambda h: run_impl([h], prop.lower() + "c")[0], "routing harness (real streamRouting pairs + shard manager)"):
                ck.violation({"kind": "harness", "log": err, "broken": "routing harness"}, "harness failed: " + err[:300], no_input=True)
            return
        err, model = run_model(exe, part)
        if err:
            ck.obligation("model run", False, err)
            ck.violation({"kind": "harness", "log": err, "broken": "routing model driver"}, err[:300], no_input=True)
            return
        for k, (h, ie, me) in enumerate(zip(part, impl, model)):
            gi = c0 + k
            evaluations += 1
            for l in h:
                dist[l[0]] = dist.get(l[0], 0) + 1
            ci, cm = canon(h, ie, project), canon(h, me, project)
            if ci != cm:
                diffs.append(gi)
            v, info = monitor(h, ie)
            if hs[gi][1]:
                v = v + completion_violations(h, ie, info)
            v = [x for x in v if x[0] in props or x[0] == "harness"]
            for x in v:
                if vtag(x) in allow_tags and vtag(x) in KNOWN_TAGS:
                    known.setdefault(vtag(x), (gi, x))
                else:
                    flagged.append((gi, x))
            if nontrivial(h, ie):
                distinct.add(hist_hash(h))
            if len(ck.samples) < 3 and k in (0, 7, 19):
                ck.samples.append({"history": h[:14], "impl_canonical": [" / ".join(x) for x in ci[:14]]})
    ck.cov.update({"evaluations": evaluations, "distinct_nontrivial": len(distinct), "traces_validated_against_impl": evaluations,
                   "input_distribution": dist, "events": sum(len(h) for h in histories)})
    ck.obligation("correspondence: real streamRouting = extracted model (canonical observables %s) on all histories" % "+".join(project), not diffs,
                  "%d histories differ" % len(diffs))
    ck.obligation("monitor %s on implementation traces" % "/".join(props), not flagged, "%d flagged" % len(flagged))
    ck.log("%d histories (%d events): %d differ from model, %d monitor hits, known classes seen: %s"
           % (evaluations, sum(len(h) for h in histories), len(diffs), len(flagged), sorted(known)))

    def impl_pred(want_prop, want_tag):
        def pred(cands):
            err, impl = run_impl(cands, prop.lower() + "s")
            if err:
                return [False] * len(cands)
            res = []
            for h, ie in zip(cands, impl):
                v, info = monitor(h, ie)
                res.append(any(x[0] == want_prop and vtag(x) == want_tag for x in v))
            return res
        return pred

    for tag, (gi, x) in known.items():
        h = histories[gi]
        ck.violation({"kind": "history", "history": h, "event": x[1], "verdict": x[2], "class": tag}, x[2], sig=KNOWN_TAGS[tag])
    if flagged:
        gi, x = flagged[0]
        h = histories[gi]
        if x[1] < len(h) - 1 and not hs[gi][1]:
            h = h[:x[1] + 1] + ["E"]
        h2 = shrink(h, impl_pred(x[0], vtag(x))) if x[0] != "harness" and x[1] < len(h) else h
        err, impl = run_impl([h2], prop.lower() + "r")
        v2, _ = monitor(h2, impl[0]) if not err else ([], None)
        ck.violation({"kind": "history", "history": h2, "verdict": (v2 or [x])[0][2], "monitor_property": x[0],
                      "impl_canonical": [" / ".join(e) for e in canon(h2, impl[0])] if not err else []},
                     "%s: %s" % (x[0], (v2 or [x])[0][2]))
    elif diffs or not proof_ok:
        data = {"kind": "unproved", "broken": [],
                "search": "corpus + %d generated histories under the %s monitors: no failing input" % (n, "/".join(props))}
        if not proof_ok:
            data["broken"].append("theorems of coq/properties/%s.v no longer check" % prop)
        if diffs:
            h = histories[diffs[0]]

            def dpred(cands):
                err, impl = run_impl(cands, prop.lower() + "s")
                err2, model = run_model(exe, cands)
                if err or err2:
                    return [False] * len(cands)
                return [canon(c, a, project) != canon(c, b, project) for c, a, b in zip(cands, impl, model)]
            h2 = shrink(h, dpred)
            err, impl = run_impl([h2], prop.lower() + "r")
            err2, model = run_model(exe, [h2])
            data["broken"].append("correspondence Routing.Model.step <-> streamRouting (proxyStreamSender/Receiver, shardManager)")
            data["history"] = h2
            if not err and not err2:
                data["impl_canonical"] = [" / ".join(e) for e in canon(h2, impl[0])]
                data["model_canonical"] = [" / ".join(e) for e in canon(h2, model[0])]
        ck.violation(data, "; ".join(data["broken"]), no_input=True)


def replay(data):
    ok, log, exe = build_driver()
    if "history" not in data:
        print("nothing to execute: " + "; ".join(data.get("broken", [])))
        return 1
    h = data["history"]
    err, impl = run_impl([h], "replay")
    if data.get("kind") == "crash":
        print(err or "the process survives this history on the current tree")
        return 1 if err else 0
    err2, model = run_model(exe, [h])
    if err or err2:
        print(err or err2)
        return 1
    ci, cm = canon(h, impl[0]), canon(h, model[0])
    for l, a, b in zip(h, ci, cm):
        print("%-50s | %-50s | %s %s" % (l, " / ".join(a), " / ".join(b), "" if a == b else "<-- model differs"))
    v, info = monitor(h, impl[0])
    for x in v:
        print("MONITOR", x)
    bad = bool(v) or ci != cm
    print("REPRODUCED" if bad else "not reproduced on the current tree")
    return 1 if bad else 0


ROUTING_TRUSTED = [
    "modelled not verified: gRPC stream semantics (fake in-memory streams; cancelling a context unblocks Recv; CloseSend ends the peer's Recv), Go channels and mutexes "
    "as atomic actions, testing/synctest virtual time and quiescence, farmhash ownership (opaque owner per task), memberlist off (single proxy instance)",
    "generator disciplines (DESIGN.md appendix C) keep the real code deterministic at event granularity: one pending source per unconnected target, single-target batches for a stalled target, "
    "at most one watermark to replay when a target connects",
]
