import importlib
import json
import os
import sys

sys.path.insert(0, os.path.dirname(os.path.dirname(os.path.abspath(__file__))))
from lib import vfcore as V  # noqa: E402

PROPS = ["C%02d" % i for i in range(1, 21)]


def mod(prop):
    return importlib.import_module("lib.props." + prop.lower())


def main(argv):
    if len(argv) < 2:
        print(__doc__ or "usage: vf setup | check <id> [--tier t] | replay <path>")
        return 2
    cmd = argv[1]
    if cmd == "setup":
        from lib import setup
        return setup.main()
    if cmd == "check":
        prop = argv[2]
        tier = os.environ.get("VERIF_TIER", "quick")
        if "--tier" in argv:
            tier = argv[argv.index("--tier") + 1]
        if tier not in ("quick", "thorough"):
            tier = "quick"
        seed = int(os.environ.get("VERIF_SEED", "20260925") or "20260925")
        return mod(prop).check(tier, seed)
    if cmd == "replay":
        data = json.load(open(argv[2]))
        return mod(data["property"]).replay(data)
    print("unknown command", cmd)
    return 2


if __name__ == "__main__":
    sys.exit(main(sys.argv))
