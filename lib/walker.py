"""Shared engine for the walker properties C12, C13, C14, C16: schema translator + Coq coverage checks,
and the differential run of the real walkers against the descriptor-driven reference."""
import json
import os

from . import schema_gen as G
from . import vfcore as V

GO_FILES = ["zz_verif_walker_test.go"]


def event_blobs():
    o = json.load(open(os.path.join(V.ROOT, "lib", "oracle_blobs.json")))
    return ",".join(k for k, v in o.items() if v == "events")


def run(mode, seed, cases, only=None, timeout=1800):
    outp = os.path.join(V.WORK, "walker_%s.out" % mode)
    if os.path.exists(outp):
        os.remove(outp)
    env = {"VERIF_OUT": outp, "VERIF_SEED": seed, "VERIF_CASES": cases, "VERIF_MODE": mode, "VERIF_EVENT_BLOBS": event_blobs()}
    if only:
        env["VERIF_ONLY"] = only
    rc, out = V.go_test("interceptor", GO_FILES, "^TestVerifWalker$", env=env, timeout=timeout)
    if rc != 0 or not os.path.exists(outp):
        return "walker harness failed (rc=%d):\n%s" % (rc, out[-3000:]), [], {}
    lines = [l for l in open(outp).read().split("\n") if l]
    stats = {}
    diffs = []
    for l in lines:
        if l.startswith("STATS"):
            for p in l.split()[1:]:
                k, v = p.split("=")
                stats[k] = int(v)
        else:
            diffs.append(l)
    return None, diffs, stats


def regenerate(ck):
    """(T) regenerate coq/generated/Schema_gen.v from the current build"""
    try:
        d, changed, missing = G.generate()
    except Exception as e:  # noqa: BLE001
        ck.obligation("schema translator (Go reflection + descriptors -> Schema_gen.v)", False, str(e)[-2000:])
        return None
    ck.obligation("schema translator (Go reflection + descriptors -> Schema_gen.v)", not missing, "skippable wrappers not found: %s" % missing)
    ck.cov["schema"] = {"types": len(d["types"]), "roots": len(d["roots"]), "ns_names": d["nsNames"], "blob_names": d["blobNames"], "sa_names": d["saNames"],
                        "skippable_event_types": len(d["skippable"]), "regenerated_changed": changed}
    return d


def explain_schema_failure():
    """When C12_current_build fails: ask Coq which (type, field) pairs disagree and name them."""
    names = json.load(open(G.NAMES))
    tyname = {v: k for k, v in names["types"].items()}
    fname = {v: k for k, v in names["fields"].items()}
    src = """From Coq Require Import List PArith Bool.
From S2S Require Import Schema.Check.
From S2SGen Require Import Schema_gen.
Import ListNotations.
Definition bad (chk : positive -> field -> bool) :=
  flat_map (fun id => match lookup (types gen_schema) id with
                      | Some t => flat_map (fun f => if chk id f then [] else [(id, f_go f)]) (t_fields t)
                      | None => [(id, 1%positive)] end) (all_reachable gen_schema).
Eval vm_compute in (bad (fun ty f => field_ok_ns gen_schema ty f)).
Eval vm_compute in (bad (fun ty f => field_ok_blob gen_schema f)).
Eval vm_compute in (bad (fun ty f => field_ok_sa gen_schema f)).
Eval vm_compute in (filter (fun id => negb (all_clean gen_schema [id])) (skippable gen_schema ++ whole_skipped gen_schema)).
"""
    p = os.path.join(V.WORK, "explain_schema.v")
    open(p, "w").write(src)
    rc, out = V.run(["coqc"] + V.COQ_Q + [p], cwd=V.WORK, timeout=300)
    import re
    res = {}
    blocks = out.split("     = ")[1:]
    labels = ["namespace fields the walker and the descriptors disagree on", "DataBlob fields they disagree on", "search-attribute fields they disagree on",
              "skipped types that can carry a namespace name"]
    for lab, b in zip(labels, blocks):
        b = b.split("     :")[0]
        pairs = re.findall(r"\((\d+), (\d+)\)", b)
        if pairs:
            res[lab] = ["%s.%s" % (tyname.get(int(a), a), fname.get(int(f), f)) for a, f in pairs][:20]
        else:
            ids = re.findall(r"\b(\d+)\b", b)
            if ids:
                res[lab] = [tyname.get(int(a), a) for a in ids][:20]
    return res
