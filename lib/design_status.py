"""Regenerates the 'as built' block of DESIGN.md (between the AS-BUILT markers) from the check modules, the property
files and the seeded-change records, so that the document cannot drift from what is registered in MANIFEST.json."""
import glob
import importlib
import json
import os
import re
import sys

ROOT = os.path.dirname(os.path.dirname(os.path.abspath(__file__)))
sys.path.insert(0, ROOT)

PREAMBLE = open(os.path.join(ROOT, "lib", "design_preamble.md")).read()


def main():
    props = {}
    for l in open(os.path.join(ROOT, "properties.jsonl")):
        d = json.loads(l)
        props[d["id"]] = d
    out = [PREAMBLE.rstrip(), "", "### 0.4 Per property: what is proved, how it is tied to the code, what it catches", ""]
    for pid in sorted(props):
        m = importlib.import_module("lib.props." + pid.lower())
        M = m.MANIFEST
        ths = re.findall(r"^Theorem ([A-Za-z0-9_']+)", open(os.path.join(ROOT, "coq/properties/%s.v" % pid)).read(), re.M)
        out.append("#### %s — %s\n" % (pid, props[pid]["title"]))
        out.append("* **Technique.** %s" % M["technique"])
        out.append("* **Proved** (`coq/properties/%s.v`: %s). %s" % (pid, ", ".join("`%s`" % t for t in ths), M["text"]))
        out.append("* **Limits.** %s" % M["note"])
        for s in sorted(glob.glob(os.path.join(ROOT, "seeded/%s-*/meta.json" % pid))):
            d = json.load(open(s))
            by = d.get("caught_by", [pid])
            out.append("* **Seeded change `%s`** (caught by %s): %s" % (os.path.basename(os.path.dirname(s)), ", ".join(by), re.sub(r"\s+", " ", d.get("breaks", ""))[:600].strip()))
        out.append("")
    block = "\n".join(out)
    p = os.path.join(ROOT, "DESIGN.md")
    s = open(p).read()
    a, b = "<!-- AS-BUILT BEGIN -->", "<!-- AS-BUILT END -->"
    if a in s:
        s = s[:s.index(a) + len(a)] + "\n" + block + "\n" + s[s.index(b):]
    else:
        marker = "--------------------------------------------------------------------------------------\n"
        i = s.index(marker)
        s = s[:i] + marker + "\n" + a + "\n" + block + "\n" + b + "\n\n" + s[i:]
    open(p, "w").write(s)
    print("DESIGN.md as-built block: %d lines" % block.count("\n"))


if __name__ == "__main__":
    main()
