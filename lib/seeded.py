"""Apply a seeded change to /repo, run a property's quick check, undo it.
usage: seeded.py <patch.diff> <Cxx> [<Cyy> ...]"""
import subprocess
import sys

patch, props = sys.argv[1], sys.argv[2:]
st = subprocess.run(["git", "-C", "/repo", "status", "--porcelain"], capture_output=True, text=True).stdout.strip()
if st:
    print("refusing: /repo working tree not clean:\n" + st)
    sys.exit(2)
r = subprocess.run(["git", "-C", "/repo", "apply", patch])
if r.returncode != 0:
    print("patch does not apply")
    sys.exit(2)
try:
    for p in props:
        r = subprocess.run(["./vf", "check", p, "--tier", "quick"], cwd="/verif", capture_output=True, text=True)
        lines = [l for l in r.stdout.split("\n") if "VIOLATION" in l or "KNOWN-FINDING" in l or "->" in l or "FAILED" in l]
        print("== %s rc=%d" % (p, r.returncode))
        print("\n".join(lines[:12]))
finally:
    subprocess.run(["git", "-C", "/repo", "checkout", "--", "."])
    subprocess.run(["git", "-C", "/repo", "clean", "-fdq"])
    # evidence must come from clean-tree runs only
    subprocess.run(["git", "-C", "/verif", "checkout", "--", "evidence"])
