"""Regenerates MANIFEST.json from lib/props/*.py metadata (MANIFEST dict in each module)."""
import importlib
import json
import os
import sys

sys.path.insert(0, os.path.dirname(os.path.dirname(os.path.abspath(__file__))))
ROOT = os.path.dirname(os.path.dirname(os.path.abspath(__file__)))
PROPS = ["C%02d" % i for i in range(1, 21)]


def main():
    checks, na = [], []
    for p in PROPS:
        path = os.path.join(ROOT, "lib", "props", p.lower() + ".py")
        meta = None
        if os.path.exists(path):
            m = importlib.import_module("lib.props." + p.lower())
            meta = getattr(m, "MANIFEST", None)
        if meta is None:
            na.append({"property_id": p, "reason": "check not built yet in this development (work in progress; planned, see DESIGN.md section 5)"})
            continue
        checks.append({
            "property_id": p,
            "quick_cmd": "./vf check %s --tier quick" % p,
            "thorough_cmd": "./vf check %s --tier thorough" % p,
            "evidence_file": "evidence/%s.json" % p,
            "replay_cmd_template": "./vf replay {path}",
            "engine": "coq-proof+correspondence",
            "level_claimed": {"category": "proof", "text": meta["text"], "design_ref": meta.get("design_ref", "DESIGN.md section 0.4 (as built) and section 5, " + p)},
            "level_note": meta["note"],
            "technique": meta["technique"],
        })
    man = {
        "version": 1,
        "setup_cmd": "./vf setup",
        "notes": "Machine-checked proofs in Coq 8.16.1 over executable Gallina models, tied to /repo by regeneration (translators) and differential correspondence runs; see DESIGN.md.",
        "hooks": {
            "guard": "verif",
            "enable": "go test -tags verif -overlay <generated overlay.json> (white-box test files under /verif/go/overlay are injected into /repo's packages at build time; nothing is added to /repo)",
            "baseline_off_cmd": "cd /repo && GOFLAGS=-mod=mod GOPROXY=off go test -json -vet=off -count=1 -timeout 25m ./...",
            "source_commits": [],
            "add_only": True,
        },
        "engines": [{"name": "coq-proof+correspondence", "path": "vf", "serves_properties": [c["property_id"] for c in checks],
                     "kind_free_text": "Coq theorems over executable models (coq/), extracted OCaml drivers and Go white-box harness (go/overlay) compared by lib/*.py"}],
        "checks": checks,
        "not_applicable": na,
    }
    open(os.path.join(ROOT, "MANIFEST.json"), "w").write(json.dumps(man, indent=1) + "\n")
    try:
        import jsonschema
        jsonschema.validate(man, json.load(open("/root/.vp/MANIFEST.schema.json")))
        print("MANIFEST.json valid: %d checks, %d not_applicable" % (len(checks), len(na)))
    except ImportError:
        print("written (jsonschema unavailable)")


if __name__ == "__main__":
    main()
