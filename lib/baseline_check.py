"""Runs the pinned suite (guard off) and compares with /root/.vp/BASELINE.json stable_pass."""
import json
import os
import subprocess
import sys

repo = os.environ.get("VERIF_REPO", "/repo")
env = dict(os.environ, GOFLAGS="-mod=mod", GOPROXY="off")
p = subprocess.run(["go", "test", "-json", "-vet=off", "-count=1", "-timeout", "25m", "./..."], cwd=repo, env=env,
                   stdout=subprocess.PIPE, stderr=subprocess.STDOUT, text=True)
res = {}
for l in p.stdout.split("\n"):
    try:
        e = json.loads(l)
    except Exception:
        continue
    if e.get("Test") and e.get("Action") in ("pass", "fail", "skip"):
        res[e["Package"] + "::" + e["Test"]] = e["Action"]
b = json.load(open("/root/.vp/BASELINE.json"))
missing = [t for t in b["stable_pass"] if res.get(t) != "pass"]
print("baseline stable_pass: %d, passing now: %d, not passing: %d" % (len(b["stable_pass"]), len(b["stable_pass"]) - len(missing), len(missing)))
for t in missing[:40]:
    print("  ", res.get(t), t)
sys.exit(1 if missing else 0)
