"""Independent confirmation of a seeded change delivered in /tmp/mut/<id>.out:
demo passes on the unchanged tree, fails with the patch, project builds, the touched packages'
baseline tests still pass. On success copies it to /verif/seeded/<name>/.
usage: seeded_verify.py <Cxx> [<name>]"""
import json
import os
import re
import shutil
import subprocess
import sys

pid = sys.argv[1]
name = sys.argv[2] if len(sys.argv) > 2 else pid + "-a"
MUT = os.environ.get("MUTDIR", "/tmp/mut")
src = "%s/%s.out" % (MUT, pid)
wt = "/tmp/sv_%s" % pid
env = dict(os.environ, GOFLAGS="-mod=mod", GOPROXY="off")


def sh(cmd, cwd=wt, timeout=1200):
    p = subprocess.run(cmd, shell=True, cwd=cwd, env=env, stdout=subprocess.PIPE, stderr=subprocess.STDOUT, text=True, timeout=timeout)
    return p.returncode, p.stdout


subprocess.run(["git", "-C", "/repo", "worktree", "remove", "--force", wt], capture_output=True)
subprocess.run(["git", "-C", "/repo", "worktree", "add", "--detach", wt, "HEAD"], check=True, capture_output=True)
ran = []
try:
    meta = json.load(open(os.path.join(src, "meta.json")))
    patch = open(os.path.join(src, "patch.diff")).read()
    touched = sorted(set(re.findall(r"^\+\+\+ b/(\S+)", patch, re.M)))
    pkgs = sorted(set(os.path.dirname(f) for f in touched if f.endswith(".go")))
    demo_cmd = open(os.path.join(src, "demo_cmd.txt")).read().strip().split("\n")
    demo_cmd = [l for l in demo_cmd if l.strip() and not l.strip().startswith("#")]
    demo_cmd = " && ".join(demo_cmd)
    demo_cmd = re.sub(r"cd /tmp/mut2?/C\d\d\s*(&&|;)", "", demo_cmd)
    demo_cmd = demo_cmd.replace("%s/%s" % (MUT, pid), wt)
    demos = [f for f in os.listdir(src) if f.endswith("_test.go") or (f.endswith(".go") and "demo" in f)]
    # where do the demo files go? take the location from the agent's worktree
    placed = []
    for d in demos:
        out = subprocess.run("find %s/%s -name %s -not -path '*/.git/*'" % (MUT, pid, d), shell=True, capture_output=True, text=True).stdout.strip().split("\n")
        out = [o for o in out if o]
        if not out:
            print("cannot locate demo file", d); sys.exit(1)
        rel = os.path.relpath(out[0], "%s/%s" % (MUT, pid))
        shutil.copy(os.path.join(src, d), os.path.join(wt, rel))
        placed.append(rel)
    rc0, out0 = sh(demo_cmd)
    ran.append("unchanged tree: `%s` -> rc=%d" % (demo_cmd, rc0))
    rc, out = sh("git apply %s" % os.path.join(src, "patch.diff"))
    if rc != 0:
        print("patch does not apply:", out); sys.exit(1)
    rcb, outb = sh("go build ./...")
    ran.append("with patch: go build ./... -> rc=%d" % rcb)
    rc1, out1 = sh(demo_cmd)
    ran.append("with patch: demo -> rc=%d" % rc1)
    # baseline tests of the touched packages (demo file removed)
    for rel in placed:
        os.remove(os.path.join(wt, rel))
    base = json.load(open("/root/.vp/BASELINE.json"))["stable_pass"]
    failing = []
    for pkg in pkgs:
        rct, outt = sh("go test -json -vet=off -count=1 ./%s/..." % pkg)
        res = {}
        for l in outt.split("\n"):
            try:
                e = json.loads(l)
            except Exception:
                continue
            if e.get("Test") and e.get("Action") in ("pass", "fail", "skip"):
                res[e["Package"] + "::" + e["Test"]] = e["Action"]
        pk = "github.com/temporalio/s2s-proxy/" + pkg
        for t in base:
            if (t.startswith(pk + "::") or t.startswith(pk + "/")) and res.get(t) != "pass":
                failing.append(t)
        ran.append("with patch: baseline tests under ./%s/... -> %d not passing" % (pkg, len([f for f in failing if f.startswith(pk)])))
    ok = rc0 == 0 and rc1 != 0 and rcb == 0 and not failing
    print("\n".join(ran))
    if failing:
        print("baseline tests failing with patch:", failing[:10])
    if rc0 != 0:
        print("demo output on unchanged tree:\n", out0[-2000:])
    if rc1 == 0:
        print("demo passes WITH the patch")
    if ok:
        dst = "/verif/seeded/%s" % name
        os.makedirs(dst, exist_ok=True)
        shutil.copy(os.path.join(src, "patch.diff"), dst)
        for d, rel in zip(demos, placed):
            shutil.copy(os.path.join(src, d), os.path.join(dst, d))
        m = {"property": pid, "breaks": meta.get("summary"), "needs": meta.get("needs"), "files": touched,
             "demo_files": dict(zip(demos, placed)), "demo_cmd": demo_cmd.replace(wt, "<worktree>"),
             "confirmed": ran, "base_commit": subprocess.run(["git", "-C", "/repo", "rev-parse", "--short", "HEAD"], capture_output=True, text=True).stdout.strip()}
        json.dump(m, open(os.path.join(dst, "meta.json"), "w"), indent=1)
        print("CONFIRMED ->", dst)
    else:
        print("NOT CONFIRMED")
finally:
    subprocess.run(["git", "-C", "/repo", "worktree", "remove", "--force", wt], capture_output=True)
