#!/bin/sh
cd /verif; ONLY="$1"
for d in seeded/C*-${ONLY:-*}; do
  id=$(basename $d); p=${id%-*}
  cb=$(python3 -c "import json;print(' '.join(json.load(open('$d/meta.json')).get('caught_by',['$p'])))")
  for c in $cb; do
    r=$(python3 lib/seeded.py /verif/$d/patch.diff $c 2>&1 | grep -c "VIOLATION property=$c")
    echo "$id by $c: $r"
  done
done
echo REGRESSION-DONE
