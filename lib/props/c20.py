"""C20 - stream-open metadata cannot wedge or crash stream service.
Proof: coq/properties/C20.v.  Correspondence: real ReplicationStreamObserver.ReportStreamValue and the real
StreamWorkflowReplicationMessages handler (default / LCM / routing modes, fake streams) vs the extracted model."""
import hashlib
import os
import re

from .. import vfcore as V

PROP = "C20"
TARGETS = ["theories/Observer/Proofs.vo"]
GO_FILES = ["zz_verif_fakes_test.go", "zz_verif_observer_test.go", "zz_verif_routing_test.go"]

I32MAX, I32MIN = 2**31 - 1, -2**31


def boundary_indices():
    xs = {0, 1, -1, 2, 1023, 1024, 1025, 16000, 238609293, 238609294, 238609295, 477218588, 477218589,
          268435455, 268435456, I32MAX, I32MAX - 1, I32MIN, I32MIN + 1, 1048575, 1048576, 1048577}
    for k in range(1, 31):
        xs |= {2**k - 1, 2**k, 2**k + 1, -(2**k)}
    return sorted(x for x in xs if I32MIN <= x <= I32MAX)


MD_POOL = ["1", "2", "3", "7", "0", "-1", "+7", "16384", "1024", "1048576", "1048577", "238609294", "2147483647", "2147483648",
           "-2147483648", "4294967297", "4294967296", "9223372036854775807", "9223372036854775808", "-9223372036854775807",
           "abc", "-", "1e3", "\\s5", "5\\s", "0x10", "1_000", "1.0", "--1", "+", "٣", "99999999999999999999999"]
MODES = ["default", "lcm", "routing", "intra", "intra0"]   # intra: routing mode, opened by a peer instance with and without (intra0) an intra-proxy manager (the model treats both as routing)


def atoi_ok(s):
    """mirror of strconv.Atoi acceptance on the raw metadata text"""
    raw = s.replace("\\s", " ")
    if not re.fullmatch(r"[+-]?[0-9]+", raw, flags=re.ASCII):
        return None
    v = int(raw)
    if v < -2**63 or v > 2**63 - 1:
        return None
    return v


def mmode(mode):
    return "routing" if mode in ("intra", "intra0") else mode


def gen_history(rng, nops):
    impl, model = ["N"], ["N"]
    bidx = boundary_indices()
    for _ in range(nops):
        r = rng.below(100)
        if r < 45:
            idx = rng.choice(bidx) if rng.chance(3, 4) else rng.range(0, 3000)
            if rng.chance(1, 12):
                idx = rng.range(I32MIN, I32MAX)
            v = rng.choice([1, 1, 1, -1, -1, 5, I32MAX, I32MIN, 0])
            line = "R %d %d" % (idx, v)
            impl.append(line); model.append(line)
        else:
            mode = rng.choice(MODES)
            ok = 1 if rng.chance(4, 5) else 0
            if mode in ("routing", "intra", "intra0"):
                # an unreachable serving cluster in routing mode keeps the pair's sender up until the
                # initiator hangs up (recorded as an observation in DESIGN.md); not a metadata matter
                ok = 1
            if rng.chance(1, 2):
                vals = [rng.choice(MD_POOL) for _ in range(4)]
            else:  # well-formed except maybe one field
                vals = [str(rng.range(1, 3)), str(rng.range(1, 8)), str(rng.range(1, 3)), str(rng.range(1, 12))]
                if rng.chance(1, 2):
                    vals[rng.below(4)] = rng.choice(MD_POOL + [str(x) for x in bidx[::7]])
            impl.append("H %s %d %s" % (mode, ok, " ".join(vals)))
            mvals = []
            for s in vals:
                a = None if s == "-" else atoi_ok(s)
                mvals.append("-" if a is None else str(a))
            model.append("H %s %d %s" % (mmode(mode), ok, " ".join(mvals)))
    # always finish with well-formed streams in every mode: they must be served
    for mode in MODES:
        impl.append("H %s 1 1 3 2 5" % mode); model.append("H %s 1 1 3 2 5" % mmode(mode))
    impl += ["WC", "WC"]; model += ["WC", "WC"]    # twice: the first acknowledgement may still get through a sender that is wedging
    return impl, model


def systematic(tier="thorough"):
    """every boundary index followed by a well-formed report and well-formed streams"""
    hs = []
    for k, idx in enumerate(boundary_indices()):
        impl = ["N", "R %d 1" % idx, "R 7 1", "R %d -1" % idx, "H default 1 1 3 2 %d" % idx, "H routing 1 1 3 2 %d" % idx,
                "H lcm 1 1 3 2 %d" % idx, "R 7 -1", "H default 1 1 3 2 5", "H routing 1 1 3 %d 5" % idx, "H routing 1 %d 3 2 5" % idx, "WC", "WC"]
        hs.append((impl, list(impl)))
        # the same ids on a stream opened by a peer instance, in each of the four positions, followed by a well-formed one
        for pos in (range(4) if tier == "thorough" or k % 4 == 0 else (0, 2)):
            vals = ["1", "3", "2", "5"]
            vals[pos] = str(idx)
            impl = ["N", "H intra 1 " + " ".join(vals), "H intra 1 1 3 2 5", "H routing 1 1 3 2 5", "H intra0 1 " + " ".join(vals), "H intra0 1 1 3 2 5"]
            hs.append((impl, [l.replace("H intra0", "H routing").replace("H intra", "H routing") for l in impl]))
    for s in MD_POOL:
        for pos in range(4):
            vals = ["1", "3", "2", "5"]
            vals[pos] = s
            a = None if s == "-" else atoi_ok(s)
            mv = list(vals)
            mv[pos] = "-" if a is None else str(a)
            impl = ["N", "H default 1 " + " ".join(vals), "H lcm 1 " + " ".join(vals), "H routing 1 " + " ".join(vals), "H intra 1 " + " ".join(vals), "H default 1 1 3 2 5", "H intra 1 1 3 2 5", "H intra0 1 " + " ".join(vals), "H intra0 1 1 3 2 5", "WC", "WC"]
            model = ["N", "H default 1 " + " ".join(mv), "H lcm 1 " + " ".join(mv), "H routing 1 " + " ".join(mv), "H routing 1 " + " ".join(mv), "H default 1 1 3 2 5", "H routing 1 1 3 2 5", "H routing 1 " + " ".join(mv), "H routing 1 1 3 2 5", "WC", "WC"]
            hs.append((impl, model))
    return hs


def run_both(hs, exe, tag, mode="new"):
    inp = os.path.join(V.WORK, "c20_%s.in" % tag)
    minp = os.path.join(V.WORK, "c20_%s.min" % tag)
    outp = os.path.join(V.WORK, "c20_%s.impl" % tag)
    open(inp, "w").write("".join("\n".join(h[0]) + "\n" for h in hs))
    open(minp, "w").write("".join("\n".join(h[1]) + "\n" for h in hs))
    if os.path.exists(outp):
        os.remove(outp)
    # the model driver (zero-filling list resizes for huge indices are slow) runs in 8 processes beside the Go harness
    from concurrent.futures import ThreadPoolExecutor
    nchunk = 8 if len(hs) >= 16 else 1
    per = (len(hs) + nchunk - 1) // nchunk
    chunks = [hs[i:i + per] for i in range(0, len(hs), per)]

    def run_chunk(c):
        return V.run(["sh", "-c", "ulimit -s unlimited; exec %s %s" % (exe, mode)], input="".join("\n".join(h[1]) + "\n" for h in c), timeout=1200)
    with ThreadPoolExecutor(max_workers=nchunk + 1) as ex:
        futs = [ex.submit(run_chunk, c) for c in chunks]
        rc, out = V.go_test("proxy", GO_FILES, "^TestVerifObserver$", env={"VERIF_IN": inp, "VERIF_OUT": outp}, timeout=1200)
        mres = [f.result() for f in futs]
    if rc != 0 or not os.path.exists(outp):
        return "go test failed:\n" + out[-3000:], None, None
    impl = open(outp).read().split("\n")
    model = []
    for (mrc, mout), c in zip(mres, chunks):
        if mrc != 0:
            return "model driver failed: " + mout[-2000:], None, None
        model += mout.split("\n")[:sum(len(h[1]) for h in c)]
    ih, mh, i = [], [], 0
    for h in hs:
        n = len(h[0])
        ml = model[i:i + n]
        # an instance without an intra-proxy manager (no memberlist configured) refuses streams opened by a peer instance with
        # an error: same bookkeeping as the model's served stream, outcome 'rejected'
        ml = [m.replace("H served", "H rejected", 1) if op.startswith("H intra0 ") else m for op, m in zip(h[0], ml)]
        # the witness stream pair is outside the model: it must simply keep working
        ml = ["WC ok" if op == "WC" else m for op, m in zip(h[0], ml)]
        ih.append(impl[i:i + n]); mh.append(ml); i += n
    return None, ih, mh


def monitor(impl_lines):
    """the property itself on implementation output: nothing blocks, panics escapes or leaves the lock held;
    every well-formed stream opened with a reachable cluster is served"""
    bad = []
    for k, l in enumerate(impl_lines):
        if "BLOCKED" in l or "locked=1" in l or " panic " in l or "crashed" in l or l.startswith("WC stalled") or l.startswith("WC no-") or l.startswith("H dropped"):
            bad.append(k)
    return bad


def check(tier, seed):
    ck = V.Check(PROP, tier, seed)
    ck.trusted = V.std_trusted() + [
        "modelled not verified: sync.Mutex as a boolean, atomic.Int32 as wrap32 arithmetic, slices.Grow as zero-filling resize, "
        "strconv.Atoi acceptance (mirrored by a regular expression in the harness), gRPC handler context semantics (fake streams)",
    ]
    ck.assumptions = ["the stream body itself (forwarder / routing pair) terminates - decided by C06/C08"]
    proof_ok = V.coq_stage(ck, PROP, TARGETS)
    ok, log, exe = V.ocaml_build("observer_driver", "ExtractObserver.v", "observer_model.ml", "observer_driver.ml")
    ck.obligation("extraction + driver build", ok, log[-2000:])
    if not ok:
        ck.violation({"kind": "build", "log": log[-4000:], "broken": "extraction of Observer/Model.v"}, "model driver does not build", no_input=True)
        return ck.finish()
    rng = V.Rng(seed)
    hs = load_corpus() + systematic(tier)
    n_rand = 40 if tier == "quick" else 1500
    for i in range(n_rand):
        hs.append(gen_history(rng, rng.range(8, 40)))
    err, ih, mh = run_both(hs, exe, "main")
    if err:
        ck.obligation("correspondence run", False, err)
        ck.violation({"kind": "harness", "log": err, "broken": "C20 harness"}, "harness failed: " + err[:300], no_input=True)
        return ck.finish()
    diffs = [i for i in range(len(hs)) if ih[i] != mh[i]]
    mon = [i for i in range(len(hs)) if monitor(ih[i])]
    # served check: the trailing well-formed streams
    for i, h in enumerate(hs):
        for k, l in enumerate(h[0]):
            if l.startswith("H ") and l.split()[1] != "intra0" and l.split()[2] == "1" and all(re.fullmatch(r"[0-9]+", x) for x in l.split()[3:7]) \
                    and all(0 < int(x) <= I32MAX for x in l.split()[3:7]) and not ih[i][k].startswith("H served"):
                if i not in mon:
                    mon.append(i)
    distinct = set()
    dist = {"R": 0, "H": 0, "H_malformed": 0}
    for i, h in enumerate(hs):
        mal = False
        for l, m in zip(h[0], h[1]):
            if l.startswith("R"):
                dist["R"] += 1
            elif l.startswith("H"):
                dist["H"] += 1
                if "-" in m.split()[3:]:
                    dist["H_malformed"] += 1
                    mal = True
        big = any(l.startswith("R ") and abs(int(l.split()[1])) > 1024 for l in h[0])
        if mal or big:
            distinct.add(hashlib.sha256("\n".join(h[0]).encode()).hexdigest())
    ck.cov.update({"evaluations": len(hs), "distinct_nontrivial": len(distinct), "traces_validated_against_impl": len(hs),
                   "input_distribution": dist, "boundary_indices": len(boundary_indices()), "metadata_pool": MD_POOL})
    ck.samples = [{"ops": hs[k][0][:10], "impl": ih[k][:10]} for k in (0, len(hs) // 2, len(hs) - 1)]
    ck.obligation("correspondence impl = extracted model on all histories", not diffs, "%d differing" % len(diffs))
    ck.obligation("monitor: nothing blocked / panicked / lock held; well-formed streams served", not mon, "%d histories" % len(mon))
    ck.log("%d histories, %d differ from model, %d flagged by monitor" % (len(hs), len(diffs), len(mon)))
    if mon:
        h = shrink(hs[mon[0]], exe, "monitor")
        err, ih2, mh2 = run_both([h], exe, "replay")
        ck.violation({"kind": "history", "ops": h[0], "model_ops": h[1], "impl": ih2[0], "model": mh2[0],
                      "verdict": "a report or stream blocked / panicked / left the lock held, or a well-formed stream was not served"},
                     "stream bookkeeping wedged or crashed on a %d-op history" % (len(h[0]) - 1))
    elif diffs or not proof_ok:
        data = {"kind": "unproved", "broken": [], "search": "systematic boundary sweep + %d random histories under the monitor: no failing input" % n_rand}
        if not proof_ok:
            data["broken"].append("theorems of coq/properties/C20.v no longer check")
        if diffs:
            h = shrink(hs[diffs[0]], exe, "model")
            err, ih2, mh2 = run_both([h], exe, "replay")
            data["broken"].append("correspondence Observer.Model.report/handle <-> ReplicationStreamObserver / stream handler")
            data.update({"ops": h[0], "model_ops": h[1], "impl": ih2[0], "model": mh2[0]})
        ck.violation(data, "; ".join(data["broken"]), no_input=True)
    return ck.finish(rule="systematic: every boundary index (powers of two +-1, overflow thresholds, int32 extremes) and every malformed metadata value at every "
                          "position in every stream mode, each followed by well-formed reports/streams; plus random histories from VERIF_SEED; "
                          "non-trivial = history with malformed metadata or an index beyond the initial 1024 slots; distinct by sha256")


def shrink(h, exe, what):
    cur = h
    import time as _t
    t0 = _t.time()
    for _ in range(8):
        if _t.time() - t0 > 120:
            break
        cands = []
        for i in range(1, len(cur[0])):
            cands.append((cur[0][:i] + cur[0][i + 1:], cur[1][:i] + cur[1][i + 1:]))
        cands = [c for c in cands if len(c[0]) > 1][:60]
        if not cands:
            break
        err, ih, mh = run_both(cands, exe, "shrink")
        if err:
            break
        if what == "monitor":
            bad = [i for i in range(len(cands)) if monitor(ih[i])]
        else:
            bad = [i for i in range(len(cands)) if ih[i] != mh[i]]
        if not bad:
            break
        cur = cands[bad[0]]
    return cur


def load_corpus():
    d = os.path.join(V.ROOT, "corpus", PROP)
    hs = []
    if os.path.isdir(d):
        for f in sorted(os.listdir(d)):
            lines = [l.strip() for l in open(os.path.join(d, f)) if l.strip() and not l.startswith("#")]
            if lines:
                hs.append((lines, list(lines)))
    return hs


def replay(data):
    ok, log, exe = V.ocaml_build("observer_driver", "ExtractObserver.v", "observer_model.ml", "observer_driver.ml")
    if "ops" not in data:
        print("nothing to execute: " + "; ".join(data.get("broken", [])))
        return 1
    err, ih, mh = run_both([(data["ops"], data.get("model_ops", data["ops"]))], exe, "replay")
    if err:
        print(err)
        return 1
    for o, a, b in zip(data["ops"], ih[0], mh[0]):
        print("%-40s | %-45s | %-45s %s" % (o, a, b, "" if a == b else "<-- differs"))
    bad = bool(monitor(ih[0])) or ih[0] != mh[0]
    print("REPRODUCED" if bad else "not reproduced on the current tree")
    return 1 if bad else 0


MANIFEST = {
    "technique": "Coq proof of totality/independence of the stream bookkeeping model + differential correspondence with the real observer and stream handler",
    "text": "Theorems C20_report_total, C20_independent, C20_streams_never_wedge (coq/properties/C20.v) prove for every index and value, every sequence of "
            "reports and every history of stream opens with arbitrary (missing, non-numeric, truncated-to-int32) metadata that no call panics, the lock is never "
            "left held, only the addressed counter changes and all counters return to their values, so later streams are served. The model is tied to the code by "
            "running the real ReportStreamValue and the real StreamWorkflowReplicationMessages handler in default, LCM and routing modes on boundary sweeps and random "
            "histories and comparing outcome, lock state, counter, slice length and active list with the extracted model.",
    "note": "Trusted: Coq kernel, extraction, harness fakes. Modelled not verified: mutex as boolean, atomic add as int32 wrap, slices.Grow as zero-filling resize, Atoi acceptance, "
            "termination of the stream body (C06/C08). A well-formed witness stream pair stays up on the routing-mode shard manager and is probed (WC) after the odd streams; a handler that returns OK without having opened the stream towards the serving cluster is classified 'dropped'. Intra-proxy streams are run with (intra) and without (intra0: refused with an error, F14) an intra-proxy manager.",
}
