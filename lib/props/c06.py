"""C06 - pass-through streams relay faithfully and end together."""
import hashlib
import os

from .. import vfcore as V

PROP = "C06"
TARGETS = ["theories/Forwarder/Proofs.vo"]
GO = ["zz_verif_fakes_test.go", "zz_verif_forwarder_test.go"]
ENDINGS = ["su", "se", "sx", "iu", "ie", "ix", "ic", "P"]


def gen(rng, n):
    hs = []
    # every ending kind at every position of a short bidirectional sequence, both modes, peer answering / ignoring CloseSend
    # (a receiver repeats its sync state when nothing changed, a source repeats its watermark: identical consecutive messages)
    base = ["s 1", "i 1", "s 2", "s 3", "i 2"]
    for mode in ("default", "lcm"):
        hs.append(["N %s ignoreclose=0" % mode, "i 4", "i 4", "i 4", "s 7", "s 7", "i 4", "s 7", "E"])
    for mode in ("default", "lcm"):
        for ign in (0, 1):
            for end in ENDINGS:
                for pos in range(len(base) + 1):
                    hs.append(["N %s ignoreclose=%d" % (mode, ign)] + base[:pos] + [end] + base[pos:] + ["E"])
            for fail, msg in (("fi", "s 9"), ("fs", "i 9")):
                for pos in range(len(base) + 1):
                    hs.append(["N %s ignoreclose=%d" % (mode, ign)] + base[:pos] + [fail] + base[pos:] + [msg, "E"])
    # the initiator goes away while the source stream is still being opened (monitor only: the model starts at "open")
    for mode in ("default", "lcm"):
        for end in ("ic",):
            hs.append(["N %s ignoreclose=0 openblock=1" % mode, end, "E"])
    # the source transport is wedged: CloseSend on the source stream does not return by itself (the forwarder bounds it by
    # a timeout); every ending kind at three positions (monitor only: the model has no notion of a blocking CloseSend)
    for mode in ("default", "lcm"):
        for end in ENDINGS + ["fi", "fs"]:
            for pos in (0, 2, len(base)):
                tail = ["s 9", "i 9"] if end in ("fi", "fs") else []
                hs.append(["N %s ignoreclose=1 closewedge=1" % mode] + base[:pos] + [end] + base[pos:] + tail + ["E"])
    # a twin stream for the same pair of shards is up at the same time and ends first (monitor only): this one must still relay
    # everything and end properly
    for mode in ("default", "lcm"):
        hs.append(["N %s ignoreclose=0 twin=1" % mode] + base + ["s 4", "i 3", "se", "E"])
        hs.append(["N %s ignoreclose=0 twin=1" % mode] + base + ["ic", "E"])
    for _ in range(n):
        h = ["N %s ignoreclose=%d" % (rng.choice(["default", "lcm"]), rng.below(2))]
        k = 0
        for _ in range(rng.range(0, 14)):
            r = rng.below(100)
            k += 1
            if r < 40:
                h.append("s %d" % (k if rng.chance(2, 3) else max(1, k - 1)))
            elif r < 75:
                h.append("i %d" % (k if rng.chance(2, 3) else max(1, k - 1)))
            elif r < 85:
                h.append(rng.choice(["fi", "fs"]))
            else:
                h.append(rng.choice(ENDINGS))
        h.append("E")
        hs.append(h)
    return hs


def run_impl(hs, tag, timeout=None):
    inp = os.path.join(V.WORK, "c06_%s.in" % tag)
    outp = os.path.join(V.WORK, "c06_%s.out" % tag)
    open(inp, "w").write("".join("\n".join(h) + "\n" for h in hs))
    if os.path.exists(outp):
        os.remove(outp)
    rc, out = V.go_test("proxy", GO, "^TestVerifForwarder$", env={"VERIF_IN": inp, "VERIF_OUT": outp}, timeout=timeout or (240 if len(hs) < 1000 else 900))
    if rc != 0 or not os.path.exists(outp):
        return "forwarder harness failed:\n" + out[-3000:], None
    res, cur = [], None
    for l in open(outp).read().split("\n"):
        if l.startswith("# scenario"):
            cur = []
        elif l == "#end":
            res.append(cur)
            cur = None
        elif cur is not None:
            cur.append(l)
    return None, res


def run_model(exe, hs):
    rc, out = V.run([exe], input="".join("\n".join(h) + "\n" for h in hs), timeout=600)
    if rc != 0:
        return "model driver failed: " + out[-1500:], None
    res, cur = [], None
    for l in out.split("\n"):
        if l == "N":
            if cur is not None:
                res.append(cur)
            cur = []
        if cur is not None and l:
            cur.append(l)
    if cur is not None:
        res.append(cur)
    return None, res


def project(lines):
    """keep relayed messages and up/down only (the model has no separate flags)"""
    out = []
    for l in lines:
        if l.startswith("= "):
            out.append(" ".join(l.split()[:2]))
        elif l.startswith("FINAL") or l.startswith("PANIC"):
            continue
        else:
            out.append(l)
    return out


def monitor(h, lines):
    """the property on the implementation's own output"""
    bad = []
    sent_s = [l.split()[1] for l in h if l.startswith("s ")]
    sent_i = [l.split()[1] for l in h if l.startswith("i ")]
    got_i = [l.split()[1] for l in lines if l.startswith(">i ")]
    got_s = [l.split()[1] for l in lines if l.startswith(">s ")]
    if got_i != sent_s[:len(got_i)]:
        bad.append("messages to the initiator %s are not a prefix of what the source sent %s" % (got_i, sent_s))
    if got_s != sent_i[:len(got_s)]:
        bad.append("messages to the source %s are not a prefix of what the initiator sent %s" % (got_s, sent_i))
    if "twin=1" in h[0]:
        # everything sent before the first ending has to be relayed
        k = next((j for j, l in enumerate(h) if l in ENDINGS), len(h))
        before_s = [l.split()[1] for l in h[:k] if l.startswith("s ")]
        before_i = [l.split()[1] for l in h[:k] if l.startswith("i ")]
        if got_i[:len(before_s)] != before_s or got_s[:len(before_i)] != before_i:
            bad.append("with a twin stream that ended first: relayed to the initiator %s of %s, to the source %s of %s" % (got_i, before_s, got_s, before_i))
        if any(l.startswith("TWIN stuck") for l in lines):
            bad.append("the twin stream's handler did not return")
    ended = False
    ev = None
    for l in lines:
        if not l.startswith(("=", ">", "FINAL", "PANIC")):
            ev = l
            if ev in ENDINGS:
                ended = True
        if l.startswith("= ") and ended:
            if "openblock=1" in h[0]:
                if "returned=true" not in l:
                    bad.append("the initiator went away while the source stream was being opened, but the handler did not return: " + l)
                    break
                continue
            if "returned=true cancelled=true closesend=true" not in l:
                bad.append("after %s the pair is not fully down: %s" % (ev, l))
                break
    for l in lines:
        if l.startswith("FINAL STUCK") or l.startswith("PANIC"):
            bad.append("handler / workers left running: " + l[:200])
    return bad


def check(tier, seed):
    ck = V.Check(PROP, tier, seed)
    ck.trusted = V.std_trusted() + [
        "modelled not verified: gRPC stream contract (a blocked Recv returns once its context is cancelled / the handler has returned; CloseSend), Go scheduling of the four goroutines "
        "(the model is event-level: one peer event, then quiescence), testing/synctest",
    ]
    proof_ok = V.coq_stage(ck, PROP, TARGETS)
    ok, log, exe = V.ocaml_build("forwarder_driver", "ExtractForwarder.v", "forwarder_model.ml", "forwarder_driver.ml")
    ck.obligation("extraction + driver build", ok, log[-1500:])
    rng = V.Rng(seed)
    hs = gen(rng, 150 if tier == "quick" else 6000)
    err, impl = run_impl(hs, "main")
    err2, model = run_model(exe, hs) if ok else ("no driver", None)
    if err or err2:
        ck.obligation("correspondence run", False, (err or err2)[:1500])
        if not (err and V.crash_violation(ck, err, os.path.join(V.WORK, "c06_main.out"), hs, lambda h: run_impl([h], "crash", timeout=60)[0], "StreamForwarder harness")):
            ck.violation({"kind": "harness", "log": err or err2, "broken": "C06 harness"}, "harness failed: " + (err or err2)[:300], no_input=True)
        return ck.finish()
    diffs, mon = [], []
    distinct = set()
    for i, h in enumerate(hs):
        if "openblock=1" not in h[0] and "closewedge=1" not in h[0] and "twin=1" not in h[0] and project(impl[i]) != project(model[i]):
            diffs.append(i)
        b = monitor(h, impl[i])
        if b:
            mon.append((i, b))
        if any(x in h for x in ENDINGS) and any(x.startswith(("s ", "i ")) for x in h):
            distinct.add(hashlib.sha256("\n".join(h).encode()).hexdigest())
    ck.cov.update({"evaluations": len(hs), "distinct_nontrivial": len(distinct), "traces_validated_against_impl": len(hs),
                   "input_distribution": {"systematic": "8 ending kinds x 6 positions x 2 modes x 2 peer behaviours + send failures", "random": 150 if tier == "quick" else 6000}})
    ck.samples = [{"history": hs[7], "impl": impl[7]}]
    ck.obligation("correspondence: real forwarder (default + LCM) = extracted model (relayed messages, up/down) on all histories", not diffs, "%d differ" % len(diffs))
    ck.obligation("monitor: prefix relay both ways; after any ending the handler has returned, the source context is cancelled, CloseSend issued, no worker left", not mon, "%d histories" % len(mon))
    ck.log("%d histories, %d differ from model, %d monitor hits" % (len(hs), len(diffs), len(mon)))
    if mon:
        i, b = mon[0]
        ck.violation({"kind": "history", "history": hs[i], "impl": impl[i], "verdict": b[0]}, b[0][:300])
    elif diffs or not proof_ok:
        data = {"kind": "unproved", "broken": [], "search": "%d histories under the monitor: no failing input" % len(hs)}
        if not proof_ok:
            data["broken"].append("theorems of coq/properties/C06.v no longer check")
        if diffs:
            i = diffs[0]
            data["broken"].append("correspondence Forwarder.Model.fstep <-> StreamForwarder")
            data.update({"history": hs[i], "impl": impl[i], "model": model[i]})
        ck.violation(data, "; ".join(data["broken"]), no_input=True)
    return ck.finish(rule="systematic: every ending kind (EOF, error, cancelled context, unknown kind, proxy shutdown on either side) at every position of a bidirectional sequence, send failures, "
                          "default and LCM mode, source answering / ignoring CloseSend; plus random histories; non-trivial = history with traffic and an ending")


def replay(data):
    if "history" not in data:
        print("nothing to execute: " + "; ".join(data.get("broken", [])))
        return 1
    err, impl = run_impl([data["history"]], "replay")
    print(err or "\n".join(impl[0]))
    b = monitor(data["history"], impl[0]) if not err else ["harness error"]
    print("MONITOR", b)
    return 1 if b else 0


MANIFEST = {
    "technique": "Coq theorems over an event-level model of the forwarder (prefix relay for all event sequences, joint end at every position) + differential correspondence in a synctest bubble",
    "text": "Theorems C06_*: for every sequence of peer events what each side receives is a prefix, in order and unmodified, of what the other side sent; everything is relayed while nobody ends; any "
            "ending kind at any position brings the pair down for good. The extracted model is compared with the real StreamForwarder (default mode and handleStream's LCM branch) driven through in-memory "
            "streams in a synctest bubble: relayed messages, handler return, source-context cancellation, CloseSend, and absence of leftover goroutines at bubble exit, for every ending kind at "
            "every position, with a source that answers or ignores CloseSend.",
    "note": "Event-level model: interleavings finer than one peer event are exercised by the real runtime in the harness, not enumerated by the model. Translation of relayed messages is C12/C13.",
}
