"""C10 - mux session pool: bound, self-healing, clean shutdown."""
import hashlib
import os

from .. import vfcore as V

PROP = "C10"
TARGETS = ["theories/MuxPool/Proofs.vo"]
GO = ["zz_verif_pool_test.go", "zz_verif_receiver_test.go"]
REPLACE = {"transport/mux/session/zz_verif_access.go": os.path.join(V.ROOT, "go/overlay/transport/mux/session/zz_verif_access.go")}


def gen(rng, n):
    hs = []
    # systematic: each failure stage in a pool of each size, then recovery; cancellation at each point of an attempt sequence
    for size in (1, 2, 3):
        # shutdown landing while a connection is being established: the attempt still yields a live connection
        for late in ("2 1 1", "2 0 1", "2 1 0"):
            hs.append(["N %d" % size] + ["A 1 1 1"] * (size - 1) + ["A " + late, "E"])
            hs.append(["N %d" % size, "A " + late, "A 1 1 1", "E"])
        for bad in ("0 1 1", "1 0 1", "1 1 0", "1 1 2", "1 1 3"):
            hs.append(["N %d" % size, "A " + bad] + ["A 1 1 1"] * size + ["K r"] + ["A 1 1 1", "E"])
        if size >= 2:
            hs.append(["N %d" % size, "A 1 1 1", "A 1 1 3", "A 1 1 1", "E"])
            hs.append(["N %d" % size, "A 1 1 3", "A 1 1 3", "A 1 1 1", "A 1 1 1", "E"])
        seq = ["A 1 1 1", "A 0 1 1", "A 1 1 1", "K l", "A 1 0 1", "A 1 1 1"]
        for pos in range(len(seq) + 1):
            hs.append(["N %d" % size] + seq[:pos] + ["X"] + seq[pos:] + ["E"])
    # a registered session's peer goes silent (nothing closed): the real establisher configuration must notice, free the slot, heal
    for size in (1, 2):
        hs.append(["N %d role=establisher" % size] + ["A 1 1 1"] * size + ["KS", "A 1 1 1", "E"])
        hs.append(["N %d role=establisher" % size, "A 1 1 1", "KS", "E", "A 1 1 1", "A 1 1 1", "E"])
    hs.append(["N 2 role=establisher", "A 1 1 1", "A 0 1 1", "A 1 0 1", "A 1 1 0", "A 1 1 1", "K r", "A 1 1 1", "X", "E"])
    for _ in range(n):
        size = rng.range(1, 4)
        h = ["N %d" % size]
        for _ in range(rng.range(2, 16)):
            r = rng.below(100)
            if r < 55:
                if rng.chance(3, 5):
                    h.append("A 1 1 1")
                else:
                    # ("A 1 1 3" - the peer dies right after registration - is only meaningful when the attempt is served at
                    # once; it is exercised by the systematic scenarios below, where the pool is known to have a free slot)
                    h.append("A %d %d %d" % (rng.below(2), rng.below(2), rng.choice([0, 1, 2])))
            elif r < 85:
                h.append("K " + rng.choice(["r", "l"]))
            elif r < 89:
                h.append("X")
            elif r < 92:
                h.append("A 2 %d %d" % (rng.below(2), rng.below(2)))
            else:
                h.append("A 1 1 1")
        h.append("E")
        hs.append(h)
    return hs


def run_impl(hs, tag, test="TestVerifPool"):
    inp = os.path.join(V.WORK, "c10_%s.in" % tag)
    outp = os.path.join(V.WORK, "c10_%s.out" % tag)
    open(inp, "w").write("".join("\n".join(h) + "\n" for h in hs))
    if os.path.exists(outp):
        os.remove(outp)
    rc, out = V.go_test("transport/mux", GO, "^%s$" % test, env={"VERIF_IN": inp, "VERIF_OUT": outp}, timeout=1800, replace=REPLACE)
    if rc != 0 or not os.path.exists(outp):
        return "pool harness failed:\n" + out[-3000:], None
    res, cur = [], None
    for l in open(outp).read().split("\n"):
        if l.startswith("# scenario"):
            cur = []
        elif l == "#end":
            res.append(cur)
            cur = None
        elif cur is not None:
            cur.append(l)
    return None, res


def run_model(exe, hs):
    rc, out = V.run([exe], input="".join("\n".join(h) + "\n" for h in hs), timeout=600)
    if rc != 0:
        return "model driver failed: " + out[-1500:], None
    res, cur = [], None
    for l in out.split("\n"):
        if l == "N":
            if cur is not None:
                res.append(cur)
            cur = []
        if cur is not None and l:
            cur.append(l)
    if cur is not None:
        res.append(cur)
    return None, res


def states(lines):
    return [l for l in lines if l.startswith("= ")]


def monitor(h, lines):
    bad = []
    size = int(h[0].split()[1])
    cancelled = False
    for l in lines:
        if l.startswith("= ") and "zombie=" in l:
            bad.append("a session whose peer went silent is still registered 45s later: " + l)
            break
    evs = [l for l in h]
    st = states(lines)
    for k, l in enumerate(st):
        f = dict(x.split("=") for x in l.split()[1:])
        if int(f["live"]) > size:
            bad.append("more live sessions than configured: %s (size %d)" % (l, size))
        if k < len(evs) and evs[k] == "X":
            cancelled = True
        if cancelled and (int(f["live"]) != 0 or int(f["open"]) != 0):
            bad.append("after shutdown something is still registered or open: %s" % l)
    for l in lines:
        if l.startswith("FINAL") and l != "FINAL live=0 open=0":
            bad.append("at the end of the scenario: " + l)
        if l.startswith("PANIC"):
            bad.append(l[:300])
    # healing: a scenario without cancellation whose tail offers enough good attempts ends at full strength
    if "X" not in h and not any(e.startswith("A 2") for e in h) and st:
        tail_good = 0
        for e in reversed(h[:-1]):
            if e == "A 1 1 1":
                tail_good += 1
            else:
                break
        f = dict(x.split("=") for x in st[-1].split()[1:])
        if tail_good >= size and int(f["live"]) != size:
            bad.append("%d good attempts offered at the end but the pool is not at full strength: %s" % (tail_good, st[-1]))
    return bad


def check(tier, seed):
    ck = V.Check(PROP, tier, seed)
    ck.trusted = V.std_trusted() + [
        "modelled not verified: yamux (session establishment, Ping, CloseChan), net.Pipe, semaphore.Weighted, goroutine scheduling; the model is sequential at the granularity of the provider's "
        "branches, the harness exercises the real runtime in a synctest bubble (virtual time for ping timeouts)",
    ]
    proof_ok = V.coq_stage(ck, PROP, TARGETS)
    ok, log, exe = V.ocaml_build("pool_driver", "ExtractPool.v", "pool_model.ml", "pool_driver.ml")
    ck.obligation("extraction + driver build", ok, log[-1500:])
    rng = V.Rng(seed)
    hs = gen(rng, 80 if tier == "quick" else 3000)
    err, impl = run_impl(hs, "main")
    err2, model = run_model(exe, hs) if ok else ("no driver", None)
    if err or err2:
        ck.obligation("correspondence run", False, (err or err2)[:1500])
        if not (err and V.crash_violation(ck, err, os.path.join(V.WORK, "c10_main.out"), hs, lambda h: run_impl([h], "crash")[0], "mux provider + manager harness")):
            ck.violation({"kind": "harness", "log": err or err2, "broken": "C10 harness"}, "harness failed: " + (err or err2)[:300], no_input=True)
        return ck.finish()
    diffs, mon, distinct = [], [], set()
    for i, h in enumerate(hs):
        if states(impl[i]) != states(model[i]):
            diffs.append(i)
        b = monitor(h, impl[i])
        if b:
            mon.append((i, b))
        if any(e.startswith("A ") and e != "A 1 1 1" for e in h) or "X" in h:
            distinct.add(hashlib.sha256("\n".join(h).encode()).hexdigest())
    ck.cov.update({"evaluations": len(hs), "distinct_nontrivial": len(distinct), "traces_validated_against_impl": len(hs)})
    ck.samples = [{"history": hs[3], "impl": impl[3]}]
    ck.obligation("correspondence: real provider + manager + sessions = extracted model (live sessions, open connections, CanAcceptConnections after every event)", not diffs, "%d differ" % len(diffs))
    ck.obligation("monitor: never more live sessions than configured; pool back at full strength after enough good attempts; after shutdown nothing registered and nothing open", not mon, "%d histories" % len(mon))
    ck.log("%d histories, %d differ from model, %d monitor hits" % (len(hs), len(diffs), len(mon)))
    # the REAL receiver-role provider over loopback TCP (real time): a faulty peer at each stage of the hand-shake, with and
    # without TLS, between two healthy peers; the model's prediction for healthy / first-ping-failure / healthy is a full pool
    rows = [("plain-" + f, 0, f) for f in ("silent", "garbage", "partial", "hangup")] + [("tls-" + f, 1, f) for f in ("silent", "garbage", "partial", "tlssilent", "hangup")]
    rows.append(("churn", 0, "churn"))
    rin = os.path.join(V.WORK, "c10_recv.in")
    rout = os.path.join(V.WORK, "c10_recv.out")
    open(rin, "w").write("".join("RR %s tls=%d fault=%s\n" % r for r in rows))
    if os.path.exists(rout):
        os.remove(rout)
    rc, out = V.go_test("transport/mux", GO, "^TestVerifReceiverRole$", env={"VERIF_IN": rin, "VERIF_OUT": rout}, timeout=300, replace=REPLACE)
    errm, mres = run_model(exe, [["N 2", "A 1 1 1", "A 1 1 2", "A 1 1 1", "X"]])
    want_live = None
    if not errm:
        st = states(mres[0])
        want_live = (st[3].split()[1], st[-1].split()[1], st[-1].split()[2]) if len(st) >= 5 else None
    rbad = []
    if rc != 0 or not os.path.exists(rout):
        rbad.append(("harness", "receiver-role harness failed: " + out[-1500:]))
    elif want_live != ("live=2", "live=0", "open=0"):
        rbad.append(("model", "model prediction for healthy/ping-failure/healthy in a pool of 2 is %r" % (want_live,)))
    else:
        got = {l.split()[1]: l for l in open(rout).read().split("\n") if l.startswith("ROW ")}
        for name, _, _ in rows:
            l = got.get(name, "ROW %s missing" % name)
            f = dict(x.split("=") for x in l.split()[2:] if "=" in x)
            if name == "churn":
                # sessions coming and going while the manager is asked to describe itself: nothing may stall
                if f.get("cycles") != "60" or f.get("stalled") != "-" or f.get("describe") != "1" or f.get("shut") != "1":
                    rbad.append((name, l))
                continue
            if f.get("first") != "1" or f.get("healed") != "1" or f.get("badclosed") != "1" or f.get("shut") != "1" or f.get("live") != "0" or int(f.get("max", "9")) > 2:
                rbad.append((name, l))
    ck.obligation("real receiver-role provider over TCP, with and without TLS: a peer that goes silent, sends garbage, stops mid-record, completes TLS only, or hangs up does not keep its slot; "
                  "the pool of 2 returns to full strength, never exceeds 2, and shutdown closes everything; 60 cycles of session death and replacement on a pool of 3 while 8 goroutines keep calling "
                  "Describe()/CanAcceptConnections() never stall (%d rows; model: live=2 then live=0 open=0)" % len(rows), not rbad, "; ".join(x[1] for x in rbad)[:600])
    # the pool size as the configuration layer hands it on (NewGRPCMuxManager): permits of the provider = configured count
    cout = os.path.join(V.WORK, "c10_count.out")
    if os.path.exists(cout):
        os.remove(cout)
    rc2, out2 = V.go_test("transport/mux", GO, "^TestVerifMuxCountConfig$", env={"VERIF_OUT": cout}, timeout=300, replace=REPLACE)
    cbad = []
    if rc2 != 0 or not os.path.exists(cout):
        cbad.append("mux count harness failed: " + out2[-800:])
    else:
        clines = [l for l in open(cout).read().split("\n") if l.startswith("MUXCOUNT")]
        for l in clines:
            f = dict(x.split("=") for x in l.split()[1:] if "=" in x)
            want = 10 if f.get("configured") == "0" else int(f.get("configured", "-1"))
            if f.get("permits") != str(want):
                cbad.append(l + " (want %d)" % want)
        if len(clines) != 12:
            cbad.append("%d of 12 configurations reported" % len(clines))
    ck.obligation("NewGRPCMuxManager builds a provider with exactly the configured number of permits (muxCount 1, 2, 3, 7, 16; unset = the default 10), both roles", not cbad, "; ".join(cbad[:3]))
    if cbad and not mon and not rbad:
        ck.violation({"kind": "muxcount", "lines": cbad[:12], "verdict": "the pool is built with a size other than the configured one"}, "C10 configured pool size: " + cbad[0][:300])
    if rbad and not mon:
        name, l = rbad[0]
        row = [r for r in rows if r[0] == name]
        if row:
            ck.violation({"kind": "receiver", "row": list(row[0]), "impl": l, "verdict": "the receiver-role pool of 2 did not behave as the model predicts (first=1 healed=1 badclosed=1 shut=1 live=0 max<=2)"},
                         "C10 receiver role, faulty peer '%s'%s: %s" % (row[0][2], " with TLS" if row[0][1] else "", l))
        else:
            ck.violation({"kind": "harness", "log": l, "broken": "C10 receiver-role harness"}, l[:300], no_input=True)
    if mon:
        i, b = mon[0]
        ck.violation({"kind": "history", "history": hs[i], "impl": impl[i], "verdict": b[0]}, b[0][:300])
    elif diffs or not proof_ok:
        data = {"kind": "unproved", "broken": [], "search": "%d histories under the monitor: no failing input" % len(hs)}
        if not proof_ok:
            data["broken"].append("theorems of coq/properties/C10.v no longer check")
        if diffs:
            i = diffs[0]
            data["broken"].append("correspondence MuxPool.Model <-> muxProvider / multiMuxManager / session")
            data.update({"history": hs[i], "impl": impl[i], "model": model[i]})
        ck.violation(data, "; ".join(data["broken"]), no_input=True)
    return ck.finish(rule="pool sizes 1-4; attempts failing at dial/accept, yamux setup, first ping (peer hangs up / peer silent); remote- and local-initiated session closes; cancellation at every position "
                          "of an attempt sequence; random histories; non-trivial = history with a failing attempt or a shutdown")


def replay(data):
    if data.get("kind") == "muxcount":
        cout = os.path.join(V.WORK, "c10_countr.out")
        rc2, out2 = V.go_test("transport/mux", GO, "^TestVerifMuxCountConfig$", env={"VERIF_OUT": cout}, timeout=300, replace=REPLACE)
        print(open(cout).read() if rc2 == 0 and os.path.exists(cout) else out2[-800:])
        print("recorded:", data.get("lines"))
        return 1
    if data.get("kind") == "receiver":
        rin = os.path.join(V.WORK, "c10_recvr.in")
        rout = os.path.join(V.WORK, "c10_recvr.out")
        open(rin, "w").write("RR %s tls=%d fault=%s\n" % tuple(data["row"]))
        rc, out = V.go_test("transport/mux", GO, "^TestVerifReceiverRole$", env={"VERIF_IN": rin, "VERIF_OUT": rout}, timeout=300, replace=REPLACE)
        l = open(rout).read().strip() if rc == 0 and os.path.exists(rout) else out[-800:]
        print(l)
        f = dict(x.split("=") for x in l.split()[2:] if "=" in x)
        ok = f.get("first") == "1" and f.get("healed") == "1" and f.get("badclosed") == "1" and f.get("shut") == "1" and f.get("live") == "0" and int(f.get("max", "9")) <= 2
        if data["row"][0] == "churn":
            ok = f.get("cycles") == "60" and f.get("stalled") == "-" and f.get("describe") == "1" and f.get("shut") == "1"
        return 0 if ok else 1
    if "history" not in data:
        print("nothing to execute: " + "; ".join(data.get("broken", [])))
        return 1
    err, impl = run_impl([data["history"]], "replay")
    print(err or "\n".join(impl[0]))
    if data.get("kind") == "crash":
        return 1 if err else 0
    b = monitor(data["history"], impl[0]) if not err else ["harness error"]
    print("MONITOR", b)
    return 1 if b else 0


MANIFEST = {
    "technique": "Coq invariant proof over all action sequences of the pool model (permit accounting, bound, quiescent states, clean shutdown) + differential correspondence on the real pool in a synctest bubble",
    "text": "Theorems C10_*: for every pool size and every sequence of actions the number of live sessions never exceeds the configured count; while the provider runs, free permits + the provider's "
            "permit + live sessions equal the configured count (every failure branch and every session exit returns its permit); a quiescent non-cancelled pool is full or waiting for the peer with a "
            "permit in hand and a successful attempt then adds a session; after cancellation a quiescent pool has no session and no open connection. The extracted canonical schedule is compared with "
            "the real muxProvider + multiMuxManager + managed sessions over net.Pipe with faults injected at each stage.",
    "note": "Healing is proved as 'quiescent => full or waiting' plus C10_heals: under the canonical schedule k+1 successful attempts bring a pool with k free permits back to full strength (not under "
            "arbitrary fairness). yamux/net are trusted; that the REAL establisher configuration detects a silent peer (yamux keep-alive) is checked on the implementation (role=establisher, event KS). The real receiver-role provider is exercised over loopback TCP with and without TLS (silent / garbage / half-record / TLS-only / hang-up peers between healthy ones) and under session churn with concurrent Describe()/CanAcceptConnections() callers.",
}
