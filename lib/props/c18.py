"""C18 - UTF-8 repair reaches every failure message in every supported RPC type."""
import os

from .. import repair_gen as G
from .. import vfcore as V

PROP = "C18"
TARGETS = ["generated/Repair_gen.vo", "theories/Repair/Cover.vo", "theories/Repair/Current.vo"]


def run_paths():
    outp = os.path.join(V.WORK, "c18_paths.out")
    if os.path.exists(outp):
        os.remove(outp)
    rc, out = V.go_test("proto/compat", ["zz_verif_repair_paths_test.go", "zz_verif_codec_test.go"], "^TestVerifRepairPaths$", env={"VERIF_OUT": outp}, timeout=900)
    if rc != 0 or not os.path.exists(outp):
        return "repair path harness failed:\n" + out[-3000:], [], {}
    lines = [l for l in open(outp).read().split("\n") if l]
    stats = {}
    for l in lines:
        if l.startswith("STATS"):
            for p in l.split()[1:]:
                k, v = p.split("=")
                stats[k] = int(v)
    return None, lines, stats


def uncovered():
    """ask Coq which required paths the visitor lacks (names resolved for the report)"""
    import json
    import re
    names = json.load(open(G.NAMES))
    ty = {v: k for k, v in names["types"].items()}
    fl = {v: k for k, v in names["fields"].items()}
    src = """From Coq Require Import List PArith Bool.
From S2S Require Import Schema.Check Repair.Cover.
From S2SGen Require Import Repair_gen.
Import ListNotations.
Eval vm_compute in (flat_map (fun r => map (fun p => (r, p)) (filter (fun p => negb (existsb (path_eqb p) (ir_of (rm_ir gen_repair) r))) (required gen_repair r))) (rm_roots gen_repair)).
"""
    p = os.path.join(V.WORK, "c18_uncovered.v")
    open(p, "w").write(src)
    rc, out = V.run(["coqc"] + V.COQ_Q + [p], cwd=V.WORK, timeout=300)
    res = []
    for m in re.finditer(r"\((\d+),\s*\[([^\]]*)\]\)", out.replace("\n", " ")):
        root = ty.get(int(m.group(1)), m.group(1))
        steps = []
        for s in m.group(2).split(";"):
            nums = [int(x) for x in re.findall(r"\d+", s)]
            if "SOneof" in s and len(nums) == 3:
                steps.append("%s(%s)" % (fl.get(nums[0]), ty.get(nums[1], "?").split(".")[-1]))
            elif "SRange" in s and nums:
                steps.append("%s[]" % fl.get(nums[0]))
            elif nums:
                steps.append(str(fl.get(nums[0])))
        res.append("%s: %s" % (root.split("/")[-1], ".".join(steps)))
    return res[:30]


def check(tier, seed):
    ck = V.Check(PROP, tier, seed)
    ck.trusted = V.std_trusted() + [
        "translator: go/overlay/proto/compat/zz_verif_repair_dump_test.go (go/ast reader for the regular shape of the generated visitor: type switch, getters, range loops, oneof switches; "
        "reflection over the gogo 1.22 structs incl. XXX_OneofWrappers) + lib/repair_gen.py; an unrecognised statement is reported as a translator error",
        "repairInvalidUTF8InFailure's own chain walk (depth 10) is modelled in C17",
    ]
    try:
        d, changed = G.generate()
        ck.obligation("translator (legacy schema by reflection + visitor access paths by go/ast -> Repair_gen.v)", not d.get("irErrors"), str(d.get("irErrors"))[:500])
        ck.cov["model"] = {"legacy_types": len(d["types"]), "roots": len(d["roots"]), "visitor_roots": len(d["ir"]), "visitor_paths": sum(len(v) for v in d["ir"].values())}
    except Exception as e:  # noqa: BLE001
        ck.obligation("translator", False, str(e)[-1500:])
    proof_ok = V.coq_stage(ck, PROP, TARGETS)
    err, lines, stats = run_paths()
    if err:
        ck.obligation("repair path correspondence run", False, err)
        ck.violation({"kind": "harness", "log": err, "broken": "C18 harness"}, "harness failed: " + err[:300], no_input=True)
        return ck.finish()
    missed = [l for l in lines if l.startswith("MISSED")]
    chain = [l for l in lines if l.startswith("CHAIN")]
    ck.cov.update({"evaluations": stats.get("cases", 0), "distinct_nontrivial": stats.get("cases", 0) // 2, "traces_validated_against_impl": stats.get("cases", 0), "exhaustive": True,
                   "chain_cases": len(chain)})
    ck.samples = [{"stats": stats, "chain": chain[-14:]}]
    ck.obligation("real RepairInvalidUTF8 repairs an invalid message placed at each of the %d (root, path, depth) cases, one at a time" % stats.get("cases", 0), not missed,
                  "%d missed; first %s" % (len(missed), missed[0][:300] if missed else ""))
    # the chain walk against the model's depth bound (Repair/Utf8.v max_depth): within it every position is repaired without
    # error, beyond it an error is reported
    import re
    md = int(re.search(r"Definition max_depth : nat := (\d+)\.", open(os.path.join(V.ROOT, "coq/theories/Repair/Utf8.v")).read()).group(1))
    badchain = []
    for l in chain:
        f = l.split()
        n, kv = int(f[1]), dict(x.split("=") for x in f[2:])
        if n <= md and (kv["changed"] != "true" or kv["err"] != "false" or kv["valid"] != "true"):
            badchain.append(l)
        if n > md and kv["err"] != "true":
            badchain.append(l)
    ck.obligation("failure chains of 1..12 causes with the invalid message at each position: repaired without error up to the supported depth %d of the model, reported as an error beyond it (%d cases)"
                  % (md, len(chain)), not badchain and len(chain) == 78, "; ".join(badchain[:3]))
    if badchain and not missed:
        ck.violation({"kind": "chain", "cases": badchain[:10], "verdict": "a failure chain within the supported depth is not repaired (or one beyond it is passed on)"}, badchain[0])
    ck.log("%s, missed %d" % (stats, len(missed)))
    if missed:
        ck.violation({"kind": "paths", "missed": missed[:20], "verdict": "invalid UTF-8 at this place of this supported type is not repaired"}, missed[0][:400])
    elif not proof_ok:
        data = {"kind": "unproved", "broken": ["theorems of coq/properties/C18.v no longer check against the regenerated model"],
                "search": "every (root, path) x depths 1 and 3 run on the real visitor: all repaired"}
        try:
            data["uncovered_paths"] = uncovered()
        except Exception as e:  # noqa: BLE001
            data["uncovered_paths"] = str(e)
        ck.violation(data, data["broken"][0] + " " + str(data["uncovered_paths"])[:300], no_input=True)
    return ck.finish(rule="exhaustive: every legacy root type of the admin and frontend conversion tables x every structural path to a failure message (by reflection, no type revisited) x cause depth 1 and 3; "
                          "non-trivial = distinct (root, path) pairs")


def replay(data):
    err, lines, stats = run_paths()
    missed = [l for l in lines if l.startswith("MISSED")]
    if data.get("kind") == "chain":
        now = set(l for l in lines if l.startswith("CHAIN"))
        missed = [c for c in data["cases"] if c in now]
    print(err or "\n".join(missed) or "(nothing missed)")
    print("REPRODUCED" if missed else "not reproduced on the current tree")
    return 1 if missed else 0


MANIFEST = {
    "technique": "Coq coverage theorem over a model regenerated from the sources (legacy schema by reflection, visitor by go/ast; vm_compute certificate + generic lifting lemma) + exhaustive per-path run of the real visitor",
    "text": "Repair_gen.v is regenerated on every run. C18_current_build evaluates in the kernel that for all 172 conversion-table root types every structural path to a failure message is one of the "
            "visitor's access paths ending in the repair call; C18_generic lifts this for any regenerated model. The real RepairInvalidUTF8 is run on a message with invalid UTF-8 at each (root, path) "
            "one at a time, at cause depths 1 and 3, and on chains of 1..12 causes with the invalid message at each position (repaired up to the model's depth bound, an error beyond it).",
    "note": "A harmless restructuring of the generated visitor that the go/ast reader does not recognise is reported as a translator error (no-failing-input-found after the exhaustive path run).",
}
