"""C05 - proxy-id ring buffer.  Proof: coq/properties/C05.v.  Correspondence: the real
proxyIDRingBuffer vs the extracted concrete model (fix12=true) and vs the abstract list spec
(the monitor), on exhaustive small histories and long random ones."""
import hashlib
import os

from .. import vfcore as V

PROP = "C05"
TARGETS = ["theories/Ring/Proofs.vo", "theories/Routing/RingLink.vo"]


# ---------------------------------------------------------------- generators
class Ref:
    """tiny bookkeeping used only to generate state-dependent operations"""

    def __init__(self):
        self.start, self.size, self.next = 0, 0, 1

    def append(self, pid):
        if self.size == 0:
            self.start, self.size = pid, 1
        else:
            exp = self.start + self.size
            self.size += max(0, pid - exp) + 1
        self.next = pid + 1

    def discard(self, c):
        if c <= 0:
            return
        c = min(c, self.size)
        self.size -= c
        self.start += c


ALPHA = ["Aa", "Ab", "Ag", "Gb", "Gi", "Ga", "D1", "D2"]


def concretize(cap, syms):
    """symbolic op list -> protocol lines"""
    ref, lines, task = Ref(), ["N %d" % cap], 100
    for s in syms:
        task += 7
        if s == "Aa":
            lines.append("A %d 1 1 %d" % (ref.next, task)); ref.append(ref.next)
        elif s == "Ab":
            lines.append("A %d 1 2 %d" % (ref.next, 1000 - task)); ref.append(ref.next)
        elif s == "Ag":
            pid = ref.next + 2
            lines.append("A %d 1 1 %d" % (pid, task)); ref.append(pid)
        elif s == "Gb":
            lines.append("G %d" % (ref.start - 1))
        elif s == "Gi":
            lines.append("G %d" % (ref.start + 1))
        elif s == "Ga":
            lines.append("G %d" % (ref.start + ref.size + 3))
        elif s == "D1":
            lines.append("D 1"); ref.discard(1)
        elif s == "D2":
            lines.append("D 2"); ref.discard(2)
    return lines


def exhaustive(maxlen):
    hs = []
    for cap in (1, 2, 3):
        def rec(prefix):
            if prefix:
                hs.append(concretize(cap, prefix))
            if len(prefix) < maxlen:
                for a in ALPHA:
                    rec(prefix + [a])
        rec([])
    return hs


def random_history(rng, nops):
    cap = rng.choice([0, 1, 1, 2, 3, 4, 8, 16, 1024])
    ref, lines = Ref(), ["N %d" % cap]
    nsh = rng.range(1, 3)
    tasks = {}
    malformed = rng.chance(1, 8)
    last_count = 0
    for _ in range(nops):
        r = rng.below(100)
        if r < 62:
            sh = rng.range(1, nsh)
            pid = ref.next
            if rng.chance(1, 14):
                pid += rng.range(1, 4)
            if malformed and rng.chance(1, 10):
                pid = ref.next - rng.range(1, 3)
            t = tasks.get(sh, 10) + rng.range(1, 5)
            if rng.chance(1, 10):
                t = rng.range(0, 50)
            tasks[sh] = max(tasks.get(sh, 10), t)
            cl = 1
            if malformed and rng.chance(1, 12):
                cl, sh = 0, 0
            lines.append("A %d %d %d %d" % (pid, cl, sh, t))
            if pid >= ref.next - 0:
                ref.append(pid)
            else:
                ref.size += 1  # non-increasing id: the code just writes one more slot
        elif r < 80:
            k = rng.below(10)
            if k < 6:
                w = ref.start + rng.range(0, max(0, ref.size))
            elif k < 8:
                w = ref.start - rng.range(1, 3)
            else:
                w = ref.start + ref.size + rng.range(0, 5)
            lines.append("G %d" % w)
            last_count = max(0, min(ref.size, w - ref.start + 1)) if ref.size else 0
        else:
            c = last_count if rng.chance(3, 4) else rng.range(-1, 6)
            lines.append("D %d" % c)
            ref.discard(c)
            last_count = 0
    return lines


# ---------------------------------------------------------------- execution
def run_impl(histories, tag, timeout=900):
    inp = os.path.join(V.WORK, "c05_%s.in" % tag)
    outp = os.path.join(V.WORK, "c05_%s.impl" % tag)
    with open(inp, "w") as f:
        for h in histories:
            f.write("\n".join(h) + "\n")
    if os.path.exists(outp):
        os.remove(outp)
    rc, out = V.go_test("proxy", ["zz_verif_ring_test.go"], "^TestVerifRing$",
                        env={"VERIF_IN": inp, "VERIF_OUT": outp}, timeout=timeout)
    lines = open(outp).read().split("\n") if os.path.exists(outp) else []
    if lines and lines[-1] == "":
        lines.pop()
    return rc, out, inp, lines


def run_model(exe, mode, inp, timeout=900):
    rc, out = V.run([exe, mode], timeout=timeout, input=open(inp).read())
    lines = out.split("\n")
    if lines and lines[-1] == "":
        lines.pop()
    return rc, lines


def split_outputs(histories, lines):
    res, i = [], 0
    for h in histories:
        res.append(lines[i:i + len(h)])
        i += len(h)
    return res


def compare(histories, tag, exe, modes=("model-fixed", "spec")):
    """Returns (build_error|None, {mode: [indices of differing histories]}, impl_outputs)."""
    rc, out, inp, impl = run_impl(histories, tag)
    if rc != 0:
        return "go test failed:\n" + out[-3000:], {}, []
    impl_h = split_outputs(histories, impl)
    res = {}
    for mode in modes:
        rc, ml = run_model(exe, mode, inp)
        if rc != 0:
            return "model driver failed (%s): %s" % (mode, "\n".join(ml[-20:])), {}, []
        mh = split_outputs(histories, ml)
        res[mode] = [i for i in range(len(histories)) if impl_h[i] != mh[i]]
        res[mode + "_out"] = mh
    return None, res, impl_h


def shrink(history, exe, mode):
    """Delta-debug a failing history (impl differs from `mode`); candidates of one round run in
    one go test invocation."""
    cur = history
    for _ in range(12):
        cands = []
        # chunks then single ops (keep the N line)
        n = len(cur) - 1
        sizes = sorted({max(1, n // 2), max(1, n // 4), 1}, reverse=True)
        for sz in sizes:
            for i in range(1, len(cur), sz):
                c = cur[:i] + cur[i + sz:]
                if len(c) > 1:
                    cands.append(c)
        cands = cands[:400]
        if not cands:
            break
        err, res, _ = compare(cands, "shrink", exe, modes=(mode,))
        if err or not res[mode]:
            break
        best = min((cands[i] for i in res[mode]), key=len)
        if len(best) >= len(cur):
            break
        cur = best
    return cur


def nontrivial(hist, outs):
    """non-trivial: the history has an append, an aggregation covering >= 1 entry and a discard"""
    has_a = any(l.startswith("A ") for l in hist)
    has_d = any(l.startswith("D ") for l in hist)
    has_g = any(o.startswith("G ") and o.split()[1] not in ("0", "PANIC", "DEAD") for o in outs)
    return has_a and has_d and has_g


def signature(hist):
    """F12 signature: a gapped append that fills the buffer (kept for the fixed entry only)."""
    return "gap-append-overwrite"


# ---------------------------------------------------------------- entry points
def check(tier, seed):
    ck = V.Check(PROP, tier, seed)
    ck.trusted = V.std_trusted() + [
        "modelled not verified: Go int64/int arithmetic is unbounded Z in the model (domain |id| < 2^62, histories never approach it)",
    ]
    ck.assumptions = ["proxy ids and counts stay far from the int64 range ends"]
    proof_ok = V.coq_stage(ck, PROP, TARGETS)
    ok, log, exe = V.ocaml_build("ring_driver", "ExtractRing.v", "ring_model.ml", "ring_driver.ml")
    ck.obligation("extraction + driver build", ok, log[-2000:])
    if not ok:
        ck.violation({"kind": "build", "log": log[-4000:], "broken": "extraction of Ring/Model.v"},
                     "model driver does not build", no_input=True)
        return ck.finish(rule="n/a")

    rng = V.Rng(seed)
    corpus = load_corpus()
    maxlen = 4 if tier == "quick" else 6
    nrand, nops = (200, 1000) if tier == "quick" else (20000, 1000)
    batches = [("corpus", corpus), ("exhaustive<=%d" % maxlen, exhaustive(maxlen))]
    per = 2000
    rh = [random_history(rng, nops if i % 4 else rng.range(5, 60)) for i in range(nrand)]
    for i in range(0, len(rh), per):
        batches.append(("random[%d:%d]" % (i, i + per), rh[i:i + per]))

    evaluations, distinct, dist = 0, set(), {"A": 0, "G": 0, "D": 0, "N": 0}
    corr_broken, monitor_hits = None, []
    for name, hs in batches:
        if not hs:
            continue
        err, res, impl_h = compare(hs, "main", exe)
        if err:
            ck.obligation("correspondence run " + name, False, err)
            ck.violation({"kind": "harness", "log": err, "broken": "correspondence harness for proxyIDRingBuffer"},
                         "harness failed on current tree: " + err[:200], no_input=True)
            return ck.finish(rule="n/a")
        evaluations += len(hs)
        for i, h in enumerate(hs):
            for l in h:
                dist[l[0]] = dist.get(l[0], 0) + 1
            if nontrivial(h, impl_h[i]):
                distinct.add(hashlib.sha256("\n".join(h).encode()).hexdigest())
        if len(ck.samples) < 3 and hs:
            k = min(len(hs) - 1, 7)
            ck.samples.append({"batch": name, "ops": hs[k][:12], "impl": impl_h[k][:12]})
        if res["spec"]:
            monitor_hits.append((name, hs[res["spec"][0]]))
        if res["model-fixed"] and corr_broken is None:
            corr_broken = (name, hs[res["model-fixed"][0]])
        ck.log("%s: %d histories, impl!=model %d, impl!=spec %d" % (name, len(hs), len(res["model-fixed"]), len(res["spec"])))
        if monitor_hits:
            break

    ck.cov.update({"evaluations": evaluations, "distinct_nontrivial": len(distinct),
                   "traces_validated_against_impl": evaluations,
                   "input_distribution": dist, "exhaustive_small_scope": "capacities 1-3, <= %d ops over %s" % (maxlen, ALPHA)})
    ck.obligation("correspondence impl = extracted concrete model on all histories", corr_broken is None,
                  "" if corr_broken is None else "first differing history in " + corr_broken[0])
    ck.obligation("monitor: impl = abstract list specification on all histories", not monitor_hits,
                  "" if not monitor_hits else monitor_hits[0][0])

    if monitor_hits:
        h = shrink(monitor_hits[0][1], exe, "spec")
        err, res, impl_h = compare([h], "replay", exe)
        data = {"kind": "history", "ops": h, "impl": impl_h[0] if impl_h else [],
                "spec": res.get("spec_out", [[]])[0], "model": res.get("model-fixed_out", [[]])[0],
                "verdict": "implementation output differs from the list specification (C05_refines / C05_aggregate_exact)"}
        ck.violation(data, "ring buffer disagrees with the list specification on a %d-op history" % (len(h) - 1))
    elif corr_broken is not None or not proof_ok:
        # search found nothing against the spec: correspondence / proof broken only
        what = []
        if not proof_ok:
            what.append("theorems of coq/properties/C05.v no longer check")
        data = {"kind": "unproved", "broken": what, "search": "corpus + exhaustive + %d random histories under the list-spec monitor: no failing input" % nrand}
        if corr_broken is not None:
            h = shrink(corr_broken[1], exe, "model-fixed")
            data["broken"].append("correspondence Ring.Model.step true <-> proxyIDRingBuffer")
            data["ops"] = h
        ck.violation(data, "; ".join(data["broken"]), no_input=True)
    return ck.finish(rule="histories generated from VERIF_SEED (splitmix64): exhaustive small scope + random 1000-op histories incl. gapped / non-increasing ids, hole shards, out-of-range watermarks and counts; non-trivial = contains an append, an aggregation covering >=1 entry and a discard; distinct by sha256 of the op list")


def load_corpus():
    d = os.path.join(V.ROOT, "corpus", PROP)
    hs = []
    if os.path.isdir(d):
        for f in sorted(os.listdir(d)):
            lines = [l.strip() for l in open(os.path.join(d, f)) if l.strip() and not l.startswith("#")]
            if lines:
                hs.append(lines)
    return hs


def replay(data):
    ok, log, exe = V.ocaml_build("ring_driver", "ExtractRing.v", "ring_model.ml", "ring_driver.ml")
    if "ops" not in data:
        print("nothing to execute: " + "; ".join(data.get("broken", [])))
        return 1
    err, res, impl_h = compare([data["ops"]], "replay", exe)
    if err:
        print(err)
        return 1
    print("ops | impl | spec")
    for o, a, b in zip(data["ops"], impl_h[0], res["spec_out"][0]):
        print("%-22s | %-40s | %-40s %s" % (o, a, b, "" if a == b else "<-- differs"))
    bad = bool(res["spec"])
    print("REPRODUCED" if bad else "not reproduced on the current tree")
    return 1 if bad else 0


MANIFEST = {
    "technique": "Coq refinement proof (circular buffer -> list) + differential correspondence via extracted OCaml",
    "text": "Theorems C05_refines / C05_aggregate_exact / C05_order (coq/properties/C05.v) prove, for every operation history, "
            "every capacity and every watermark, that the executable model of proxyIDRingBuffer behaves as a plain list of outstanding "
            "entries and that aggregation returns exactly the per-shard maximum over entries with proxy id <= w. The model is tied to the "
            "code on every run by running the real proxyIDRingBuffer (white-box, compiled from /repo's working tree) and the extracted "
            "model on the same histories (exhaustive small scope + random) and comparing every aggregation result, count and ordered snapshot; "
            "the abstract list specification is also applied directly to the implementation's outputs as a monitor.",
    "note": "Composition: C05_routing_* prove that the id table of the routing model (C01-C04) is this abstract ring, so those theorems speak about the refined circular buffer. Trusted: Coq kernel/vm_compute, extraction (ExtrOcamlBasic), the Go overlay harness and diffing. Modelled not verified: Go int64 arithmetic "
            "is unbounded Z (ids stay far below 2^62); maxSize (debug only) is not modelled.",
}
